#!/bin/sh
# tools/confirm_round4.sh <id>   (id like C01e): as confirm_round2.sh, with the round-5 demo commands
ID=$1
export GOFLAGS=-mod=mod GOPROXY=off
O=/tmp/seed-out/$ID
W=/tmp/confirm/$ID
P=$O/patch.diff; [ -f $O/patch.rebased.diff ] && P=$O/patch.rebased.diff
rm -rf $W; git -C /repo worktree prune; git -C /repo worktree add -q --detach $W HEAD || exit 2
cptest() { f=$1; d=$2; shift 2; cp $O/demo/$f $W/$d/ && (cd $W && go test -vet=off -count=1 "$@" ./$d/); r=$?; rm -f $W/$d/$(basename $f); return $r; }
demo() {
  case $ID in
    C05e|C09e|C10e|C17e) (cd $O/demo && bash ./run.sh $W) ;;
    C01e|C02e|C03e|C04e|C06e|C07e|C15e|C16e|C19e) (cd $O/demo && sh ./run.sh $W) ;;
    C08e) (cd $O/demo && GOVALID_CHECKOUT=$W go test -count=1 ./...) ;;
    C14e) (cd $O/demo && go run . $W) ;;
    C11e) cptest c11e_demo_test.go validation/validationhelper -run TestC11e ;;
    C12e) cptest c12e_demo_test.go validation/validationhelper -run TestC12eSeparatorMustFollowSchemeColon ;;
    C13e) cptest uuid_c13e_demo_test.go validation/validationhelper -run TestC13eLongInputsRejected ;;
    C18e) cptest migrate_eof_demo_test.go cmd/govalid -run TestMigrateRewritesUnterminatedLastMarkerLine ;;
    C20e) cptest c20e_demo_test.go validation/middleware -tags test -run TestC20eDemo ;;
  esac
}
cd $W && git apply $P || { echo "$ID APPLY-FAILED" | tee $O/confirm.txt; git -C /repo worktree remove --force $W; exit 2; }
( go build ./... && go test -vet=off -count=1 ./... ) > $O/confirm-root.log 2>&1; r1=$?
( cd test && go build ./... && go test -vet=off -count=1 ./... ) > $O/confirm-test.log 2>&1; r2=$?
demo > $O/demo-patched.log 2>&1; d1=$?
cd $W && git apply -R $P
demo > $O/demo-clean.log 2>&1; d2=$?
echo "$ID suite root=$r1 test=$r2 demo_patched_exit=$d1 demo_clean_exit=$d2" | tee $O/confirm.txt
cd /; git -C /repo worktree remove --force $W
