#!/usr/bin/env python3
"""tools/assemble_design.py <try_all log>: DESIGN.md = DESIGN.body.md with the reusable sections and the seed table filled in"""
import subprocess, sys
body = open('/verif/DESIGN.body.md').read()
sec1 = open('/verif/tools/design_parts/sec1.md').read()
appC = open('/verif/tools/design_parts/appC.md').read().replace("## Appendix C", "## Appendix B")
appD = open('/verif/tools/design_parts/appD.md').read().replace("## Appendix D", "## Appendix C")
table = subprocess.run(['python3', '/verif/tools/seed_table.py', sys.argv[1]], stdout=subprocess.PIPE, text=True).stdout
out = body.replace('@@SEC1@@', sec1).replace('@@APPC@@', appC).replace('@@APPD@@', appD).replace('@@SEEDTABLE@@', table)
open('/verif/DESIGN.md', 'w').write(out)
print(len(out.split('\n')), 'lines')
