#!/bin/sh
# run every round-2 seed against its property's quick check
for i in 01 02 03 04 05 06 07 08 09 10 11 12 13 14 15 16 17 18 19 20; do
  id=C${i}b; prop=C$i
  p=/verif/seeded/$id/patch.diff; [ -f /verif/seeded/$id/patch.rebased.diff ] && p=/verif/seeded/$id/patch.rebased.diff
  out=$(/verif/tools/try_seed.sh $p $prop ${1:-quick} 2>&1 | grep -v KNOWN-FINDING | tail -3 | tr '\n' ' ')
  echo "$id: $out"
done
