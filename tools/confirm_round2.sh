#!/bin/sh
# tools/confirm_round2.sh <id>   (id like C01b): fresh worktree of /repo HEAD, apply the patch, run the full suite,
# run the demo with the patch (must fail) and after reverting (must pass). Writes /tmp/seed-out/<id>/{confirm.txt,demo-patched.log,demo-clean.log}
ID=$1
export GOFLAGS=-mod=mod GOPROXY=off
O=/tmp/seed-out/$ID
W=/tmp/confirm/$ID
P=$O/patch.diff; [ -f $O/patch.rebased.diff ] && P=$O/patch.rebased.diff
rm -rf $W; git -C /repo worktree prune; git -C /repo worktree add -q --detach $W HEAD || exit 2
demo() {
  case $ID in
    C01b|C02b|C03b|C05b|C06b|C07b|C09b|C10b|C15b|C16b|C20b) sh $O/demo/run.sh $W ;;
    C04b|C14b) (cd $O/demo && GOVALID_CHECKOUT=$W go test -count=1 ./...) ;;
    C08b) (cd $O/demo && go run . $W) ;;
    C11b) cp $O/demo/c11b_lastlabel_test.go $W/validation/validationhelper/ && (cd $W && go test -vet=off -count=1 -run TestC11bLastLabelLength ./validation/validationhelper/); r=$?; rm -f $W/validation/validationhelper/c11b_lastlabel_test.go; return $r ;;
    C12b) cp $O/demo/c12b_demo_test.go $W/validation/validationhelper/ && (cd $W && go test -vet=off -count=1 -run TestC12bForbiddenByteRightAfterColon ./validation/validationhelper/); r=$?; rm -f $W/validation/validationhelper/c12b_demo_test.go; return $r ;;
    C13b) cp $O/demo/uuid_c13b_demo_test.go $W/validation/validationhelper/ && (cd $W && go test -vet=off -count=1 -run C13bDemo ./validation/validationhelper/); r=$?; rm -f $W/validation/validationhelper/uuid_c13b_demo_test.go; return $r ;;
    C17b) cp $O/demo/url_schemes_nopanic_test.go $W/validation/validationhelper/zz_c17b_demo_test.go && (cd $W && go test -vet=off -count=1 -run TestC17bURLSchemesNeverPanic ./validation/validationhelper/); r=$?; rm -f $W/validation/validationhelper/zz_c17b_demo_test.go; return $r ;;
    C18b) cp $O/demo/c18b_demo_test.go $W/cmd/govalid/ && (cd $W && go test -vet=off -count=1 -run TestC18b ./cmd/govalid/); r=$?; rm -f $W/cmd/govalid/c18b_demo_test.go; return $r ;;
    C19b) cp $O/demo/c19b_alloc_demo_test.go $W/test/ && (cd $W/test && go test -vet=off -count=1 -run TestC19bValidEmailZeroAllocs .); r=$?; rm -f $W/test/c19b_alloc_demo_test.go; return $r ;;
  esac
}
cd $W && git apply $P || { echo "$ID APPLY-FAILED" | tee $O/confirm.txt; git -C /repo worktree remove --force $W; exit 2; }
( go build ./... && go test -vet=off -count=1 ./... ) > $O/confirm-root.log 2>&1; r1=$?
( cd test && go build ./... && go test -vet=off -count=1 ./... ) > $O/confirm-test.log 2>&1; r2=$?
demo > $O/demo-patched.log 2>&1; d1=$?
cd $W && git apply -R $P
demo > $O/demo-clean.log 2>&1; d2=$?
echo "$ID suite root=$r1 test=$r2 demo_patched_exit=$d1 demo_clean_exit=$d2" | tee $O/confirm.txt
cd /; git -C /repo worktree remove --force $W
