#!/bin/sh
# tools/try_all.sh [tier]: every archived seeded change against the quick (or given) check of its property.
for d in /verif/seeded/C*; do
  id=$(basename $d); prop=$(echo $id | cut -c1-3)
  p=$d/patch.diff; [ -f $d/patch.rebased.diff ] && p=$d/patch.rebased.diff
  out=$(/verif/tools/try_seed.sh $p $prop ${1:-quick} 2>&1 | grep -v KNOWN-FINDING | tail -2 | tr '\n' ' ')
  echo "$id: $out"
done
