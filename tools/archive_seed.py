#!/usr/bin/env python3
"""archive_seed.py <id> [<name>] : copy a confirmed seeded change from /tmp/seed-out/<id> into /verif/seeded/<name>/"""
import json, os, shutil, sys
sid = sys.argv[1]
name = sys.argv[2] if len(sys.argv) > 2 else sid
src = "/tmp/seed-out/" + sid
dst = "/verif/seeded/" + name
os.makedirs(dst, exist_ok=True)
shutil.copy(src + "/patch.diff", dst + "/patch.diff")
if os.path.isdir(dst + "/demo"):
    shutil.rmtree(dst + "/demo")
shutil.copytree(src + "/demo", dst + "/demo")
meta = json.load(open(src + "/meta.json"))
def rd(f):
    p = os.path.join(src, f)
    return open(p).read()[-600:] if os.path.exists(p) else None
meta["confirmed_by_me"] = {
    "suite": open(src + "/confirm.txt").read().strip() if os.path.exists(src + "/confirm.txt") else None,
    "how": "fresh scratch worktree of /repo HEAD under /tmp/confirm/<id>; git apply patch.diff; `go build ./... && go test -vet=off -count=1 ./...` in root and ./test (GOFLAGS=-mod=mod GOPROXY=off); then the demo with the patch (must fail) and after `git apply -R` (must pass)",
    "demo_patched_tail": rd("demo-patched.log"),
    "demo_clean_tail": rd("demo-clean.log"),
}
json.dump(meta, open(dst + "/meta.json", "w"), indent=1)
print("archived", dst)
