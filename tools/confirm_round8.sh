#!/bin/sh
# tools/confirm_round4.sh <id>   (id like C01h): as confirm_round2.sh, with the round-8 demo commands
ID=$1
export GOFLAGS=-mod=mod GOPROXY=off
O=/tmp/seed-out/$ID
W=/tmp/confirm/$ID
P=$O/patch.diff; [ -f $O/patch.rebased.diff ] && P=$O/patch.rebased.diff
rm -rf $W; git -C /repo worktree prune; git -C /repo worktree add -q --detach $W HEAD || exit 2
cptest() { f=$1; d=$2; shift 2; cp $O/demo/$f $W/$d/ && (cd $W && go test -vet=off -count=1 "$@" ./$d/); r=$?; rm -f $W/$d/$(basename $f); return $r; }
demo() {
  case $ID in
    C16h) (cd $O/demo && bash ./run.sh $W) ;;
    C02h|C03h|C04h|C05h|C06h|C10h|C15h) (cd $O/demo && sh ./run.sh $W) ;;
    C01h|C08h|C14h) (cd $O/demo && go run . $W) ;;
    C09h) (cd $O/demo && GOVALID_CHECKOUT=$W go test -count=1 ./...) ;;
    C07h) cp $O/demo/alpha_fold_demo_test.go $W/test/unit/ && (cd $W/test && go test -vet=off -count=1 -run TestAlphaFoldDemo ./unit/); r=$?; rm -f $W/test/unit/alpha_fold_demo_test.go; return $r ;;
    C19h) cp $O/demo/c19h_numeric_alloc_test.go $W/test/unit/ && (cd $W/test && go test -vet=off -count=1 -run TestC19hNumericValidValuesDoNotAllocate ./unit/); r=$?; rm -f $W/test/unit/c19h_numeric_alloc_test.go; return $r ;;
    C17h) cp $O/demo/c17h_uuid_fold_test.go $W/test/ && (cd $W/test && go test -vet=off -count=1 -run TestC17h .); r=$?; rm -f $W/test/c17h_uuid_fold_test.go; return $r ;;
    C11h) cptest c11h_demo_test.go validation/validationhelper -run TestC11hUppercaseAAfterAt ;;
    C12h) cptest c12h_demo_test.go validation/validationhelper -run TestURLVerdict ;;
    C13h) cptest uuid_c13h_demo_test.go validation/validationhelper -run TestC13h ;;
    C18h) cptest migrate_validatorname_demo_test.go cmd/govalid -run TestDemoC18h ;;
    C20h) rm -rf /tmp/confirm/C20h-demo; cp -r $O/demo/eventdemo /tmp/confirm/C20h-demo && (cd /tmp/confirm/C20h-demo && go mod edit -replace github.com/sivchari/govalid=$W && go test -count=1 ./...); r=$?; rm -rf /tmp/confirm/C20h-demo; return $r ;;
  esac
}
cd $W && git apply $P || { echo "$ID APPLY-FAILED" | tee $O/confirm.txt; git -C /repo worktree remove --force $W; exit 2; }
( go build ./... && go test -vet=off -count=1 ./... ) > $O/confirm-root.log 2>&1; r1=$?
( cd test && go build ./... && go test -vet=off -count=1 ./... ) > $O/confirm-test.log 2>&1; r2=$?
demo > $O/demo-patched.log 2>&1; d1=$?
cd $W && git apply -R $P
demo > $O/demo-clean.log 2>&1; d2=$?
echo "$ID suite root=$r1 test=$r2 demo_patched_exit=$d1 demo_clean_exit=$d2" | tee $O/confirm.txt
cd /; git -C /repo worktree remove --force $W
