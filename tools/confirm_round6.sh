#!/bin/sh
# tools/confirm_round4.sh <id>   (id like C01f): as confirm_round2.sh, with the round-6 demo commands
ID=$1
export GOFLAGS=-mod=mod GOPROXY=off
O=/tmp/seed-out/$ID
W=/tmp/confirm/$ID
P=$O/patch.diff; [ -f $O/patch.rebased.diff ] && P=$O/patch.rebased.diff
rm -rf $W; git -C /repo worktree prune; git -C /repo worktree add -q --detach $W HEAD || exit 2
cptest() { f=$1; d=$2; shift 2; cp $O/demo/$f $W/$d/ && (cd $W && go test -vet=off -count=1 "$@" ./$d/); r=$?; rm -f $W/$d/$(basename $f); return $r; }
demo() {
  case $ID in
    C04f|C06f|C10f) (cd $O/demo && bash ./run.sh $W) ;;
    C01f|C02f|C03f|C05f|C07f|C15f|C17f) (cd $O/demo && sh ./run.sh $W) ;;
    C08f) (cd $O/demo && go run . $W) ;;
    C09f|C14f) (cd $O/demo && GOVALID_CHECKOUT=$W go test -count=1 ./...) ;;
    C11f) cptest email_longlocal_demo_test.go validation/validationhelper -run TestEmailLocalDotRulesAtMaxLocalLength ;;
    C12f) cptest c12f_demo_test.go validation/validationhelper -run TestC12f ;;
    C13f) cptest uuid_separator_pairs_demo_test.go validation/validationhelper -run TestDemoUUIDSeparatorPairs ;;
    C16f) cptest cel_c16f_demo_test.go validation/validationhelper -race -run TestC16fConcurrentIsValidCELManyExpressions ;;
    C18f) cptest migrate_c18f_test.go cmd/govalid -run TestC18fMigrateRewritesOnlyMarkerLines ;;
    C19f) cp $O/demo/c19f_alloc_demo_test.go $W/test/ && (cd $W/test && go test -vet=off -count=1 -run TestC19fURLZeroAllocsAcrossDifferentValidValues .); r=$?; rm -f $W/test/c19f_alloc_demo_test.go; return $r ;;
    C20f) rm -rf /tmp/confirm/C20f-demo; cp -r $O/demo /tmp/confirm/C20f-demo && (cd /tmp/confirm/C20f-demo && go mod edit -replace github.com/sivchari/govalid=$W && cp $W/go.sum . 2>/dev/null; go test -count=1 ./...); r=$?; rm -rf /tmp/confirm/C20f-demo; return $r ;;
  esac
}
cd $W && git apply $P || { echo "$ID APPLY-FAILED" | tee $O/confirm.txt; git -C /repo worktree remove --force $W; exit 2; }
( go build ./... && go test -vet=off -count=1 ./... ) > $O/confirm-root.log 2>&1; r1=$?
( cd test && go build ./... && go test -vet=off -count=1 ./... ) > $O/confirm-test.log 2>&1; r2=$?
demo > $O/demo-patched.log 2>&1; d1=$?
cd $W && git apply -R $P
demo > $O/demo-clean.log 2>&1; d2=$?
echo "$ID suite root=$r1 test=$r2 demo_patched_exit=$d1 demo_clean_exit=$d2" | tee $O/confirm.txt
cd /; git -C /repo worktree remove --force $W
