#!/bin/sh
# tools/confirm_round9.sh <id>   (id like C20i): round-9 demos all come as demo/run.sh <checkout>
ID=$1
export GOFLAGS=-mod=mod GOPROXY=off
O=/tmp/seed-out/$ID
W=/tmp/confirm/$ID
P=$O/patch.diff; [ -f $O/patch.rebased.diff ] && P=$O/patch.rebased.diff
rm -rf $W; git -C /repo worktree prune; git -C /repo worktree add -q --detach $W HEAD || exit 2
demo() { (cd $O/demo && sh ./run.sh $W); }
cd $W && git apply $P || { echo "$ID APPLY-FAILED" | tee $O/confirm.txt; git -C /repo worktree remove --force $W; exit 2; }
( go build ./... && go test -vet=off -count=1 ./... ) > $O/confirm-root.log 2>&1; r1=$?
( cd test && go build ./... && go test -vet=off -count=1 ./... ) > $O/confirm-test.log 2>&1; r2=$?
demo > $O/demo-patched.log 2>&1; d1=$?
cd $W && git apply -R $P
demo > $O/demo-clean.log 2>&1; d2=$?
st=$(cd $W && git status --porcelain | wc -l)
echo "$ID suite root=$r1 test=$r2 demo_patched_exit=$d1 demo_clean_exit=$d2 checkout_dirty_after=$st" | tee $O/confirm.txt
cd /; git -C /repo worktree remove --force $W
