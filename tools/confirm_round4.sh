#!/bin/sh
# tools/confirm_round4.sh <id>   (id like C01d): as confirm_round2.sh, with the round-4 demo commands
ID=$1
export GOFLAGS=-mod=mod GOPROXY=off
O=/tmp/seed-out/$ID
W=/tmp/confirm/$ID
P=$O/patch.diff; [ -f $O/patch.rebased.diff ] && P=$O/patch.rebased.diff
rm -rf $W; git -C /repo worktree prune; git -C /repo worktree add -q --detach $W HEAD || exit 2
cptest() { f=$1; d=$2; shift 2; cp $O/demo/$f $W/$d/ && (cd $W && go test -vet=off -count=1 "$@" ./$d/); r=$?; rm -f $W/$d/$(basename $f); return $r; }
demo() {
  case $ID in
    C09d) (cd $O/demo && bash ./run.sh $W) ;;
    C01d|C02d|C03d|C04d|C05d|C06d|C07d|C10d|C15d|C16d|C17d|C19d) (cd $O/demo && sh ./run.sh $W) ;;
    C14d) (cd $O/demo && GOVALID_CHECKOUT=$W go test -count=1 ./...) ;;
    C08d|C18d) (cd $O/demo && go run . $W) ;;
    C11d) cptest c11d_label_hyphen_len_test.go validation/validationhelper -run TestC11dLabelLimitCountsHyphens ;;
    C12d) cptest c12d_demo_test.go validation/validationhelper -run TestC12dMinimalURLsAccepted ;;
    C13d) cptest c13d_demo_test.go validation/validationhelper -run TestC13dMultiByteRuneAtHexPosition ;;
    C20d) cp -r $O/demo/c20ddemo $W/validation/middleware/c20ddemo && (cd $W && go test -vet=off -count=1 ./validation/middleware/c20ddemo/); r=$?; rm -rf $W/validation/middleware/c20ddemo; return $r ;;
  esac
}
cd $W && git apply $P || { echo "$ID APPLY-FAILED" | tee $O/confirm.txt; git -C /repo worktree remove --force $W; exit 2; }
( go build ./... && go test -vet=off -count=1 ./... ) > $O/confirm-root.log 2>&1; r1=$?
( cd test && go build ./... && go test -vet=off -count=1 ./... ) > $O/confirm-test.log 2>&1; r2=$?
demo > $O/demo-patched.log 2>&1; d1=$?
cd $W && git apply -R $P
demo > $O/demo-clean.log 2>&1; d2=$?
echo "$ID suite root=$r1 test=$r2 demo_patched_exit=$d1 demo_clean_exit=$d2" | tee $O/confirm.txt
cd /; git -C /repo worktree remove --force $W
