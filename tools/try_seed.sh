#!/bin/sh
# tools/try_seed.sh <patch.diff> <property> [tier] — apply a seeded change to /repo, run the check, undo it.
set -u
PATCH=$1; PID=$2; TIER=${3:-quick}
cd /repo || exit 2
if [ -n "$(git status --porcelain)" ]; then echo "/repo not clean"; exit 2; fi
git apply "$PATCH" || { echo "patch does not apply"; exit 2; }
cd /verif && ./check "$PID" "$TIER"; rc=$?
cd /repo && git checkout -- . && git clean -fdq
# the evidence file was just rewritten by a run on a SEEDED tree: put the committed one back (evidence is only ever committed from clean-tree runs)
git -C /verif checkout -- "evidence/$PID.json" 2>/dev/null
echo "check exit=$rc"
exit 0
