#!/bin/sh
# tools/confirm_round3.sh <id>   (id like C01c): as confirm_round2.sh, with the round-3 demo commands
ID=$1
export GOFLAGS=-mod=mod GOPROXY=off
O=/tmp/seed-out/$ID
W=/tmp/confirm/$ID
P=$O/patch.diff; [ -f $O/patch.rebased.diff ] && P=$O/patch.rebased.diff
rm -rf $W; git -C /repo worktree prune; git -C /repo worktree add -q --detach $W HEAD || exit 2
cptest() { # cptest <file> <pkgdir> <go test args…>
  f=$1; d=$2; shift 2
  cp $O/demo/$f $W/$d/ && (cd $W && go test -vet=off -count=1 "$@" ./$d/); r=$?; rm -f $W/$d/$(basename $f); return $r
}
demo() {
  case $ID in
    C01c|C02c|C03c|C04c|C05c|C06c|C07c|C09c|C10c|C15c|C16c|C17c|C19c) sh $O/demo/run.sh $W ;;
    C08c|C14c) (cd $O/demo && GOVALID_CHECKOUT=$W go test -count=1 ./...) ;;
    C18c) (cd $O/demo && go run . $W) ;;
    C11c) cptest c11c_demo_test.go validation/validationhelper -run TestC11cLocalPartByteAfterDot ;;
    C12c) cptest url_c12c_demo_test.go validation/validationhelper -run TestC12cSchemeSetIsExact ;;
    C13c) cptest c13c_demo_test.go validation/validationhelper -run TestC13cDemo ;;
    C20c) cptest c20c_demo_test.go validation/middleware -tags test -run TestC20cDemo ;;
  esac
}
cd $W && git apply $P || { echo "$ID APPLY-FAILED" | tee $O/confirm.txt; git -C /repo worktree remove --force $W; exit 2; }
( go build ./... && go test -vet=off -count=1 ./... ) > $O/confirm-root.log 2>&1; r1=$?
( cd test && go build ./... && go test -vet=off -count=1 ./... ) > $O/confirm-test.log 2>&1; r2=$?
demo > $O/demo-patched.log 2>&1; d1=$?
cd $W && git apply -R $P
demo > $O/demo-clean.log 2>&1; d2=$?
echo "$ID suite root=$r1 test=$r2 demo_patched_exit=$d1 demo_clean_exit=$d2" | tee $O/confirm.txt
cd /; git -C /repo worktree remove --force $W
