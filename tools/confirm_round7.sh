#!/bin/sh
# tools/confirm_round4.sh <id>   (id like C01g): as confirm_round2.sh, with the round-7 demo commands
ID=$1
export GOFLAGS=-mod=mod GOPROXY=off
O=/tmp/seed-out/$ID
W=/tmp/confirm/$ID
P=$O/patch.diff; [ -f $O/patch.rebased.diff ] && P=$O/patch.rebased.diff
rm -rf $W; git -C /repo worktree prune; git -C /repo worktree add -q --detach $W HEAD || exit 2
cptest() { f=$1; d=$2; shift 2; cp $O/demo/$f $W/$d/ && (cd $W && go test -vet=off -count=1 "$@" ./$d/); r=$?; rm -f $W/$d/$(basename $f); return $r; }
demo() {
  case $ID in
    C05g|C15g|C19g) (cd $O/demo && bash ./run.sh $W) ;;
    C01g|C02g|C03g|C04g|C06g|C07g|C09g|C10g|C17g) (cd $O/demo && sh ./run.sh $W) ;;
    C08g) (cd $O/demo && GOVALID_CHECKOUT=$W go test -count=1 ./...) ;;
    C14g) (cd $O/demo && go run . $W) ;;
    C18g) (cd $O/demo && go run . $W) ;;
    C11g) cptest email_c11g_demo_test.go validation/validationhelper -run C11g ;;
    C12g) cptest c12g_demo_test.go validation/validationhelper -run TestC12gNoPanicOnNonASCIISchemeBytes ;;
    C13g) cptest uuid_concurrent_demo_test.go validation/validationhelper -run TestUUIDVerdictUnderConcurrentCallers ;;
    C16g) cptest c16g_demo_test.go validation/validationhelper -race -run TestC16gColdStartConcurrentCEL ;;
    C20g) rm -rf /tmp/confirm/C20g-demo; cp -r $O/demo /tmp/confirm/C20g-demo && (cd /tmp/confirm/C20g-demo && go mod edit -replace github.com/sivchari/govalid=$W && go test -count=1 ./...); r=$?; rm -rf /tmp/confirm/C20g-demo; return $r ;;
  esac
}
cd $W && git apply $P || { echo "$ID APPLY-FAILED" | tee $O/confirm.txt; git -C /repo worktree remove --force $W; exit 2; }
( go build ./... && go test -vet=off -count=1 ./... ) > $O/confirm-root.log 2>&1; r1=$?
( cd test && go build ./... && go test -vet=off -count=1 ./... ) > $O/confirm-test.log 2>&1; r2=$?
demo > $O/demo-patched.log 2>&1; d1=$?
cd $W && git apply -R $P
demo > $O/demo-clean.log 2>&1; d2=$?
echo "$ID suite root=$r1 test=$r2 demo_patched_exit=$d1 demo_clean_exit=$d2" | tee $O/confirm.txt
cd /; git -C /repo worktree remove --force $W
