#!/usr/bin/env python3
"""tools/seed_table.py <try_all log> : markdown table "which check catches which seeded change" for DESIGN.md §7"""
import json, os, re, sys
log = {}
for l in open(sys.argv[1]):
    m = re.match(r"(C\d\d b?)\s*:", l.replace("b:", "b :")) if False else re.match(r"(C\d\d[a-z]?): (.*)", l)
    if m:
        log[m.group(1)] = m.group(2)
print("| seed | idea of the change (what it needs to manifest) | result of `./check <prop> quick` |")
print("|---|---|---|")
for sid in sorted(x for x in os.listdir("/verif/seeded") if os.path.isdir("/verif/seeded/" + x)):
    meta = json.load(open("/verif/seeded/%s/meta.json" % sid))
    idea = re.sub(r"\s+", " ", meta.get("summary", ""))
    idea = idea[:230] + ("…" if len(idea) > 230 else "")
    r = log.get(sid, "")
    if "no-failing-input-found" in r:
        res = "caught: proof / regenerated facts / tie broken, **no failing input found**"
    elif "VIOLATION" in r:
        k = re.search(r"replays/C\d\d-([a-z-]+)-\d+\.json", r)
        res = "caught with a concrete failing input (%s)" % (k.group(1) if k else "")
    elif "exit=0" in r:
        res = "quiet"
    else:
        res = r
    print("| %s | %s | %s |" % (sid, idea.replace("|", "\\|"), res))
