#!/bin/sh
# tools/confirm_seed.sh <id> : apply /tmp/seed-out/<id>/patch.diff in a fresh scratch worktree, build and run the whole existing suite.
ID=$1
export GOFLAGS=-mod=mod GOPROXY=off
W=/tmp/confirm/$ID
rm -rf $W; git -C /repo worktree prune; git -C /repo worktree add -q --detach $W HEAD || exit 2
cd $W && git apply /tmp/seed-out/$ID/patch.diff || { echo "APPLY-FAILED"; exit 2; }
( go build ./... && go test -vet=off -count=1 ./... ) > /tmp/seed-out/$ID/confirm-root.log 2>&1; r1=$?
( cd test && go build ./... && go test -vet=off -count=1 ./... ) > /tmp/seed-out/$ID/confirm-test.log 2>&1; r2=$?
echo "$ID suite root=$r1 test=$r2" | tee /tmp/seed-out/$ID/confirm.txt
