#!/bin/sh
# tools/run_all.sh [quick|thorough] — run every registered check on the current tree, print a summary
TIER=${1:-quick}
cd /verif
for p in $(python3 -c "import json; print(' '.join(c['property_id'] for c in json.load(open('MANIFEST.json'))['checks']))"); do
  s=$(date +%s); out=$(./check $p $TIER 2>&1); rc=$?; e=$(date +%s)
  echo "$p rc=$rc $((e-s))s $(echo "$out" | grep -c VIOLATION) violations $(echo "$out" | grep -c KNOWN-FINDING) known"
  [ $rc -ne 0 ] && echo "$out" | tail -3
done
