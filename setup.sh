#!/bin/sh
# MANIFEST.setup_cmd — build the framework offline from files on disk.
set -e
cd "$(dirname "$0")"
export GOFLAGS=-mod=mod GOPROXY=off
unset GOTOOLCHAIN GOSUMDB || true
mkdir -p .work/bin evidence replays
sort -u /repo/go.sum $( [ -f /repo/test/go.sum ] && echo /repo/test/go.sum ) > go/go.sum
(cd go && for t in go2lean rulefacts mwfacts isofacts harness; do go build -tags verif -o ../.work/bin/$t ./cmd/$t; done)
(cd /repo && go build -tags verif -o /verif/.work/bin/govalid ./cmd/govalid)
.work/bin/go2lean /repo/validation/validationhelper lean/Gvlean/Generated/Helpers.lean.tmp && \
  { cmp -s lean/Gvlean/Generated/Helpers.lean.tmp lean/Gvlean/Generated/Helpers.lean && rm lean/Gvlean/Generated/Helpers.lean.tmp || mv lean/Gvlean/Generated/Helpers.lean.tmp lean/Gvlean/Generated/Helpers.lean; }
if .work/bin/rulefacts /repo lean/Gvlean/Generated/RuleFacts.lean.tmp; then
  cmp -s lean/Gvlean/Generated/RuleFacts.lean.tmp lean/Gvlean/Generated/RuleFacts.lean && rm lean/Gvlean/Generated/RuleFacts.lean.tmp || mv lean/Gvlean/Generated/RuleFacts.lean.tmp lean/Gvlean/Generated/RuleFacts.lean
fi
if .work/bin/mwfacts /repo lean/Gvlean/Generated/MwFacts.lean.tmp; then
  cmp -s lean/Gvlean/Generated/MwFacts.lean.tmp lean/Gvlean/Generated/MwFacts.lean && rm lean/Gvlean/Generated/MwFacts.lean.tmp || mv lean/Gvlean/Generated/MwFacts.lean.tmp lean/Gvlean/Generated/MwFacts.lean
fi
if .work/bin/isofacts /repo lean/Gvlean/Generated/IsoFacts.lean.tmp; then
  cmp -s lean/Gvlean/Generated/IsoFacts.lean.tmp lean/Gvlean/Generated/IsoFacts.lean && rm lean/Gvlean/Generated/IsoFacts.lean.tmp || mv lean/Gvlean/Generated/IsoFacts.lean.tmp lean/Gvlean/Generated/IsoFacts.lean
fi
(cd lean && lake build)
echo setup-ok
