// rulefacts extracts, from internal/validator/rules/*.go (except cel.go), validatorhelper/zero.go,
// internal/markers/markers_generated.go and registry/initializers/*.go, the facts about what the
// generator emits, and writes them as Lean definitions (Gvlean/Generated/RuleFacts.lean).
// It pattern-matches the shapes that occur and FAILS CLOSED on anything else.
//
// usage: rulefacts <repo root> <out.lean>
package main

import (
	"text/template/parse"
	"crypto/sha256"
	"fmt"
	"go/ast"
	"go/parser"
	"go/token"
	"os"
	"path/filepath"
	"sort"
	"strconv"
	"strings"
)

var errs []string

func fail(fset *token.FileSet, n ast.Node, format string, a ...any) {
	pos := ""
	if fset != nil && n != nil {
		p := fset.Position(n.Pos())
		pos = fmt.Sprintf("%s:%d: ", filepath.Base(p.Filename), p.Line)
	}
	errs = append(errs, pos+fmt.Sprintf(format, a...))
}

func lq(s string) string { return strconv.Quote(s) } // Lean string literal syntax is compatible for our ASCII facts

func leanList(xs []string) string {
	q := make([]string, len(xs))
	for i, x := range xs {
		q[i] = lq(x)
	}
	return "[" + strings.Join(q, ", ") + "]"
}

type rule struct {
	name      string // file base name: gt, required, ...
	factory   string // ValidateGT
	cond      string // Lean term (function of f v) or ""
	guard     string
	needsExpr string // marker const name or ""
	suffix    string
	legacyFmt string
	keyFmt    string
	keyStruct bool
	imports   []string
	recvType  string
	extra     []string // extra Lean defs
}

// ---------------------------------------------------------------- Go expression → Lean GoExpr term

func exprToLean(fset *token.FileSet, e ast.Expr) string {
	switch e := e.(type) {
	case *ast.ParenExpr:
		return "(.paren " + exprToLean(fset, e.X) + ")"
	case *ast.UnaryExpr:
		if e.Op == token.NOT {
			return "(.not " + exprToLean(fset, e.X) + ")"
		}
	case *ast.BinaryExpr:
		return "(.bin " + lq(e.Op.String()) + " " + exprToLean(fset, e.X) + " " + exprToLean(fset, e.Y) + ")"
	case *ast.Ident:
		switch e.Name {
		case "V__":
			return "(.raw v)"
		case "Q__":
			return "(.strlit v)"
		}
		return "(.ident " + lq(e.Name) + ")"
	case *ast.BasicLit:
		return "(.raw " + lq(e.Value) + ")"
	case *ast.SelectorExpr:
		if id, ok := e.X.(*ast.Ident); ok && id.Name == "t" && e.Sel.Name == "F__" {
			return "(.sel f)"
		}
	case *ast.CallExpr:
		if len(e.Args) == 1 {
			switch fn := e.Fun.(type) {
			case *ast.Ident:
				return "(.call " + lq(fn.Name) + " " + exprToLean(fset, e.Args[0]) + ")"
			case *ast.SelectorExpr:
				if pk, ok := fn.X.(*ast.Ident); ok {
					return "(.call " + lq(pk.Name+"."+fn.Sel.Name) + " " + exprToLean(fset, e.Args[0]) + ")"
				}
			}
		}
		if len(e.Args) == 0 {
			if fn, ok := e.Fun.(*ast.SelectorExpr); ok {
				return "(.method " + exprToLean(fset, fn.X) + " " + lq(fn.Sel.Name) + ")"
			}
		}
	}
	fail(nil, nil, "condition contains an unsupported Go expression form %T", e)
	return "(.ident \"?\")"
}

// condFromFormat instantiates a Sprintf format and parses the resulting Go condition.
// verbs: each %s/%q is replaced according to args: "F" (FieldName) → F__, "V" → V__ (or Q__ for %q).
func condFromFormat(format string, args []string) string {
	var sb strings.Builder
	ai := 0
	for i := 0; i < len(format); i++ {
		if format[i] == '%' && i+1 < len(format) {
			verb := format[i+1]
			if verb != 's' && verb != 'q' {
				fail(nil, nil, "format %q: unsupported verb %%%c", format, verb)
				return ""
			}
			if ai >= len(args) {
				fail(nil, nil, "format %q: too few arguments", format)
				return ""
			}
			switch {
			case args[ai] == "F" && verb == 's':
				sb.WriteString("F__")
			case args[ai] == "V" && verb == 's':
				sb.WriteString("V__")
			case args[ai] == "V" && verb == 'q':
				sb.WriteString("Q__")
			default:
				fail(nil, nil, "format %q: unsupported argument/verb combination", format)
			}
			ai++
			i++
			continue
		}
		sb.WriteByte(format[i])
	}
	if ai != len(args) {
		fail(nil, nil, "format %q: too many arguments", format)
	}
	src := sb.String()
	fset := token.NewFileSet()
	if strings.Contains(src, ";") {
		// `init; cond` as used inside `if`
		f, err := parser.ParseFile(fset, "c.go", "package p\nfunc _(){ if "+src+" {} }", 0)
		if err != nil {
			fail(nil, nil, "format %q does not parse as `if init; cond`: %v", format, err)
			return ""
		}
		ifs := f.Decls[0].(*ast.FuncDecl).Body.List[0].(*ast.IfStmt)
		as, ok := ifs.Init.(*ast.AssignStmt)
		if !ok || as.Tok != token.DEFINE || len(as.Lhs) != 1 || len(as.Rhs) != 1 {
			fail(nil, nil, "format %q: init statement shape", format)
			return ""
		}
		return "(.initThen " + lq(as.Lhs[0].(*ast.Ident).Name) + " " + exprToLean(fset, as.Rhs[0]) + " " + exprToLean(fset, ifs.Cond) + ")"
	}
	e, err := parser.ParseExprFrom(fset, "c.go", src, 0)
	if err != nil {
		fail(nil, nil, "format %q does not parse as a Go expression: %v", format, err)
		return ""
	}
	return exprToLean(fset, e)
}

// sprintfCall matches fmt.Sprintf(lit, args...) and classifies args as "F" (field name) or "V" (other).
func sprintfCall(fset *token.FileSet, e ast.Expr, fieldNameVars map[string]bool) (string, []string, bool) {
	c, ok := e.(*ast.CallExpr)
	if !ok {
		return "", nil, false
	}
	sel, ok := c.Fun.(*ast.SelectorExpr)
	if !ok || fmt.Sprint(sel.X) != "fmt" || sel.Sel.Name != "Sprintf" || len(c.Args) < 1 {
		return "", nil, false
	}
	lit, ok := c.Args[0].(*ast.BasicLit)
	if !ok || lit.Kind != token.STRING {
		fail(fset, c, "Sprintf format is not a literal")
		return "", nil, false
	}
	format, _ := strconv.Unquote(lit.Value)
	var args []string
	for _, a := range c.Args[1:] {
		switch a := a.(type) {
		case *ast.CallExpr: // m.FieldName()
			if s, ok := a.Fun.(*ast.SelectorExpr); ok && s.Sel.Name == "FieldName" && len(a.Args) == 0 {
				args = append(args, "F")
				continue
			}
			fail(fset, a, "Sprintf argument: unsupported call")
		case *ast.Ident:
			if fieldNameVars[a.Name] {
				args = append(args, "F")
			} else {
				args = append(args, "V")
			}
		case *ast.SelectorExpr: // m.gtValue
			args = append(args, "V")
		default:
			fail(fset, a, "Sprintf argument form %T", a)
		}
	}
	return format, args, true
}

func methodOf(f *ast.File, name string) *ast.FuncDecl {
	for _, d := range f.Decls {
		if fd, ok := d.(*ast.FuncDecl); ok && fd.Recv != nil && fd.Name.Name == name {
			return fd
		}
	}
	return nil
}

func funcOf(f *ast.File, name string) *ast.FuncDecl {
	for _, d := range f.Decls {
		if fd, ok := d.(*ast.FuncDecl); ok && fd.Recv == nil && fd.Name.Name == name {
			return fd
		}
	}
	return nil
}

func stringLits(n ast.Node) []string {
	var out []string
	ast.Inspect(n, func(n ast.Node) bool {
		if l, ok := n.(*ast.BasicLit); ok && l.Kind == token.STRING {
			s, _ := strconv.Unquote(l.Value)
			out = append(out, s)
		}
		return true
	})
	return out
}

func typeNames(list []ast.Expr) []string {
	var out []string
	for _, e := range list {
		s := fmt.Sprint(e)
		if st, ok := e.(*ast.StarExpr); ok {
			if sel, ok := st.X.(*ast.SelectorExpr); ok {
				s = sel.Sel.Name
			}
		} else if sel, ok := e.(*ast.SelectorExpr); ok {
			s = sel.Sel.Name
		}
		out = append(out, s)
	}
	return out
}

// ---------------------------------------------------------------- per-rule extraction

func extractRule(fset *token.FileSet, path string) *rule {
	f, err := parser.ParseFile(fset, path, nil, 0)
	if err != nil {
		fail(nil, nil, "%v", err)
		return nil
	}
	r := &rule{name: strings.TrimSuffix(filepath.Base(path), ".go")}
	// factory
	for _, d := range f.Decls {
		if fd, ok := d.(*ast.FuncDecl); ok && fd.Recv == nil && strings.HasPrefix(fd.Name.Name, "Validate") &&
			fd.Type.Params != nil && len(fd.Type.Params.List) == 1 && fmt.Sprint(fd.Type.Params.List[0].Type) == "&{registry ValidatorInput}" {
			if r.factory != "" {
				fail(fset, fd, "two factories in one file")
			}
			r.factory = fd.Name.Name
			extractGuard(fset, fd, r)
		}
	}
	if r.factory == "" {
		fail(fset, f, "%s: no factory found", r.name)
		return r
	}
	// Validate()
	v := methodOf(f, "Validate")
	if v == nil {
		fail(fset, f, "%s: no Validate method", r.name)
		return r
	}
	switch r.name {
	case "required":
		extractRequired(fset, f, v, r)
	case "enum":
		extractEnum(fset, v, r)
	default:
		fieldNameVars := map[string]bool{}
		var ret *ast.ReturnStmt
		for _, s := range v.Body.List {
			switch s := s.(type) {
			case *ast.AssignStmt: // fieldName := e.FieldName()
				if len(s.Lhs) == 1 && len(s.Rhs) == 1 {
					if c, ok := s.Rhs[0].(*ast.CallExpr); ok {
						if sel, ok := c.Fun.(*ast.SelectorExpr); ok && sel.Sel.Name == "FieldName" {
							fieldNameVars[fmt.Sprint(s.Lhs[0])] = true
							continue
						}
					}
				}
				fail(fset, s, "%s.Validate: unsupported statement", r.name)
			case *ast.ReturnStmt:
				ret = s
			default:
				fail(fset, s, "%s.Validate: unsupported statement %T", r.name, s)
			}
		}
		if ret == nil || len(ret.Results) != 1 {
			fail(fset, v, "%s.Validate: no single return", r.name)
			return r
		}
		format, args, ok := sprintfCall(fset, ret.Results[0], fieldNameVars)
		if !ok {
			fail(fset, ret, "%s.Validate: return is not fmt.Sprintf(literal, …)", r.name)
			return r
		}
		r.cond = condFromFormat(format, args)
	}
	// ErrVariable: strings.ReplaceAll("Err[@PATH]XValidation", "[@PATH]", …)
	if ev := methodOf(f, "ErrVariable"); ev != nil {
		lits := stringLits(ev)
		if len(lits) >= 1 && strings.HasPrefix(lits[0], "Err[@PATH]") && strings.HasSuffix(lits[0], "Validation") {
			r.suffix = strings.TrimSuffix(strings.TrimPrefix(lits[0], "Err[@PATH]"), "Validation")
		} else {
			fail(fset, ev, "%s.ErrVariable: pattern literal not recognised", r.name)
		}
	} else {
		fail(fset, f, "%s: no ErrVariable", r.name)
	}
	// Err(): key format, whether struct name is prefixed, legacy alias format
	if em := methodOf(f, "Err"); em != nil {
		ast.Inspect(em, func(n ast.Node) bool {
			as, ok := n.(*ast.AssignStmt)
			if !ok || len(as.Lhs) != 1 || len(as.Rhs) != 1 {
				return true
			}
			c, ok := as.Rhs[0].(*ast.CallExpr)
			if !ok || fmt.Sprint(c.Fun) != "&{fmt Sprintf}" {
				return true
			}
			switch fmt.Sprint(as.Lhs[0]) {
			case "key":
				if len(c.Args) == 2 {
					if _, isBin := c.Args[1].(*ast.BinaryExpr); isBin {
						r.keyStruct = true
					}
				}
			case "legacyErrVarName":
				if l, ok := c.Args[0].(*ast.BasicLit); ok {
					r.legacyFmt, _ = strconv.Unquote(l.Value)
				}
			}
			return true
		})
		if r.legacyFmt == "" {
			fail(fset, em, "%s.Err: legacy alias format not found", r.name)
		}
	} else {
		fail(fset, f, "%s: no Err method", r.name)
	}
	// key constant
	for _, d := range f.Decls {
		if gd, ok := d.(*ast.GenDecl); ok && gd.Tok == token.CONST {
			for _, sp := range gd.Specs {
				vs := sp.(*ast.ValueSpec)
				if len(vs.Names) == 1 && strings.HasSuffix(vs.Names[0].Name, "Key") && len(vs.Values) == 1 {
					if l, ok := vs.Values[0].(*ast.BasicLit); ok {
						r.keyFmt, _ = strconv.Unquote(l.Value)
					}
				}
			}
		}
	}
	// Imports()
	if im := methodOf(f, "Imports"); im != nil {
		r.imports = stringLits(im)
	} else {
		fail(fset, f, "%s: no Imports method", r.name)
	}
	return r
}

func extractGuard(fset *token.FileSet, fd *ast.FuncDecl, r *rule) {
	r.guard = ".none"
	for _, s := range fd.Body.List {
		switch s := s.(type) {
		case *ast.IfStmt:
			cond := exprString(s.Cond)
			switch {
			case cond == "!ok || (basic.Info()&types.IsNumeric) == 0":
				r.guard = ".numericBasic"
			case cond == "!ok || basic.Kind() != types.String":
				r.guard = ".stringBasic"
			case cond == "!ok": // value, ok := input.Expressions[markers.X]; if !ok { return nil }
			case cond == "len(enumValues) == 0":
			default:
				fail(fset, s, "%s: unrecognised guard condition `%s`", fd.Name.Name, cond)
			}
		case *ast.TypeSwitchStmt:
			as, ok := s.Assign.(*ast.ExprStmt)
			if ok && exprString(as.X) == "typ.Underlying().(type)" {
				var kinds []string
				okShape := true
				for _, c := range s.Body.List {
					cc := c.(*ast.CaseClause)
					if cc.List == nil {
						if len(cc.Body) != 1 || exprString2(cc.Body[0]) != "return nil" {
							okShape = false
						}
						continue
					}
					if len(cc.Body) != 0 {
						okShape = false
					}
					kinds = append(kinds, typeNames(cc.List)...)
				}
				if okShape {
					r.guard = "(.underlyingIn " + leanList(kinds) + ")"
					continue
				}
			}
			if r.name == "enum" {
				continue // handled by extractEnumGuard
			}
			fail(fset, s, "%s: unrecognised type switch guard", fd.Name.Name)
		case *ast.AssignStmt:
			// x, ok := input.Expressions[markers.GoValidMarkerX]
			if len(s.Rhs) == 1 {
				if ix, ok := s.Rhs[0].(*ast.IndexExpr); ok && exprString(ix.X) == "input.Expressions" {
					r.needsExpr = exprString(ix.Index)
				}
			}
			// side effects in a factory (required resets its memory key) are modelled in Gen/Mem (C14)
		case *ast.ReturnStmt, *ast.RangeStmt:
		default:
			fail(fset, s, "%s: unsupported factory statement %T", fd.Name.Name, s)
		}
	}
	if r.name == "enum" {
		extractEnumGuard(fset, fd, r)
	}
}

func exprString(e ast.Expr) string {
	var sb strings.Builder
	writeExpr(&sb, e)
	return sb.String()
}

func exprString2(s ast.Stmt) string {
	if r, ok := s.(*ast.ReturnStmt); ok && len(r.Results) == 1 {
		return "return " + exprString(r.Results[0])
	}
	return "?"
}

func writeExpr(sb *strings.Builder, e ast.Expr) {
	switch e := e.(type) {
	case *ast.Ident:
		sb.WriteString(e.Name)
	case *ast.BasicLit:
		sb.WriteString(e.Value)
	case *ast.SelectorExpr:
		writeExpr(sb, e.X)
		sb.WriteString("." + e.Sel.Name)
	case *ast.CallExpr:
		writeExpr(sb, e.Fun)
		sb.WriteString("(")
		for i, a := range e.Args {
			if i > 0 {
				sb.WriteString(", ")
			}
			writeExpr(sb, a)
		}
		sb.WriteString(")")
	case *ast.UnaryExpr:
		sb.WriteString(e.Op.String())
		writeExpr(sb, e.X)
	case *ast.BinaryExpr:
		writeExpr(sb, e.X)
		if e.Op == token.AND {
			sb.WriteString("&")
		} else {
			sb.WriteString(" " + e.Op.String() + " ")
		}
		writeExpr(sb, e.Y)
	case *ast.ParenExpr:
		sb.WriteString("(")
		writeExpr(sb, e.X)
		sb.WriteString(")")
	case *ast.TypeAssertExpr:
		writeExpr(sb, e.X)
		sb.WriteString(".(")
		if e.Type == nil {
			sb.WriteString("type")
		} else {
			writeExpr(sb, e.Type)
		}
		sb.WriteString(")")
	case *ast.StarExpr:
		sb.WriteString("*")
		writeExpr(sb, e.X)
	case *ast.IndexExpr:
		writeExpr(sb, e.X)
		sb.WriteString("[")
		writeExpr(sb, e.Index)
		sb.WriteString("]")
	default:
		fmt.Fprintf(sb, "<%T>", e)
	}
}

func extractRequired(fset *token.FileSet, f *ast.File, v *ast.FuncDecl, r *rule) {
	// Validate: typ := r.pass.TypesInfo.TypeOf(r.field.Type); return required(r.FieldName(), typ)
	ok := false
	if len(v.Body.List) == 2 {
		if ret, isRet := v.Body.List[1].(*ast.ReturnStmt); isRet && len(ret.Results) == 1 && exprString(ret.Results[0]) == "required(r.FieldName(), typ)" {
			if as, isAs := v.Body.List[0].(*ast.AssignStmt); isAs && exprString(as.Rhs[0]) == "r.pass.TypesInfo.TypeOf(r.field.Type)" {
				ok = true
			}
		}
	}
	if !ok {
		fail(fset, v, "required.Validate: unexpected shape")
	}
	rq := funcOf(f, "required")
	if rq == nil {
		fail(fset, f, "required(): not found")
		return
	}
	// switch typ.(type) / typ.Underlying().(type) { case A,B,C: return Sprintf(fmt, name) … }; zero := Zero(typ); if zero == "" {return ""}; return Sprintf(fmt, name, zero)
	var cases []string
	swOn := ""
	zeroFmt := ""
	for _, s := range rq.Body.List {
		switch s := s.(type) {
		case *ast.TypeSwitchStmt:
			swOn = exprString(s.Assign.(*ast.ExprStmt).X)
			for _, c := range s.Body.List {
				cc := c.(*ast.CaseClause)
				if cc.List == nil || len(cc.Body) != 1 {
					fail(fset, cc, "required(): case shape")
					continue
				}
				ret, isRet := cc.Body[0].(*ast.ReturnStmt)
				if !isRet {
					fail(fset, cc, "required(): case body")
					continue
				}
				format, args, isSp := sprintfCall(fset, ret.Results[0], map[string]bool{"name": true})
				if !isSp {
					fail(fset, ret, "required(): case does not return Sprintf")
					continue
				}
				cases = append(cases, fmt.Sprintf("(%s, fun (f : String) => %s)", leanList(typeNames(cc.List)), strings.ReplaceAll(condFromFormat(format, args), "(.raw v)", "(.raw \"\")")))
			}
		case *ast.ReturnStmt:
			format, args, isSp := sprintfCall(fset, s.Results[0], map[string]bool{"name": true})
			if !isSp {
				fail(fset, s, "required(): final return is not Sprintf")
				continue
			}
			zeroFmt = condFromFormat(format, args)
		case *ast.AssignStmt:
			if exprString(s.Rhs[0]) != "validatorhelper.Zero(typ)" {
				fail(fset, s, "required(): unexpected assignment")
			}
		case *ast.IfStmt:
			if exprString(s.Cond) != `zero == ""` {
				fail(fset, s, "required(): unexpected if")
			}
		default:
			fail(fset, s, "required(): unsupported statement %T", s)
		}
	}
	under := "false"
	switch swOn {
	case "typ.(type)":
	case "typ.Underlying().(type)":
		under = "true"
	default:
		fail(fset, rq, "required(): switch subject `%s`", swOn)
	}
	r.extra = append(r.extra,
		"/-- required(): does the type switch look through named types (`typ.Underlying()`)? -/\ndef required_switchOnUnderlying : Bool := "+under,
		"/-- required(): type-switch cases → emitted condition -/\ndef required_cases : List (List String × (String → GoExpr)) := [\n  "+strings.Join(cases, ",\n  ")+"\n]",
		"/-- required(): the generic `t.F == <zero literal>` condition -/\ndef required_zeroCond (f v : String) : GoExpr := "+zeroFmt)
}

func extractEnum(fset *token.FileSet, v *ast.FuncDecl, r *rule) {
	// two Sprintf formats inside the loop and a strings.Join separator
	var strFmt, numFmt, joiner string
	ast.Inspect(v, func(n ast.Node) bool {
		if ifs, ok := n.(*ast.IfStmt); ok {
			cond := exprString(ifs.Cond)
			pick := func(b *ast.BlockStmt) string {
				res := ""
				ast.Inspect(b, func(n ast.Node) bool {
					if c, ok := n.(*ast.CallExpr); ok {
						if format, args, isSp := sprintfCall(fset, c, map[string]bool{"fieldName": true}); isSp {
							res = condFromFormat(format, args)
						}
					}
					return true
				})
				return res
			}
			switch cond {
			case "e.isString || e.isCustom":
				strFmt = pick(ifs.Body)
				if ei, ok := ifs.Else.(*ast.IfStmt); ok && exprString(ei.Cond) == "e.isNumeric" {
					numFmt = pick(ei.Body)
				}
			}
		}
		if c, ok := n.(*ast.CallExpr); ok && exprString(c.Fun) == "strings.Join" && len(c.Args) == 2 {
			if l, ok := c.Args[1].(*ast.BasicLit); ok {
				joiner, _ = strconv.Unquote(l.Value)
			}
		}
		return true
	})
	if strFmt == "" || numFmt == "" || joiner == "" {
		fail(fset, v, "enum.Validate: formats/joiner not recognised")
	}
	r.extra = append(r.extra,
		"/-- enum: one item on a string-like (string or custom) field, quoted with %q -/\ndef enum_itemStr (f v : String) : GoExpr := "+strFmt,
		"/-- enum: one item on a numeric field, pasted verbatim -/\ndef enum_itemNum (f v : String) : GoExpr := "+numFmt,
		"/-- enum: operator joining the item conditions -/\ndef enum_joinOp : String := "+lq(strings.TrimSpace(joiner)))
}

func extractEnumGuard(fset *token.FileSet, fd *ast.FuncDecl, r *rule) {
	// switch underlying := typ.Underlying().(type) { case *types.Basic: switch underlying.Kind() {case String: isString; case ints…: isNumeric; default: return nil}; default: isCustom }
	var strKinds, numKinds []string
	found := false
	ast.Inspect(fd, func(n ast.Node) bool {
		sw, ok := n.(*ast.SwitchStmt)
		if !ok || sw.Tag == nil || exprString(sw.Tag) != "underlying.Kind()" {
			return true
		}
		found = true
		for _, c := range sw.Body.List {
			cc := c.(*ast.CaseClause)
			if cc.List == nil {
				if len(cc.Body) != 1 || exprString2(cc.Body[0]) != "return nil" {
					fail(fset, cc, "enum guard: default of kind switch must return nil")
				}
				continue
			}
			body := ""
			if len(cc.Body) == 1 {
				if as, ok := cc.Body[0].(*ast.AssignStmt); ok {
					body = exprString(as.Lhs[0])
				}
			}
			switch body {
			case "validator.isString":
				strKinds = append(strKinds, typeNames(cc.List)...)
			case "validator.isNumeric":
				numKinds = append(numKinds, typeNames(cc.List)...)
			default:
				fail(fset, cc, "enum guard: unrecognised case body")
			}
		}
		return true
	})
	if !found {
		fail(fset, fd, "enum guard: kind switch not found")
	}
	r.guard = "(.enumKinds " + leanList(strKinds) + " " + leanList(numKinds) + ")"
	// split on "," and TrimSpace
	sep, trimmed := "", false
	ast.Inspect(fd, func(n ast.Node) bool {
		if c, ok := n.(*ast.CallExpr); ok {
			if exprString(c.Fun) == "strings.Split" && len(c.Args) == 2 {
				if l, ok := c.Args[1].(*ast.BasicLit); ok {
					sep, _ = strconv.Unquote(l.Value)
				}
			}
			if exprString(c.Fun) == "strings.TrimSpace" {
				trimmed = true
			}
		}
		return true
	})
	if sep == "" || !trimmed {
		fail(fset, fd, "enum: split separator / TrimSpace not recognised")
	}
	r.extra = append(r.extra, "/-- enum: item separator (items are then trimmed with strings.TrimSpace) -/\ndef enum_sep : String := "+lq(sep))
}

// ---------------------------------------------------------------- zero.go

func extractZero(fset *token.FileSet, path string) []string {
	f, err := parser.ParseFile(fset, path, nil, 0)
	if err != nil {
		fail(nil, nil, "%v", err)
		return nil
	}
	var out []string
	z := funcOf(f, "Zero")
	zb := funcOf(f, "zeroOfBasic")
	if z == nil || zb == nil {
		fail(fset, f, "zero.go: Zero/zeroOfBasic not found")
		return nil
	}
	// Zero: switch t := typ.(type) { case *types.Basic: return zeroOfBasic(t); case Pointer, Interface, Signature: return "nil"; case Alias, Named: …Zero(underlying); default: "" }
	var nilTypes, namedTypes []string
	basicOK := false
	ast.Inspect(z, func(n ast.Node) bool {
		cc, ok := n.(*ast.CaseClause)
		if !ok || cc.List == nil {
			return true
		}
		names := typeNames(cc.List)
		if len(cc.Body) >= 1 {
			if ret, ok := cc.Body[0].(*ast.ReturnStmt); ok {
				switch exprString(ret.Results[0]) {
				case "zeroOfBasic(t)":
					if len(names) == 1 && names[0] == "Basic" {
						basicOK = true
					}
					return true
				case `"nil"`:
					nilTypes = append(nilTypes, names...)
					return true
				}
			}
			if ifs, ok := cc.Body[0].(*ast.IfStmt); ok && strings.Contains(exprString(ifs.Init.(*ast.AssignStmt).Rhs[0]), "Underlying()") {
				namedTypes = append(namedTypes, names...)
				return true
			}
		}
		fail(fset, cc, "Zero(): unrecognised case")
		return true
	})
	if !basicOK {
		fail(fset, z, "Zero(): Basic case not recognised")
	}
	var kinds []string
	ast.Inspect(zb, func(n ast.Node) bool {
		cc, ok := n.(*ast.CaseClause)
		if !ok || cc.List == nil {
			return true
		}
		if len(cc.Body) == 1 {
			if ret, ok := cc.Body[0].(*ast.ReturnStmt); ok {
				if l, ok := ret.Results[0].(*ast.BasicLit); ok {
					s, _ := strconv.Unquote(l.Value)
					kinds = append(kinds, fmt.Sprintf("(%s, %s)", leanList(typeNames(cc.List)), lq(s)))
					return true
				}
			}
		}
		fail(fset, cc, "zeroOfBasic(): unrecognised case")
		return true
	})
	out = append(out,
		"/-- validatorhelper.zeroOfBasic: basic kinds → zero literal text (\"\" = no literal) -/\ndef zeroOfBasic : List (List String × String) := [\n  "+strings.Join(kinds, ",\n  ")+"\n]",
		"/-- validatorhelper.Zero: type classes whose zero literal is `nil` -/\ndef zeroNilTypes : List String := "+leanList(nilTypes),
		"/-- validatorhelper.Zero: type classes resolved through their underlying type -/\ndef zeroViaUnderlying : List String := "+leanList(namedTypes))
	return out
}

// ---------------------------------------------------------------- markers and registry

func extractMarkers(fset *token.FileSet, root string) (map[string]string, map[string]string) {
	consts := map[string]string{}  // GoValidMarkerGt → govalid:gt
	factory := map[string]string{} // GoValidMarkerGt → ValidateGT
	f, err := parser.ParseFile(fset, filepath.Join(root, "internal/markers/markers_generated.go"), nil, 0)
	if err != nil {
		fail(nil, nil, "%v", err)
		return consts, factory
	}
	for _, d := range f.Decls {
		gd, ok := d.(*ast.GenDecl)
		if !ok || gd.Tok != token.VAR {
			continue
		}
		for _, sp := range gd.Specs {
			vs := sp.(*ast.ValueSpec)
			if len(vs.Names) == 1 && len(vs.Values) == 1 {
				if l, ok := vs.Values[0].(*ast.BasicLit); ok {
					s, _ := strconv.Unquote(l.Value)
					consts[vs.Names[0].Name] = s
				}
			}
		}
	}
	inits, _ := filepath.Glob(filepath.Join(root, "internal/validator/registry/initializers/*.go"))
	for _, p := range inits {
		if strings.HasSuffix(p, "all.go") {
			continue
		}
		g, err := parser.ParseFile(fset, p, nil, 0)
		if err != nil {
			fail(nil, nil, "%v", err)
			continue
		}
		var mk, fc string
		for _, d := range g.Decls {
			fd, ok := d.(*ast.FuncDecl)
			if !ok || fd.Recv == nil || len(fd.Body.List) != 1 {
				continue
			}
			ret, ok := fd.Body.List[0].(*ast.ReturnStmt)
			if !ok || len(ret.Results) != 1 {
				continue
			}
			sel, ok := ret.Results[0].(*ast.SelectorExpr)
			if !ok {
				continue
			}
			switch fd.Name.Name {
			case "Marker":
				mk = sel.Sel.Name
			case "Init":
				fc = sel.Sel.Name
			}
		}
		if mk == "" || fc == "" {
			fail(fset, g, "initializer %s: Marker/Init not recognised", filepath.Base(p))
			continue
		}
		factory[mk] = fc
	}
	// all.go must register every initializer (count check)
	all, err := os.ReadFile(filepath.Join(root, "internal/validator/registry/initializers/all.go"))
	if err == nil {
		for mk := range factory {
			name := strings.TrimPrefix(mk, "GoValidMarker") + "Initializer"
			if !strings.Contains(string(all), name) {
				fail(nil, nil, "initializers/all.go does not register %s", name)
			}
		}
	}
	return consts, factory
}


// extractTemplate: templates/validation.go.tmpl as a flat, whitespace-normalised token list — text between actions with
// every run of white space collapsed, `{{pipeline}}` for actions, `{{if …}}` / `{{range …}}` / `{{else}}` / `{{end}}` for the
// control structure (trim markers only affect white space and disappear); Go line comments of the emitted text are dropped. Lean compares the list with the statement
// forms the hand-written model of the template assumes (Gvlean/Gen/Template.lean); any node kind not listed is refused.
func extractTemplate(root string) []string {
	path := filepath.Join(root, "internal/analyzers/govalid/templates/validation.go.tmpl")
	src, err := os.ReadFile(path)
	if err != nil {
		fail(nil, nil, "template: %v", err)
		return nil
	}
	t := parse.New("validation")
	t.Mode = parse.SkipFuncCheck
	tree, err := t.Parse(string(src), "", "", map[string]*parse.Tree{})
	if err != nil {
		fail(nil, nil, "template does not parse: %v", err)
		return nil
	}
	var out []string
	inComment := false
	var walk func(n parse.Node)
	walk = func(n parse.Node) {
		switch n := n.(type) {
		case nil:
		case *parse.ListNode:
			if n == nil {
				return
			}
			for _, c := range n.Nodes {
				walk(c)
			}
		case *parse.TextNode:
			// Go line comments of the emitted text carry no behaviour: dropped (a comment may continue through actions into
			// the next text node — `// ErrNil{{.TypeName}} is returned …` — hence the state)
			var kept strings.Builder
			inStr := false
			txt := string(n.Text)
			for i := 0; i < len(txt); i++ {
				c := txt[i]
				switch {
				case c == '\n':
					inComment, inStr = false, false
					kept.WriteByte(c)
				case inComment:
				case c == '"':
					inStr = !inStr
					kept.WriteByte(c)
				case !inStr && c == '/' && i+1 < len(txt) && txt[i+1] == '/':
					inComment = true
				default:
					kept.WriteByte(c)
				}
			}
			if f := strings.Join(strings.Fields(kept.String()), " "); f != "" {
				out = append(out, f)
			}
		case *parse.ActionNode:
			if inComment {
				return
			}
			out = append(out, "{{"+n.Pipe.String()+"}}")
		case *parse.IfNode:
			if inComment {
				fail(nil, nil, "template: control structure inside a Go line comment")
			}
			out = append(out, "{{if "+n.Pipe.String()+"}}")
			walk(n.List)
			if n.ElseList != nil {
				out = append(out, "{{else}}")
				walk(n.ElseList)
			}
			out = append(out, "{{end}}")
		case *parse.RangeNode:
			out = append(out, "{{range "+n.Pipe.String()+"}}")
			walk(n.List)
			if n.ElseList != nil {
				out = append(out, "{{else}}")
				walk(n.ElseList)
			}
			out = append(out, "{{end}}")
		case *parse.CommentNode:
		default:
			fail(nil, nil, "template: node kind %T (%s) is outside the modelled template language", n, n.String())
		}
	}
	walk(tree.Root)
	for _, tok := range out {
		for _, r := range tok {
			if r < 0x20 || r > 0x7e {
				fail(nil, nil, "template: non-ASCII or control character in token %q", tok)
			}
		}
	}
	return out
}

func main() {
	if len(os.Args) != 3 {
		fmt.Fprintln(os.Stderr, "usage: rulefacts <repo root> <out.lean>")
		os.Exit(2)
	}
	root, out := os.Args[1], os.Args[2]
	_ = os.Remove(out)
	fset := token.NewFileSet()
	paths, _ := filepath.Glob(filepath.Join(root, "internal/validator/rules/*.go"))
	sort.Strings(paths)
	h := sha256.New()
	var rules []*rule
	for _, p := range paths {
		if strings.HasSuffix(p, "_test.go") {
			continue
		}
		src, _ := os.ReadFile(p)
		h.Write(src)
		if filepath.Base(p) == "cel.go" {
			continue // hand-modelled (Gvlean/Cel), tied by corr-cel
		}
		if r := extractRule(fset, p); r != nil {
			rules = append(rules, r)
		}
	}
	zero := extractZero(fset, filepath.Join(root, "internal/validator/validatorhelper/zero.go"))
	consts, factory := extractMarkers(fset, root)

	var sb strings.Builder
	sb.WriteString("-- GENERATED by /verif/go/cmd/rulefacts from internal/validator/rules/*.go, validatorhelper/zero.go,\n-- internal/markers/markers_generated.go, registry/initializers/*.go; DO NOT EDIT.\n")
	fmt.Fprintf(&sb, "-- rules sha256: %x\n", h.Sum(nil))
	sb.WriteString("import Gvlean.Go.Expr\nset_option linter.unusedVariables false\nnamespace Facts\nopen Go\n\n")
	byFactory := map[string]*rule{}
	for _, r := range rules {
		byFactory[r.factory] = r
		fmt.Fprintf(&sb, "/-! ### %s.go (%s) -/\n", r.name, r.factory)
		if r.cond != "" {
			fmt.Fprintf(&sb, "/-- the failure condition emitted by `Validate()` for field `f` and marker parameter `v` -/\ndef cond_%s (f v : String) : GoExpr := %s\n", r.name, r.cond)
		}
		for _, e := range r.extra {
			sb.WriteString(e + "\n")
		}
		fmt.Fprintf(&sb, "def info_%s : RuleInfo := { name := %s, guard := %s, needsExpr := %s, errSuffix := %s, legacyFmt := %s, keyFmt := %s, keyWithStruct := %v, imports := %s }\n\n",
			r.name, lq(r.name), r.guard, map[bool]string{true: "true", false: "false"}[r.needsExpr != ""], lq(r.suffix), lq(r.legacyFmt), lq(r.keyFmt), r.keyStruct, leanList(r.imports))
	}
	for _, z := range zero {
		sb.WriteString(z + "\n")
	}
	// marker table: identifier → rule name (through the registry initializers)
	var mks []string
	for mk := range consts {
		mks = append(mks, mk)
	}
	sort.Strings(mks)
	var rows []string
	for _, mk := range mks {
		fc, ok := factory[mk]
		if !ok {
			continue // GoValidMarkers map etc.
		}
		if fc == "ValidateCEL" {
			rows = append(rows, fmt.Sprintf("(%s, \"cel\")", lq(consts[mk])))
			continue
		}
		r, ok := byFactory[fc]
		if !ok {
			fail(nil, nil, "factory %s of marker %s not found in rules/", fc, mk)
			continue
		}
		if r.needsExpr != "" && r.needsExpr != "markers."+mk {
			fail(nil, nil, "rule %s reads its parameter from %s but is registered under %s", r.name, r.needsExpr, mk)
		}
		rows = append(rows, fmt.Sprintf("(%s, %s)", lq(consts[mk]), lq(r.name)))
	}
	fmt.Fprintf(&sb, "\n/-- registry: marker identifier → rule -/\ndef markerTable : List (String × String) := [\n  %s\n]\n", strings.Join(rows, ",\n  "))
	var infos []string
	for _, r := range rules {
		infos = append(infos, "info_"+r.name)
	}
	fmt.Fprintf(&sb, "\ndef allRules : List RuleInfo := [%s]\n", strings.Join(infos, ", "))
	tmpl := extractTemplate(root)
	var tl []string
	for _, tok := range tmpl {
		tl = append(tl, "  "+lq(tok))
	}
	fmt.Fprintf(&sb, "\n/-- templates/validation.go.tmpl as a flat token list (text with white space collapsed; actions and control structure verbatim) -/\ndef tmplTokens : List String := [\n%s\n]\n\nend Facts\n", strings.Join(tl, ",\n"))
	if len(errs) > 0 {
		for _, e := range errs {
			fmt.Fprintln(os.Stderr, "rulefacts:", e)
		}
		os.Exit(1)
	}
	if err := os.WriteFile(out, []byte(sb.String()), 0o644); err != nil {
		fmt.Fprintln(os.Stderr, "rulefacts:", err)
		os.Exit(2)
	}
}
