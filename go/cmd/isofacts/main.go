// isofacts extracts, from internal/analyzers/govalid/govalid.go, internal/validator/validator.go and
// internal/validator/rules/*.go, the facts about the generator's process-wide state and about how the
// output file is written, and emits them as Lean definitions (Gvlean/Generated/IsoFacts.lean).
// Boolean facts are `false` when the pattern they stand for is absent (the theorems then no longer
// apply); anything that touches the generator memory in an unrecognised way FAILS CLOSED.
//
// usage: isofacts <repo root> <out.lean>
package main

import (
	"crypto/sha256"
	"fmt"
	"go/ast"
	"go/parser"
	"go/token"
	"os"
	"path/filepath"
	"sort"
	"strconv"
	"strings"
)

var fset = token.NewFileSet()
var errs []string

func fail(n ast.Node, format string, a ...any) {
	pos := ""
	if n != nil {
		p := fset.Position(n.Pos())
		pos = fmt.Sprintf("%s:%d: ", filepath.Base(p.Filename), p.Line)
	}
	errs = append(errs, pos+fmt.Sprintf(format, a...))
}

func isSel(e ast.Expr, x, name string) bool {
	s, ok := e.(*ast.SelectorExpr)
	if !ok {
		return false
	}
	id, ok := s.X.(*ast.Ident)
	return ok && id.Name == x && s.Sel.Name == name
}

func isIdent(e ast.Expr, name string) bool {
	id, ok := e.(*ast.Ident)
	return ok && id.Name == name
}

func callOf(s ast.Stmt) *ast.CallExpr {
	es, ok := s.(*ast.ExprStmt)
	if !ok {
		return nil
	}
	c, _ := es.X.(*ast.CallExpr)
	return c
}

// mentions reports whether node n contains a call to the function named fn
func callsFunc(n ast.Node, fn string) bool {
	found := false
	ast.Inspect(n, func(x ast.Node) bool {
		if c, ok := x.(*ast.CallExpr); ok && isIdent(c.Fun, fn) {
			found = true
		}
		return true
	})
	return found
}

func refsMemory(n ast.Node) []ast.Node {
	var out []ast.Node
	ast.Inspect(n, func(x ast.Node) bool {
		if s, ok := x.(*ast.SelectorExpr); ok && s.Sel.Name == "GeneratorMemory" {
			out = append(out, s)
		}
		return true
	})
	return out
}

func main() {
	if len(os.Args) != 3 {
		fmt.Fprintln(os.Stderr, "usage: isofacts <repo> <out.lean>")
		os.Exit(2)
	}
	root := os.Args[1]
	h := sha256.New()
	parse := func(rel string) *ast.File {
		p := filepath.Join(root, rel)
		src, err := os.ReadFile(p)
		if err != nil {
			fail(nil, "%v", err)
			return nil
		}
		h.Write(src)
		f, err := parser.ParseFile(fset, p, src, 0)
		if err != nil {
			fail(nil, "%v", err)
			return nil
		}
		return f
	}
	gv := parse("internal/analyzers/govalid/govalid.go")
	if gv == nil {
		fmt.Fprintln(os.Stderr, strings.Join(errs, "\n"))
		os.Exit(1)
	}
	// ---- the mutex
	mutexVar := ""
	for _, d := range gv.Decls {
		gd, ok := d.(*ast.GenDecl)
		if !ok || gd.Tok != token.VAR {
			continue
		}
		for _, sp := range gd.Specs {
			vs := sp.(*ast.ValueSpec)
			if isSel(vs.Type, "sync", "Mutex") && len(vs.Names) == 1 {
				mutexVar = vs.Names[0].Name
			}
		}
	}
	// ---- the function that analyses one struct and writes its file
	locked, clears := false, false
	var genFn *ast.FuncDecl
	for _, d := range gv.Decls {
		fd, ok := d.(*ast.FuncDecl)
		if !ok || fd.Body == nil || fd.Name.Name == "analyzeMarker" || fd.Name.Name == "writeFile" {
			continue
		}
		direct := false
		for _, s := range fd.Body.List { // top-level statements only (closures are the driver loop)
			if _, isExpr := s.(*ast.ExprStmt); isExpr {
				continue
			}
			if as, ok := s.(*ast.AssignStmt); ok && callsFunc(as, "analyzeMarker") {
				direct = true
			}
		}
		if direct {
			if genFn != nil {
				fail(fd, "two functions call analyzeMarker at their top level")
			}
			genFn = fd
		}
	}
	if genFn == nil {
		// analysis and writing are inline in the driver closure: no per-struct critical section
		locked, clears = false, false
	} else {
		stage := 0 // 0: expect Lock, 1: expect defer Unlock, 2: before analyzeMarker
		for _, s := range genFn.Body.List {
			if c := callOf(s); c != nil {
				if stage == 0 && mutexVar != "" && isSel(c.Fun, mutexVar, "Lock") {
					stage = 1
					continue
				}
				if stage == 2 && isIdent(c.Fun, "clear") && len(c.Args) == 1 && isSel(c.Args[0], "validator", "GeneratorMemory") {
					clears = true
					continue
				}
			}
			if ds, ok := s.(*ast.DeferStmt); ok && stage == 1 && isSel(ds.Call.Fun, mutexVar, "Unlock") {
				stage = 2
				locked = true
				continue
			}
			if callsFunc(s, "analyzeMarker") {
				break
			}
		}
		if !callsFunc(genFn, "writeFile") {
			locked = false // the file is rendered (Err() runs in the template) outside the critical section
		}
		if !locked {
			clears = false // clearing without the lock is not the modelled protocol
		}
	}
	// every other reference to the memory in govalid.go must be that clear
	for _, n := range refsMemory(gv) {
		ok := false
		if genFn != nil && n.Pos() >= genFn.Pos() && n.End() <= genFn.End() && clears {
			ok = true
		}
		if !ok {
			fail(n, "unrecognised use of GeneratorMemory in govalid.go")
		}
	}
	// ---- writeFile: path and open mode
	truncates := false
	pathFmt, lowerType := "", false
	for _, d := range gv.Decls {
		fd, ok := d.(*ast.FuncDecl)
		if !ok || fd.Name.Name != "writeFile" {
			continue
		}
		opens := 0
		ast.Inspect(fd, func(x ast.Node) bool {
			c, ok := x.(*ast.CallExpr)
			if !ok {
				return true
			}
			switch {
			case isSel(c.Fun, "os", "Create"):
				opens++
				truncates = true
			case isSel(c.Fun, "os", "OpenFile"):
				opens++
				if len(c.Args) == 3 {
					flags := map[string]bool{}
					ast.Inspect(c.Args[1], func(y ast.Node) bool {
						if s, ok := y.(*ast.SelectorExpr); ok {
							flags[s.Sel.Name] = true
						}
						return true
					})
					truncates = flags["O_TRUNC"] && (flags["O_WRONLY"] || flags["O_RDWR"]) && !flags["O_APPEND"]
				}
			case isSel(c.Fun, "os", "WriteFile"):
				opens++
				truncates = true
			case isSel(c.Fun, "fmt", "Sprintf") && len(c.Args) == 3:
				if l, ok := c.Args[0].(*ast.BasicLit); ok && strings.Contains(l.Value, "_validator.go") {
					pathFmt, _ = strconv.Unquote(l.Value)
					if lc, ok := c.Args[2].(*ast.CallExpr); ok && isSel(lc.Fun, "strings", "ToLower") {
						lowerType = true
					}
				}
			}
			return true
		})
		if opens != 1 {
			fail(fd, "writeFile: expected exactly one file-opening call, found %d", opens)
		}
	}
	if pathFmt == "" {
		fail(gv, "output file name pattern not found in writeFile")
	}
	// ---- rules: which factories reset their key; every other use is Err()'s test-and-set
	paths, _ := filepath.Glob(filepath.Join(root, "internal/validator/rules/*.go"))
	sort.Strings(paths)
	var resets []string
	for _, p := range paths {
		if strings.HasSuffix(p, "_test.go") {
			continue
		}
		rel, _ := filepath.Rel(root, p)
		f := parse(rel)
		if f == nil {
			continue
		}
		name := strings.TrimSuffix(filepath.Base(p), ".go")
		for _, d := range f.Decls {
			fd, ok := d.(*ast.FuncDecl)
			if !ok || fd.Body == nil {
				continue
			}
			refs := refsMemory(fd)
			if len(refs) == 0 {
				continue
			}
			switch {
			case fd.Recv != nil && fd.Name.Name == "Err":
				// if validator.GeneratorMemory[key] { return "" } ; validator.GeneratorMemory[key] = true
				if len(refs) != 2 {
					fail(fd, "%s.Err: expected the test-and-set pair on GeneratorMemory", name)
				}
				tested, set := false, false
				emptyBuilder := ""
				for si, s := range fd.Body.List {
					if ds, ok := s.(*ast.DeclStmt); ok && si == 0 {
						if gd, ok := ds.Decl.(*ast.GenDecl); ok && gd.Tok == token.VAR && len(gd.Specs) == 1 {
							vs := gd.Specs[0].(*ast.ValueSpec)
							if len(vs.Names) == 1 && len(vs.Values) == 0 && isSel(vs.Type, "strings", "Builder") {
								emptyBuilder = vs.Names[0].Name
							}
						}
					}
					if emptyBuilder != "" && !tested && si > 0 {
						// nothing may write to the builder before the test
						ast.Inspect(s, func(x ast.Node) bool {
							if c, ok := x.(*ast.CallExpr); ok {
								if se, ok := c.Fun.(*ast.SelectorExpr); ok && isIdent(se.X, emptyBuilder) && se.Sel.Name != "String" {
									emptyBuilder = ""
								}
							}
							return true
						})
					}
					if is, ok := s.(*ast.IfStmt); ok && is.Init == nil && len(refsMemory(is.Cond)) == 1 && len(is.Body.List) == 1 {
						if r, ok := is.Body.List[0].(*ast.ReturnStmt); ok && len(r.Results) == 1 {
							if l, ok := r.Results[0].(*ast.BasicLit); ok && l.Value == `""` {
								tested = true
							}
							// `var result strings.Builder` declared just before and still empty: result.String() == ""
							if c, ok := r.Results[0].(*ast.CallExpr); ok && len(c.Args) == 0 && emptyBuilder != "" && isSel(c.Fun, emptyBuilder, "String") {
								tested = true
							}
						}
					}
					if as, ok := s.(*ast.AssignStmt); ok && tested && len(as.Lhs) == 1 && len(refsMemory(as.Lhs[0])) == 1 && isIdent(as.Rhs[0], "true") {
						set = true
					}
				}
				if !tested || !set {
					fail(fd, "%s.Err: unrecognised memory protocol", name)
				}
			case fd.Recv == nil && strings.HasPrefix(fd.Name.Name, "Validate"):
				okReset := false
				for _, s := range fd.Body.List {
					if as, ok := s.(*ast.AssignStmt); ok && len(as.Lhs) == 1 && len(refsMemory(as.Lhs[0])) == 1 && isIdent(as.Rhs[0], "false") {
						okReset = true
					}
				}
				if !okReset || len(refs) != 1 {
					fail(fd, "%s factory: unrecognised use of GeneratorMemory", name)
				}
				resets = append(resets, name)
			default:
				fail(fd, "%s: GeneratorMemory used in %s", name, fd.Name.Name)
			}
		}
	}
	// no other package may touch the memory
	_ = filepath.Walk(filepath.Join(root, "internal"), func(p string, info os.FileInfo, err error) error {
		if err != nil || info.IsDir() || !strings.HasSuffix(p, ".go") || strings.HasSuffix(p, "_test.go") {
			return nil
		}
		rel, _ := filepath.Rel(root, p)
		if strings.HasPrefix(rel, "internal/validator/rules/") || rel == "internal/analyzers/govalid/govalid.go" || rel == "internal/validator/validator.go" {
			return nil
		}
		src, _ := os.ReadFile(p)
		if strings.Contains(string(src), "GeneratorMemory") {
			fail(nil, "%s references GeneratorMemory", rel)
		}
		return nil
	})
	if vf := parse("internal/validator/validator.go"); vf != nil {
		n := 0
		for _, d := range vf.Decls {
			if gd, ok := d.(*ast.GenDecl); ok && gd.Tok == token.VAR {
				n += len(gd.Specs)
			}
		}
		if n != 1 {
			fail(vf, "validator.go: expected exactly one package-level variable (GeneratorMemory), found %d", n)
		}
	}
	if len(errs) > 0 {
		for _, e := range errs {
			fmt.Fprintln(os.Stderr, "isofacts: "+e)
		}
		os.Exit(1)
	}
	q := func(xs []string) string {
		var o []string
		for _, x := range xs {
			o = append(o, strconv.Quote(x))
		}
		return "[" + strings.Join(o, ", ") + "]"
	}
	var sb strings.Builder
	fmt.Fprintf(&sb, "/- GENERATED by /verif/go/cmd/isofacts (sources sha256 %x) — do not edit -/\nimport Gvlean.Gen.Iso\n\nnamespace Generated.Iso\n\n", h.Sum(nil))
	fmt.Fprintf(&sb, "/-- how the generator treats its process-wide memory and its output file -/\ndef facts : _root_.Iso.Facts :=\n  { locked := %v, clears := %v, truncates := %v, resetRules := %s, pathFmt := %s, lowerType := %v }\n\nend Generated.Iso\n",
		locked, clears, truncates, q(resets), strconv.Quote(pathFmt), lowerType)
	if err := os.WriteFile(os.Args[2], []byte(sb.String()), 0o644); err != nil {
		fmt.Fprintln(os.Stderr, err)
		os.Exit(1)
	}
}
