// mwfacts translates the two handler closures of validation/middleware/middleware.go into programs of
// the small handler language of Gvlean/Gen/Mw.lean and writes them as Lean definitions
// (Gvlean/Generated/MwFacts.lean). It recognises exactly the statement shapes that occur and FAILS
// CLOSED on anything else (extra statements, other receivers, state captured outside the closure …).
//
// usage: mwfacts <repo root> <out.lean>
package main

import (
	"crypto/sha256"
	"fmt"
	"go/ast"
	"go/parser"
	"go/token"
	"os"
	"path/filepath"
	"strconv"
	"strings"
)

var fset = token.NewFileSet()
var errs []string

func fail(n ast.Node, format string, a ...any) {
	pos := ""
	if n != nil {
		p := fset.Position(n.Pos())
		pos = fmt.Sprintf("%s:%d: ", filepath.Base(p.Filename), p.Line)
	}
	errs = append(errs, pos+fmt.Sprintf(format, a...))
}

var httpStatus = map[string]int{
	"StatusOK": 200, "StatusBadRequest": 400, "StatusUnauthorized": 401, "StatusForbidden": 403, "StatusNotFound": 404,
	"StatusRequestTimeout": 408, "StatusConflict": 409, "StatusGone": 410, "StatusUnprocessableEntity": 422,
	"StatusTooManyRequests": 429, "StatusInternalServerError": 500, "StatusServiceUnavailable": 503, "StatusGatewayTimeout": 504,
}

func sel(e ast.Expr, pkg, name string) bool {
	s, ok := e.(*ast.SelectorExpr)
	if !ok {
		return false
	}
	id, ok := s.X.(*ast.Ident)
	return ok && id.Name == pkg && s.Sel.Name == name
}

func ident(e ast.Expr, name string) bool {
	id, ok := e.(*ast.Ident)
	return ok && id.Name == name
}

func statusOf(e ast.Expr) (int, bool) {
	if s, ok := e.(*ast.SelectorExpr); ok {
		if id, ok := s.X.(*ast.Ident); ok && id.Name == "http" {
			v, ok := httpStatus[s.Sel.Name]
			return v, ok
		}
	}
	if b, ok := e.(*ast.BasicLit); ok && b.Kind == token.INT {
		v, err := strconv.Atoi(b.Value)
		return v, err == nil
	}
	return 0, false
}

// httpError matches `http.Error(w, <msg>, <status>)`; msg is either a string literal or `lit + err.Error()`.
// statusVar, when non-empty, is the local variable holding the status.
func httpError(s ast.Stmt) (lit string, withErr bool, status int, statusVar string, ok bool) {
	es, isE := s.(*ast.ExprStmt)
	if !isE {
		return
	}
	c, isC := es.X.(*ast.CallExpr)
	if !isC || !sel(c.Fun, "http", "Error") || len(c.Args) != 3 || !ident(c.Args[0], "w") {
		return
	}
	switch m := c.Args[1].(type) {
	case *ast.BasicLit:
		if m.Kind != token.STRING {
			return
		}
		lit, _ = strconv.Unquote(m.Value)
	case *ast.BinaryExpr:
		l, isL := m.X.(*ast.BasicLit)
		call, isCall := m.Y.(*ast.CallExpr)
		if m.Op != token.ADD || !isL || l.Kind != token.STRING || !isCall || len(call.Args) != 0 || !sel(call.Fun, "err", "Error") {
			return
		}
		lit, _ = strconv.Unquote(l.Value)
		withErr = true
	default:
		return
	}
	if v, isS := statusOf(c.Args[2]); isS {
		status = v
	} else if id, isI := c.Args[2].(*ast.Ident); isI {
		statusVar = id.Name
	} else {
		return
	}
	ok = true
	return
}

func isReturn(s ast.Stmt) bool {
	r, ok := s.(*ast.ReturnStmt)
	return ok && len(r.Results) == 0
}

// errIfHeader matches `if err := <call>; err != nil {` and returns the call
func errIfHeader(s ast.Stmt) (*ast.CallExpr, *ast.IfStmt, bool) {
	is, ok := s.(*ast.IfStmt)
	if !ok || is.Else != nil || is.Init == nil {
		return nil, nil, false
	}
	as, ok := is.Init.(*ast.AssignStmt)
	if !ok || as.Tok != token.DEFINE || len(as.Lhs) != 1 || len(as.Rhs) != 1 || !ident(as.Lhs[0], "err") {
		return nil, nil, false
	}
	c, ok := as.Rhs[0].(*ast.CallExpr)
	if !ok {
		return nil, nil, false
	}
	b, ok := is.Cond.(*ast.BinaryExpr)
	if !ok || b.Op != token.NEQ || !ident(b.X, "err") || !ident(b.Y, "nil") {
		return nil, nil, false
	}
	return c, is, true
}

// isErrorsIs matches errors.Is(err, context.X) and returns X
func isErrorsIs(e ast.Expr) (string, bool) {
	c, ok := e.(*ast.CallExpr)
	if !ok || !sel(c.Fun, "errors", "Is") || len(c.Args) != 2 || !ident(c.Args[0], "err") {
		return "", false
	}
	s, ok := c.Args[1].(*ast.SelectorExpr)
	if !ok {
		return "", false
	}
	id, ok := s.X.(*ast.Ident)
	if !ok || id.Name != "context" {
		return "", false
	}
	return s.Sel.Name, true
}

func translate(fd *ast.FuncDecl) string {
	// func X[T ...](next http.HandlerFunc) http.HandlerFunc { return func(w http.ResponseWriter, r *http.Request) { … } }
	if len(fd.Body.List) != 1 {
		fail(fd, "%s: expected a single return statement", fd.Name.Name)
		return "[]"
	}
	ret, ok := fd.Body.List[0].(*ast.ReturnStmt)
	if !ok || len(ret.Results) != 1 {
		fail(fd, "%s: expected `return func(w, r) {…}`", fd.Name.Name)
		return "[]"
	}
	fl, ok := ret.Results[0].(*ast.FuncLit)
	if !ok || len(fl.Type.Params.List) != 2 {
		fail(fd, "%s: expected a function literal of (w, r)", fd.Name.Name)
		return "[]"
	}
	if n := fl.Type.Params.List[0].Names; len(n) != 1 || n[0].Name != "w" {
		fail(fd, "%s: first parameter must be w", fd.Name.Name)
	}
	if n := fl.Type.Params.List[1].Names; len(n) != 1 || n[0].Name != "r" {
		fail(fd, "%s: second parameter must be r", fd.Name.Name)
	}
	var prog []string
	declared := false
	for _, st := range fl.Body.List {
		// var body T  — a fresh zero value per request
		if ds, ok := st.(*ast.DeclStmt); ok {
			gd, ok := ds.Decl.(*ast.GenDecl)
			if ok && gd.Tok == token.VAR && len(gd.Specs) == 1 {
				vs := gd.Specs[0].(*ast.ValueSpec)
				if len(vs.Names) == 1 && vs.Names[0].Name == "body" && len(vs.Values) == 0 && ident(vs.Type, "T") && !declared {
					declared = true
					prog = append(prog, ".fresh")
					continue
				}
			}
			fail(st, "unrecognised declaration")
			continue
		}
		if call, is, ok := errIfHeader(st); ok {
			// json.NewDecoder(r.Body).Decode(&body)
			if s, ok := call.Fun.(*ast.SelectorExpr); ok && s.Sel.Name == "Decode" {
				inner, ok := s.X.(*ast.CallExpr)
				u, isU := call.Args[0].(*ast.UnaryExpr)
				if ok && sel(inner.Fun, "json", "NewDecoder") && len(inner.Args) == 1 && sel(inner.Args[0], "r", "Body") &&
					len(call.Args) == 1 && isU && u.Op == token.AND && ident(u.X, "body") && len(is.Body.List) == 2 && isReturn(is.Body.List[1]) {
					lit, withErr, status, sv, ok := httpError(is.Body.List[0])
					if ok && !withErr && sv == "" {
						prog = append(prog, fmt.Sprintf("(.decode %s %d)", strconv.Quote(lit), status))
						continue
					}
				}
				fail(st, "unrecognised decode step")
				continue
			}
			// body.Validate() / body.ValidateContext(r.Context())
			if s, ok := call.Fun.(*ast.SelectorExpr); ok && ident(s.X, "body") && (s.Sel.Name == "Validate" || s.Sel.Name == "ValidateContext") {
				useCtx := s.Sel.Name == "ValidateContext"
				if useCtx {
					c2, ok := func() (*ast.CallExpr, bool) {
						if len(call.Args) != 1 {
							return nil, false
						}
						c, ok := call.Args[0].(*ast.CallExpr)
						return c, ok
					}()
					if !ok || !sel(c2.Fun, "r", "Context") || len(c2.Args) != 0 {
						fail(st, "ValidateContext must receive r.Context()")
						continue
					}
				} else if len(call.Args) != 0 {
					fail(st, "Validate takes no argument")
					continue
				}
				body := is.Body.List
				if len(body) == 2 && isReturn(body[1]) {
					lit, withErr, status, sv, ok := httpError(body[0])
					if ok && withErr && sv == "" {
						prog = append(prog, fmt.Sprintf("(.validate %v %s %d none false false)", useCtx, strconv.Quote(lit), status))
						continue
					}
				}
				if len(body) == 4 && isReturn(body[3]) {
					// statusCode := A; if errors.Is(err, context.X) || errors.Is(err, context.Y) { statusCode = B }; http.Error(w, lit+err.Error(), statusCode); return
					as, ok1 := body[0].(*ast.AssignStmt)
					ifs, ok2 := body[1].(*ast.IfStmt)
					lit, withErr, _, sv, ok3 := httpError(body[2])
					if ok1 && ok2 && ok3 && withErr && sv != "" && as.Tok == token.DEFINE && len(as.Lhs) == 1 && ident(as.Lhs[0], sv) && ifs.Init == nil && ifs.Else == nil && len(ifs.Body.List) == 1 {
						a, okA := statusOf(as.Rhs[0])
						as2, okB := ifs.Body.List[0].(*ast.AssignStmt)
						if okA && okB && as2.Tok == token.ASSIGN && len(as2.Lhs) == 1 && ident(as2.Lhs[0], sv) {
							b, okC := statusOf(as2.Rhs[0])
							kinds := map[string]bool{}
							var collect func(e ast.Expr) bool
							collect = func(e ast.Expr) bool {
								if be, ok := e.(*ast.BinaryExpr); ok && be.Op == token.LOR {
									return collect(be.X) && collect(be.Y)
								}
								k, ok := isErrorsIs(e)
								if ok && (k == "Canceled" || k == "DeadlineExceeded") {
									kinds[k] = true
								}
								return ok && (k == "Canceled" || k == "DeadlineExceeded")
							}
							if okC && collect(ifs.Cond) {
								prog = append(prog, fmt.Sprintf("(.validate %v %s %d (some %d) %v %v)", useCtx, strconv.Quote(lit), a, b, kinds["Canceled"], kinds["DeadlineExceeded"]))
								continue
							}
						}
					}
				}
				fail(st, "unrecognised validation step")
				continue
			}
			fail(st, "unrecognised `if err := …` step")
			continue
		}
		// next(w, r)
		if es, ok := st.(*ast.ExprStmt); ok {
			if c, ok := es.X.(*ast.CallExpr); ok && ident(c.Fun, "next") && len(c.Args) == 2 && ident(c.Args[0], "w") && ident(c.Args[1], "r") {
				prog = append(prog, ".next")
				continue
			}
		}
		fail(st, "unrecognised statement in %s", fd.Name.Name)
	}
	return "[" + strings.Join(prog, ", ") + "]"
}

func main() {
	if len(os.Args) != 3 {
		fmt.Fprintln(os.Stderr, "usage: mwfacts <repo> <out.lean>")
		os.Exit(2)
	}
	path := filepath.Join(os.Args[1], "validation", "middleware", "middleware.go")
	src, err := os.ReadFile(path)
	if err != nil {
		fmt.Fprintln(os.Stderr, err)
		os.Exit(1)
	}
	f, err := parser.ParseFile(fset, path, src, parser.ParseComments)
	if err != nil {
		fmt.Fprintln(os.Stderr, err)
		os.Exit(1)
	}
	progs := map[string]string{}
	for _, d := range f.Decls {
		switch d := d.(type) {
		case *ast.FuncDecl:
			if d.Recv != nil {
				fail(d, "unexpected method %s", d.Name.Name)
				continue
			}
			switch d.Name.Name {
			case "ValidateRequest", "ValidateRequestContext":
				progs[d.Name.Name] = translate(d)
			default:
				fail(d, "unexpected function %s (package-level helpers are not modelled)", d.Name.Name)
			}
		case *ast.GenDecl:
			if d.Tok != token.IMPORT {
				fail(d, "unexpected package-level declaration (state outside the handler closure is not modelled)")
			}
		}
	}
	for _, n := range []string{"ValidateRequest", "ValidateRequestContext"} {
		if _, ok := progs[n]; !ok {
			fail(nil, "function %s not found", n)
		}
	}
	if len(errs) > 0 {
		for _, e := range errs {
			fmt.Fprintln(os.Stderr, "mwfacts: "+e)
		}
		os.Exit(1)
	}
	var sb strings.Builder
	fmt.Fprintf(&sb, "/- GENERATED by /verif/go/cmd/mwfacts from validation/middleware/middleware.go (sha256 %x) — do not edit -/\n", sha256.Sum256(src))
	sb.WriteString("import Gvlean.Gen.Mw\n\nnamespace Generated.Mw\nopen _root_.Mw\n\n")
	sb.WriteString("def validateRequest : List Stmt := " + progs["ValidateRequest"] + "\n\n")
	sb.WriteString("def validateRequestContext : List Stmt := " + progs["ValidateRequestContext"] + "\n\n")
	sb.WriteString("end Generated.Mw\n")
	if err := os.WriteFile(os.Args[2], []byte(sb.String()), 0o644); err != nil {
		fmt.Fprintln(os.Stderr, err)
		os.Exit(1)
	}
}
