package main

// helpers-race (C16): the exported runtime helpers of validation/validationhelper called concurrently under the race
// detector — shared and per-goroutine inputs, and MORE THAN 1024 distinct CEL expressions in one process (a cache of
// compiled programs has to stay safe when it grows, is trimmed or is reset). Results are also compared with the expected
// verdicts, so an update lost in a racy cache shows as a wrong answer even when the detector stays quiet.

import (
	"encoding/json"
	"fmt"
	"os"
	"os/exec"
	"path/filepath"
	"strings"
)

const hraceProgram = `package main

import (
	"fmt"
	"os"
	"sync"
	"sync/atomic"

	"github.com/sivchari/govalid/validation/validationhelper"
)

func main() {
	distinct := %d
	goroutines, iters := %d, %d
	var wrong atomic.Int64
	var first sync.Once
	bad := func(what string) {
		wrong.Add(1)
		first.Do(func() { fmt.Println("WRONG " + what) })
	}
	var wg sync.WaitGroup
	for g := 0; g < goroutines; g++ {
		wg.Add(1)
		go func(g int) {
			defer wg.Done()
			for i := 0; i < iters; i++ {
				n := (i*7 + g*131) %% distinct
				if got := validationhelper.IsValidCEL(fmt.Sprintf("value > %%d", n), i, nil); got != (i > n) {
					bad(fmt.Sprintf("IsValidCEL(value > %%d, %%d) = %%v", n, i, got))
				}
				if got := validationhelper.IsValidCEL("value >= 18", i, nil); got != (i >= 18) {
					bad(fmt.Sprintf("IsValidCEL(value >= 18, %%d) = %%v", i, got))
				}
				if !validationhelper.IsValidEmail(fmt.Sprintf("user%%d@example%%d.com", i, g)) || validationhelper.IsValidEmail(fmt.Sprintf("user%%d@@example%%d.com", i, g)) {
					bad("IsValidEmail")
				}
				if !validationhelper.IsValidURL(fmt.Sprintf("https://example.com/%%d/%%d", g, i)) || validationhelper.IsValidURL(fmt.Sprintf("https://exa mple.com/%%d", i)) {
					bad("IsValidURL")
				}
				if !validationhelper.IsValidUUID("550e8400-e29b-41d4-a716-446655440000") || validationhelper.IsValidUUID(fmt.Sprintf("550e8400-e29b-41d4-a716-44665544%%04d_", i%%10000)) {
					bad("IsValidUUID")
				}
				if !validationhelper.IsValidAlpha("abc") || !validationhelper.IsNumeric("123") {
					bad("IsValidAlpha/IsNumeric")
				}
			}
		}(g)
	}
	wg.Wait()
	fmt.Println("DONE wrong=", wrong.Load())
	if wrong.Load() != 0 {
		os.Exit(3)
	}
}
`

// hraceMain: harness helpers-race <tier> <workdir> <repo>
func hraceMain(args []string) {
	initEnv()
	tier := args[0]
	r := &runner{work: args[1], repo: args[2]}
	if err := r.setup(); err != nil {
		fmt.Fprintln(os.Stderr, err)
		os.Exit(2)
	}
	distinct, goroutines, iters := 1300, 8, 900
	if tier == "thorough" {
		distinct, goroutines, iters = 4200, 16, 2500
	}
	src := fmt.Sprintf(hraceProgram, distinct, goroutines, iters)
	dir := filepath.Join(r.mod(), "cmd", "hrace")
	_ = os.MkdirAll(dir, 0o755)
	_ = os.WriteFile(filepath.Join(dir, "main.go"), []byte(src), 0o644)
	bin := filepath.Join(r.work, "hrace")
	res := map[string]any{"distinct_cel_expressions": distinct, "goroutines": goroutines, "iterations": iters, "program": src}
	if o, c := r.cmd(r.mod(), "go", "build", "-race", "-o", bin, "./cmd/hrace"); c != 0 {
		fmt.Fprintln(os.Stderr, "helpers race program does not build:", tail(o, 3000))
		os.Exit(3)
	}
	c := exec.Command(bin)
	c.Env = goEnv
	o, err := c.CombinedOutput()
	text := string(o)
	res["ok"] = err == nil && !strings.Contains(text, "DATA RACE") && strings.Contains(text, "DONE wrong= 0")
	res["race"] = strings.Contains(text, "DATA RACE") || strings.Contains(text, "concurrent map")
	res["output"] = tail(text, 5000)
	_ = json.NewEncoder(out).Encode(res)
}
