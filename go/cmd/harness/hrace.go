package main

// helpers-race (C16): the exported runtime helpers of validation/validationhelper called concurrently under the race
// detector — shared and per-goroutine inputs, and MORE THAN 1024 distinct CEL expressions in one process (a cache of
// compiled programs has to stay safe when it grows, is trimmed or is reset). Results are also compared with the expected
// verdicts, so an update lost in a racy cache shows as a wrong answer even when the detector stays quiet.

import (
	"encoding/json"
	"fmt"
	"os"
	"os/exec"
	"path/filepath"
	"strings"
)

const hraceProgram = `package main

import (
	"fmt"
	"os"
	"sync"
	"sync/atomic"

	"github.com/sivchari/govalid/validation/validationhelper"
)

func main() {
	distinct := %d
	goroutines, iters := %d, %d
	var wrong atomic.Int64
	var first sync.Once
	bad := func(what string) {
		wrong.Add(1)
		first.Do(func() { fmt.Println("WRONG " + what) })
	}
	// UUIDs: accepted values of different kinds (nil, max in both cases, versions 1-5) validated concurrently with every
	// 8-byte-aligned SPLICE of two of them that is not a UUID itself — a verdict must not depend on what other callers
	// are validating at the same moment (a shared "last accepted" memo can be torn without any data race)
	accepted := []string{"00000000-0000-0000-0000-000000000000", "ffffffff-ffff-ffff-ffff-ffffffffffff", "FFFFFFFF-FFFF-FFFF-FFFF-FFFFFFFFFFFF",
		"550e8400-e29b-41d4-a716-446655440000", "f47ac10b-58cc-1372-8567-0e02b2c3d479", "6ba7b810-9dad-51d1-b0b4-00c04fd430c8", "6ba7b811-9dad-21d1-90b4-00c04fd430c8", "9b2d1b6c-3f3a-3e6b-a1c2-7d5e8f901234"}
	isAcc := map[string]bool{}
	for _, a := range accepted {
		isAcc[a] = true
	}
	var splices []string
	for _, a := range accepted {
		for _, b := range accepted {
			for _, cut := range []int{8, 16, 24, 28} {
				s := a[:cut] + b[cut:]
				if !isAcc[s] {
					splices = append(splices, s)
				}
			}
		}
	}
	// expected verdicts of the splices, from the documented grammar (computed without calling the function under test)
	wantUUID := func(s string) bool {
		if len(s) != 36 || s[8] != '-' || s[13] != '-' || s[18] != '-' || s[23] != '-' {
			return false
		}
		allSame := func(c1, c2 byte) bool {
			for i := 0; i < 36; i++ {
				if i == 8 || i == 13 || i == 18 || i == 23 {
					continue
				}
				if s[i] != c1 && s[i] != c2 {
					return false
				}
			}
			return true
		}
		for i := 0; i < 36; i++ {
			if i == 8 || i == 13 || i == 18 || i == 23 {
				continue
			}
			c := s[i]
			if !(c >= '0' && c <= '9' || c >= 'a' && c <= 'f' || c >= 'A' && c <= 'F') {
				return false
			}
		}
		if allSame('0', '0') || allSame('f', 'F') {
			return true
		}
		v, r := s[14], s[19]
		return v >= '1' && v <= '5' && (r == '8' || r == '9' || r == 'a' || r == 'b' || r == 'A' || r == 'B')
	}
	var wg sync.WaitGroup
	for g := 0; g < goroutines; g++ {
		wg.Add(1)
		go func(g int) {
			defer wg.Done()
			for i := 0; i < iters*4; i++ {
				a := accepted[(i+g)%%len(accepted)]
				if !validationhelper.IsValidUUID(a) {
					bad("IsValidUUID rejects " + a)
				}
				sp := splices[(i*13+g*7)%%len(splices)]
				if got := validationhelper.IsValidUUID(sp); got != wantUUID(sp) {
					bad(fmt.Sprintf("IsValidUUID(%%q) = %%v while other goroutines validate other UUIDs", sp, got))
				}
			}
		}(g)
	}
	for g := 0; g < goroutines; g++ {
		wg.Add(1)
		go func(g int) {
			defer wg.Done()
			for i := 0; i < iters; i++ {
				n := (i*7 + g*131) %% distinct
				if got := validationhelper.IsValidCEL(fmt.Sprintf("value > %%d", n), i, nil); got != (i > n) {
					bad(fmt.Sprintf("IsValidCEL(value > %%d, %%d) = %%v", n, i, got))
				}
				if got := validationhelper.IsValidCEL("value >= 18", i, nil); got != (i >= 18) {
					bad(fmt.Sprintf("IsValidCEL(value >= 18, %%d) = %%v", i, got))
				}
				if !validationhelper.IsValidEmail(fmt.Sprintf("user%%d@example%%d.com", i, g)) || validationhelper.IsValidEmail(fmt.Sprintf("user%%d@@example%%d.com", i, g)) {
					bad("IsValidEmail")
				}
				if !validationhelper.IsValidURL(fmt.Sprintf("https://example.com/%%d/%%d", g, i)) || validationhelper.IsValidURL(fmt.Sprintf("https://exa mple.com/%%d", i)) {
					bad("IsValidURL")
				}
				if !validationhelper.IsValidUUID("550e8400-e29b-41d4-a716-446655440000") || validationhelper.IsValidUUID(fmt.Sprintf("550e8400-e29b-41d4-a716-44665544%%04d_", i%%10000)) {
					bad("IsValidUUID")
				}
				if !validationhelper.IsValidAlpha("abc") || !validationhelper.IsNumeric("123") {
					bad("IsValidAlpha/IsNumeric")
				}
			}
		}(g)
	}
	wg.Wait()
	fmt.Println("DONE wrong=", wrong.Load())
	if wrong.Load() != 0 {
		os.Exit(3)
	}
}
`

// hraceMain: harness helpers-race <tier> <workdir> <repo>
func hraceMain(args []string) {
	initEnv()
	tier := args[0]
	r := &runner{work: args[1], repo: args[2]}
	if err := r.setup(); err != nil {
		fmt.Fprintln(os.Stderr, err)
		os.Exit(2)
	}
	distinct, goroutines, iters := 1300, 8, 900
	if tier == "thorough" {
		distinct, goroutines, iters = 4200, 16, 2500
	}
	src := fmt.Sprintf(hraceProgram, distinct, goroutines, iters)
	dir := filepath.Join(r.mod(), "cmd", "hrace")
	_ = os.MkdirAll(dir, 0o755)
	_ = os.WriteFile(filepath.Join(dir, "main.go"), []byte(src), 0o644)
	bin := filepath.Join(r.work, "hrace")
	res := map[string]any{"distinct_cel_expressions": distinct, "goroutines": goroutines, "iterations": iters, "program": src}
	if o, c := r.cmd(r.mod(), "go", "build", "-race", "-o", bin, "./cmd/hrace"); c != 0 {
		fmt.Fprintln(os.Stderr, "helpers race program does not build:", tail(o, 3000))
		os.Exit(3)
	}
	// several FRESH processes: in each one the very first calls of every helper happen concurrently (lazily built shared
	// state — an environment, a table — is initialised under contention only then)
	runs := 4
	if tier == "thorough" {
		runs = 10
	}
	ok, race, text := true, false, ""
	for i := 0; i < runs; i++ {
		c := exec.Command(bin)
		c.Env = goEnv
		o, err := c.CombinedOutput()
		t := string(o)
		if err != nil || strings.Contains(t, "DATA RACE") || !strings.Contains(t, "DONE wrong= 0") {
			ok = false
			race = race || strings.Contains(t, "DATA RACE") || strings.Contains(t, "concurrent map")
			if text == "" {
				text = fmt.Sprintf("process %d of %d: ", i+1, runs) + t
			}
		}
	}
	res["processes"] = runs
	res["ok"] = ok
	res["race"] = race
	res["output"] = tail(text, 5000)
	_ = json.NewEncoder(out).Encode(res)
}
