package main

// corr-cel (C10): the generator's CEL→Go translation against reference CEL evaluation (cel-go) on the
// same bindings. One package per expression; the compiled Validate() of every package is run on a
// value grid; the reference evaluates the same expression with `value` bound to the field and `this`
// to a map of the struct's fields.

import (
	"encoding/hex"
	"encoding/json"
	"fmt"
	"go/ast"
	"go/parser"
	"go/printer"
	"go/token"
	"math"
	"math/rand"
	"os"
	"os/exec"
	"path/filepath"
	"regexp"
	"sort"
	"strconv"
	"strings"
	"sync"
	"time"

	"github.com/google/cel-go/cel"
	exprpb "google.golang.org/genproto/googleapis/api/expr/v1alpha1"
)

type CelRow struct {
	ID      string   `json:"id"`
	Expr    string   `json:"expr"`
	FType   string   `json:"ftype"`
	Feats   []string `json:"feats"`
	Corpus  bool     `json:"corpus,omitempty"`
	RefErr  string   `json:"ref_compile_err,omitempty"` // reference CEL refuses the expression
	GenExit int      `json:"gen_exit"`
	GenErr  string   `json:"gen_err,omitempty"`
	File    bool     `json:"file"`
	Cond    string   `json:"cond,omitempty"` // text of the emitted condition
	Builds  bool     `json:"builds"`
	BuildEr string   `json:"build_err,omitempty"`
	Ast     string   `json:"ast,omitempty"`
	Values  []string `json:"values,omitempty"` // rendered bindings
	Ref     []string `json:"ref,omitempty"`    // true / false / err:<msg> / nonbool
	Obs     []string `json:"obs,omitempty"`    // ok / cel (CEL error reported) / panic / other
	Source  string   `json:"source,omitempty"`
	Ctx     string   `json:"ctx,omitempty"`  // ValidateContext(already cancelled ctx) on the first binding: canceled / nil / cel / other / panic
	Extra   string   `json:"extra,omitempty"` // extra marker lines on the field
}

// ---------------------------------------------------------------- AST → S-expression (for the Lean model)

func celSexp(e *exprpb.Expr) string {
	switch k := e.ExprKind.(type) {
	case *exprpb.Expr_IdentExpr:
		return "(ident " + hexs(k.IdentExpr.Name) + ")"
	case *exprpb.Expr_SelectExpr:
		if k.SelectExpr.TestOnly {
			return "(has " + celSexp(k.SelectExpr.Operand) + " " + hexs(k.SelectExpr.Field) + ")"
		}
		return "(select " + celSexp(k.SelectExpr.Operand) + " " + hexs(k.SelectExpr.Field) + ")"
	case *exprpb.Expr_CallExpr:
		var parts []string
		for _, a := range k.CallExpr.Args {
			parts = append(parts, celSexp(a))
		}
		if k.CallExpr.Target != nil {
			return "(mcall " + hexs(k.CallExpr.Function) + " " + celSexp(k.CallExpr.Target) + " " + strings.Join(parts, " ") + ")"
		}
		return "(call " + hexs(k.CallExpr.Function) + " " + strings.Join(parts, " ") + ")"
	case *exprpb.Expr_ConstExpr:
		switch c := k.ConstExpr.ConstantKind.(type) {
		case *exprpb.Constant_BoolValue:
			if c.BoolValue {
				return "(cbool 1)"
			}
			return "(cbool 0)"
		case *exprpb.Constant_Int64Value:
			return fmt.Sprintf("(cint %d)", c.Int64Value)
		case *exprpb.Constant_Uint64Value:
			return fmt.Sprintf("(cuint %d)", c.Uint64Value)
		case *exprpb.Constant_DoubleValue:
			return fmt.Sprintf("(cdouble %016x %s)", math.Float64bits(c.DoubleValue), hexs(fmt.Sprintf("%g", c.DoubleValue)))
		case *exprpb.Constant_StringValue:
			return "(cstring " + hexs(c.StringValue) + " " + hexs(fmt.Sprintf("%q", c.StringValue)) + ")"
		case *exprpb.Constant_BytesValue:
			return "(cbytes " + hexs(string(c.BytesValue)) + ")"
		default:
			return "(cnull)"
		}
	case *exprpb.Expr_ListExpr:
		var parts []string
		for _, a := range k.ListExpr.Elements {
			parts = append(parts, celSexp(a))
		}
		return "(list " + strings.Join(parts, " ") + ")"
	case *exprpb.Expr_StructExpr:
		return "(struct)"
	case *exprpb.Expr_ComprehensionExpr:
		c := k.ComprehensionExpr
		return "(compr " + hexs(c.IterVar) + " " + celSexp(c.IterRange) + " " + hexs(c.AccuVar) + " " + celSexp(c.AccuInit) + " " + celSexp(c.LoopCondition) + " " + celSexp(c.LoopStep) + " " + celSexp(c.Result) + ")"
	}
	return "(unknown)"
}

// ---------------------------------------------------------------- values

type celVal struct {
	GoLit string
	Cel   any
	Show  string
}

func iv(goType string, x int64) celVal {
	return celVal{GoLit: fmt.Sprintf("%s(%d)", goType, x), Cel: x, Show: strconv.FormatInt(x, 10)}
}
func uv(goType string, x uint64) celVal {
	return celVal{GoLit: fmt.Sprintf("%s(%d)", goType, x), Cel: x, Show: strconv.FormatUint(x, 10) + "u"}
}
func fv(x float64) celVal {
	return celVal{GoLit: fmt.Sprintf("math.Float64frombits(0x%x)", math.Float64bits(x)), Cel: x, Show: fmt.Sprint(x)}
}
func sv(s string) celVal { return celVal{GoLit: strconv.Quote(s), Cel: s, Show: strconv.Quote(s)} }
func bv(b bool) celVal   { return celVal{GoLit: fmt.Sprint(b), Cel: b, Show: fmt.Sprint(b)} }
func lsv(xs ...string) celVal {
	if xs == nil {
		return celVal{GoLit: "[]string(nil)", Cel: []string{}, Show: "nil"}
	}
	var q []string
	for _, x := range xs {
		q = append(q, strconv.Quote(x))
	}
	return celVal{GoLit: "[]string{" + strings.Join(q, ", ") + "}", Cel: xs, Show: "[" + strings.Join(q, ",") + "]"}
}
func liv(xs ...int64) celVal {
	var q []string
	for _, x := range xs {
		q = append(q, strconv.FormatInt(x, 10))
	}
	if xs == nil {
		xs = []int64{}
	}
	return celVal{GoLit: "[]int{" + strings.Join(q, ", ") + "}", Cel: xs, Show: "[" + strings.Join(q, ",") + "]"}
}
func lbv(xs ...bool) celVal {
	var q []string
	for _, x := range xs {
		q = append(q, fmt.Sprint(x))
	}
	if xs == nil {
		xs = []bool{}
	}
	return celVal{GoLit: "[]bool{" + strings.Join(q, ", ") + "}", Cel: xs, Show: "[" + strings.Join(q, ",") + "]"}
}
func mv(kv ...any) celVal {
	m := map[string]int64{}
	var q, sh []string
	for i := 0; i+1 < len(kv); i += 2 {
		k, v := kv[i].(string), int64(kv[i+1].(int))
		m[k] = v
		q = append(q, fmt.Sprintf("%q: %d", k, v))
		sh = append(sh, fmt.Sprintf("%q:%d", k, v))
	}
	return celVal{GoLit: "map[string]int{" + strings.Join(q, ", ") + "}", Cel: m, Show: "{" + strings.Join(sh, ",") + "}"}
}
func dv(d time.Duration) celVal {
	return celVal{GoLit: fmt.Sprintf("time.Duration(%d)", int64(d)), Cel: d, Show: d.String()}
}

func intRangeOf(t string) (int64, int64, bool) {
	switch t {
	case "int8":
		return math.MinInt8, math.MaxInt8, true
	case "int16":
		return math.MinInt16, math.MaxInt16, true
	case "int32":
		return math.MinInt32, math.MaxInt32, true
	case "int", "int64":
		return math.MinInt64, math.MaxInt64, true
	}
	return 0, 0, false
}

func uintMaxOf(t string) (uint64, bool) {
	switch t {
	case "uint8":
		return math.MaxUint8, true
	case "uint16":
		return math.MaxUint16, true
	case "uint32":
		return math.MaxUint32, true
	case "uint", "uint64":
		return math.MaxUint64, true
	}
	return 0, false
}

func valuesFor(t string) []celVal {
	if lo, hi, ok := intRangeOf(t); ok {
		out := []celVal{iv(t, 0), iv(t, 1), iv(t, -1), iv(t, 2), iv(t, 3), iv(t, 5), iv(t, 10), iv(t, 17), iv(t, 18), iv(t, 42), iv(t, 100), iv(t, -7), iv(t, lo), iv(t, hi), iv(t, hi-1), iv(t, lo+1)}
		if hi > 1000 {
			out = append(out, iv(t, 1000), iv(t, -1000), iv(t, 65))
		}
		return out
	}
	if hi, ok := uintMaxOf(t); ok {
		out := []celVal{uv(t, 0), uv(t, 1), uv(t, 2), uv(t, 3), uv(t, 5), uv(t, 10), uv(t, 18), uv(t, 100), uv(t, hi), uv(t, hi-1)}
		return out
	}
	switch t {
	case "float64":
		return []celVal{fv(0), fv(math.Copysign(0, -1)), fv(0.5), fv(1), fv(-1), fv(1.5), fv(2), fv(100), fv(100.5), fv(-0.25), fv(1e300), fv(-1e300), fv(math.Inf(1)), fv(math.Inf(-1)), fv(math.NaN()), fv(5e-324),
			fv(16777217), fv(16777216), fv(0.123456789), fv(float64(float32(0.123456789))), fv(1234567.89), fv(float64(float32(1234567.89))), fv(0.1), fv(float64(float32(0.1)))}
	case "string":
		return []celVal{sv(""), sv("a"), sv("abc"), sv("prefix_x"), sv("x.com"), sv("a@b"), sv("héllo"), sv("日本語"), sv("Abc"), sv("active"), sv("12"), sv("-3"), sv("12abc"), sv("\xff\xfe"), sv("a b c d e f"), sv("pending"), sv("a  b"), sv("a b"), sv("x\ty"), sv("x y"), sv("true"), sv("false")}
	case "bool":
		return []celVal{bv(true), bv(false)}
	case "[]string":
		return []celVal{lsv(), lsv([]string{}...), {GoLit: "[]string{}", Cel: []string{}, Show: "[]"}, lsv("a"), lsv("a", "b"), lsv("admin", "x"), lsv("", "a"), lsv("prefix1", "prefix2"), lsv("prefix1", "other"), lsv("target", "target"), lsv("unique", "b", "c"), lsv("é", "日本"), lsv("", "a", "", "b"), lsv("x", "prefix1", "", "prefix2")}
	case "[][]int":
		mk := func(rows ...[]int64) celVal {
			var q, sh []string
			for _, r := range rows {
				var e []string
				for _, x := range r {
					e = append(e, strconv.FormatInt(x, 10))
				}
				q = append(q, "{"+strings.Join(e, ", ")+"}")
				sh = append(sh, "["+strings.Join(e, ",")+"]")
			}
			if rows == nil {
				rows = [][]int64{}
			}
			return celVal{GoLit: "[][]int{" + strings.Join(q, ", ") + "}", Cel: rows, Show: "[" + strings.Join(sh, ",") + "]"}
		}
		return []celVal{mk([]int64{1, 2}, []int64{3, 4}, []int64{5, 6}), mk(), mk([]int64{}), mk([]int64{1}, []int64{-1, 7}), mk([]int64{1, 2, 3}, []int64{4, 5, 6}, []int64{0, 7, 8}, []int64{9})}
	case "[]int":
		return []celVal{{GoLit: "[]int(nil)", Cel: []int64{}, Show: "nil"}, liv(), liv(1), liv(1, 2, 3), liv(0, -1), liv(5, 5), liv(10, 20, 30, 40), liv(-1, 5, -3, 7), liv(200, -1, 50)}
	case "[]bool":
		return []celVal{{GoLit: "[]bool(nil)", Cel: []bool{}, Show: "nil"}, lbv(), lbv(true), lbv(false), lbv(true, false), lbv(false, true), lbv(true, true, true), lbv(false, false, true, false)}
	case "map[string]int":
		return []celVal{{GoLit: "map[string]int(nil)", Cel: map[string]int64{}, Show: "nil"}, mv(), mv("a", 1), mv("a", 1, "b", 2), mv("k", 0), mv("admin", 5, "x", -1), mv("1", 1, "2", 2, "3", 3)}
	case "Span":
		mk := func(a, b int64) celVal {
			return celVal{GoLit: fmt.Sprintf("Span{A: %d, B: %d}", a, b), Cel: map[string]any{"A": a, "B": b}, Show: fmt.Sprintf("Span{%d,%d}", a, b)}
		}
		return []celVal{mk(1, 2), mk(2, 1), mk(0, 0), mk(-5, 5)}
	case "time.Duration":
		return []celVal{dv(0), dv(time.Second), dv(30 * time.Minute), dv(time.Hour), dv(time.Hour + 1), dv(2 * time.Hour), dv(-time.Hour), dv(math.MaxInt64), dv(math.MinInt64)}
	}
	panic("no values for " + t)
}

// bindings of the other fields of the struct (this.X …)
type others struct {
	X, Y int64
	S    string
	B    bool
	L    []string
	D    float64
}

var otherGrid = []others{
	{X: 0, Y: 1, S: "", B: false, L: nil, D: 0},
	{X: 3, Y: -2, S: "héllo", B: true, L: []string{"a", "b"}, D: 1.5},
	{X: 18, Y: 18, S: "abc", B: false, L: []string{"abc"}, D: -2},
	{X: -5, Y: 7, S: "12", B: true, L: []string{"x", "admin", "12"}, D: 100},
	// zero divisors and a string that is not a regular expression (C17: the reference errs, the generated code must not panic)
	{X: 1, Y: 0, S: "(", B: true, L: []string{}, D: 0},
}

func (o others) litsFor(c celCase) string {
	if c.TypeExpr != "" {
		return fmt.Sprintf("X: %d, Y: %d", o.X, o.Y)
	}
	return o.lits()
}

func (o others) lits() string {
	var q []string
	for _, x := range o.L {
		q = append(q, strconv.Quote(x))
	}
	l := "nil"
	if o.L != nil {
		l = "[]string{" + strings.Join(q, ", ") + "}"
	}
	return fmt.Sprintf("X: %d, Y: %d, S: %q, B: %v, L: %s, D: %v", o.X, o.Y, o.S, o.B, l, o.D)
}

// ---------------------------------------------------------------- typed expression grammar

type celGen struct {
	rng   *rand.Rand
	feats map[string]bool
	ftype string
}

func (g *celGen) feat(f string) { g.feats[f] = true }
func (g *celGen) pick(xs ...string) string { return xs[g.rng.Intn(len(xs))] }

func (g *celGen) isInt() bool   { _, _, ok := intRangeOf(g.ftype); return ok }
func (g *celGen) isUint() bool  { _, ok := uintMaxOf(g.ftype); return ok }

// intTerm: an expression of CEL type int (when the field is a signed integer) built from value, this.X, this.Y, literals
func (g *celGen) intTerm(depth int, allowValue bool) string {
	if depth <= 0 || g.rng.Intn(3) == 0 {
		switch g.rng.Intn(6) {
		case 0, 1:
			if allowValue {
				return "value"
			}
			return "this.X"
		case 2:
			g.feat("this")
			return g.pick("this.X", "this.Y")
		default:
			return g.pick("0", "1", "2", "3", "5", "10", "18", "100", "1000")
		}
	}
	switch g.rng.Intn(10) {
	case 0, 1:
		g.feat("add")
		return g.intTerm(depth-1, allowValue) + " + " + g.intTerm(depth-1, allowValue)
	case 2:
		g.feat("sub")
		return g.intTerm(depth-1, allowValue) + " - " + g.intTerm(depth-1, allowValue)
	case 3, 4:
		g.feat("mul")
		return g.intTerm(depth-1, allowValue) + " * " + g.intTerm(depth-1, allowValue)
	case 5, 6:
		// a parenthesised BINARY operation (the parentheses of a bare operand are dropped by the CEL parser anyway):
		// as the right operand of * / % - or the left operand of * / % the grouping matters
		g.feat("paren-arith")
		op := g.pick("+", "-", "*", "/", "%")
		rhs := g.intTerm(depth-1, allowValue)
		if op == "/" || op == "%" {
			rhs = g.pick("2", "3", "-2", "this.Y")
			g.feat(map[string]string{"/": "div", "%": "mod"}[op])
		}
		return "(" + g.intTerm(depth-1, allowValue) + " " + op + " " + rhs + ")"
	case 7:
		g.feat("size")
		g.feat("this")
		return g.pick("size(this.S)", "size(this.L)")
	case 8:
		g.feat("div")
		return g.intTerm(depth-1, allowValue) + " / " + g.pick("2", "3", "-2", "this.Y")
	default:
		g.feat("neg")
		return "-" + g.intTerm(0, allowValue)
	}
}

func (g *celGen) cmp() string { return g.pick(">", ">=", "<", "<=", "==", "!=") }

// atomic boolean expression about the field
func (g *celGen) atom(depth int) string {
	t := g.ftype
	switch {
	case g.isInt():
		switch g.rng.Intn(12) {
		case 0:
			g.feat("in-list")
			return "value in [" + g.pick("1, 2, 3", "0", "18, 42, 100", "-1, 1") + "]"
		case 1:
			g.feat("mod")
			return "value % " + g.pick("2", "3", "10") + " == " + g.pick("0", "1")
		case 2:
			g.feat("ternary")
			return "(" + g.intTerm(1, true) + " " + g.cmp() + " " + g.intTerm(0, true) + " ? " + g.intTerm(1, true) + " : " + g.intTerm(1, true) + ") " + g.cmp() + " " + g.intTerm(0, true)
		case 3:
			g.feat("int-conv")
			g.feat("this")
			return "int(this.S) " + g.cmp() + " value"
		case 4:
			g.feat("double-conv")
			return "double(value) " + g.cmp() + " " + g.pick("0.5", "17.5", "100.0")
		case 5:
			g.feat("string-conv")
			return "string(value) == " + g.pick("'42'", "'0'", "'-1'")
		case 6:
			g.feat("literal-left")
			return g.pick("0", "1", "5", "18", "100") + " " + g.cmp() + " " + g.intTerm(1, true)
		default:
			g.feat("cmp")
			return g.intTerm(depth+g.rng.Intn(2), true) + " " + g.cmp() + " " + g.intTerm(depth, true)
		}
	case g.isUint():
		switch g.rng.Intn(5) {
		case 0:
			g.feat("uint-lit")
			return "value " + g.cmp() + " " + g.pick("0u", "5u", "100u")
		case 1:
			g.feat("add")
			return "value + " + g.pick("1u", "10u") + " " + g.cmp() + " " + g.pick("5u", "100u")
		case 2:
			g.feat("sub")
			return "value - " + g.pick("1u", "10u") + " " + g.cmp() + " " + g.pick("5u", "100u")
		default:
			g.feat("cmp")
			g.feat("uint-vs-int-lit")
			return "value " + g.cmp() + " " + g.pick("0", "1", "5", "18", "100", "255")
		}
	case t == "float64":
		switch g.rng.Intn(6) {
		case 0:
			g.feat("mul")
			return "value * " + g.pick("2.0", "0.5") + " " + g.cmp() + " " + g.pick("1.0", "100.0", "0.0")
		case 1:
			g.feat("add")
			return "value + " + g.pick("1.0", "0.25", "this.D") + " " + g.cmp() + " " + g.pick("1.0", "100.5")
		case 2:
			g.feat("div")
			return "value / " + g.pick("2.0", "this.D") + " " + g.cmp() + " " + g.pick("1.0", "0.0")
		case 3:
			g.feat("double-vs-int-lit")
			return "value " + g.cmp() + " " + g.pick("0", "1", "100")
		default:
			g.feat("cmp")
			return "value " + g.cmp() + " " + g.pick("0.0", "0.5", "1.0", "100.0", "1e300", "-0.25", "this.D", "16777217.0", "0.123456789", "1234567.89", "0.1")
		}
	case t == "string":
		switch g.rng.Intn(14) {
		case 0, 1:
			g.feat("size")
			return "size(value) " + g.cmp() + " " + g.pick("0", "1", "3", "5", "size(this.S)")
		case 2:
			g.feat("method")
			return "value.startsWith(" + g.pick("'prefix_'", "'a'", "''", "'h\\u00e9'") + ")"
		case 3:
			g.feat("method")
			return "value.endsWith(" + g.pick("'.com'", "'c'", "''") + ")"
		case 4:
			g.feat("method")
			return "value.contains(" + g.pick("'@'", "'b'", "''", "'\\u672c'", "this.S") + ")"
		case 5:
			g.feat("matches")
			return "value.matches(" + g.pick("'^[A-Z][a-z]+$'", "'^[a-z]*$'", "'b'", "'^\\\\d+$'", "'.'") + ")"
		case 6:
			g.feat("in-list")
			return "value in [" + g.pick("'active', 'inactive', 'pending'", "'a'", "'', 'abc'") + "]"
		case 7:
			g.feat("in-field")
			g.feat("this")
			return "value in this.L"
		case 8:
			g.feat("string-conv")
			g.feat("in-list")
			return "string(value) in ['active', 'inactive', 'pending']"
		case 9:
			g.feat("int-conv")
			return "int(value) " + g.cmp() + " " + g.pick("18", "0", "12")
		case 10:
			g.feat("concat")
			return "value + " + g.pick("'x'", "this.S") + " == " + g.pick("'ax'", "'abc'", "'abcabc'")
		case 11:
			g.feat("fn-style")
			return g.pick("startsWith(value, 'a')", "contains(value, 'b')", "endsWith(value, 'c')", "matches(value, '^a')")
		default:
			g.feat("cmp")
			return "value " + g.cmp() + " " + g.pick("'abc'", "''", "'a'", "this.S", "'h\\u00e9llo'")
		}
	case t == "bool":
		switch g.rng.Intn(4) {
		case 0:
			g.feat("bare-bool")
			return "value"
		case 1:
			g.feat("this")
			return "value == this.B"
		default:
			g.feat("cmp")
			return "value " + g.pick("==", "!=") + " " + g.pick("true", "false")
		}
	case t == "[]string":
		switch g.rng.Intn(10) {
		case 0, 1:
			g.feat("size")
			return "size(value) " + g.cmp() + " " + g.pick("0", "1", "2", "10")
		case 2:
			g.feat("in-field")
			return g.pick("'admin'", "'a'", "''", "this.S") + " in value"
		case 3:
			g.feat("all")
			return "value.all(item, " + g.pick("size(item) > 0", "item.startsWith('prefix')", "item != ''", "item == 'a' || item == 'b'") + ")"
		case 4:
			g.feat("exists")
			return "value.exists(item, " + g.pick("item == 'target'", "item.contains('@')", "size(item) == 0", "item == this.S") + ")"
		case 5:
			g.feat("exists_one")
			return "value.exists_one(item, " + g.pick("item == 'unique'", "item == 'target'", "size(item) > 0") + ")"
		case 6:
			g.feat("filter")
			return "size(value.filter(item, " + g.pick("item.startsWith('prefix')", "item != ''", "size(item) > 1") + ")) " + g.cmp() + " " + g.pick("0", "1", "2")
		case 7:
			g.feat("map")
			return "size(value.map(item, size(item))) == size(value)"
		case 8:
			g.feat("index")
			return "size(value) > 0 && value[0] == " + g.pick("'a'", "'admin'")
		default:
			g.feat("cmp-list")
			return "value == " + g.pick("['a']", "['a', 'b']", "[]")
		}
	case t == "[]int":
		switch g.rng.Intn(6) {
		case 0:
			g.feat("size")
			return "size(value) " + g.cmp() + " " + g.pick("0", "1", "3")
		case 1:
			g.feat("in-field")
			return g.pick("1", "5", "0", "this.X") + " in value"
		case 2:
			g.feat("all")
			return "value.all(x, " + g.pick("x > 0", "x != 5", "x >= this.X") + ")"
		case 3:
			g.feat("exists")
			return "value.exists(x, " + g.pick("x == 5", "x < 0", "x * 2 > 30") + ")"
		case 4:
			g.feat("exists_one")
			return "value.exists_one(x, " + g.pick("x == 5", "x > 0") + ")"
		default:
			g.feat("filter")
			return "size(value.filter(x, x > " + g.pick("0", "2", "10") + ")) " + g.cmp() + " " + g.pick("0", "1", "2")
		}
	case t == "[]bool":
		// elements are booleans: an index expression stands in BOOLEAN position, where an untranslated node
		// (the literal `true`) still compiles
		switch g.rng.Intn(6) {
		case 0:
			g.feat("size")
			return "size(value) " + g.cmp() + " " + g.pick("0", "1", "3")
		case 1:
			g.feat("index-bool")
			return "size(value) > 0 && value[0]"
		case 2:
			g.feat("index-bool")
			return "value[" + g.pick("0", "1", "size(value) - 1", "this.X", "this.Y") + "]"
		case 3:
			g.feat("all")
			return "value.all(b, " + g.pick("b", "!b", "b == this.B") + ")"
		case 4:
			g.feat("exists")
			return "value.exists(b, " + g.pick("b", "!b") + ")"
		default:
			g.feat("in-field")
			return g.pick("true", "false", "this.B") + " in value"
		}
	case t == "map[string]int":
		switch g.rng.Intn(5) {
		case 0, 1:
			g.feat("size")
			return "size(value) " + g.cmp() + " " + g.pick("0", "1", "2")
		case 2:
			g.feat("in-map")
			return g.pick("'a'", "'admin'", "'k'", "this.S") + " in value"
		case 3:
			g.feat("map-all")
			return "value.all(k, " + g.pick("size(k) > 0", "k != 'x'", "value[k] > 0") + ")"
		default:
			g.feat("map-exists")
			return "value.exists(k, " + g.pick("k == 'a'", "value[k] == 0") + ")"
		}
	case t == "time.Duration":
		g.feat("duration")
		return "value " + g.cmp() + " duration(" + g.pick("'1h'", "'30m'", "'0s'", "'-1h'", "'1h0m1s'") + ")"
	}
	panic("no grammar for " + t)
}

func (g *celGen) boolExpr(depth int) string {
	if depth <= 0 || g.rng.Intn(5) < 2 {
		return g.atom(2)
	}
	switch g.rng.Intn(8) {
	case 0, 1:
		g.feat("and")
		return g.boolExpr(depth-1) + " && " + g.boolExpr(depth-1)
	case 2, 3:
		g.feat("or")
		return g.boolExpr(depth-1) + " || " + g.boolExpr(depth-1)
	case 4:
		g.feat("not")
		return "!(" + g.boolExpr(depth-1) + ")"
	case 5:
		g.feat("paren-bool")
		return "(" + g.boolExpr(depth-1) + ")"
	case 6:
		g.feat("this")
		g.feat("and")
		return g.boolExpr(depth-1) + " && this.B"
	default:
		g.feat("ternary-bool")
		return g.boolExpr(depth-1) + " ? " + g.boolExpr(depth-1) + " : " + g.boolExpr(depth-1)
	}
}

type celCase struct {
	ID     string
	Expr   string
	FType  string
	Feats  []string
	Corpus bool
	Extra  string // extra marker lines written before the cel marker
	Pre    bool   // a field `G int` with //govalid:gt=0 declared BEFORE the cel field and left at 0: a rule that has already failed when the cel field's cancellation point is reached
	TypeExpr string // a second cel expression written on the struct declaration (applies to every field; the struct then has int fields only)
}

var celFieldTypes = []string{"int", "int64", "int8", "int16", "int32", "uint", "uint8", "uint32", "uint64", "float64", "string", "bool", "[]string", "[]int", "[]bool", "map[string]int", "time.Duration"}

// celCorpus: fixed expressions — the golden fixture of the repository, and one representative of every
// construct (run first; known deviations are listed in known_findings.json by exact (type, expression))
func celCorpus() []celCase {
	raw := [][2]string{
		{"int", "value >= 18"}, {"float64", "value > 0.0"}, {"int", "value <= 100"}, {"int", "value == 42"}, {"int", "value != 0"},
		{"string", "size(value) > 0"}, {"string", "size(value) >= 3 && size(value) <= 50"}, {"string", "value.startsWith('prefix_')"},
		{"string", "value.endsWith('.com')"}, {"string", "value.contains('@')"}, {"bool", "value == true"}, {"bool", "value != false"},
		{"int", "value >= 0 && value <= 120"}, {"float64", "value > 0.0 && value <= 100.0"}, {"int", "value >= this.X"},
		{"string", "size(value) >= size(this.S)"}, {"int", "value > this.X && value < this.Y"}, {"int", "value >= this.X * 2"},
		{"int", "value <= this.X / 2"}, {"int", "value == this.X + this.Y"}, {"int", "(value >= 18 && value <= 65) || value == 100"},
		{"int", "value > 0 || (value == 0 && this.B)"}, {"string", "value.matches('^[A-Z][a-z]+$')"}, {"[]string", "size(value) >= 1 && size(value) <= 10"},
		{"map[string]int", "size(value) > 0"}, {"[]string", "'admin' in value"}, {"string", "int(value) >= 18"},
		{"string", "string(value) in ['active', 'inactive', 'pending']"}, {"time.Duration", "value > duration('1h')"},
		{"[]string", "value.all(item, size(item) > 0)"}, {"[]string", "value.exists(item, item == 'target')"},
		{"[]string", "value.exists_one(item, item == 'unique')"}, {"[]string", "value.all(item, item.startsWith('prefix'))"},
		{"[]string", "value.exists(item, item.contains('@'))"}, {"[]string", "size(value.filter(item, item.startsWith('prefix'))) > 0"},
		{"[]string", "size(value.map(item, size(item))) == size(value)"},
		// one representative per construct outside the fixture
		{"bool", "!value"}, {"int", "!(value > 5)"}, {"int", "-value < 0"}, {"int", "value % 2 == 0"},
		{"int", "(value + 1) * 2 > 10"}, {"int", "value - (this.X - this.Y) > 0"}, {"int", "value * (this.X + 1) >= 10"},
		{"int8", "value + 100 > 0"}, {"int8", "value * 2 < 300"}, {"uint8", "value - 1u < 5u"}, {"uint8", "value > 5"},
		{"string", "size(value) == 5"}, {"string", "value.contains(this.S)"}, {"string", "value.matches(this.S)"},
		{"int64", "value in [1, 2, 3]"}, {"int8", "value in [1, 2, 3]"}, {"int", "value in [1, 2, 3]"}, {"string", "value in this.L"},
		{"int", "(value > 5 ? 1 : 0) == 1"}, {"int", "(value > 5 ? this.X : this.Y) > 0"}, {"bool", "value ? this.B : !this.B"},
		{"int", "value / this.Y > 1"}, {"int", "value / 0 > 1 || true"}, {"float64", "value > 0"}, {"float64", "value == 1"},
		{"map[string]int", "value.all(k, size(k) > 0)"}, {"map[string]int", "'a' in value"}, {"map[string]int", "value.exists(k, k == 'a')"},
		{"[]int", "value.all(x, x > 0)"}, {"[]int", "1 in value"}, {"[]int", "value.exists_one(x, x == 5)"},
		{"string", "value + 'x' == 'ax'"}, {"string", "value < 'b'"}, {"string", "startsWith(value, 'a')"},
		{"int", "double(value) > 17.5"}, {"int", "string(value) == '42'"}, {"string", "double(value) > 1.5"},
		{"int", "value == 1 || value == 2 && this.B"}, {"float64", "value <= 16777217.0"},
		{"string", "value == 'a  b'"}, {"string", "value.contains('a  b')"}, {"string", "value in ['a  b', 'c']"}, {"string", "value != 'x\ty'"}, {"string", "value.startsWith('x  ')"},
		{"string", "value.matches('^(?:ab|cd)+$')"}, {"string", "value.matches('^ab?.d$')"}, {"string", "!value.contains('..')"}, {"string", "value != '${HOME}'"},
		{"string", "value.contains('.trim(')"}, {"string", "value == '[1:3]'"}, {"string", "value.startsWith('range(')"},
		{"[][]int", "value.all(row, row.all(c, c > 0))"}, {"[][]int", "value.exists(row, row.exists(c, c == 7))"}, {"[][]int", "value.all(row, size(row) > 0 && row.all(c, c >= 0))"}, {"[]int", "value.filter(x, x > 0).all(y, y < 100)"}, {"[]int", "value.filter(x, x > 0).exists(y, y == 7)"},
		{"[]string", "value.filter(s, s != '').exists(u, u == 'a')"}, {"[]string", "value.filter(s, s.startsWith('prefix')).all(u, size(u) > 6)"}, {"[]int", "size(value.filter(x, x > 0).map(y, y * 2)) == 2"}, {"int", "18 <= value"}, {"int", "0 < value"}, {"int", "100 > value"}, {"float64", "0.5 < value"}, {"string", "'abc' <= value"}, {"uint8", "5u >= value"}, {"float64", "value == 0.1"}, {"float64", "value < 0.123456789"}, {"int", "has(this.X)"}, {"string", "value == \"it's\""}, {"string", "value == 'say \"hi\"'"},
		{"string", "value.size() > 2"}, {"[]string", "value.size() > 1"}, {"[]string", "value[0] == 'a'"}, {"time.Duration", "value < duration('30m')"},
		{"string", "value.trim() == 'a'"}, {"int", "math.abs(value) > 1"}, {"int", "value ?: 1"},
		// constructs of the standard library without a translation, in BOOLEAN position (an untranslated node rendered as
		// the literal `true` would still compile there)
		{"[]bool", "value[0]"}, {"[]bool", "value[0] || size(value) == 0"}, {"[]bool", "size(value) > 1 && !value[1]"}, {"[]bool", "value[size(value) - 1]"},
		{"[]bool", "value[this.X]"}, {"[]bool", "value[this.Y]"}, {"string", "bool(value)"}, {"string", "!bool(value)"}, {"[]bool", "value.all(b, b)"}, {"[]bool", "true in value"},
		// explicit grouping on the RIGHT of an operator of the same precedence class, and on the left of a higher one
		{"int", "value * (this.X / this.Y) > 3"}, {"int", "value * (this.X % 3) == 2"}, {"int", "value + (this.X - this.Y) > 0"}, {"int", "value - (this.X + this.Y) < 0"},
		{"int", "value / (this.X * 2) > 0"}, {"int", "value % (this.X + 2) == 1"}, {"int", "value - (this.X - (this.Y - 1)) > 0"}, {"int", "(value - this.X) * (value + this.Y) > 0"},
		{"int", "value * (10 / 4) == 20"}, {"int", "2 * (value / 2) == value"}, {"int64", "value * (this.X / 2) >= value"},
		{"float64", "value + (0.2 + 0.3) == 0.6"}, {"float64", "value * (this.D / 3.0) > 1.0"}, {"float64", "value - (this.D - 0.5) > 0.0"}, {"float64", "value / (this.D * 2.0) < 1.0"},
		{"uint8", "value * (7u / 2u) > 5u"}, {"uint", "value - (3u - 1u) > 0u"},
		{"bool", "value && (this.B || !value)"}, {"bool", "value || (this.B && !value)"}, {"int", "value > 1 && (value < 5 || this.B) && this.X >= 0"},
		// both operands are the SAME expression: equal for everything except NaN (reference: NaN == NaN is false)
		{"float64", "value == value"}, {"float64", "value != value"}, {"float64", "value == value || value > 1.0"}, {"int", "value == value"}, {"string", "value == value"},
		{"float64", "double(value) == double(value)"},
		{"string", "matches(value, '^a')"}, {"string", "matches(value, '^[a-z]+$')"}, {"string", "contains(value, 'b')"}, {"string", "endsWith(value, 'c')"}, {"string", "matches(value, this.S)"},
		{"string", "value.matches('^a') || bool(value)"}, {"map[string]int", "has(value.a)"}, {"int", "has(this.X) && value > 0"},
	}
	var out []celCase
	for i, r := range raw {
		out = append(out, celCase{ID: fmt.Sprintf("k%03d", i), FType: r[0], Expr: r[1], Feats: []string{"corpus"}, Corpus: true})
	}
	// a field of a named struct type: `required` emits no check for it, the cel rule does
	out = append(out,
		// a cel rule next to an ordinary rule that compiles to the very same condition: both must be reported
		celCase{ID: "t000", FType: "int", Expr: "value >= 18", Feats: []string{"corpus", "cel+same-rule"}, Corpus: true, Extra: "\t//govalid:gte=18\n"},
		celCase{ID: "t001", FType: "int", Expr: "value < 100", Feats: []string{"corpus", "cel+same-rule"}, Corpus: true, Extra: "\t//govalid:lt=100\n"},
		celCase{ID: "t002", FType: "int64", Expr: "value > 0", Feats: []string{"corpus", "cel+same-rule"}, Corpus: true, Extra: "\t//govalid:gt=0\n"},
		celCase{ID: "t003", FType: "int", Expr: "value >= 21", Feats: []string{"corpus", "cel+other-rule"}, Corpus: true, Extra: "\t//govalid:gte=18\n"},
		celCase{ID: "t004", FType: "string", Expr: "size(value) > 2", Feats: []string{"corpus", "cel+other-rule"}, Corpus: true, Extra: "\t//govalid:required\n"},
		// a rule that has already failed before the cel field's cancellation point (C15), with division by a field
		celCase{ID: "p000", FType: "int", Expr: "value / this.Y >= 1", Feats: []string{"corpus", "pre-failed-rule", "div"}, Corpus: true, Pre: true},
		celCase{ID: "p001", FType: "int", Expr: "value % this.Y == 0", Feats: []string{"corpus", "pre-failed-rule", "mod"}, Corpus: true, Pre: true},
		celCase{ID: "p002", FType: "int", Expr: "value >= 18", Feats: []string{"corpus", "pre-failed-rule"}, Corpus: true, Pre: true},
		celCase{ID: "p003", FType: "string", Expr: "size(value) > 2 && size(value) / this.Y < 100", Feats: []string{"corpus", "pre-failed-rule", "div"}, Corpus: true, Pre: true},
		// a cel rule on the struct declaration AND a different one on a field: both are checked on that field
		celCase{ID: "y000", FType: "int", Expr: "value < 100", TypeExpr: "value >= 0", Feats: []string{"corpus", "cel-struct+field"}, Corpus: true},
		celCase{ID: "y001", FType: "int", Expr: "value != 42", TypeExpr: "value % 2 == 0", Feats: []string{"corpus", "cel-struct+field"}, Corpus: true},
		celCase{ID: "y002", FType: "int", Expr: "value >= this.X", TypeExpr: "value > -5 && value < 1000", Feats: []string{"corpus", "cel-struct+field"}, Corpus: true},
		celCase{ID: "s000", FType: "Span", Expr: "value.A <= value.B", Feats: []string{"corpus", "struct-field"}, Corpus: true},
		celCase{ID: "s001", FType: "Span", Expr: "value.A <= value.B", Feats: []string{"corpus", "struct-field", "required+cel"}, Corpus: true, Extra: "\t//govalid:required\n"},
		celCase{ID: "s002", FType: "Span", Expr: "value.A + value.B >= this.X", Feats: []string{"corpus", "struct-field", "required+cel"}, Corpus: true, Extra: "\t//govalid:required\n"})
	return out
}

func celCases(rng *rand.Rand, n int) []celCase {
	out := celCorpus()
	for i := 0; i < n; i++ {
		g := &celGen{rng: rng, feats: map[string]bool{}, ftype: celFieldTypes[rng.Intn(len(celFieldTypes))]}
		if rng.Intn(3) == 0 {
			g.ftype = []string{"int", "int64", "string"}[rng.Intn(3)] // the richest grammars
		}
		e := g.boolExpr(rng.Intn(4))
		var fs []string
		for f := range g.feats {
			fs = append(fs, f)
		}
		sort.Strings(fs)
		out = append(out, celCase{ID: fmt.Sprintf("c%04d", i), Expr: e, FType: g.ftype, Feats: fs})
	}
	return out
}

// celCondOf returns the condition of the `if … { err := ErrTFCELValidation …` statement, printed by go/printer
func celCondOf(path string) string {
	fset := token.NewFileSet()
	f, err := parser.ParseFile(fset, path, nil, 0)
	if err != nil {
		return ""
	}
	res := ""
	ast.Inspect(f, func(n ast.Node) bool {
		is, ok := n.(*ast.IfStmt)
		if !ok || len(is.Body.List) == 0 {
			return true
		}
		as, ok := is.Body.List[0].(*ast.AssignStmt)
		if !ok || len(as.Rhs) != 1 {
			return true
		}
		if id, ok := as.Rhs[0].(*ast.Ident); ok && id.Name == "ErrTFCELValidation" {
			var sb strings.Builder
			_ = printer.Fprint(&sb, fset, is.Cond)
			res = sb.String()
		}
		return true
	})
	return res
}

var condRe = regexp.MustCompile(`(?m)^\tif (.*) \{\n\t\terr := ErrTFCELValidation`)

func celSource(pkg string, c celCase) string {
	imp := ""
	if strings.Contains(c.FType, "time.") {
		imp = "import \"time\"\n\nvar _ time.Duration\n\n"
	}
	if c.FType == "Span" {
		imp += "type Span struct {\n\tA int\n\tB int\n}\n\n"
	}
	if c.TypeExpr != "" {
		return "package " + pkg + "\n\n" + imp + "//govalid:cel=" + c.TypeExpr + "\ntype T struct {\n" + c.Extra + "\t//govalid:cel=" + c.Expr + "\n\tF " + c.FType + "\n\n\tX int\n\n\tY int\n}\n"
	}
	pre := ""
	if c.Pre {
		pre = "\t//govalid:gt=0\n\tG int\n\n"
	}
	return "package " + pkg + "\n\n" + imp + "type T struct {\n" + pre + c.Extra + "\t//govalid:cel=" + c.Expr + "\n\tF " + c.FType + "\n\n\tX int\n\n\tY int\n\n\tS string\n\n\tB bool\n\n\tL []string\n\n\tD float64\n}\n"
}

func celDriverFile(pkg string, c celCase, vals []celVal) string {
	var sb strings.Builder
	sb.WriteString("package " + pkg + "\n\nimport (\n\t\"context\"\n\t\"errors\"\n\t\"fmt\"\n\t\"io\"\n\t\"math\"\n\t\"sort\"\n\t\"strings\"\n\t\"time\"\n\n\tverrs \"github.com/sivchari/govalid/validation/errors\"\n\n\t\"scen/rt\"\n)\n\nvar _ = math.Pi\nvar _ time.Duration\n\n")
	sb.WriteString("func run1(v *T) (res string) {\n\tdefer func() {\n\t\tif r := recover(); r != nil {\n\t\t\tres = \"panic\"\n\t\t}\n\t}()\n\tbefore := fmt.Sprintf(\"%#v\", *v)\n\terr := v.Validate()\n\tif after := fmt.Sprintf(\"%#v\", *v); after != before {\n\t\treturn \"mutated\"\n\t}\n\tif err == nil {\n\t\treturn \"ok\"\n\t}\n")
	isCheck := "\tif errors.Is(err, ErrTFCELValidation) != strings.Contains(\",\"+strings.Join(types, \",\")+\",\", \",cel,\") {\n\t\treturn \"is-mismatch\"\n\t}\n"
	if c.TypeExpr != "" {
		isCheck = "\t_ = ErrTFCELValidation\n" // several cel sentinels: the entries are counted instead
	}
	sb.WriteString("\tvar ves verrs.ValidationErrors\n\tif !errors.As(err, &ves) {\n\t\treturn \"other\"\n\t}\n\tvar types []string\n\tfor _, e := range ves {\n\t\ttypes = append(types, e.Type)\n\t}\n\tsort.Strings(types)\n" + isCheck + "\treturn strings.Join(types, \",\")\n}\n\n")
	// ValidateContext under contexts that turn done at their k-th Err() call (k = 0: already cancelled). Whenever a call
	// returned non-nil (Calls > K) the context was OBSERVED done and the result must be exactly that error.
	sb.WriteString("func RunCtx(w io.Writer) {\n\tvar parts []string\n\tfor k := 0; k <= 6; k++ {\n\t\tc := &rt.FlipCtx{Context: context.Background(), K: k, Kind: context.Canceled}\n\t\tres := \"other\"\n")
	fmt.Fprintf(&sb, "\t\tfunc() {\n\t\t\tdefer func() {\n\t\t\t\tif r := recover(); r != nil {\n\t\t\t\t\tres = \"panic\"\n\t\t\t\t}\n\t\t\t}()\n\t\t\terr := (&T{F: %s, %s}).ValidateContext(c)\n", vals[0].GoLit, otherGrid[1].litsFor(c))
	sb.WriteString("\t\t\tswitch {\n\t\t\tcase err == nil:\n\t\t\t\tres = \"nil\"\n\t\t\tcase errors.Is(err, context.Canceled):\n\t\t\t\tres = \"canceled\"\n\t\t\tcase errors.Is(err, ErrTFCELValidation):\n\t\t\t\tres = \"cel\"\n\t\t\t}\n\t\t}()\n")
	sb.WriteString("\t\tparts = append(parts, fmt.Sprintf(\"%d:%s:%d\", k, res, c.Calls))\n\t}\n")
	fmt.Fprintf(&sb, "\tfmt.Fprintf(w, \"%s\\tctx\\t%%s\\n\", strings.Join(parts, \",\"))\n}\n\n", c.ID)
	// stress entry for the race run: bindings that are distinct per goroutine and per iteration
	setS := "\t\tv.S = fmt.Sprintf(\"^a%d_%d\", g, i)\n"
	if c.TypeExpr != "" {
		setS = ""
	}
	fmt.Fprintf(&sb, "func RunStress(g int) {\n\tfor i := 0; i < 150; i++ {\n\t\tv := &T{F: %s, %s}\n%s\t\tv.X = g*1000 + i\n\t\t_ = run1(v)\n\t}\n}\n\n", vals[0].GoLit, otherGrid[1].litsFor(c), setS)
	sb.WriteString("func Run(w io.Writer) {\n")
	k := 0
	for _, v := range vals {
		for _, o := range otherGrid {
			fmt.Fprintf(&sb, "\tfmt.Fprintf(w, \"%s\\t%d\\t%%s\\n\", run1(&T{F: %s, %s}))\n", c.ID, k, v.GoLit, o.litsFor(c))
			k++
		}
	}
	sb.WriteString("}\n")
	return sb.String()
}

func refEval(c celCase, vals []celVal) (compileErr string, ast string, results []string, shows []string) {
	env, err := cel.NewEnv(cel.StdLib(), cel.Variable("value", cel.DynType), cel.Variable("this", cel.DynType))
	if err != nil {
		return err.Error(), "", nil, nil
	}
	a, iss := env.Compile(c.Expr)
	_ = condRe
	if iss != nil && iss.Err() != nil {
		return iss.Err().Error(), "", nil, nil
	}
	//nolint:staticcheck
	ast = celSexp(a.Expr())
	prg, err := env.Program(a)
	if err != nil {
		return err.Error(), ast, nil, nil
	}
	var prg2 cel.Program
	if c.TypeExpr != "" {
		a2, iss2 := env.Compile(c.TypeExpr)
		if iss2 != nil && iss2.Err() != nil {
			return iss2.Err().Error(), "", nil, nil
		}
		if prg2, err = env.Program(a2); err != nil {
			return err.Error(), ast, nil, nil
		}
		ast = "" // two expressions on one field: outside the text tie
	}
	for _, v := range vals {
		for _, o := range otherGrid {
			l := o.L
			if l == nil {
				l = []string{}
			}
			this := map[string]any{"F": v.Cel, "X": o.X, "Y": o.Y, "S": o.S, "B": o.B, "L": l, "D": o.D}
			shows = append(shows, fmt.Sprintf("value=%s this={%s}", v.Show, o.lits()))
			r := func() (res string) {
				defer func() {
					if p := recover(); p != nil {
						res = fmt.Sprint("err:panic ", p)
					}
				}()
				if prg2 != nil {
					// expected NUMBER of cel entries: the field's own expression on F plus the struct-level one on F, X and Y
					n := 0
					for _, q := range []struct {
						p cel.Program
						v any
					}{{prg, v.Cel}, {prg2, v.Cel}, {prg2, o.X}, {prg2, o.Y}} {
						out, _, err := q.p.Eval(map[string]any{"value": q.v, "this": this})
						if err != nil {
							return "err:" + err.Error()
						}
						b, ok := out.Value().(bool)
						if !ok {
							return "nonbool"
						}
						if !b {
							n++
						}
					}
					return fmt.Sprintf("n=%d", n)
				}
				out, _, err := prg.Eval(map[string]any{"value": v.Cel, "this": this})
				if err != nil {
					return "err:" + err.Error()
				}
				b, ok := out.Value().(bool)
				if !ok {
					return "nonbool"
				}
				if b {
					return "true"
				}
				return "false"
			}()
			results = append(results, r)
		}
	}
	return "", ast, results, shows
}

// celMain: harness cel <tier> <seed> <workdir> <govalid> <repo>
func celMain(args []string) {
	initEnv()
	tier := args[0]
	seed, _ := strconv.ParseInt(args[1], 10, 64)
	r := &runner{work: args[2], govalid: args[3], repo: args[4]}
	if err := r.setup(); err != nil {
		fmt.Fprintln(os.Stderr, err)
		os.Exit(2)
	}
	n := 150
	if tier == "thorough" {
		n = 1200
	}
	if len(args) > 5 {
		n, _ = strconv.Atoi(args[5])
	}
	race := len(args) > 6 && args[6] == "race"
	cases := celCases(rand.New(rand.NewSource(seed)), n)
	rows := make([]*CelRow, len(cases))
	var wg sync.WaitGroup
	sem := make(chan struct{}, 16)
	for i, c := range cases {
		wg.Add(1)
		go func(i int, c celCase) {
			defer wg.Done()
			sem <- struct{}{}
			defer func() { <-sem }()
			pkg := "q" + c.ID
			dir := filepath.Join(r.mod(), pkg)
			_ = os.MkdirAll(dir, 0o755)
			src := celSource(pkg, c)
			_ = os.WriteFile(filepath.Join(dir, "x.go"), []byte(src), 0o644)
			row := &CelRow{ID: c.ID, Expr: c.Expr, FType: c.FType, Feats: c.Feats, Corpus: c.Corpus, Source: src, Extra: c.Extra}
			vals := valuesFor(c.FType)
			row.RefErr, row.Ast, row.Ref, row.Values = refEval(c, vals)
			o, code := r.cmd(r.mod(), r.govalid, "./"+pkg)
			row.GenExit = code
			if code != 0 {
				row.GenErr = tail(o, 800)
			}
			if _, err := os.Stat(filepath.Join(dir, "x_t_validator.go")); err == nil {
				row.File = true
				row.Cond = celCondOf(filepath.Join(dir, "x_t_validator.go"))
				_ = os.WriteFile(filepath.Join(dir, "zz_run.go"), []byte(celDriverFile(pkg, c, vals)), 0o644)
			}
			rows[i] = row
		}(i, c)
	}
	wg.Wait()
	// build: all at once, else one by one
	if _, code := r.cmd(r.mod(), "go", "build", "./..."); code == 0 {
		for _, row := range rows {
			row.Builds = row.File
		}
	} else {
		for _, row := range rows {
			if !row.File {
				continue
			}
			wg.Add(1)
			go func(row *CelRow) {
				defer wg.Done()
				sem <- struct{}{}
				defer func() { <-sem }()
				o, c := r.cmd(r.mod(), "go", "build", "./q"+row.ID)
				row.Builds = c == 0
				if c != 0 {
					row.BuildEr = tail(o, 600)
				}
			}(row)
		}
		wg.Wait()
	}
	var mb strings.Builder
	mb.WriteString("package main\n\nimport (\n\t\"bufio\"\n\t\"io\"\n\t\"os\"\n\t\"sync\"\n")
	for _, row := range rows {
		if row.Builds {
			fmt.Fprintf(&mb, "\tq%s \"scen/q%s\"\n", row.ID, row.ID)
		}
	}
	mb.WriteString(")\n\nfunc all(w io.Writer) {\n")
	for _, row := range rows {
		if row.Builds {
			fmt.Fprintf(&mb, "\tq%s.Run(w)\n\tq%s.RunCtx(w)\n", row.ID, row.ID)
		}
	}
	mb.WriteString("}\n\nfunc stress(g int) {\n")
	for _, row := range rows {
		if row.Builds {
			fmt.Fprintf(&mb, "\tq%s.RunStress(g)\n", row.ID)
		}
	}
	mb.WriteString("}\n\nfunc main() {\n\tif len(os.Args) > 1 && os.Args[1] == \"race\" {\n\t\t// the same validations from 8 goroutines at once (every package, every binding), output discarded\n\t\tvar wg sync.WaitGroup\n\t\tfor g := 0; g < 8; g++ {\n\t\t\twg.Add(1)\n\t\t\tgo func(g int) {\n\t\t\t\tdefer wg.Done()\n\t\t\t\tstress(g)\n\t\t\t\tall(io.Discard)\n\t\t\t}(g)\n\t\t}\n\t\twg.Wait()\n\t\treturn\n\t}\n\tw := bufio.NewWriterSize(os.Stdout, 1<<20)\n\tdefer w.Flush()\n\tall(w)\n}\n")
	_ = os.MkdirAll(filepath.Join(r.mod(), "cmd", "celdrv"), 0o755)
	_ = os.WriteFile(filepath.Join(r.mod(), "cmd", "celdrv", "main.go"), []byte(mb.String()), 0o644)
	bin := filepath.Join(r.work, "celdrv")
	if o, c := r.cmd(r.mod(), "go", "build", "-o", bin, "./cmd/celdrv"); c != 0 {
		fmt.Fprintln(os.Stderr, "cel driver does not build:", tail(o, 3000))
		os.Exit(3)
	}
	cmd := exec.Command(bin)
	cmd.Env = goEnv
	o, err := cmd.Output()
	if err != nil {
		fmt.Fprintln(os.Stderr, "cel driver failed:", err)
	}
	obs := map[string][]string{}
	ctxObs := map[string]string{}
	for _, line := range strings.Split(string(o), "\n") {
		p := strings.Split(line, "\t")
		if len(p) == 3 && p[1] == "ctx" {
			ctxObs[p[0]] = p[2]
		} else if len(p) == 3 {
			obs[p[0]] = append(obs[p[0]], p[2])
		}
	}
	enc := json.NewEncoder(out)
	for _, row := range rows {
		row.Obs = obs[row.ID]
		row.Ctx = ctxObs[row.ID]
		_ = enc.Encode(row)
	}
	// race detector: the same driver built with -race, every package validated from 8 goroutines at once
	if race {
		rbin := filepath.Join(r.work, "celdrv-race")
		if o, c := r.cmd(r.mod(), "go", "build", "-race", "-o", rbin, "./cmd/celdrv"); c != 0 {
			fmt.Fprintln(os.Stderr, "cel race driver does not build:", tail(o, 2000))
			os.Exit(3)
		}
		rc := exec.Command(rbin, "race")
		rc.Env = goEnv
		ro, rerr := rc.CombinedOutput()
		bad := strings.Contains(string(ro), "DATA RACE")
		_ = enc.Encode(map[string]any{"race": map[string]any{"ok": !bad && rerr == nil, "packages": len(obs), "goroutines": 8, "detail": tail(string(ro), 4000)}})
	}
	_ = hex.EncodeToString
}
