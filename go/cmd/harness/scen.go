package main

// Scenario model: synthesized Go packages with //govalid: markers, and values for their structs.

import (
	"encoding/hex"
	"fmt"
	"math"
	"net"
	"strconv"
	"strings"
)

type Marker struct {
	ID      string // "gt"
	Expr    string
	HasExpr bool
	Legacy  bool // "// +govalid:" spelling
	Canon   string // when set: the plain decimal spelling of the same parameter (Expr is then an unusual but legal Go spelling of it)
}

func (m Marker) Comment() string {
	s := "govalid:" + m.ID
	if m.HasExpr {
		s += "=" + m.Expr
	}
	if m.Legacy {
		return "// +" + s
	}
	return "//" + s
}

type TypeX struct {
	Kind  string // basic slice array map chan ptr iface func named struct(leaf named struct)
	Basic string // Go kind name as in go/types: Int8, String …
	N     int    // array length
	Src   string // source text
	Under *TypeX // named
	Bytes bool   // slice of bytes ([]byte / []uint8)
	Elem  string // Go expression of the i-th element put into maps / channels of this type ("" = the int i)
	Alias string // name of an alias declaration `type A = <Src>` through which the field is declared (identical type)
}

// DeclSrc is the type text written in the field declaration (the alias name when the field is declared through one).
func (t *TypeX) DeclSrc() string {
	if t.Alias != "" {
		return t.Alias
	}
	return t.Src
}

func (t *TypeX) Underlying() *TypeX {
	for t.Kind == "named" {
		t = t.Under
	}
	return t
}

func (t *TypeX) Sexp() string {
	switch t.Kind {
	case "basic":
		return "(basic " + t.Basic + ")"
	case "array":
		return fmt.Sprintf("(array %d)", t.N)
	case "named":
		return "(named " + t.Under.Sexp() + ")"
	case "struct":
		return "(struct)"
	}
	return "(" + t.Kind + ")"
}

type Field struct {
	Names   []string
	Type    *TypeX   // nil for nested
	Nested  []*Field // anonymous struct
	Markers []Marker
	Extra   []string // extra (non-marker) comment lines in the doc group, before the markers
	After   []string // extra (non-marker) comment lines in the doc group, after the markers
	Embed   bool     // embedded field: rendered without a name (Names holds the type name it is selected by)
}

type Decl struct {
	Name     string
	Markers  []Marker
	Fields   []*Field
	Group    string   // "" or a group id: consecutive decls with the same id are rendered inside one `type ( … )`
	GroupDoc []Marker // markers on the GenDecl of the group (apply to every spec); the decl's own Markers sit on its spec
	PreSpec  string   // a non-struct spec rendered before this decl inside the group, e.g. "N7 int"
	After    []string // prose comment lines of the doc comment written after the struct-level markers
}

type NamedDecl struct{ Name, Src string }

type Scenario struct {
	ID     string
	Layout  string            // "" | "split" (declarations alternate between x.go and y.go) | "crlf" (Windows line endings) | "cgo" (cgo preamble and import "C") | "header" (file doc comment, build constraint, a declaration that uses a struct before it is declared)
	Imports []string          // import lines of the package source (and of its driver), e.g. `t1 "scen/pX/a/types"`
	Uses    []string          // declarations that keep every import used (`var _ t1.ID`), written into the source and the driver
	Deps    map[string]string // extra packages below the scenario package: relative path of the file → source
	Pre    *Scenario // history: an earlier version of the package, generated in the same directory first
	Named  []NamedDecl
	Decls  []*Decl
	Values map[string][]*SVal // decl name → struct values
	Raw    string             // extra raw source appended (non-struct declarations etc.)
}

func hexs(s string) string {
	if s == "" {
		return "-"
	}
	return hex.EncodeToString([]byte(s))
}

func docSexp(ms []Marker, extra []string, after ...string) string {
	parts := []string{"doc"}
	for _, e := range extra {
		parts = append(parts, hexs(e))
	}
	for _, m := range ms {
		parts = append(parts, hexs(m.Comment()))
	}
	for _, e := range after {
		parts = append(parts, hexs(e))
	}
	return "(" + strings.Join(parts, " ") + ")"
}

func (f *Field) Sexp() string {
	names := "(names"
	for _, n := range f.Names {
		names += " " + n
	}
	names += ")"
	if f.Nested != nil {
		var fs []string
		for _, g := range f.Nested {
			fs = append(fs, g.Sexp())
		}
		return "(nest " + names + " " + docSexp(f.Markers, f.Extra, f.After...) + " " + strings.Join(fs, " ") + ")"
	}
	return "(leaf " + names + " " + f.Type.Sexp() + " " + docSexp(f.Markers, f.Extra, f.After...) + ")"
}

func (d *Decl) Sexp() string {
	var fs []string
	for _, f := range d.Fields {
		fs = append(fs, f.Sexp())
	}
	all := append(append([]Marker{}, d.GroupDoc...), d.Markers...)
	return "(decl " + d.Name + " " + docSexp(all, nil, d.After...) + " " + strings.Join(fs, " ") + ")"
}

func writeFields(sb *strings.Builder, fs []*Field, indent string) {
	for _, f := range fs {
		for _, e := range f.Extra {
			sb.WriteString(indent + e + "\n")
		}
		for _, m := range f.Markers {
			sb.WriteString(indent + m.Comment() + "\n")
		}
		for _, e := range f.After {
			sb.WriteString(indent + e + "\n")
		}
		if f.Nested != nil {
			sb.WriteString(indent + strings.Join(f.Names, ", ") + " struct {\n")
			writeFields(sb, f.Nested, indent+"\t")
			sb.WriteString(indent + "}\n\n")
		} else {
			if f.Embed {
				sb.WriteString(indent + f.Type.DeclSrc() + "\n\n")
			} else {
				sb.WriteString(indent + strings.Join(f.Names, ", ") + " " + f.Type.DeclSrc() + "\n\n")
			}
		}
	}
}

// Files: the source files of the scenario package (name → content) according to its Layout
func (s *Scenario) Files(pkg string) map[string]string {
	switch s.Layout {
	case "split":
		if len(s.Decls) >= 2 && s.Decls[0].Group == "" && len(s.Imports) == 0 {
			a, b := *s, *s
			a.Decls, b.Decls = nil, nil
			for i, d := range s.Decls {
				if i%2 == 0 {
					a.Decls = append(a.Decls, d)
				} else {
					b.Decls = append(b.Decls, d)
				}
			}
			b.Named, b.Raw, b.Uses = nil, "", nil
			a.Layout, b.Layout = "", ""
			return map[string]string{"x.go": a.Source(pkg), "y.go": b.Source(pkg)}
		}
	case "crlf":
		return map[string]string{"x.go": strings.ReplaceAll(s.Source(pkg), "\n", "\r\n")}
	case "cgo":
		// a cgo source file: go/packages hands the generator the cgo-translated copy from the build cache, which maps back
		// to this file through //line directives
		if len(s.Imports) == 0 {
			src := s.Source(pkg)
			pre := "\n/*\n#include <stdint.h>\n*/\nimport \"C\"\n\nvar _ C.int32_t\n"
			return map[string]string{"x.go": strings.Replace(src, "package "+pkg+"\n", "package "+pkg+"\n"+pre, 1)}
		}
	case "header":
		src := s.Source(pkg)
		head := "// Copyright notice.\n// +govalid:required is mentioned in the licence text, which is not a doc comment of anything.\n\n//go:build !never\n\n// Package " + pkg + " holds the declarations under test.\n//\n//govalid:required\n"
		use := ""
		if len(s.Decls) > 0 {
			use = "\n// used before it is declared\nvar first" + s.Decls[0].Name + " *" + s.Decls[0].Name + "\n"
		}
		return map[string]string{"x.go": head + strings.Replace(src, "package "+pkg+"\n", "package "+pkg+"\n"+use, 1)}
	}
	return map[string]string{"x.go": s.Source(pkg)}
}

func (s *Scenario) Source(pkg string) string {
	var sb strings.Builder
	sb.WriteString("package " + pkg + "\n\n")
	if len(s.Imports) > 0 {
		sb.WriteString("import (\n")
		for _, im := range s.Imports {
			sb.WriteString("\t" + strings.ReplaceAll(im, "§PKG§", pkg) + "\n")
		}
		sb.WriteString(")\n\n")
	}
	for _, n := range s.Named {
		sb.WriteString("type " + n.Name + " " + n.Src + "\n\n")
	}
	for i := 0; i < len(s.Decls); i++ {
		d := s.Decls[i]
		if d.Group == "" {
			for _, m := range d.Markers {
				sb.WriteString(m.Comment() + "\n")
			}
			for _, e := range d.After {
				sb.WriteString(e + "\n")
			}
			sb.WriteString("type " + d.Name + " struct {\n")
			writeFields(&sb, d.Fields, "\t")
			sb.WriteString("}\n\n")
			continue
		}
		for _, m := range d.GroupDoc {
			sb.WriteString(m.Comment() + "\n")
		}
		sb.WriteString("type (\n")
		j := i
		for ; j < len(s.Decls) && s.Decls[j].Group == d.Group; j++ {
			g := s.Decls[j]
			if g.PreSpec != "" {
				sb.WriteString("\t" + g.PreSpec + "\n\n")
			}
			for _, m := range g.Markers {
				sb.WriteString("\t" + m.Comment() + "\n")
			}
			for _, e := range g.After {
				sb.WriteString("\t" + e + "\n")
			}
			sb.WriteString("\t" + g.Name + " struct {\n")
			writeFields(&sb, g.Fields, "\t\t")
			sb.WriteString("\t}\n\n")
		}
		sb.WriteString(")\n\n")
		i = j - 1
	}
	for _, u := range s.Uses {
		sb.WriteString(u + "\n")
	}
	sb.WriteString(s.Raw)
	return sb.String()
}

// ---------------------------------------------------------------- values

type SVal struct {
	Kind   string // i f64 f32 c128 c64 s b coll chan arr ref st
	I      string // decimal
	Bits   uint64
	Bits2  uint64
	S      string
	B      bool
	Nil    bool
	Len    int
	Cap    int
	Fields []NamedVal
	GoLit  string // Go expression constructing the value (for leaves)
}

type NamedVal struct {
	Name string
	V    *SVal
}

func ipClass(s string) int {
	ip := net.ParseIP(s)
	if ip == nil {
		return 0
	}
	if ip.To4() != nil {
		return 4
	}
	return 6
}

func (v *SVal) Sexp() string {
	switch v.Kind {
	case "i":
		return "(i " + v.I + ")"
	case "f64":
		return fmt.Sprintf("(f64 %016x)", v.Bits)
	case "f32":
		return fmt.Sprintf("(f32 %08x)", v.Bits)
	case "c128":
		return fmt.Sprintf("(c128 %016x %016x)", v.Bits, v.Bits2)
	case "c64":
		return fmt.Sprintf("(c64 %08x %08x)", v.Bits, v.Bits2)
	case "s":
		return fmt.Sprintf("(s %s %d)", hexs(v.S), ipClass(v.S))
	case "b":
		if v.B {
			return "(b 1)"
		}
		return "(b 0)"
	case "coll", "chan":
		if v.Nil {
			return "(" + v.Kind + " nil)"
		}
		return fmt.Sprintf("(%s %d)", v.Kind, v.Len)
	case "arr":
		return fmt.Sprintf("(arr %d)", v.Len)
	case "ref":
		if v.Nil {
			return "(ref nil)"
		}
		return "(ref set)"
	case "st":
		var parts []string
		for _, f := range v.Fields {
			parts = append(parts, "("+f.Name+" "+f.V.Sexp()+")")
		}
		return "(st " + strings.Join(parts, " ") + ")"
	}
	panic("bad value kind " + v.Kind)
}

// assignments renders `v.<path> = <lit>` statements for every leaf
func (v *SVal) assignments(prefix string, out *[]string) {
	for _, f := range v.Fields {
		p := prefix + "." + f.Name
		if f.V.Kind == "st" {
			f.V.assignments(p, out)
		} else if f.V.GoLit != "" {
			*out = append(*out, p+" = "+f.V.GoLit)
		}
	}
}

func goQuote(s string) string { return strconv.Quote(s) }

// ---- leaf value constructors (type-directed)

func intVal(t *TypeX, x string) *SVal {
	return &SVal{Kind: "i", I: x, GoLit: t.Src + "(" + x + ")"}
}

func f64Val(t *TypeX, bits uint64) *SVal {
	return &SVal{Kind: "f64", Bits: bits, GoLit: fmt.Sprintf("%s(math.Float64frombits(0x%x))", t.Src, bits)}
}

func f32Val(t *TypeX, bits uint32) *SVal {
	return &SVal{Kind: "f32", Bits: uint64(bits), GoLit: fmt.Sprintf("%s(math.Float32frombits(0x%x))", t.Src, bits)}
}

func c128Val(t *TypeX, re, im uint64) *SVal {
	return &SVal{Kind: "c128", Bits: re, Bits2: im, GoLit: fmt.Sprintf("%s(complex(math.Float64frombits(0x%x), math.Float64frombits(0x%x)))", t.Src, re, im)}
}

func c64Val(t *TypeX, re, im uint32) *SVal {
	return &SVal{Kind: "c64", Bits: uint64(re), Bits2: uint64(im), GoLit: fmt.Sprintf("%s(complex(math.Float32frombits(0x%x), math.Float32frombits(0x%x)))", t.Src, re, im)}
}

func strVal(t *TypeX, s string) *SVal {
	return &SVal{Kind: "s", S: s, GoLit: t.Src + "(" + goQuote(s) + ")"}
}

func boolVal(t *TypeX, b bool) *SVal {
	return &SVal{Kind: "b", B: b, GoLit: fmt.Sprintf("%s(%v)", t.Src, b)}
}

// collVal: slices and maps. content (for []byte) may be given.
func collVal(t *TypeX, isNil bool, n int, content string) *SVal {
	u := t.Underlying()
	v := &SVal{Kind: "coll", Nil: isNil, Len: n}
	switch {
	case isNil:
		v.GoLit = t.Src + "(nil)"
	case u.Kind == "slice" && u.Bytes:
		v.Len = len(content)
		v.GoLit = t.Src + "(" + goQuote(content) + ")"
	case u.Kind == "slice":
		v.GoLit = fmt.Sprintf("make(%s, %d)", t.Src, n)
	case u.Kind == "map":
		v.GoLit = fmt.Sprintf("func() %s { m := make(%s); for i := 0; i < %d; i++ { m[strconv.Itoa(i)] = %s }; return m }()", t.Src, t.Src, n, elemLit(u))
	}
	return v
}

func elemLit(u *TypeX) string {
	if u.Elem != "" {
		return u.Elem
	}
	return "i"
}

func chanVal(t *TypeX, isNil bool, n, capacity int) *SVal {
	v := &SVal{Kind: "chan", Nil: isNil, Len: n, Cap: capacity}
	if isNil {
		v.GoLit = t.Src + "(nil)"
	} else {
		v.GoLit = fmt.Sprintf("func() %s { c := make(%s, %d); for i := 0; i < %d; i++ { c <- %s }; return c }()", t.Src, t.Src, capacity, n, elemLit(t.Underlying()))
	}
	return v
}

func arrVal(t *TypeX) *SVal {
	return &SVal{Kind: "arr", Len: t.Underlying().N, GoLit: t.Src + "{}"}
}

func refVal(t *TypeX, isNil bool) *SVal {
	v := &SVal{Kind: "ref", Nil: isNil}
	u := t.Underlying()
	switch {
	case isNil:
		v.GoLit = "nil"
	case u.Kind == "ptr":
		v.GoLit = "new(" + strings.TrimPrefix(u.Src, "*") + ")"
	case u.Kind == "func":
		v.GoLit = "func() {}"
	case u.Src == "error":
		v.GoLit = "errors.New(\"x\")"
	default:
		v.GoLit = "1"
	}
	if t.Kind == "named" && !isNil && u.Kind == "ptr" {
		v.GoLit = t.Src + "(" + v.GoLit + ")"
	}
	return v
}

func f64bits(f float64) uint64 { return math.Float64bits(f) }
func f32bits(f float32) uint32 { return math.Float32bits(f) }
