package main

import (
	"encoding/hex"
	"fmt"
	"math/rand"
	"strings"
	"unicode/utf8"

	"github.com/sivchari/govalid/validation/validationhelper"
)

// implRec runs the REAL function on s; "panic" if it panics.
func implRec(fn, s string) (res string) {
	defer func() {
		if r := recover(); r != nil {
			res = "panic"
		}
	}()
	b := func(v bool) string {
		if v {
			return "true"
		}
		return "false"
	}
	switch fn {
	case "uuid":
		return b(validationhelper.IsValidUUID(s))
	case "url":
		return b(validationhelper.IsValidURL(s))
	case "email":
		return b(validationhelper.IsValidEmail(s))
	case "alpha":
		return b(validationhelper.IsValidAlpha(s))
	case "numeric":
		return b(validationhelper.IsNumeric(s))
	case "runecount":
		return fmt.Sprint(utf8.RuneCountInString(s))
	case "runes":
		var parts []string
		for i, c := range s {
			parts = append(parts, fmt.Sprintf("%d:%d", i, c))
		}
		return strings.Join(parts, " ")
	}
	panic("unknown fn " + fn)
}

func hx(s string) string {
	if s == "" {
		return "-"
	}
	return hex.EncodeToString([]byte(s))
}

func recOne(fn, h string) {
	s := ""
	if h != "-" {
		b, err := hex.DecodeString(h)
		if err != nil {
			panic(err)
		}
		s = string(b)
	}
	fmt.Fprintf(out, "%s\t%s\t%s\n", fn, hx(s), implRec(fn, s))
}

type emitter struct {
	fn   string
	seen map[string]bool
	n    int
}

func (e *emitter) emit(s string) {
	if e.seen[s] {
		return
	}
	e.seen[s] = true
	e.n++
	fmt.Fprintf(out, "%s\t%s\t%s\n", e.fn, hx(s), implRec(e.fn, s))
}

func recMain(fn, tier string, seed int64) {
	rng := rand.New(rand.NewSource(seed))
	e := &emitter{fn: fn, seen: map[string]bool{}}
	thorough := tier == "thorough"
	switch fn {
	case "uuid":
		genUUID(e, rng, thorough)
	case "url":
		genURL(e, rng, thorough)
	case "email":
		genEmail(e, rng, thorough)
	case "alpha", "numeric":
		genAscii(e, rng, thorough)
	case "runecount", "runes":
		genUTF8(e, rng, thorough)
	default:
		panic("unknown fn")
	}
}

// ---------------------------------------------------------------- generators

func randBytes(rng *rand.Rand, n int) string {
	b := make([]byte, n)
	for i := range b {
		b[i] = byte(rng.Intn(256))
	}
	return string(b)
}

var classBytes = []byte{'0', '1', '5', '6', '8', '9', 'a', 'b', 'c', 'f', 'g', 'A', 'B', 'F', 'G', '-', ' ', 0x00, 0x7f, 0x80, 0xc3, 0xff, '@', '.', ':', '/', '[', '_', '+', 'z', 'Z'}

func genUUID(e *emitter, rng *rand.Rand, thorough bool) {
	var bases []string
	for _, v := range "0123456789aAfF" {
		for _, w := range "0789abcABCfF" {
			bases = append(bases, fmt.Sprintf("550e8400-e29b-%cxd4-%c716-446655440000", v, w))
		}
	}
	for i := range bases {
		bases[i] = strings.Replace(bases[i], "x", "1", 1)
	}
	bases = append(bases,
		"00000000-0000-0000-0000-000000000000", "ffffffff-ffff-ffff-ffff-ffffffffffff",
		"FFFFFFFF-FFFF-FFFF-FFFF-FFFFFFFFFFFF", "FfFfFfFf-fFfF-FFff-ffFF-fFfFfFfFfFfF",
		"f47ac10b-58cc-4372-a567-0e02b2c3d479", "F47AC10B-58CC-4372-A567-0E02B2C3D479",
		"ffffffff-ffff-4fff-bfff-ffffffffffff", "00000000-0000-1000-8000-000000000000",
		"fffffffe-ffff-ffff-ffff-ffffffffffff", "00000000-0000-0000-0000-000000000001",
		"ffffffff-ffff-ffff-ffff-fffffffffffg", "0000000000000000000000000000000000000")
	for _, b := range bases {
		e.emit(b)
		e.emit(strings.ToUpper(b))
		e.emit(strings.ToLower(b))
	}
	// every single-position substitution by all 256 byte values
	nb := 6
	if thorough {
		nb = len(bases)
	}
	for bi := 0; bi < nb; bi++ {
		b := bases[(bi*7)%len(bases)]
		if bi < 4 {
			b = bases[len(bases)-12+bi]
		}
		if len(b) != 36 {
			continue
		}
		for pos := 0; pos < 36; pos++ {
			for v := 0; v < 256; v++ {
				bb := []byte(b)
				bb[pos] = byte(v)
				e.emit(string(bb))
			}
		}
	}
	// pairs of positions over the class alphabet
	np := 3
	if thorough {
		np = 12
	}
	for bi := 0; bi < np; bi++ {
		b := bases[len(bases)-12+bi%12]
		if len(b) != 36 {
			continue
		}
		for p := 0; p < 36; p++ {
			for q := p + 1; q < 36; q++ {
				if !thorough && rng.Intn(4) != 0 {
					continue
				}
				for k := 0; k < 6; k++ {
					bb := []byte(b)
					bb[p] = classBytes[rng.Intn(len(classBytes))]
					bb[q] = classBytes[rng.Intn(len(classBytes))]
					e.emit(string(bb))
				}
			}
		}
	}
	// all lengths 0..40: truncations, extensions
	for _, b := range bases[len(bases)-12:] {
		for n := 0; n <= 40; n++ {
			s := b
			for len(s) < n {
				s += "0"
			}
			e.emit(s[:n])
			e.emit(strings.Repeat("-", n))
			e.emit(strings.Repeat("f", n))
		}
	}
	// random case renderings
	nr := 2000
	if thorough {
		nr = 50000
	}
	for i := 0; i < nr; i++ {
		b := []byte(bases[rng.Intn(len(bases))])
		for j := range b {
			if rng.Intn(2) == 0 {
				b[j] = strings.ToUpper(string(b[j]))[0]
			} else {
				b[j] = strings.ToLower(string(b[j]))[0]
			}
		}
		e.emit(string(b))
	}
	// random hex-shaped and random byte strings
	hexd := "0123456789abcdefABCDEF"
	for i := 0; i < nr; i++ {
		b := make([]byte, 36)
		for j := range b {
			if j == 8 || j == 13 || j == 18 || j == 23 {
				b[j] = '-'
			} else if rng.Intn(3) == 0 {
				b[j] = "fF0"[rng.Intn(3)]
			} else {
				b[j] = hexd[rng.Intn(len(hexd))]
			}
		}
		e.emit(string(b))
		e.emit(randBytes(rng, 36))
		e.emit(randBytes(rng, rng.Intn(48)))
	}
}

func genURL(e *emitter, rng *rand.Rand, thorough bool)   {}
func genEmail(e *emitter, rng *rand.Rand, thorough bool) {}
func genAscii(e *emitter, rng *rand.Rand, thorough bool) {}
func genUTF8(e *emitter, rng *rand.Rand, thorough bool)  {}
