package main

import (
	"encoding/hex"
	"fmt"
	"math/rand"
	"os"
	"os/exec"
	"sort"
	"strings"
	"sync"
	"unicode/utf8"
	"unsafe"

	"github.com/sivchari/govalid/validation/validationhelper"
)

// implRec runs the REAL function on s; "panic" if it panics.
// sameHeader evaluates the recognizer on a string built in ONE reused buffer: consecutive inputs of the same length then share
// data address and length (what `string(buf[:n])` at one call site, a scanner line or an edited read buffer give a caller) —
// a memo keyed by the string header instead of its bytes returns the previous input's verdict
var headerBuf [64]byte

// the previous input of each length: it is evaluated through the buffer FIRST, so that the call under test directly follows a
// call with the same string header and different bytes
var lastByLen = map[int]string{}

func sameHeader(f func(string) bool, s string) bool {
	n := copy(headerBuf[:], s)
	return f(unsafe.String(&headerBuf[0], n))
}

func implRec(fn, s string) (res string) {
	res = implRec1(fn, s)
	if len(s) == 0 || len(s) > len(headerBuf) {
		return res
	}
	var f func(string) bool
	switch fn {
	case "uuid":
		f = validationhelper.IsValidUUID
	case "url":
		f = validationhelper.IsValidURL
	case "email":
		f = validationhelper.IsValidEmail
	case "alpha":
		f = validationhelper.IsValidAlpha
	case "numeric":
		f = validationhelper.IsNumeric
	default:
		return res
	}
	prev := lastByLen[len(s)]
	lastByLen[len(s)] = s
	second := func() (r string) {
		defer func() {
			if recover() != nil {
				r = "panic"
			}
		}()
		if prev != "" && prev != s {
			_ = sameHeader(f, prev)
		}
		if sameHeader(f, s) {
			return "true"
		}
		return "false"
	}()
	if second != res {
		return res + "/" + second + "(same bytes in a reused buffer, right after another input of the same length)"
	}
	return res
}

func implRec1(fn, s string) (res string) {
	defer func() {
		if r := recover(); r != nil {
			res = "panic"
		}
	}()
	b := func(v bool) string {
		if v {
			return "true"
		}
		return "false"
	}
	switch fn {
	case "uuid":
		return b(validationhelper.IsValidUUID(s))
	case "url":
		return b(validationhelper.IsValidURL(s))
	case "email":
		return b(validationhelper.IsValidEmail(s))
	case "alpha":
		return b(validationhelper.IsValidAlpha(s))
	case "numeric":
		return b(validationhelper.IsNumeric(s))
	case "runecount":
		return fmt.Sprint(utf8.RuneCountInString(s))
	case "runes":
		var parts []string
		for i, c := range s {
			parts = append(parts, fmt.Sprintf("%d:%d", i, c))
		}
		return strings.Join(parts, " ")
	}
	panic("unknown fn " + fn)
}

func hx(s string) string {
	if s == "" {
		return "-"
	}
	return hex.EncodeToString([]byte(s))
}

func recOne(fn, h string) {
	s := ""
	if h != "-" {
		b, err := hex.DecodeString(h)
		if err != nil {
			panic(err)
		}
		s = string(b)
	}
	fmt.Fprintf(out, "%s\t%s\t%s\n", fn, hx(s), implRec(fn, s))
}

type emitter struct {
	fn    string
	seen  map[string]bool
	n     int
	order []string // inputs in generation order (for the second pass of `rec-twice`)
	first map[string]string
	noEval bool // only collect the inputs (a child process evaluates them in another order)
}

func (e *emitter) emit(s string) {
	if e.seen[s] {
		return
	}
	e.seen[s] = true
	e.n++
	if e.noEval {
		e.order = append(e.order, s)
		return
	}
	r := implRec(e.fn, s)
	if e.first != nil {
		e.order = append(e.order, s)
		e.first[s] = r
		return
	}
	fmt.Fprintf(out, "%s\t%s\t%s\n", e.fn, hx(s), r)
}

// recTwice: every generated input is evaluated once in generation order and then again in a shuffled order, in the same
// process; lines are printed only for inputs whose two verdicts differ (a recognizer with hidden state).
func recTwice(fn, tier string, seed int64) {
	rng := rand.New(rand.NewSource(seed))
	e := &emitter{fn: fn, seen: map[string]bool{}, first: map[string]string{}}
	runGen(e, fn, rng, tier == "thorough")
	idx := rng.Perm(len(e.order))
	diff := 0
	for _, i := range idx {
		s := e.order[i]
		if r := implRec(fn, s); r != e.first[s] {
			diff++
			fmt.Fprintf(out, "%s\t%s\t%s\t%s\n", fn, hx(s), e.first[s], r)
		}
	}
	// third evaluation in a FRESH process, in reverse generation order: a recognizer that learns from its first call for
	// some spelling (and answers differently afterwards) meets a different "first call" there
	if self, err := os.Executable(); err == nil {
		c := exec.Command(self, "rec-reverse", fn, tier, fmt.Sprint(seed))
		c.Stderr = os.Stderr
		if o, err := c.Output(); err == nil {
			for _, line := range strings.Split(string(o), "\n") {
				p := strings.Split(line, "\t")
				if len(p) != 2 {
					continue
				}
				b, _ := hex.DecodeString(strings.TrimPrefix(p[0], "-"))
				s := string(b)
				if p[0] == "-" {
					s = ""
				}
				if want, ok := e.first[s]; ok && want != p[1] {
					diff++
					fmt.Fprintf(out, "%s\t%s\t%s\t%s\n", fn, hx(s), want, p[1]+" (fresh process, reverse order)")
				}
			}
		} else {
			fmt.Fprintln(os.Stderr, "rec-reverse failed:", err)
			os.Exit(3)
		}
	}
	// FIRST-call verdicts: inputs grouped by what a recognizer could plausibly key a memo on (the text before the first ':' or
	// '@', the text after the last '@'); a few members of every group are evaluated as the very first call of a fresh process
	// each and compared with the verdict they got in the long-running process above
	groups := map[string]int{}
	var picks []string
	for _, s := range e.order {
		key := ""
		if i := strings.IndexAny(s, ":@"); i > 0 && i < 24 {
			key = "p:" + s[:i]
		} else if i := strings.LastIndexByte(s, '@'); i >= 0 && len(s)-i < 40 {
			key = "s:" + s[i:]
		} else {
			continue
		}
		if groups[key] < 4 && len(picks) < 6000 && len(s) < 200 {
			groups[key]++
			picks = append(picks, s)
		}
	}
	if self, err := os.Executable(); err == nil {
		res := make([]string, len(picks))
		var wg sync.WaitGroup
		sem := make(chan struct{}, 16)
		for i, s := range picks {
			wg.Add(1)
			go func(i int, s string) {
				defer wg.Done()
				sem <- struct{}{}
				defer func() { <-sem }()
				h := hx(s)
				o, err := exec.Command(self, "rec-one", fn, h).Output()
				if err == nil {
					f := strings.Fields(strings.TrimSpace(string(o)))
					if len(f) > 0 {
						res[i] = f[len(f)-1]
					}
				}
			}(i, s)
		}
		wg.Wait()
		fresh := 0
		for i, s := range picks {
			if res[i] == "" {
				continue
			}
			fresh++
			if res[i] != e.first[s] {
				diff++
				fmt.Fprintf(out, "%s\t%s\t%s\t%s\n", fn, hx(s), res[i]+" (as the first call of a fresh process)", e.first[s]+" (in the long-running process)")
			}
		}
		fmt.Fprintf(out, "summary-fresh\t%s\t%d\t0\n", fn, fresh)
	}
	fmt.Fprintf(out, "summary\t%s\t%d\t%d\n", fn, len(e.order), diff)
}

// recReverse: the inputs of `rec-twice`, evaluated in reverse generation order (run as a child process)
func recReverse(fn, tier string, seed int64) {
	rng := rand.New(rand.NewSource(seed))
	e := &emitter{fn: fn, seen: map[string]bool{}, noEval: true}
	runGen(e, fn, rng, tier == "thorough")
	for i := len(e.order) - 1; i >= 0; i-- {
		fmt.Fprintf(out, "%s\t%s\n", hx(e.order[i]), implRec(fn, e.order[i]))
	}
}

func recMain(fn, tier string, seed int64) {
	rng := rand.New(rand.NewSource(seed))
	e := &emitter{fn: fn, seen: map[string]bool{}}
	runGen(e, fn, rng, tier == "thorough")
}

func runGen(e *emitter, fn string, rng *rand.Rand, thorough bool) {
	switch fn {
	case "uuid":
		genUUID(e, rng, thorough)
	case "url":
		genURL(e, rng, thorough)
	case "email":
		genEmail(e, rng, thorough)
	case "alpha", "numeric":
		genAscii(e, rng, thorough)
	case "runecount", "runes":
		genUTF8(e, rng, thorough)
	default:
		panic("unknown fn")
	}
}

// ---------------------------------------------------------------- generators

func randBytes(rng *rand.Rand, n int) string {
	b := make([]byte, n)
	for i := range b {
		b[i] = byte(rng.Intn(256))
	}
	return string(b)
}

var classBytes = []byte{'0', '1', '5', '6', '8', '9', 'a', 'b', 'c', 'f', 'g', 'A', 'B', 'F', 'G', '-', ' ', 0x00, 0x7f, 0x80, 0xc3, 0xff, '@', '.', ':', '/', '[', '_', '+', 'z', 'Z'}

func genUUID(e *emitter, rng *rand.Rand, thorough bool) {
	var bases []string
	for _, v := range "0123456789aAfF" {
		for _, w := range "0789abcABCfF" {
			bases = append(bases, fmt.Sprintf("550e8400-e29b-%cxd4-%c716-446655440000", v, w))
		}
	}
	for i := range bases {
		bases[i] = strings.Replace(bases[i], "x", "1", 1)
	}
	bases = append(bases,
		"00000000-0000-0000-0000-000000000000", "ffffffff-ffff-ffff-ffff-ffffffffffff",
		"FFFFFFFF-FFFF-FFFF-FFFF-FFFFFFFFFFFF", "FfFfFfFf-fFfF-FFff-ffFF-fFfFfFfFfFfF",
		"f47ac10b-58cc-4372-a567-0e02b2c3d479", "F47AC10B-58CC-4372-A567-0E02B2C3D479",
		"ffffffff-ffff-4fff-bfff-ffffffffffff", "00000000-0000-1000-8000-000000000000",
		"fffffffe-ffff-ffff-ffff-ffffffffffff", "00000000-0000-0000-0000-000000000001",
		"ffffffff-ffff-ffff-ffff-fffffffffffg", "0000000000000000000000000000000000000")
	// 36-byte inputs made of runes whose case folding changes their byte length (U+212A KELVIN SIGN: 3 -> 1,
	// U+0130: 2 -> 1/3, U+023A: 2 -> 3), with '-' wherever the folded string would expect one
	shr := []string{"\u212a", "\u0130", "\u023a", "\u1e9e", "K", "0", "f"}
	for i := 0; i < 400; i++ {
		var sb strings.Builder
		folded := 0
		for sb.Len() < 36 {
			if folded == 8 || folded == 13 || folded == 18 || folded == 23 {
				sb.WriteString("-")
				folded++
				continue
			}
			r := shr[rng.Intn(len(shr))]
			if i < 40 {
				r = shr[i%2] // mostly Kelvin signs / dotted I first
				if i%5 == 0 {
					r = "\u212a"
				}
			}
			if sb.Len()+len(r) > 36 {
				r = "0"
			}
			sb.WriteString(r)
			folded++
		}
		e.emit(sb.String())
	}
	for _, fixed := range []string{
		strings.Repeat("\u212a", 8) + "-" + strings.Repeat("\u212a", 3) + "\u0130",
		strings.Repeat("\u212a", 8) + "-" + "\u212a" + "000-0000",
		strings.Repeat("\u212a", 7) + "0-0000-0000-000",
		strings.Repeat("\u212a", 12),
	} {
		e.emit(fixed)
	}
	lowHex := []string{"\u0130", "\u0139", "\u0141", "\u0146", "\u0161", "\u0166", "\u2030", "\u2041", "\U00010130", "\U00010166", "\u00e9", "\u0430"}
	for _, b := range []string{"550e8400-e29b-41d4-a716-446655440000", "f47ac10b-58cc-4372-a567-0e02b2c3d479"} {
		fields := []int{0, 9, 14, 19, 24, 30} // start offsets inside the five hex fields (field 5 twice)
		for _, r := range lowHex {
			for _, off := range fields {
				if off == 14 || off == 19 {
					off++ // keep the version / variant byte
				}
				if off+len(r) > len(b) || strings.Contains(b[off:off+len(r)], "-") {
					continue
				}
				e.emit(b[:off] + r + b[off+len(r):])
				// two runes
				if off+2*len(r) <= len(b) && !strings.Contains(b[off:off+2*len(r)], "-") {
					e.emit(b[:off] + r + r + b[off+2*len(r):])
				}
			}
		}
	}
	for _, b := range bases {
		e.emit(b)
		e.emit(strings.ToUpper(b))
		e.emit(strings.ToLower(b))
	}
	// every single-position substitution by all 256 byte values
	nb := 6
	if thorough {
		nb = len(bases)
	}
	for bi := 0; bi < nb; bi++ {
		b := bases[(bi*7)%len(bases)]
		if bi < 4 {
			b = bases[len(bases)-12+bi]
		}
		if len(b) != 36 {
			continue
		}
		for pos := 0; pos < 36; pos++ {
			for v := 0; v < 256; v++ {
				bb := []byte(b)
				bb[pos] = byte(v)
				e.emit(string(bb))
			}
		}
	}
	// pairs of positions over the class alphabet
	np := 3
	if thorough {
		np = 12
	}
	for bi := 0; bi < np; bi++ {
		b := bases[len(bases)-12+bi%12]
		if len(b) != 36 {
			continue
		}
		for p := 0; p < 36; p++ {
			for q := p + 1; q < 36; q++ {
				if !thorough && rng.Intn(4) != 0 {
					continue
				}
				for k := 0; k < 6; k++ {
					bb := []byte(b)
					bb[p] = classBytes[rng.Intn(len(classBytes))]
					bb[q] = classBytes[rng.Intn(len(classBytes))]
					e.emit(string(bb))
				}
			}
		}
	}
	// the SAME byte at two positions, every pair (checks that compare positions with each other instead of with '-')
	for _, b := range []string{"550e8400-e29b-41d4-a716-446655440000", "FFFFFFFF-FFFF-FFFF-FFFF-FFFFFFFFFFFF", "00000000-0000-0000-0000-000000000000"} {
		for p := 0; p < 36; p++ {
			for q := p + 1; q < 36; q++ {
				hy := (p == 8 || p == 13 || p == 18 || p == 23) && (q == 8 || q == 13 || q == 18 || q == 23)
				if !hy && !thorough && (p*36+q)%5 != 0 {
					continue
				}
				for _, v := range []byte{'_', '0', 'f', 0, 0xff, '-', ' '} {
					bb := []byte(b)
					bb[p], bb[q] = v, v
					e.emit(string(bb))
				}
			}
		}
		// all four separators replaced by one byte, and each triple
		for _, v := range []byte{'_', '0', 'a', 0, '.', ':'} {
			for mask := 1; mask < 16; mask++ {
				bb := []byte(b)
				for k, pos := range []int{8, 13, 18, 23} {
					if mask&(1<<k) != 0 {
						bb[pos] = v
					}
				}
				e.emit(string(bb))
			}
		}
	}
	// all lengths 0..40: truncations, extensions
	for _, b := range bases[len(bases)-12:] {
		for n := 0; n <= 40; n++ {
			s := b
			for len(s) < n {
				s += "0"
			}
			e.emit(s[:n])
			e.emit(strings.Repeat("-", n))
			e.emit(strings.Repeat("f", n))
		}
	}
	// lengths that collapse to 36 when the length is narrowed to 8 or 16 bits: a valid UUID followed by 256·k or 65536·k more
	// bytes (hex digits, a second UUID repeated, NULs), and valid-looking layouts repeated
	for _, b := range []string{"550e8400-e29b-41d4-a716-446655440000", "FFFFFFFF-FFFF-FFFF-FFFF-FFFFFFFFFFFF"} {
		for _, extra := range []int{220, 256, 512, 768, 65536, 131072, 65536 + 256} {
			e.emit(b + strings.Repeat("0", extra))
			e.emit(b + strings.Repeat("\x00", extra))
			e.emit(b + strings.Repeat(b, extra/36+1)[:extra])
			e.emit(strings.Repeat("0", extra) + b)
		}
	}
	// random case renderings
	nr := 2000
	if thorough {
		nr = 50000
	}
	for i := 0; i < nr; i++ {
		b := []byte(bases[rng.Intn(len(bases))])
		for j := range b {
			if rng.Intn(2) == 0 {
				b[j] = strings.ToUpper(string(b[j]))[0]
			} else {
				b[j] = strings.ToLower(string(b[j]))[0]
			}
		}
		e.emit(string(b))
	}
	// random hex-shaped and random byte strings
	hexd := "0123456789abcdefABCDEF"
	for i := 0; i < nr; i++ {
		b := make([]byte, 36)
		for j := range b {
			if j == 8 || j == 13 || j == 18 || j == 23 {
				b[j] = '-'
			} else if rng.Intn(3) == 0 {
				b[j] = "fF0"[rng.Intn(3)]
			} else {
				b[j] = hexd[rng.Intn(len(hexd))]
			}
		}
		e.emit(string(b))
		e.emit(randBytes(rng, 36))
		e.emit(randBytes(rng, rng.Intn(48)))
	}
}

var urlSchemes = []string{"http", "https", "ftp", "ftps", "ssh", "sftp", "smtp", "smtps", "imap", "imaps", "pop3", "pop3s", "telnet", "file", "data", "ws", "wss", "git", "svn", "ldap", "ldaps", "mailto", "news", "nntp", "irc", "ircs", "rtsp", "rtmp", "sip", "sips", "xmpp"}

func genURL(e *emitter, rng *rand.Rand, thorough bool) {
	// schemes and near-miss schemes
	cands := map[string]bool{}
	for _, sc := range urlSchemes {
		cands[sc] = true
		cands[strings.ToUpper(sc)] = true
		cands[strings.ToUpper(sc[:1])+sc[1:]] = true
		cands[sc[:len(sc)-1]] = true
		cands[sc+"s"] = true
		cands[sc+"x"] = true
		cands["x"+sc] = true
		cands[sc[1:]] = true
		cands[sc+"+"+sc] = true
		cands[sc+"-"] = true
		cands[sc+"."] = true
		cands[":"+sc] = true
		cands[" "+sc] = true
		cands[sc+" "] = true
		for i := range sc { // one substitution
			b := []byte(sc)
			b[i] = "az09+-.A_:/"[rng.Intn(11)]
			cands[string(b)] = true
		}
	}
	for _, x := range []string{"", "a", "z", "gopher", "javascript", "tel", "urn", "h", "1http", "+http", "ht tp", "http\x00", "h\xc3\xa9", "\xff"} {
		cands[x] = true
	}
	seps := []string{":", ":/", "://", "", "//", ":///", "::", ":/ /", ": //", ";//"}
	tails := []string{"", "example.com", "example.com/path?q=1#f", "ex ample", "ex\tample", "ex\x7fample", "\x00", "x\n", "é", "\xff\xfe", "[::1]:80/"}
	// (sorted: the generation order must not depend on Go's randomised map iteration — recognizers that learn from
	// earlier calls are only exposed when the first occurrence of a spelling is reproducible)
	var candList []string
	for c := range cands {
		candList = append(candList, c)
	}
	sort.Strings(candList)
	for _, c := range candList {
		for _, sep := range seps {
			e.emit(c + sep)
			for _, t := range tails {
				e.emit(c + sep + t)
			}
		}
	}
	// every first host byte 0..255 for every real scheme (and a few near misses)
	for _, sc := range urlSchemes {
		for v := 0; v < 256; v++ {
			e.emit(sc + "://" + string([]byte{byte(v)}))
			e.emit(sc + "://" + string([]byte{byte(v)}) + "ost/p")
			e.emit(sc + ":" + string([]byte{byte(v)}))
			if thorough {
				e.emit(sc + ":/" + string([]byte{byte(v)}) + "x")
				e.emit(sc + "://h" + string([]byte{byte(v)}))
				e.emit(sc + string([]byte{byte(v)}) + "//host")
				e.emit(string([]byte{byte(v)}) + sc[1:] + "://host")
			}
		}
	}
	// forbidden byte at every position of members
	for _, m := range []string{"http://example.com/a", "mailto:user@example.com", "file:/etc/passwd", "data:text/plain,Hi", "xmpp://a"} {
		for pos := 0; pos <= len(m); pos++ {
			for _, v := range []byte{' ', 0, 1, 9, 10, 13, 31, 127, 128, 255, ':', '/'} {
				e.emit(m[:pos] + string([]byte{v}) + m[pos:])
				if pos < len(m) {
					b := []byte(m)
					b[pos] = v
					e.emit(string(b))
				}
			}
		}
	}
	// a forbidden byte at every position of URLs of every total length 8..70 (word- or block-wise scanners have their
	// boundaries at multiples of 8, 16, 32 and 64)
	for total := 8; total <= 70; total++ {
		for _, pre := range []string{"http://", "mailto:"} {
			base := pre + rep("abcdefghij/", total-len(pre))
			for pos := len(pre); pos < total; pos++ {
				if !thorough && pos < total-17 && pos%3 != 0 {
					continue
				}
				for _, v := range []byte{' ', 0x7f, '\n', 0} {
					b := []byte(base)
					b[pos] = v
					e.emit(string(b))
				}
			}
		}
	}
	// exhaustive short strings over a scheme-aware alphabet
	alpha := []string{"ws", "h", ":", "/", "a", "[", " ", "\x7f", "W", "-", "é", "file"}
	maxn := 4
	if thorough {
		maxn = 5
	}
	var rec func(prefix string, n int)
	rec = func(prefix string, n int) {
		e.emit(prefix)
		if n == 0 {
			return
		}
		for _, a := range alpha {
			rec(prefix+a, n-1)
		}
	}
	rec("", maxn)
	n := 3000
	if thorough {
		n = 100000
	}
	for i := 0; i < n; i++ {
		sc := urlSchemes[rng.Intn(len(urlSchemes))]
		e.emit(sc + seps[rng.Intn(3)] + randBytes(rng, rng.Intn(6)))
		e.emit(randBytes(rng, rng.Intn(12)))
	}
}
func rep(s string, n int) string {
	if n <= 0 {
		return ""
	}
	return strings.Repeat(s, (n+len(s)-1)/len(s))[:n]
}

func genEmail(e *emitter, rng *rand.Rand, thorough bool) {
	// exhaustive short strings over one representative per character class
	alpha := []string{"a", "1", ".", "-", "_", "@", "+", " ", "\u0161", "\xff"}
	maxn := 6
	if thorough {
		maxn = 7
	}
	var rec func(prefix string, n int)
	rec = func(prefix string, n int) {
		e.emit(prefix)
		if n == 0 {
			return
		}
		for _, a := range alpha {
			rec(prefix+a, n-1)
		}
	}
	rec("", maxn)
	// members and every single-byte mutation / insertion / deletion
	members := []string{"a@b.c", "user.name+tag@sub.example.com", "x_y-z@a-b.co", "A1!#$%&'*+-/=?^_`{|}~z@EXAMPLE.ORG", "a.b.c@1.2.3", "u@xn--80ak6aa92e.com"}
	mut := []byte{'\r', 0x0e, 0x10, 0x11, 0x19, 0x0d, 0x1f, 'a', 'Z', '0', '.', '-', '_', '@', '+', ' ', '"', '(', ',', ':', ';', '<', '>', '[', '\\', ']', 0, 0x7f, 0x80, 0xc5, 0xa1, 0xff, '!', '~', '{', '`'}
	for _, m := range members {
		e.emit(m)
		for pos := 0; pos <= len(m); pos++ {
			for _, v := range mut {
				e.emit(m[:pos] + string([]byte{v}) + m[pos:])
				if pos < len(m) {
					b := []byte(m)
					b[pos] = v
					e.emit(string(b))
				}
			}
			if thorough && pos < len(m) {
				for v := 0; v < 256; v++ {
					b := []byte(m)
					b[pos] = byte(v)
					e.emit(string(b))
				}
			}
			if pos < len(m) {
				e.emit(m[:pos] + m[pos+1:])
			}
			// multi-byte runes whose low byte is an allowed ASCII character
			for _, r := range []string{"\u0161", "\u014d", "\u0131", "\uff41", "\u212a", "\u00e9", "\U0001f600", "\u012e", "\u0140"} {
				e.emit(m[:pos] + r + m[pos:])
			}
		}
	}
	// length limits: local 63/64/65, label 62/63/64, domain 252/253/254, total 253/254/255, minimum 4/5/6
	for _, ll := range []int{1, 2, 63, 64, 65, 66} {
		for _, lab := range []int{1, 2, 62, 63, 64} {
			for _, nl := range []int{1, 2, 3, 4, 5} {
				var labels []string
				for i := 0; i < nl; i++ {
					labels = append(labels, rep("abcdefghij", lab))
				}
				e.emit(rep("user", ll) + "@" + strings.Join(labels, "."))
			}
		}
	}
	// dot rules of the local part AT its length limits: leading / trailing / doubled dots and maximal atom counts for
	// local parts of 60..66 bytes (a bit window or counter sized for "at most 64" overflows exactly here)
	for ll := 60; ll <= 66; ll++ {
		a := rep("abcdefghij", ll)
		for _, local := range []string{
			"." + a[1:], ".." + a[2:], a[:ll-1] + ".", a[:ll-2] + "..", a[:1] + ".." + a[3:], a[:ll/2] + ".." + a[ll/2+2:],
			a[:ll/2] + "." + a[ll/2+1:], "." + a[1:ll-1] + ".", strings.Repeat("a.", ll/2)[:ll-1] + "a"[:ll%2] + "b"[:1-ll%2],
			strings.Repeat(".", ll), "a" + strings.Repeat(".", ll-2) + "b",
		} {
			e.emit(local + "@example.com")
			e.emit(local + "@b.c")
		}
	}
	// MANY labels / many dots: up to 127 one-byte labels fit into 253 bytes (valid); more dots than any valid domain has
	// (empty labels: invalid) — a fixed-size table of label offsets is exactly 127 entries long
	for _, k := range []int{100, 120, 125, 126, 127, 128, 129, 130, 200, 250, 251, 252} {
		e.emit("x@a" + strings.Repeat(".", k) + "a")
		e.emit("x@" + strings.Repeat("a.", k) + "a")
		e.emit("x@" + strings.Repeat("a.", k/2) + "bc")
		e.emit("x@" + strings.Repeat(".", k))
		e.emit(strings.Repeat("a.", 31) + "b@" + strings.Repeat("a.", k) + "a")
	}
	// a single over-long label in first, middle or last position (the others short), 2..8 labels
	for _, long := range []int{62, 63, 64, 65, 100, 200} {
		for nl := 2; nl <= 8; nl++ {
			for pos := 0; pos < nl; pos++ {
				labels := make([]string, nl)
				for i := range labels {
					labels[i] = []string{"ab", "example", "co"}[i%3]
				}
				labels[pos] = rep("abcdefghij", long)
				e.emit("user@" + strings.Join(labels, "."))
				labels[pos] = rep("abc-efghij", long)
				e.emit("u@" + strings.Join(labels, "."))
			}
		}
	}
	for dl := 248; dl <= 258; dl++ {
		for _, ll := range []int{1, 2, 3} {
			// domain of exactly dl bytes made of labels of <= 63
			var d string
			for len(d) < dl {
				rem := dl - len(d)
				n := 63
				if rem < 64 {
					n = rem
				} else if rem == 64 {
					n = 62
				}
				d += rep("abcdefghijklmnopqrstuvwxyz0123456789", n)
				if len(d) < dl {
					d += "."
				}
			}
			e.emit(rep("u", ll) + "@" + d)
			e.emit(rep("u", ll) + "@" + strings.ToUpper(d))
		}
	}
	for _, s := range []string{"a@b.", "a@.b", "a@b", "@b.c", "a@", "a@b..c", "a@-b.c", "a@b-.c", "a@b.-c", "a@b.c-", ".a@b.c", "a.@b.c", "a..b@b.c", "a@b@c.d", "a@@b.c", "ab.c", "a@b.c\n", "a@b.c ", " a@b.c", "a@b_c.d", "a@b.c.d.e.f.g", "a@1.2", "aa@b", "a@bb", "a@b.cc"} {
		e.emit(s)
	}
	n := 3000
	if thorough {
		n = 200000
	}
	syms := "ab1.-_@+ !~"
	for i := 0; i < n; i++ {
		k := 3 + rng.Intn(12)
		b := make([]byte, k)
		for j := range b {
			b[j] = syms[rng.Intn(len(syms))]
		}
		e.emit(string(b))
		// mostly-valid: local@label.label with occasional noise
		l := rep("ab.c1_d", 1+rng.Intn(8))
		d := rep("ex-ample", 1+rng.Intn(9)) + "." + rep("co-m", 1+rng.Intn(5))
		s := l + "@" + d
		if rng.Intn(3) == 0 {
			bb := []byte(s)
			bb[rng.Intn(len(bb))] = mut[rng.Intn(len(mut))]
			s = string(bb)
		}
		e.emit(s)
		e.emit(randBytes(rng, rng.Intn(10)))
	}
}

func genAscii(e *emitter, rng *rand.Rand, thorough bool) {
	for v := 0; v < 256; v++ {
		e.emit(string([]byte{byte(v)}))
		e.emit("a" + string([]byte{byte(v)}))
		e.emit(string([]byte{byte(v)}) + "7")
		e.emit("Zz" + string([]byte{byte(v)}) + "09")
	}
	for _, s := range []string{"", "abc", "ABC", "123", "0", "a1", "1a", " ", "-1", "+1", "1.0", "1e3", "\u0661\u0662", "\uff11", "\u00e9", "ab\xc3", "\xc3\xa9", "12\xff", "\xc1", "\xda", "\xe1", "\xfa", "\u0130", "abc\x00"} {
		e.emit(s)
	}
	n := 2000
	if thorough {
		n = 100000
	}
	for i := 0; i < n; i++ {
		k := rng.Intn(10)
		b := make([]byte, k)
		for j := range b {
			switch rng.Intn(6) {
			case 0:
				b[j] = byte(rng.Intn(256))
			case 1, 2:
				b[j] = byte('0' + rng.Intn(10))
			default:
				b[j] = "abcxyzABCXYZ"[rng.Intn(12)]
			}
		}
		e.emit(string(b))
	}
}

func genUTF8(e *emitter, rng *rand.Rand, thorough bool) {
	// all 1- and 2-byte strings
	for a := 0; a < 256; a++ {
		e.emit(string([]byte{byte(a)}))
		for b := 0; b < 256; b++ {
			e.emit(string([]byte{byte(a), byte(b)}))
		}
	}
	// 3-byte strings with a lead byte >= 0xC0 (all in thorough, sampled in quick)
	for a := 0xC0; a < 256; a++ {
		for b := 0; b < 256; b++ {
			for c := 0; c < 256; c++ {
				if !thorough && rng.Intn(64) != 0 {
					continue
				}
				e.emit(string([]byte{byte(a), byte(b), byte(c)}))
			}
		}
	}
	// structured 4-byte sequences: every lead F0..F7 x boundary second bytes x boundary continuation bytes
	bnd := []byte{0x00, 0x7f, 0x80, 0x8f, 0x90, 0x9f, 0xa0, 0xbf, 0xc0, 0xff}
	for a := 0xEC; a < 0xF8; a++ {
		for _, b := range bnd {
			for _, c := range bnd {
				for _, d := range bnd {
					e.emit(string([]byte{byte(a), b, c, d}))
				}
			}
		}
	}
	// all strings of <= 6 symbols over {1-,2-,3-,4-byte rune, lone continuation, 0xFF, truncated lead}
	syms := []string{"a", "\u00e9", "\u20ac", "\U0001f600", "\x80", "\xff", "\xe2\x82", "\xf0\x9f"}
	maxn := 5
	if thorough {
		maxn = 6
	}
	var rec func(prefix string, n int)
	rec = func(prefix string, n int) {
		e.emit(prefix)
		if n == 0 {
			return
		}
		for _, a := range syms {
			rec(prefix+a, n-1)
		}
	}
	rec("", maxn)
	n := 2000
	if thorough {
		n = 100000
	}
	for i := 0; i < n; i++ {
		e.emit(randBytes(rng, rng.Intn(40)))
	}
}
