package main

// corr-iso (C14): the real generator on name-sharing packages — alone vs together, GOMAXPROCS settings,
// repetitions, reruns over the generated tree, invocation forms, declaration order, file split,
// regenerate-after-shrink histories, directory snapshots, and the -race build.

import (
	"encoding/hex"
	"encoding/json"
	"fmt"
	"math/rand"
	"os"
	"os/exec"
	"path/filepath"
	"sort"
	"strconv"
	"strings"
)

type IsoRow struct {
	Group  string `json:"group"`
	Kind   string `json:"kind"` // together rerun form perm split shrink grouped otherfiles race exit
	Pkg    string `json:"pkg,omitempty"`
	File   string `json:"file,omitempty"`
	Cfg    string `json:"cfg,omitempty"`
	OK     bool   `json:"ok"`
	Detail string `json:"detail,omitempty"`
	Want   string `json:"want,omitempty"` // hex, only on mismatch
	Got    string `json:"got,omitempty"`
	Source string `json:"source,omitempty"`
	Others string `json:"others,omitempty"` // sources of the sibling packages of the invocation (mismatch only)
}

type isoRunner struct {
	*runner
	enc    *json.Encoder
	counts map[string]int
}

func (r *isoRunner) emit(row IsoRow) {
	r.counts[row.Kind+":"+map[bool]string{true: "ok", false: "FAIL"}[row.OK]]++
	if row.OK {
		row.Want, row.Got, row.Source, row.Others = "", "", "", ""
		// one line per kind/cfg is enough for passing comparisons: aggregate instead
		return
	}
	_ = r.enc.Encode(row)
}

func validators(dir string) map[string]string {
	res := map[string]string{}
	ms, _ := filepath.Glob(filepath.Join(dir, "*_validator.go"))
	for _, m := range ms {
		b, _ := os.ReadFile(m)
		res[filepath.Base(m)] = string(b)
	}
	return res
}

func removeValidators(root string) {
	_ = filepath.Walk(root, func(p string, info os.FileInfo, err error) error {
		if err == nil && !info.IsDir() && strings.HasSuffix(p, "_validator.go") {
			_ = os.Remove(p)
		}
		return nil
	})
}

func (r *isoRunner) run(dir string, gomaxprocs int, bin string, args ...string) (string, int) {
	c := exec.Command(bin, args...)
	c.Dir = dir
	c.Env = append(append([]string{}, goEnv...), "GOMAXPROCS="+strconv.Itoa(gomaxprocs))
	out, err := c.CombinedOutput()
	code := 0
	if err != nil {
		code = 1
		if ee, ok := err.(*exec.ExitError); ok {
			code = ee.ExitCode()
		}
	}
	return string(out), code
}

func writePkg(root, pkg string, files map[string]string) {
	dir := filepath.Join(root, pkg)
	_ = os.MkdirAll(dir, 0o755)
	for n, s := range files {
		_ = os.WriteFile(filepath.Join(dir, n), []byte(s), 0o644)
	}
}

func hexOf(s string) string { return hex.EncodeToString([]byte(s)) }

func (r *isoRunner) compare(group, kind, pkg, cfg string, want, got map[string]string, src, others string) {
	names := map[string]bool{}
	for n := range want {
		names[n] = true
	}
	for n := range got {
		names[n] = true
	}
	var sorted []string
	for n := range names {
		sorted = append(sorted, n)
	}
	sort.Strings(sorted)
	for _, n := range sorted {
		w, okW := want[n]
		g, okG := got[n]
		row := IsoRow{Group: group, Kind: kind, Pkg: pkg, File: n, Cfg: cfg, OK: okW && okG && w == g}
		if !row.OK {
			switch {
			case !okG:
				row.Detail = "file missing (generated when the package is processed alone)"
			case !okW:
				row.Detail = "extra file (not generated when the package is processed alone)"
			default:
				row.Detail = "bytes differ from the file generated when the package is processed alone"
			}
			row.Want, row.Got, row.Source, row.Others = hexOf(w), hexOf(g), src, others
		}
		r.emit(row)
	}
}

func snapshotOthers(root string) map[string]string {
	res := map[string]string{}
	_ = filepath.Walk(root, func(p string, info os.FileInfo, err error) error {
		if err == nil && !info.IsDir() && !strings.HasSuffix(p, "_validator.go") {
			b, _ := os.ReadFile(p)
			res[p] = string(b)
		}
		return nil
	})
	return res
}

func (r *isoRunner) checkOthers(group, cfg string, before map[string]string, root string) {
	after := snapshotOthers(root)
	var diff []string
	for p, c := range after {
		if old, ok := before[p]; !ok {
			diff = append(diff, "created:"+strings.TrimPrefix(p, root))
		} else if old != c {
			diff = append(diff, "modified:"+strings.TrimPrefix(p, root))
		}
	}
	for p := range before {
		if _, ok := after[p]; !ok {
			diff = append(diff, "deleted:"+strings.TrimPrefix(p, root))
		}
	}
	sort.Strings(diff)
	r.emit(IsoRow{Group: group, Kind: "otherfiles", Cfg: cfg, OK: len(diff) == 0, Detail: strings.Join(diff, ",")})
}

// shrink returns the scenario with the markers of the second half of the fields of every struct removed
// (the fields stay, so that the validator files already present still type-check: the analysis driver
// refuses packages with type errors)
func shrink(sc *Scenario) *Scenario {
	out := *sc
	out.Decls = nil
	for _, d := range sc.Decls {
		nd := *d
		nd.Fields = nil
		n := (len(d.Fields) + 1) / 2
		for i, f := range d.Fields {
			nf := *f
			if i >= n {
				nf.Markers = nil
				if nf.Nested != nil {
					var inner []*Field
					for _, g := range nf.Nested {
						ng := *g
						ng.Markers = nil
						inner = append(inner, &ng)
					}
					nf.Nested = inner
				}
			}
			nd.Fields = append(nd.Fields, &nf)
		}
		if len(nd.Markers) > 1 {
			nd.Markers = nd.Markers[:1]
		}
		out.Decls = append(out.Decls, &nd)
	}
	return &out
}

// isoMain: harness iso <tier> <seed> <workdir> <govalid> <repo> [<govalid built with -race>]
func isoMain(args []string) {
	initEnv()
	tier := args[0]
	seed, _ := strconv.ParseInt(args[1], 10, 64)
	base := &runner{work: args[2], govalid: args[3], repo: args[4]}
	raceBin := ""
	if len(args) > 5 {
		raceBin = args[5]
	}
	if err := base.setup(); err != nil {
		fmt.Fprintln(os.Stderr, err)
		os.Exit(2)
	}
	r := &isoRunner{runner: base, enc: json.NewEncoder(out), counts: map[string]int{}}
	rng := rand.New(rand.NewSource(seed))
	g := &gen{rng: rng}
	sizes := []int{2, 5, 16}
	reps := 3
	procs := []int{1, 2, 16}
	if tier == "thorough" {
		sizes = []int{2, 3, 5, 8, 12, 16, 16, 16}
		reps = 12
	}
	mod := base.mod()
	for gi, K := range sizes {
		group := fmt.Sprintf("g%d", gi)
		scs := g.famRandom(group+"x", K, 6)
		// every package also declares `Account` with the same field names but different CEL rules (and
		// therefore different imports); in odd groups all packages share one package NAME (different directories)
		for k, sc := range scs {
			owner := fmt.Sprintf("value.startsWith('p%d')", k)
			if k%3 == 1 {
				owner = fmt.Sprintf("size(value) > %d", k)
			}
			sc.Raw = fmt.Sprintf("type Account struct {\n\t//govalid:cel=value >= %d\n\tAge int\n\n\t//govalid:cel=%s\n\tOwner string\n}\n", 10+k, owner)
		}
		pkgName := func(sc *Scenario) string {
			if gi%2 == 1 {
				return "v1"
			}
			return "p" + sc.ID
		}
		srcOf := map[string]string{}
		var allSrc []string
		// ---- alone: every package in an invocation of its own
		solo := map[string]map[string]string{}
		soloRoot := filepath.Join(mod, group+"solo")
		for _, sc := range scs {
			pkg := "p" + sc.ID
			srcOf[pkg] = sc.Source(pkgName(sc))
			allSrc = append(allSrc, srcOf[pkg])
			writePkg(soloRoot, pkg, map[string]string{"x.go": srcOf[pkg]})
			if o, c := r.run(mod, 4, base.govalid, "./"+group+"solo/"+pkg); c != 0 {
				r.emit(IsoRow{Group: group, Kind: "exit", Pkg: pkg, Cfg: "alone", OK: false, Detail: tail(o, 800), Source: srcOf[pkg]})
			}
			solo[pkg] = validators(filepath.Join(soloRoot, pkg))
		}
		others := strings.Join(allSrc, "\n// ---- next package ----\n")
		// ---- together: ./... over all K packages, GOMAXPROCS x repetitions, fresh tree each time
		togRoot := filepath.Join(mod, group+"tog")
		for _, sc := range scs {
			writePkg(togRoot, "p"+sc.ID, map[string]string{"x.go": srcOf["p"+sc.ID]})
		}
		before := snapshotOthers(togRoot)
		for _, mp := range procs {
			for rep := 0; rep < reps; rep++ {
				cfg := fmt.Sprintf("./... K=%d GOMAXPROCS=%d rep=%d", K, mp, rep)
				removeValidators(togRoot)
				o, c := r.run(mod, mp, base.govalid, "./"+group+"tog/...")
				r.emit(IsoRow{Group: group, Kind: "exit", Cfg: cfg, OK: c == 0, Detail: tail(o, 1500), Others: others})
				for _, sc := range scs {
					pkg := "p" + sc.ID
					r.compare(group, "together", pkg, cfg, solo[pkg], validators(filepath.Join(togRoot, pkg)), srcOf[pkg], others)
				}
			}
		}
		// ---- rerun: second and third run over the already generated tree
		for rerun := 2; rerun <= 3; rerun++ {
			cfg := fmt.Sprintf("./... K=%d run #%d over the generated tree", K, rerun)
			o, c := r.run(mod, 16, base.govalid, "./"+group+"tog/...")
			r.emit(IsoRow{Group: group, Kind: "exit", Cfg: cfg, OK: c == 0, Detail: tail(o, 1500)})
			for _, sc := range scs {
				pkg := "p" + sc.ID
				r.compare(group, "rerun", pkg, cfg, solo[pkg], validators(filepath.Join(togRoot, pkg)), srcOf[pkg], others)
			}
		}
		r.checkOthers(group, "after all ./... runs", before, togRoot)
		// ---- permuted package order on the command line (explicit directories, reversed)
		{
			removeValidators(togRoot)
			var dirs []string
			for i := len(scs) - 1; i >= 0; i-- {
				dirs = append(dirs, "./"+group+"tog/p"+scs[i].ID)
			}
			cfg := fmt.Sprintf("explicit directories in reverse order K=%d", K)
			o, c := r.run(mod, 16, base.govalid, dirs...)
			r.emit(IsoRow{Group: group, Kind: "exit", Cfg: cfg, OK: c == 0, Detail: tail(o, 1500)})
			for _, sc := range scs {
				pkg := "p" + sc.ID
				r.compare(group, "form", pkg, cfg, solo[pkg], validators(filepath.Join(togRoot, pkg)), srcOf[pkg], others)
			}
		}
		// ---- invocation forms for two packages: directory, single file
		for _, sc := range scs[:2] {
			pkg := "p" + sc.ID
			for _, form := range []string{"./" + group + "tog/" + pkg, "./" + group + "tog/" + pkg + "/x.go"} {
				removeValidators(filepath.Join(togRoot, pkg))
				o, c := r.run(mod, 16, base.govalid, form)
				r.emit(IsoRow{Group: group, Kind: "exit", Pkg: pkg, Cfg: form, OK: c == 0, Detail: tail(o, 800)})
				r.compare(group, "form", pkg, "form "+form, solo[pkg], validators(filepath.Join(togRoot, pkg)), srcOf[pkg], "")
			}
		}
		// ---- declaration order and file split must not matter (per struct)
		for _, sc := range scs {
			if len(sc.Decls) < 2 {
				continue
			}
			pkg := "p" + sc.ID
			rev := *sc
			rev.Decls = nil
			for i := len(sc.Decls) - 1; i >= 0; i-- {
				rev.Decls = append(rev.Decls, sc.Decls[i])
			}
			permRoot := filepath.Join(mod, group+"perm")
			writePkg(permRoot, pkg, map[string]string{"x.go": rev.Source(pkgName(sc))})
			o, c := r.run(mod, 16, base.govalid, "./"+group+"perm/"+pkg)
			r.emit(IsoRow{Group: group, Kind: "exit", Pkg: pkg, Cfg: "reversed declarations", OK: c == 0, Detail: tail(o, 800)})
			r.compare(group, "perm", pkg, "declarations reversed", solo[pkg], validators(filepath.Join(permRoot, pkg)), rev.Source(pkgName(sc)), "")
			// split: first declaration (and the named types) in x.go, the rest in y.go
			a, b := *sc, *sc
			a.Decls, b.Decls = sc.Decls[:1], sc.Decls[1:]
			b.Named = nil
			b.Raw = ""
			splitRoot := filepath.Join(mod, group+"split")
			writePkg(splitRoot, pkg, map[string]string{"x.go": a.Source(pkgName(sc)), "y.go": b.Source(pkgName(sc))})
			o, c = r.run(mod, 16, base.govalid, "./"+group+"split/"+pkg)
			r.emit(IsoRow{Group: group, Kind: "exit", Pkg: pkg, Cfg: "split over two files", OK: c == 0, Detail: tail(o, 800)})
			got := map[string]string{}
			for n, s := range validators(filepath.Join(splitRoot, pkg)) {
				got["x_"+strings.TrimPrefix(strings.TrimPrefix(n, "x_"), "y_")] = s
			}
			r.compare(group, "split", pkg, "declarations split over x.go and y.go", solo[pkg], got, a.Source(pkgName(sc))+"\n// ---- y.go ----\n"+b.Source(pkgName(sc)), "")
			break
		}
		// ---- history: generate, shrink every struct, regenerate; compare with the shrunk package generated alone
		for _, sc := range scs[:min(len(scs), 4)] {
			pkg := "p" + sc.ID
			small := shrink(sc)
			smallSrc := small.Source(pkgName(sc))
			if smallSrc == srcOf[pkg] {
				continue
			}
			refRoot := filepath.Join(mod, group+"shrinkref")
			writePkg(refRoot, pkg, map[string]string{"x.go": smallSrc})
			if o, c := r.run(mod, 4, base.govalid, "./"+group+"shrinkref/"+pkg); c != 0 {
				r.emit(IsoRow{Group: group, Kind: "exit", Pkg: pkg, Cfg: "shrunk alone", OK: false, Detail: tail(o, 800), Source: smallSrc})
			}
			ref := validators(filepath.Join(refRoot, pkg))
			histRoot := filepath.Join(mod, group+"shrink")
			writePkg(histRoot, pkg, map[string]string{"x.go": srcOf[pkg]})
			_, _ = r.run(mod, 4, base.govalid, "./"+group+"shrink/"+pkg)
			writePkg(histRoot, pkg, map[string]string{"x.go": smallSrc})
			o, c := r.run(mod, 4, base.govalid, "./"+group+"shrink/"+pkg)
			r.emit(IsoRow{Group: group, Kind: "exit", Pkg: pkg, Cfg: "regenerate after shrinking", OK: c == 0, Detail: tail(o, 800)})
			got := validators(filepath.Join(histRoot, pkg))
			for n := range got {
				if _, ok := ref[n]; !ok {
					delete(got, n) // a struct that lost all its markers keeps its stale file: the generator does not delete files
				}
			}
			r.compare(group, "shrink", pkg, "generate; drop the markers of half of the fields of every struct; regenerate", ref, got, srcOf[pkg]+"\n// ---- shrunk to ----\n"+smallSrc, "")
		}
		// ---- grouped declaration: the file generated for a struct of a `type ( … )` group must not depend on which sibling
		// specs stand in the group, or on their order (markers on the group, markers on each spec, a spec without its own)
		{
			gdoc := [][]Marker{{{ID: "required"}}, {{ID: "maxlength", Expr: "5", HasExpr: true}}, {{ID: "gt", Expr: "0", HasExpr: true}, {ID: "required"}}}[gi%3]
			own := [][]Marker{
				{{ID: "maxlength", Expr: "10", HasExpr: true}},
				{{ID: "maxlength", Expr: "20", HasExpr: true}, {ID: "minlength", Expr: "2", HasExpr: true}},
				nil,
				{{ID: "lte", Expr: "99", HasExpr: true}},
			}
			var decls []*Decl
			for di, ms := range own {
				decls = append(decls, &Decl{Name: fmt.Sprintf("G%c", 'A'+di), Group: "g", GroupDoc: gdoc, Markers: ms, Fields: []*Field{
					{Names: []string{"Name"}, Type: stringT},
					{Names: []string{"Age"}, Type: basicT("int", "Int")},
				}})
			}
			grpRoot := filepath.Join(mod, group+"grp")
			gen1 := func(sub string, ds []*Decl) (map[string]string, string) {
				sc := newScenario(group + "grp")
				sc.Decls = ds
				src := sc.Source("pgrp")
				_ = os.RemoveAll(filepath.Join(grpRoot, sub))
				writePkg(grpRoot, sub, map[string]string{"x.go": src})
				if o, c := r.run(mod, 4, base.govalid, "./"+group+"grp/"+sub); c != 0 {
					r.emit(IsoRow{Group: group, Kind: "exit", Pkg: sub, Cfg: "grouped declaration", OK: false, Detail: tail(o, 800), Source: src})
				}
				return validators(filepath.Join(grpRoot, sub)), src
			}
			alone := map[string]string{}
			for _, d := range decls {
				v, _ := gen1("alone"+d.Name, []*Decl{d})
				for n, c := range v {
					alone[n] = c
				}
			}
			orders := [][]int{{0, 1, 2, 3}, {3, 2, 1, 0}, {1, 0, 3, 2}, {2, 0}, {1, 3}}
			for oi, ord := range orders {
				var ds []*Decl
				want := map[string]string{}
				for _, i := range ord {
					ds = append(ds, decls[i])
					fn := "x_" + strings.ToLower(decls[i].Name) + "_validator.go"
					if c, ok := alone[fn]; ok {
						want[fn] = c
					}
				}
				got, src := gen1(fmt.Sprintf("ord%d", oi), ds)
				r.compare(group, "grouped", fmt.Sprintf("ord%d", oi), fmt.Sprintf("specs of one type group in the order %v, each compared with the same spec alone in the group", ord), want, got, src, "")
			}
			_ = os.RemoveAll(grpRoot)
		}
		// ---- race detector on the multi-package run
		if raceBin != "" && K >= 5 {
			for rep := 0; rep < 2; rep++ {
				removeValidators(togRoot)
				o, c := r.run(mod, 16, raceBin, "./"+group+"tog/...")
				bad := strings.Contains(o, "DATA RACE") || strings.Contains(o, "concurrent map")
				r.emit(IsoRow{Group: group, Kind: "race", Cfg: fmt.Sprintf("-race build, ./... K=%d rep=%d", K, rep), OK: !bad && c == 0, Detail: tail(o, 3000), Others: others})
			}
		}
		for _, d := range []string{"solo", "tog", "perm", "split", "shrink", "shrinkref"} {
			_ = os.RemoveAll(filepath.Join(mod, group+d))
		}
	}
	_ = r.enc.Encode(map[string]any{"summary": r.counts})
}
