// harness: the implementation side of the correspondence checks.
// It calls the real govalid code in-process (or the real binary) and prints one line per case.
package main

import (
	"bufio"
	"fmt"
	"os"
	"strconv"
)

var out *bufio.Writer

func main() {
	if len(os.Args) < 2 {
		fmt.Fprintln(os.Stderr, "usage: harness <rec|...> args")
		os.Exit(2)
	}
	out = bufio.NewWriterSize(os.Stdout, 1<<20)
	defer out.Flush()
	switch os.Args[1] {
	case "rec":
		// harness rec <fn> <quick|thorough> <seed>
		seed, _ := strconv.ParseInt(os.Args[4], 10, 64)
		recMain(os.Args[2], os.Args[3], seed)
	case "rec-twice":
		// harness rec-twice <fn> <quick|thorough> <seed>
		seed, _ := strconv.ParseInt(os.Args[4], 10, 64)
		recTwice(os.Args[2], os.Args[3], seed)
	case "rec-reverse":
		// harness rec-reverse <fn> <quick|thorough> <seed>   (child process of rec-twice)
		seed, _ := strconv.ParseInt(os.Args[4], 10, 64)
		recReverse(os.Args[2], os.Args[3], seed)
	case "gen":
		// harness gen <family> <tier> <seed> <workdir> <govalid binary> <repo>
		genMain(os.Args[2:])
	case "mig":
		// harness mig <tier> <seed> <workdir> <govalid> <repo>
		migMain(os.Args[2:])
	case "cel":
		// harness cel <tier> <seed> <workdir> <govalid> <repo> [n]
		celMain(os.Args[2:])
	case "iso":
		// harness iso <tier> <seed> <workdir> <govalid> <repo> [<govalid -race>]
		isoMain(os.Args[2:])
	case "mw":
		// harness mw <tier> <seed> <workdir> <govalid> <repo>
		mwMain(os.Args[2:])
	case "helpers-race":
		// harness helpers-race <tier> <workdir> <repo>
		hraceMain(os.Args[2:])
	case "rec-one":
		// harness rec-one <fn> <hex>
		recOne(os.Args[2], os.Args[3])
	default:
		fmt.Fprintln(os.Stderr, "unknown subcommand", os.Args[1])
		os.Exit(2)
	}
}
