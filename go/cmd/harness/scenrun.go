package main

// Runs scenarios through the REAL generator binary, dumps the structure of what it emitted, compiles
// the result with a synthesized driver and observes Validate() on every value.

import (
	"bytes"
	"encoding/json"
	"fmt"
	"go/ast"
	"go/parser"
	"go/printer"
	"go/token"
	"os"
	"os/exec"
	"path/filepath"
	"sort"
	"strconv"
	"strings"
	"sync"
)

type DeclResult struct {
	Scenario string   `json:"scenario"`
	Decl     string   `json:"decl"`
	DeclSexp string   `json:"decl_sexp"`
	SpecSexp string   `json:"spec_sexp,omitempty"` // set when a nested-struct field carries markers: the declaration with those markers pushed down to the direct leaf fields
	CanonSexp string  `json:"canon_sexp,omitempty"` // set when a marker parameter is spelled unusually: the declaration with plain decimal parameters (asked of the Spec; the models only read decimal)
	History  string   `json:"history,omitempty"`   // earlier version of the source that was generated in the same directory first
	GenExit  int      `json:"gen_exit"`
	GenErr   string   `json:"gen_err,omitempty"`
	File     string   `json:"file,omitempty"`    // generated file name ("" = no file)
	Dump     string   `json:"dump,omitempty"`    // canonical skeleton of Validate<T>Context
	Sents    string   `json:"sents,omitempty"`   // sentinel declarations
	Polls    int      `json:"polls"`             // number of ctx.Err() polls
	Unknown  []string `json:"unknown,omitempty"` // statement forms outside the grammar
	Imports  []string `json:"imports,omitempty"`
	ErrVars  []string `json:"errvars,omitempty"` // exported Err* variables of the file
	Gofmt    bool     `json:"gofmt"`
	Builds   bool     `json:"builds"`
	BuildErr string   `json:"build_err,omitempty"`
	Vet      string   `json:"vet,omitempty"` // "" not run, "ok", or the vet output
	Values   []string `json:"values,omitempty"` // value S-expressions
	Obs      []string `json:"obs,omitempty"`    // observed outcome per value
	Extra    []string `json:"extra,omitempty"`  // per value: extra observations (allocs, mutation, ctx …)
	NilRecv  string   `json:"nilrecv,omitempty"`
	AltAlloc string   `json:"altalloc,omitempty"` // allocations of one pass over ALL valid values of the struct (Validate + ValidateContext each)
	Source   string   `json:"source,omitempty"`
}

var goEnv []string

func initEnv() {
	goEnv = append(os.Environ(), "GOFLAGS=-mod=mod", "GOPROXY=off")
}

func nospace(s string) string {
	var sb strings.Builder
	inStr := false
	var q byte
	for i := 0; i < len(s); i++ {
		c := s[i]
		if inStr {
			sb.WriteByte(c)
			if c == '\\' && i+1 < len(s) {
				i++
				sb.WriteByte(s[i])
			} else if c == q {
				inStr = false
			}
			continue
		}
		if c == '"' || c == '`' {
			inStr = true
			q = c
			sb.WriteByte(c)
			continue
		}
		if c == ' ' || c == '\t' || c == '\n' {
			continue
		}
		sb.WriteByte(c)
	}
	return sb.String()
}

func nodeText(fset *token.FileSet, n any) string {
	var buf bytes.Buffer
	_ = printer.Fprint(&buf, fset, n)
	return nospace(buf.String())
}

// dumpGenerated parses one generated file and renders the canonical skeleton. Any statement form
// outside the grammar of templates/validation.go.tmpl is reported in `unknown`.
func dumpGenerated(path, typeName string, res *DeclResult) {
	src, err := os.ReadFile(path)
	if err != nil {
		res.Unknown = append(res.Unknown, "unreadable: "+err.Error())
		return
	}
	fset := token.NewFileSet()
	f, err := parser.ParseFile(fset, path, src, parser.ParseComments)
	if err != nil {
		res.Unknown = append(res.Unknown, "parse: "+err.Error())
		return
	}
	for _, im := range f.Imports {
		res.Imports = append(res.Imports, strings.Trim(im.Path.Value, "\""))
	}
	unk := func(n ast.Node, what string) {
		res.Unknown = append(res.Unknown, what+": "+nodeText(fset, n))
	}
	var sents []string
	var blocks []string
	aliases := map[string]string{} // current → legacy
	var sentOrder []string
	sentInfo := map[string][2]string{}
	for _, d := range f.Decls {
		switch d := d.(type) {
		case *ast.GenDecl:
			if d.Tok == token.IMPORT {
				continue
			}
			if d.Tok != token.VAR {
				unk(d, "decl")
				continue
			}
			for _, sp := range d.Specs {
				vs := sp.(*ast.ValueSpec)
				if len(vs.Names) != 1 || len(vs.Values) != 1 {
					unk(vs, "var")
					continue
				}
				name := vs.Names[0].Name
				switch v := vs.Values[0].(type) {
				case *ast.CallExpr:
					txt := nodeText(fset, v)
					if name == "_" && txt == "(*"+typeName+")(nil)" {
						continue
					}
					if name == "ErrNil"+typeName && strings.HasPrefix(txt, "errors.New(") {
						res.ErrVars = append(res.ErrVars, name)
						continue
					}
					unk(vs, "var")
				case *ast.Ident: // legacy alias
					aliases[v.Name] = name
					res.ErrVars = append(res.ErrVars, name)
				case *ast.CompositeLit:
					if nodeText(fset, v.Type) != "govaliderrors.ValidationError" {
						unk(vs, "var")
						continue
					}
					var path, typ string
					for _, e := range v.Elts {
						kv := e.(*ast.KeyValueExpr)
						val, _ := strconv.Unquote(kv.Value.(*ast.BasicLit).Value)
						switch kv.Key.(*ast.Ident).Name {
						case "Path":
							path = val
						case "Type":
							typ = val
						case "Reason":
						default:
							unk(kv, "sentinel-field")
						}
					}
					sentOrder = append(sentOrder, name)
					sentInfo[name] = [2]string{path, typ}
					res.ErrVars = append(res.ErrVars, name)
				default:
					unk(vs, "var")
				}
			}
		case *ast.FuncDecl:
			name := d.Name.Name
			body := nodeText(fset, d.Body)
			switch {
			case d.Recv == nil && name == "Validate"+typeName+"Context":
				blocks, res.Polls = dumpCtxFunc(fset, d, typeName, unk)
			case d.Recv == nil && name == "Validate"+typeName:
				if body != "{returnValidate"+typeName+"Context(context.Background(),t)}" {
					unk(d, "wrapper")
				}
			case d.Recv != nil && name == "Validate":
				if body != "{returnValidate"+typeName+"(t)}" {
					unk(d, "wrapper")
				}
			case d.Recv != nil && name == "ValidateContext":
				if body != "{returnValidate"+typeName+"Context(ctx,t)}" {
					unk(d, "wrapper")
				}
			default:
				unk(d, "func")
			}
		}
	}
	for _, n := range sentOrder {
		al := "-"
		if a, ok := aliases[n]; ok {
			al = a
		}
		sents = append(sents, fmt.Sprintf("(sentinel %s %s %s %s)", n, al, sentInfo[n][0], sentInfo[n][1]))
	}
	res.Dump = strings.Join(blocks, " ")
	res.Sents = strings.Join(sents, " ")
}

func isPoll(fset *token.FileSet, s ast.Stmt) bool {
	return nodeText(fset, s) == "ifctx.Err()!=nil{returnctx.Err()}"
}

// dumpChecks: `if COND { err := ERR; err.Value = t.F; errs = append(errs, err) }`
func dumpChecks(fset *token.FileSet, list []ast.Stmt, unk func(ast.Node, string)) []string {
	var out []string
	for _, s := range list {
		ifs, ok := s.(*ast.IfStmt)
		if !ok || ifs.Else != nil || len(ifs.Body.List) != 3 {
			unk(s, "stmt")
			continue
		}
		cond := nodeText(fset, ifs.Cond)
		if ifs.Init != nil {
			cond = nodeText(fset, ifs.Init) + ";" + cond
		}
		b0 := nodeText(fset, ifs.Body.List[0])
		b1 := nodeText(fset, ifs.Body.List[1])
		b2 := nodeText(fset, ifs.Body.List[2])
		if !strings.HasPrefix(b0, "err:=") || !strings.HasPrefix(b1, "err.Value=t.") || b2 != "errs=append(errs,err)" {
			unk(s, "check-body")
			continue
		}
		out = append(out, fmt.Sprintf("(if %s %s %s)", cond, strings.TrimPrefix(b0, "err:="), strings.TrimPrefix(b1, "err.Value=t.")))
	}
	return out
}

func dumpCtxFunc(fset *token.FileSet, d *ast.FuncDecl, typeName string, unk func(ast.Node, string)) ([]string, int) {
	list := d.Body.List
	var blocks []string
	polls := 0
	if len(list) < 4 || nodeText(fset, list[0]) != "ift==nil{returnErrNil"+typeName+"}" || nodeText(fset, list[1]) != "varerrsgovaliderrors.ValidationErrors" {
		unk(d, "prologue")
		return nil, 0
	}
	n := len(list)
	if nodeText(fset, list[n-2]) != "iflen(errs)>0{returnerrs}" || nodeText(fset, list[n-1]) != "returnnil" {
		unk(d, "epilogue")
		return nil, 0
	}
	mid := list[2 : n-2]
	i := 0
	for i < len(mid) {
		s := mid[i]
		if bl, ok := s.(*ast.BlockStmt); ok {
			// { poll; t := t.P; checks }
			if len(bl.List) < 2 || !isPoll(fset, bl.List[0]) {
				unk(bl, "block")
				i++
				continue
			}
			polls++
			as := nodeText(fset, bl.List[1])
			if !strings.HasPrefix(as, "t:=t.") {
				unk(bl, "block-assign")
				i++
				continue
			}
			cs := dumpChecks(fset, bl.List[2:], unk)
			blocks = append(blocks, "(block "+strings.TrimPrefix(as, "t:=t.")+" "+strings.Join(cs, " ")+")")
			i++
			continue
		}
		if isPoll(fset, s) {
			polls++
			j := i + 1
			for j < len(mid) {
				if _, isBl := mid[j].(*ast.BlockStmt); isBl || isPoll(fset, mid[j]) {
					break
				}
				j++
			}
			cs := dumpChecks(fset, mid[i+1:j], unk)
			blocks = append(blocks, "(block - "+strings.Join(cs, " ")+")")
			i = j
			continue
		}
		unk(s, "toplevel")
		i++
	}
	return blocks, polls
}

// ---------------------------------------------------------------- pipeline

const rtSource = `package rt

import (
	"context"
	"errors"
	"fmt"
	"io"
	"math"
	"reflect"
	"sort"
	"strings"

	govaliderrors "github.com/sivchari/govalid/validation/errors"
)

func hexs(s string) string {
	if s == "" {
		return "-"
	}
	return fmt.Sprintf("%x", s)
}

func Repr(v any) string {
	if v == nil {
		return "ref:nil"
	}
	r := reflect.ValueOf(v)
	switch r.Kind() {
	case reflect.Int, reflect.Int8, reflect.Int16, reflect.Int32, reflect.Int64:
		return fmt.Sprintf("i:%d", r.Int())
	case reflect.Uint, reflect.Uint8, reflect.Uint16, reflect.Uint32, reflect.Uint64, reflect.Uintptr:
		return fmt.Sprintf("i:%d", r.Uint())
	case reflect.Float64:
		return fmt.Sprintf("f64:%016x", math.Float64bits(r.Float()))
	case reflect.Float32:
		// read the bits in place: a float32→float64→float32 round trip would quiet signalling NaNs
		p := reflect.New(r.Type())
		p.Elem().Set(r)
		return fmt.Sprintf("f32:%08x", *(*uint32)(p.UnsafePointer()))
	case reflect.Complex128:
		c := r.Complex()
		return fmt.Sprintf("c128:%016x:%016x", math.Float64bits(real(c)), math.Float64bits(imag(c)))
	case reflect.Complex64:
		p := reflect.New(r.Type())
		p.Elem().Set(r)
		w := (*[2]uint32)(p.UnsafePointer())
		return fmt.Sprintf("c64:%08x:%08x", w[0], w[1])
	case reflect.String:
		return "s:" + hexs(r.String())
	case reflect.Bool:
		return fmt.Sprintf("b:%v", r.Bool())
	case reflect.Slice, reflect.Map:
		if r.IsNil() {
			return "coll:nil"
		}
		return fmt.Sprintf("coll:%d", r.Len())
	case reflect.Chan:
		if r.IsNil() {
			return "chan:nil"
		}
		return fmt.Sprintf("chan:%d", r.Len())
	case reflect.Array:
		return fmt.Sprintf("arr:%d", r.Len())
	case reflect.Ptr, reflect.Func, reflect.Interface:
		if r.IsNil() {
			return "ref:nil"
		}
		return "ref:set"
	}
	return "?" + r.Kind().String()
}

// Outcome renders an error returned by Validate in the canonical form shared with the Lean drivers.
func Outcome(err error) string {
	if err == nil {
		return "nil"
	}
	var ves govaliderrors.ValidationErrors
	if errors.As(err, &ves) {
		if _, direct := err.(govaliderrors.ValidationErrors); !direct {
			return "other:wrapped-report"
		}
		parts := []string{}
		for _, e := range ves {
			parts = append(parts, e.Path+"|"+e.Type+"|"+Repr(e.Value))
		}
		if len(parts) == 0 {
			return "other:empty-report"
		}
		return "report " + strings.Join(parts, " ")
	}
	if err == context.Canceled {
		return "ctx:canceled"
	}
	if err == context.DeadlineExceeded {
		return "ctx:deadline"
	}
	if strings.HasPrefix(err.Error(), "input ") && strings.HasSuffix(err.Error(), " is nil") {
		return "nilrecv"
	}
	return "other:" + err.Error()
}

// FlipCtx: a context whose Err() returns nil for the first K calls and Kind from then on (monotone).
type FlipCtx struct {
	context.Context
	K     int
	Kind  error
	Calls int
}

func (c *FlipCtx) Err() error {
	c.Calls++
	if c.Calls > c.K {
		return c.Kind
	}
	return nil
}

// CauseParent: a standard-library context that has been cancelled with a custom cause. Used as the embedded parent of a
// FlipCtx: Err() stays the FlipCtx's own, Value() reaches the cancelCtx, so context.Cause(flip) yields the custom error.
func CauseParent() context.Context {
	c, cancel := context.WithCancelCause(context.Background())
	cancel(errors.New("verif: custom cancellation cause"))
	return c
}

// Snapshot renders a value deeply and deterministically (contents of slices, maps, pointer targets).
func Snapshot(v any) string {
	var sb strings.Builder
	snap(&sb, reflect.ValueOf(v), 0)
	return sb.String()
}

func snap(sb *strings.Builder, r reflect.Value, depth int) {
	if depth > 6 || !r.IsValid() {
		sb.WriteString("_")
		return
	}
	switch r.Kind() {
	case reflect.Ptr, reflect.Interface:
		if r.IsNil() {
			sb.WriteString("nil")
			return
		}
		sb.WriteString("&")
		snap(sb, r.Elem(), depth+1)
	case reflect.Struct:
		sb.WriteString("{")
		for i := 0; i < r.NumField(); i++ {
			sb.WriteString(r.Type().Field(i).Name + ":")
			snap(sb, r.Field(i), depth+1)
			sb.WriteString(" ")
		}
		sb.WriteString("}")
	case reflect.Slice:
		if r.IsNil() {
			sb.WriteString("nil")
			return
		}
		fmt.Fprintf(sb, "[%d/%d:", r.Len(), r.Cap())
		for i := 0; i < r.Len(); i++ {
			snap(sb, r.Index(i), depth+1)
			sb.WriteString(",")
		}
		sb.WriteString("]")
	case reflect.Array:
		sb.WriteString("[")
		for i := 0; i < r.Len(); i++ {
			snap(sb, r.Index(i), depth+1)
			sb.WriteString(",")
		}
		sb.WriteString("]")
	case reflect.Map:
		if r.IsNil() {
			sb.WriteString("nil")
			return
		}
		keys := []string{}
		vals := map[string]reflect.Value{}
		for _, k := range r.MapKeys() {
			ks := fmt.Sprint(k.Interface())
			keys = append(keys, ks)
			vals[ks] = r.MapIndex(k)
		}
		sort.Strings(keys)
		sb.WriteString("map[")
		for _, k := range keys {
			sb.WriteString(k + ":")
			snap(sb, vals[k], depth+1)
			sb.WriteString(",")
		}
		sb.WriteString("]")
	case reflect.Chan:
		if r.IsNil() {
			sb.WriteString("nil")
			return
		}
		fmt.Fprintf(sb, "chan(%d/%d)", r.Len(), r.Cap())
	case reflect.Func:
		if r.IsNil() {
			sb.WriteString("nil")
		} else {
			sb.WriteString("func")
		}
	default:
		if r.CanInterface() {
			sb.WriteString(Repr(r.Interface()))
		} else {
			fmt.Fprintf(sb, "%v", r)
		}
	}
}

// IsBits: errors.Is(err, s) and errors.Is(fmt.Errorf("wrap: %w", err), s) for every sentinel.
func IsBits(err error, sents []error) string {
	var sb strings.Builder
	var wrapped error
	if err != nil {
		wrapped = fmt.Errorf("wrap: %w", err)
	}
	for _, s := range sents {
		a := err != nil && errors.Is(err, s)
		b := wrapped != nil && errors.Is(wrapped, s)
		switch {
		case a && b:
			sb.WriteByte('1')
		case !a && !b:
			sb.WriteByte('0')
		default:
			sb.WriteByte('X') // wrapping changed the verdict
		}
	}
	return sb.String()
}

// IsForeign reports whether errors.Is matches any error that no generated validator can mean: a report must match
// its own sentinels only (plain and %w-wrapped).
func IsForeign(err error) bool {
	if err == nil {
		return false
	}
	foreign := []error{io.EOF, context.Canceled, context.DeadlineExceeded, errors.New("some other error"),
		govaliderrors.ValidationError{Reason: "r", Path: "No.Such.Path", Type: "nosuchrule"}}
	w := fmt.Errorf("wrap: %w", err)
	for _, f := range foreign {
		if errors.Is(err, f) || errors.Is(w, f) {
			return true
		}
	}
	return false
}

// SentinelValuesUnset: the Value of every exported ValidationError sentinel is still nil.
func SentinelValuesUnset(sents []error) bool {
	for _, s := range sents {
		if ve, ok := s.(govaliderrors.ValidationError); ok && ve.Value != nil {
			return false
		}
	}
	return true
}

func Run(f func() error) (res string) {
	defer func() {
		if r := recover(); r != nil {
			res = "panic"
		}
	}()
	err := f()
	if err != nil {
		// the report is RENDERED as a caller would log it: rendering must not panic and must not touch the validated value
		_ = err.Error()
		_ = fmt.Sprintf("%v|%+v", err, err)
	}
	return Outcome(err)
}
`

type runner struct {
	mode    string // observation modes of the driver
	raceAll    bool   // race mode: every chunk (thorough) instead of the first one
	raceReport string // first race detector report
	raced      int    // packages raced without a report
	work    string // scratch dir
	govalid string // generator binary
	repo    string
}

func (r *runner) mod() string { return filepath.Join(r.work, "mod") }

func (r *runner) setup() error {
	if err := os.MkdirAll(filepath.Join(r.mod(), "rt"), 0o755); err != nil {
		return err
	}
	gomod := "module scen\n\ngo 1.24.3\n\nrequire github.com/sivchari/govalid v0.0.0\n\nreplace github.com/sivchari/govalid => " + r.repo + "\n"
	if err := os.WriteFile(filepath.Join(r.mod(), "go.mod"), []byte(gomod), 0o644); err != nil {
		return err
	}
	sum, _ := os.ReadFile(filepath.Join(r.repo, "go.sum"))
	_ = os.WriteFile(filepath.Join(r.mod(), "go.sum"), sum, 0o644)
	return os.WriteFile(filepath.Join(r.mod(), "rt", "rt.go"), []byte(rtSource), 0o644)
}

func (r *runner) cmd(dir string, name string, args ...string) (string, int) {
	c := exec.Command(name, args...)
	c.Dir = dir
	c.Env = goEnv
	out, err := c.CombinedOutput()
	code := 0
	if err != nil {
		code = 1
		if ee, ok := err.(*exec.ExitError); ok {
			code = ee.ExitCode()
		}
	}
	return string(out), code
}

func lowerFirst(s string) string { return strings.ToLower(s) }

// generate runs the real generator on one scenario package and dumps what it emitted.
func (r *runner) generate(sc *Scenario) []*DeclResult {
	pkg := "p" + sc.ID
	dir := filepath.Join(r.mod(), pkg)
	_ = os.MkdirAll(dir, 0o755)
	src := sc.Source(pkg)
	for rel, content := range sc.Deps {
		fp := filepath.Join(dir, rel)
		_ = os.MkdirAll(filepath.Dir(fp), 0o755)
		_ = os.WriteFile(fp, []byte(content), 0o644)
	}
	history := ""
	if sc.Pre != nil {
		// history: an earlier, larger version of the package is generated first; the files it leaves behind are
		// then overwritten by the run under test
		history = sc.Pre.Source(pkg)
		_ = os.WriteFile(filepath.Join(dir, "x.go"), []byte(history), 0o644)
		if o, c := r.cmd(r.mod(), r.govalid, "./"+pkg); c != 0 {
			history += "\n// (generating the earlier version failed: " + tail(o, 300) + ")"
		}
	}
	files := sc.Files(pkg)
	if len(files) > 1 || sc.Layout != "" {
		src = ""
		for _, n := range []string{"x.go", "y.go"} {
			if c, ok := files[n]; ok {
				src += "// ---- " + n + " ----\n" + c
			}
		}
	}
	for n, c := range files {
		_ = os.WriteFile(filepath.Join(dir, n), []byte(c), 0o644)
	}
	out, code := r.cmd(r.mod(), r.govalid, "./"+pkg)
	var res []*DeclResult
	for _, d := range sc.Decls {
		dr := &DeclResult{Scenario: sc.ID, Decl: d.Name, DeclSexp: d.Sexp(), GenExit: code, Source: src, History: history}
		if cd, any := canonDecl(d); any {
			dr.CanonSexp = cd.Sexp()
		}
		if hasMarkedNest(d.Fields) {
			pd := *d
			pd.Fields = pushdown(d.Fields, nil)
			dr.SpecSexp = pd.Sexp()
		}
		if code != 0 {
			dr.GenErr = tail(out, 1500)
		}
		fn := "x_" + lowerFirst(d.Name) + "_validator.go"
		p := filepath.Join(dir, fn)
		if _, err := os.Stat(p); err != nil {
			if _, err2 := os.Stat(filepath.Join(dir, "y_"+lowerFirst(d.Name)+"_validator.go")); err2 == nil {
				fn = "y_" + lowerFirst(d.Name) + "_validator.go"
				p = filepath.Join(dir, fn)
			}
		}
		if _, err := os.Stat(p); err == nil {
			dr.File = fn
			dumpGenerated(p, d.Name, dr)
			fo, _ := r.cmd(dir, "gofmt", "-l", fn)
			dr.Gofmt = strings.TrimSpace(fo) == ""
		}
		for _, v := range sc.Values[d.Name] {
			dr.Values = append(dr.Values, v.Sexp())
		}
		res = append(res, dr)
	}
	return res
}

func tail(s string, n int) string {
	if len(s) > n {
		return s[len(s)-n:]
	}
	return s
}

// writeDriver adds zz_run.go to the scenario package: one function per struct running every value.
// modes (comma separated): is (errors.Is against every sentinel, wrappers, nil receiver), ctx (every
// cancellation point), alloc (AllocsPerRun on the valid path), mut (deep snapshots before/after).
func (r *runner) writeDriver(sc *Scenario, results []*DeclResult, mode string) {
	pkg := "p" + sc.ID
	has := func(m string) bool { return strings.Contains(","+mode+",", ","+m+",") }
	var sb strings.Builder
	extraImports := ""
	for _, im := range sc.Imports {
		extraImports += "\t" + strings.ReplaceAll(im, "§PKG§", pkg) + "\n"
	}
	sb.WriteString("package " + pkg + "\n\nimport (\n\t\"context\"\n\t\"errors\"\n\t\"fmt\"\n\t\"io\"\n\t\"math\"\n\t\"strconv\"\n\t\"strings\"\n\t\"testing\"\n\n\t\"github.com/sivchari/govalid\"\n\n\t\"scen/rt\"\n" + extraImports + ")\n\n")
	sb.WriteString("var _ govalid.Validator\n")
	for i, u := range sc.Uses {
		sb.WriteString(strings.Replace(u, "var _ ", fmt.Sprintf("var _drvuse%d ", i), 1) + "\n")
	}
	sb.WriteString("var _ = math.Pi\nvar _ = strconv.Itoa\nvar _ = errors.New\nvar _ = context.Background\nvar _ = strings.Join\nvar _ sync.Mutex\nvar _ = testing.AllocsPerRun\nvar _ = fmt.Sprint\nvar _ = rt.Repr\n\n")
	if has("iface") {
		sb.WriteString("// interface assertions (C08)\nvar (\n")
		for _, dr := range results {
			if dr.File == "" {
				continue
			}
			T := dr.Decl
			sb.WriteString("\t_ govalid.Validator = (*" + T + ")(nil)\n\t_ govalid.ContextValidator = (*" + T + ")(nil)\n")
			sb.WriteString("\t_ func(*" + T + ") error = Validate" + T + "\n\t_ func(context.Context, *" + T + ") error = Validate" + T + "Context\n")
		}
		sb.WriteString(")\n\n")
	}
	sb.WriteString("func Run(w io.Writer) {\n")
	for _, dr := range results {
		if dr.File == "" {
			continue
		}
		sb.WriteString("\trun" + dr.Decl + "(w)\n")
	}
	sb.WriteString("}\n\n")
	for _, dr := range results {
		if dr.File == "" {
			continue
		}
		vals := sc.Values[dr.Decl]
		T := dr.Decl
		sb.WriteString("func run" + T + "(w io.Writer) {\n")
		var sentNames []string
		for _, n := range dr.ErrVars {
			if n != "ErrNil"+T {
				sentNames = append(sentNames, n)
			}
		}
		sb.WriteString("\tsents := []error{" + strings.Join(append([]string{"ErrNil" + T}, sentNames...), ", ") + "}\n\t_ = sents\n")
		sb.WriteString("\tvar valid []*" + T + "\n\t_ = valid\n")
		for i, v := range vals {
			var as []string
			v.assignments("v", &as)
			sb.WriteString("\t{\n\t\tv := &" + T + "{}\n")
			for _, a := range as {
				sb.WriteString("\t\t" + a + "\n")
			}
			sb.WriteString("\t\tvar extra []string\n")
			if has("mut") {
				sb.WriteString("\t\tbefore := rt.Snapshot(v)\n")
			}
			sb.WriteString("\t\tvar err error\n\t\tout := rt.Run(func() error { err = v.Validate(); return err })\n")
			if has("is") {
				sb.WriteString("\t\textra = append(extra, \"is=\"+rt.IsBits(err, sents))\n")
				sb.WriteString("\t\textra = append(extra, fmt.Sprintf(\"foreign=%v\", rt.IsForeign(err)))\n")
				sb.WriteString("\t\textra = append(extra, \"fn=\"+rt.Run(func() error { return Validate" + T + "(v) }))\n")
				sb.WriteString("\t\textra = append(extra, \"bg=\"+rt.Run(func() error { return v.ValidateContext(context.Background()) }))\n")
				sb.WriteString("\t\textra = append(extra, \"fnbg=\"+rt.Run(func() error { return Validate" + T + "Context(context.Background(), v) }))\n")
			}
			if has("ctx") {
				// cancellation points: every k up to one past the number of polls — of the structural dump or of an undisturbed
				// run under a counting context, whichever is larger (an output whose polls have another form dumps as 0 polls)
				sb.WriteString("\t\tprobe := &rt.FlipCtx{Context: context.Background(), K: 1 << 30, Kind: context.Canceled}\n")
				sb.WriteString("\t\trt.Run(func() error { return v.ValidateContext(probe) })\n")
				fmt.Fprintf(&sb, "\t\tkmax := %d\n\t\tif probe.Calls > kmax && probe.Calls < 4096 {\n\t\t\tkmax = probe.Calls\n\t\t}\n", dr.Polls)
				sb.WriteString("\t\tfor k := 0; k <= kmax+1; k++ {\n")
				sb.WriteString("\t\t\tfor _, kind := range []error{context.Canceled, context.DeadlineExceeded} {\n")
				// odd k: the parent is a standard context already cancelled WITH A CUSTOM CAUSE — invisible through Err() (overridden),
				// but a validator that returns context.Cause(ctx) instead of ctx.Err() hands out that cause
				sb.WriteString("\t\t\t\tc := &rt.FlipCtx{Context: context.Background(), K: k, Kind: kind}\n")
				sb.WriteString("\t\t\t\tif k%2 == 1 {\n\t\t\t\t\tc.Context = rt.CauseParent()\n\t\t\t\t}\n")
				sb.WriteString("\t\t\t\to := rt.Run(func() error { return v.ValidateContext(c) })\n")
				sb.WriteString("\t\t\t\textra = append(extra, fmt.Sprintf(\"ctx%d%s=%s#%d\", k, map[bool]string{true: \"c\", false: \"d\"}[kind == context.Canceled], o, c.Calls))\n")
				sb.WriteString("\t\t\t}\n\t\t}\n")
			}
			if has("mut") {
				sb.WriteString("\t\tout2 := rt.Run(func() error { return v.Validate() })\n")
				sb.WriteString("\t\tafter := rt.Snapshot(v)\n")
				sb.WriteString("\t\textra = append(extra, fmt.Sprintf(\"mut=%v\", before != after), fmt.Sprintf(\"rep=%v\", out == out2), fmt.Sprintf(\"sentunset=%v\", rt.SentinelValuesUnset(sents)))\n")
			}
			if has("alloc") {
				sb.WriteString("\t\tif out == \"nil\" {\n\t\t\tvalid = append(valid, v)\n")
				sb.WriteString("\t\t\ta1 := testing.AllocsPerRun(20, func() { _ = v.Validate() })\n")
				sb.WriteString("\t\t\ta2 := testing.AllocsPerRun(20, func() { _ = Validate" + T + "(v) })\n")
				sb.WriteString("\t\t\ta3 := testing.AllocsPerRun(20, func() { _ = v.ValidateContext(context.Background()) })\n")
				sb.WriteString("\t\t\textra = append(extra, fmt.Sprintf(\"alloc=%v/%v/%v\", a1, a2, a3))\n\t\t}\n")
			}
			fmt.Fprintf(&sb, "\t\tfmt.Fprintf(w, \"%s\\t%s\\t%d\\t%%s\\t%%s\\n\", out, strings.Join(extra, \";\"))\n", sc.ID, T, i)
			sb.WriteString("\t}\n")
		}
		if has("alloc") {
			// every valid value of the struct in turn inside ONE measured function: a helper that remembers its last argument
			// (and allocates whenever the argument changes) is invisible when the same value is validated over and over
			sb.WriteString("\tif len(valid) >= 2 {\n\t\ta := testing.AllocsPerRun(10, func() {\n\t\t\tfor _, v := range valid {\n\t\t\t\t_ = v.Validate()\n\t\t\t\t_ = v.ValidateContext(context.Background())\n\t\t\t}\n\t\t})\n")
			fmt.Fprintf(&sb, "\t\tfmt.Fprintf(w, \"%s\\t%s\\taltalloc\\t%%v\\tn=%%d\\n\", a, len(valid))\n\t}\n", sc.ID, T)
		}
		if has("is") {
			// nil receiver
			sb.WriteString("\t{\n\t\tvar v *" + T + "\n")
			sb.WriteString("\t\tvar err error\n\t\tout := rt.Run(func() error { err = v.Validate(); return err })\n")
			fmt.Fprintf(&sb, "\t\tfmt.Fprintf(w, \"%s\\t%s\\tnilrecv\\t%%s\\tis=%%s;ctx=%%s\\n\", out, rt.IsBits(err, sents), rt.Run(func() error { return v.ValidateContext(context.Background()) }))\n", sc.ID, T)
			sb.WriteString("\t}\n")
		}
		sb.WriteString("}\n\n")
	}
	if has("race") {
		// C16: the same values shared by G goroutines (and a private copy per goroutine) validated concurrently
		sb.WriteString("type raceV interface {\n\tValidate() error\n\tValidateContext(context.Context) error\n}\n\n")
		sb.WriteString("func raceValues() []raceV {\n\tvar out []raceV\n")
		for _, dr := range results {
			if dr.File == "" {
				continue
			}
			for i, v := range sc.Values[dr.Decl] {
				if i >= 6 {
					break
				}
				var as []string
				v.assignments("v", &as)
				sb.WriteString("\t{\n\t\tv := &" + dr.Decl + "{}\n")
				for _, a := range as {
					sb.WriteString("\t\t" + a + "\n")
				}
				sb.WriteString("\t\tout = append(out, v)\n\t}\n")
			}
		}
		sb.WriteString("\treturn out\n}\n\n")
		sb.WriteString("func Race(goroutines, iterations int) {\n\tshared := raceValues()\n\tvar wg sync.WaitGroup\n\tfor g := 0; g < goroutines; g++ {\n\t\twg.Add(1)\n\t\tgo func(g int) {\n\t\t\tdefer wg.Done()\n\t\t\tdefer func() { _ = recover() }()\n\t\t\town := raceValues()\n\t\t\tfor it := 0; it < iterations; it++ {\n\t\t\t\tfor _, v := range shared {\n\t\t\t\t\t_ = v.Validate()\n\t\t\t\t\t_ = v.ValidateContext(context.Background())\n\t\t\t\t}\n\t\t\t\tfor _, v := range own {\n\t\t\t\t\t_ = v.Validate()\n\t\t\t\t}\n\t\t\t}\n\t\t}(g)\n\t}\n\twg.Wait()\n}\n")
	} else {
		sb.WriteString("func Race(goroutines, iterations int) {}\n")
	}
	_ = os.WriteFile(filepath.Join(r.mod(), pkg, "zz_run.go"), []byte(strings.Replace(sb.String(), "\t\"strings\"\n", "\t\"strings\"\n\t\"sync\"\n", 1)), 0o644)
}

// runAll: generate (parallel), build each package (parallel), one driver binary, observe.
func (r *runner) runAll(scs []*Scenario) []*DeclResult {
	var mu sync.Mutex
	all := map[string][]*DeclResult{}
	sem := make(chan struct{}, 16)
	var wg sync.WaitGroup
	for _, sc := range scs {
		wg.Add(1)
		go func(sc *Scenario) {
			defer wg.Done()
			sem <- struct{}{}
			defer func() { <-sem }()
			res := r.generate(sc)
			r.writeDriver(sc, res, r.mode)
			mu.Lock()
			all[sc.ID] = res
			mu.Unlock()
		}(sc)
	}
	wg.Wait()
	// build all packages; on failure find the offenders one by one
	buildOK := map[string]bool{}
	out, code := r.cmd(r.mod(), "go", "build", "./...")
	if code == 0 {
		for _, sc := range scs {
			buildOK[sc.ID] = true
		}
	} else {
		_ = out
		for _, sc := range scs {
			wg.Add(1)
			go func(sc *Scenario) {
				defer wg.Done()
				sem <- struct{}{}
				defer func() { <-sem }()
				o, c := r.cmd(r.mod(), "go", "build", "./p"+sc.ID)
				mu.Lock()
				buildOK[sc.ID] = c == 0
				if c != 0 {
					for _, dr := range all[sc.ID] {
						dr.BuildErr = tail(o, 1200)
					}
				}
				mu.Unlock()
			}(sc)
		}
		wg.Wait()
	}
	if strings.Contains(","+r.mode+",", ",vet,") {
		for _, sc := range scs {
			if !buildOK[sc.ID] {
				continue
			}
			wg.Add(1)
			go func(sc *Scenario) {
				defer wg.Done()
				sem <- struct{}{}
				defer func() { <-sem }()
				o, c := r.cmd(r.mod(), "go", "vet", "./p"+sc.ID)
				mu.Lock()
				for _, dr := range all[sc.ID] {
					if c == 0 {
						dr.Vet = "ok"
					} else {
						dr.Vet = tail(o, 1200)
					}
				}
				mu.Unlock()
			}(sc)
		}
		wg.Wait()
	}
	// driver main
	var ids []string
	for _, sc := range scs {
		if buildOK[sc.ID] {
			ids = append(ids, sc.ID)
			for _, dr := range all[sc.ID] {
				dr.Builds = true
			}
		}
	}
	sort.Strings(ids)
	// one driver binary per chunk of packages (a single binary over hundreds of large packages exceeds the linker's limits)
	obs := map[string]string{}
	extra := map[string]string{}
	var chunks [][]string
	size := 0
	for _, id := range ids {
		n := 0
		if fi, err := os.Stat(filepath.Join(r.mod(), "p"+id, "zz_run.go")); err == nil {
			n = int(fi.Size())
		}
		if len(chunks) == 0 || size+n > 6<<20 || len(chunks[len(chunks)-1]) >= 40 {
			chunks = append(chunks, nil)
			size = 0
		}
		chunks[len(chunks)-1] = append(chunks[len(chunks)-1], id)
		size += n
	}
	type chunkOut struct {
		out   string
		err   string
		race  string // race detector report (or failure) of the concurrent run
		raced int    // packages validated concurrently without a report
	}
	outs := make([]chunkOut, len(chunks))
	for ci, chunk := range chunks {
		wg.Add(1)
		go func(ci int, chunk []string) {
			defer wg.Done()
			sem <- struct{}{}
			defer func() { <-sem }()
			var mb strings.Builder
			mb.WriteString("package main\n\nimport (\n\t\"bufio\"\n\t\"os\"\n")
			for _, id := range chunk {
				fmt.Fprintf(&mb, "\tp%s \"scen/p%s\"\n", id, id)
			}
			mb.WriteString(")\n\nfunc main() {\n\tif len(os.Args) > 1 && os.Args[1] == \"race\" {\n\t\tfor _, g := range []int{2, 8, 64} {\n")
			for _, id := range chunk {
				fmt.Fprintf(&mb, "\t\t\tp%s.Race(g, 40)\n", id)
			}
			mb.WriteString("\t\t}\n\t\treturn\n\t}\n\tw := bufio.NewWriterSize(os.Stdout, 1<<20)\n\tdefer w.Flush()\n")
			for _, id := range chunk {
				fmt.Fprintf(&mb, "\tp%s.Run(w)\n", id)
			}
			mb.WriteString("}\n")
			name := fmt.Sprintf("drv%03d", ci)
			_ = os.MkdirAll(filepath.Join(r.mod(), "cmd", name), 0o755)
			_ = os.WriteFile(filepath.Join(r.mod(), "cmd", name, "main.go"), []byte(mb.String()), 0o644)
			bo, code := r.cmd(r.mod(), "go", "build", "-o", filepath.Join(r.work, name), "./cmd/"+name)
			if code != 0 {
				outs[ci].err = "driver build failed: " + tail(bo, 3000)
				return
			}
			c := exec.Command(filepath.Join(r.work, name))
			c.Env = goEnv
			o, err := c.Output()
			if err != nil {
				outs[ci].err = "driver run failed: " + err.Error()
				return
			}
			outs[ci].out = string(o)
			_ = os.Remove(filepath.Join(r.work, name))
			if strings.Contains(","+r.mode+",", ",race,") && (r.raceAll || ci == 0) {
				rb := filepath.Join(r.work, name+"-race")
				if bo, code := r.cmd(r.mod(), "go", "build", "-race", "-o", rb, "./cmd/"+name); code != 0 {
					outs[ci].err = "race driver build failed: " + tail(bo, 3000)
					return
				}
				rc := exec.Command(rb, "race")
				rc.Env = goEnv
				ro, rerr := rc.CombinedOutput()
				_ = os.Remove(rb)
				if strings.Contains(string(ro), "DATA RACE") || rerr != nil {
					outs[ci].race = tail(string(ro), 5000)
					if outs[ci].race == "" {
						outs[ci].race = fmt.Sprint(rerr)
					}
				} else {
					outs[ci].raced = len(chunk)
				}
			}
		}(ci, chunk)
	}
	wg.Wait()
	for _, co := range outs {
		if co.race != "" && r.raceReport == "" {
			r.raceReport = co.race
		}
		r.raced += co.raced
		if co.err != "" {
			// the observation side is broken: no verdict may be derived from missing output
			fmt.Fprintln(os.Stderr, co.err)
			os.Exit(4)
		}
		for _, line := range strings.Split(co.out, "\n") {
			parts := strings.SplitN(line, "\t", 5)
			if len(parts) == 5 {
				obs[parts[0]+"/"+parts[1]+"/"+parts[2]] = parts[3]
				extra[parts[0]+"/"+parts[1]+"/"+parts[2]] = parts[4]
			}
		}
	}
	// mode "together": ONE generator invocation over all packages that build (explicit directories), then the files must be
	// byte-identical to the per-package generation and everything must still build (generator state shared across packages)
	if strings.Contains(","+r.mode+",", ",together,") && len(ids) >= 2 {
		before := map[string]map[string]string{}
		var dirs []string
		for _, id := range ids {
			before[id] = validators(filepath.Join(r.mod(), "p"+id))
			dirs = append(dirs, "./p"+id)
		}
		fail := func(id, msg string) {
			for _, dr := range all[id] {
				if dr.Builds {
					dr.Builds = false
					dr.BuildErr = msg
				}
			}
		}
		// two more directories that share their package NAME and their struct name (api/v1/types, api/v2/types): a per-run
		// table keyed by "package name . type name" or by the base name of the output file mixes them up
		dup := map[string]string{
			"dupa/types/x.go": "package types\n\ntype User struct {\n\t//govalid:required\n\tName string\n}\n",
			"dupb/types/x.go": "package types\n\ntype User struct {\n\t//govalid:gt=0\n\tAge int\n\n\t//govalid:minlength=2\n\tName string\n}\n",
		}
		for rel, c := range dup {
			fp := filepath.Join(r.mod(), rel)
			_ = os.MkdirAll(filepath.Dir(fp), 0o755)
			_ = os.WriteFile(fp, []byte(c), 0o644)
		}
		dirs = append(dirs, "./dupa/types", "./dupb/types")
		for round := 0; round < 2; round++ {
			if round == 1 {
				// history: every validator file is STALE (an older generation is present); the invocation must bring each of
				// them up to date again, not only the first file of each name it meets
				for _, id := range ids {
					for n, c := range before[id] {
						_ = os.WriteFile(filepath.Join(r.mod(), "p"+id, n), []byte(c+"\n// stale: written by an earlier generation\n"), 0o644)
					}
				}
			}
			o, code := r.cmd(r.mod(), r.govalid, dirs...)
			for _, rel := range []string{"dupa/types/x_user_validator.go", "dupb/types/x_user_validator.go"} {
				if _, err := os.Stat(filepath.Join(r.mod(), rel)); err != nil {
					fail(ids[0], fmt.Sprintf("one generator invocation over all %d packages plus two directories that are both `package types` declaring `User` (round %d, exit %d): %s was not generated; generator output: %s", len(ids), round+1, code, rel, tail(o, 600)))
				}
			}
			if bo, bc := r.cmd(r.mod(), "go", "build", "./dupa/types", "./dupb/types"); bc != 0 {
				fail(ids[0], fmt.Sprintf("the two `package types` directories no longer build after the invocation: %s", tail(bo, 600)))
			}
			for _, id := range ids {
				after := validators(filepath.Join(r.mod(), "p"+id))
				for n, c := range before[id] {
					if after[n] != c {
						fail(id, fmt.Sprintf("one generator invocation over all %d packages (round %d, exit %d): %s differs from the file generated for the package alone (or is missing); generator output: %s", len(ids), round+1, code, n, tail(o, 600)))
					}
				}
			}
			if code != 0 {
				fail(ids[0], fmt.Sprintf("one generator invocation over all %d packages exits %d: %s", len(ids), code, tail(o, 1200)))
			}
			if bo, bc := r.cmd(r.mod(), "go", append([]string{"build"}, dirs...)...); bc != 0 {
				for _, id := range ids {
					if strings.Contains(bo, "scen/p"+id+"\n") || strings.Contains(bo, "p"+id+"/") {
						fail(id, fmt.Sprintf("after one generator invocation over all %d packages the package no longer builds: %s", len(ids), tail(bo, 900)))
					}
				}
			}
			// restore the per-package files for the next round
			for _, id := range ids {
				for n, c := range before[id] {
					_ = os.WriteFile(filepath.Join(r.mod(), "p"+id, n), []byte(c), 0o644)
				}
			}
		}
	}
	var res []*DeclResult
	for _, sc := range scs {
		for _, dr := range all[sc.ID] {
			if dr.File != "" && (dr.Builds || strings.HasPrefix(dr.BuildErr, "one generator invocation") || strings.HasPrefix(dr.BuildErr, "after one generator invocation")) {
				for i := range dr.Values {
					dr.Obs = append(dr.Obs, obs[fmt.Sprintf("%s/%s/%d", dr.Scenario, dr.Decl, i)])
					dr.Extra = append(dr.Extra, extra[fmt.Sprintf("%s/%s/%d", dr.Scenario, dr.Decl, i)])
				}
				if o, ok := obs[fmt.Sprintf("%s/%s/altalloc", dr.Scenario, dr.Decl)]; ok {
					dr.AltAlloc = o + " " + extra[fmt.Sprintf("%s/%s/altalloc", dr.Scenario, dr.Decl)]
				}
				if o, ok := obs[fmt.Sprintf("%s/%s/nilrecv", dr.Scenario, dr.Decl)]; ok {
					dr.NilRecv = o + "\t" + extra[fmt.Sprintf("%s/%s/nilrecv", dr.Scenario, dr.Decl)]
				}
			}
			res = append(res, dr)
		}
	}
	return res
}

// genMain: harness gen <family> <tier> <seed> <workdir> <govalid binary> <repo> [modes]
func genMain(args []string) {
	initEnv()
	family, tier := args[0], args[1]
	seed, _ := strconv.ParseInt(args[2], 10, 64)
	r := &runner{work: args[3], govalid: args[4], repo: args[5]}
	if len(args) > 6 {
		r.mode = args[6]
	}
	if err := r.setup(); err != nil {
		fmt.Fprintln(os.Stderr, "setup:", err)
		os.Exit(2)
	}
	scs := buildFamily(family, tier, seed)
	r.raceAll = tier == "thorough"
	res := r.runAll(scs)
	enc := json.NewEncoder(out)
	for _, dr := range res {
		_ = enc.Encode(dr)
	}
	if strings.Contains(","+r.mode+",", ",race,") {
		_ = enc.Encode(map[string]any{"race_summary": map[string]any{"packages": r.raced, "report": r.raceReport, "goroutines": []int{2, 8, 64}, "iterations": 40}})
	}
}
