package main

// Scenario generators: typed grammars over the documented marker x type table, boundary lattices
// built around every marker parameter, one PRNG.

import (
	"fmt"
	"math"
	"math/big"
	"math/rand"
	"strconv"
	"strings"
)

type gen struct {
	rng   *rand.Rand
	named int
	sc    *Scenario
	pool  int    // 1-based index into enumStrPools forced for string enums (0 = random)
	bound string // "", or "lo" / "hi" / "zero": forces the bound of ordered markers to that extreme of the field type
}

func basicT(src, kind string) *TypeX { return &TypeX{Kind: "basic", Basic: kind, Src: src} }

var intKinds = []*TypeX{
	basicT("int", "Int"), basicT("int8", "Int8"), basicT("int16", "Int16"), basicT("int32", "Int32"), basicT("int64", "Int64"),
	basicT("uint", "Uint"), basicT("uint8", "Uint8"), basicT("uint16", "Uint16"), basicT("uint32", "Uint32"), basicT("uint64", "Uint64"),
	basicT("uintptr", "Uintptr"), basicT("byte", "Uint8"), basicT("rune", "Int32"),
}
var floatKinds = []*TypeX{basicT("float32", "Float32"), basicT("float64", "Float64")}
var complexKinds = []*TypeX{basicT("complex64", "Complex64"), basicT("complex128", "Complex128")}
var stringT = basicT("string", "String")
var boolT = basicT("bool", "Bool")

var collTypes = []*TypeX{
	{Kind: "slice", Src: "[]string"}, {Kind: "slice", Src: "[]int"}, {Kind: "slice", Src: "[]byte", Bytes: true},
	{Kind: "array", Src: "[3]int", N: 3}, {Kind: "array", Src: "[1]string", N: 1},
	{Kind: "map", Src: "map[string]int"}, {Kind: "chan", Src: "chan int"},
	// collections whose element type is an anonymous struct written inline (set idiom, signal channel, row lists)
	{Kind: "map", Src: "map[string]struct{}", Elem: "struct{}{}"}, {Kind: "chan", Src: "chan struct{}", Elem: "struct{}{}"},
	{Kind: "slice", Src: "[]struct{ Name string }"}, {Kind: "array", Src: "[2]struct{}", N: 2},
}
var refTypes = []*TypeX{
	{Kind: "ptr", Src: "*int"}, {Kind: "ptr", Src: "*string"}, {Kind: "iface", Src: "any"}, {Kind: "iface", Src: "error"},
	{Kind: "iface", Src: "interface{}"}, {Kind: "func", Src: "func()"},
}

func (g *gen) namedOver(t *TypeX) *TypeX {
	g.named++
	name := fmt.Sprintf("N%d", g.named)
	g.sc.Named = append(g.sc.Named, NamedDecl{Name: name, Src: t.Src})
	return &TypeX{Kind: "named", Src: name, Under: t}
}

// aliasOver declares `type A<n> = <t>` and returns t as declared through that alias: the very same type
// (same documented behaviour, same values), only the spelling of the field declaration differs.
func (g *gen) aliasOver(t *TypeX) *TypeX {
	g.named++
	name := fmt.Sprintf("A%d", g.named)
	g.sc.Named = append(g.sc.Named, NamedDecl{Name: name, Src: "= " + t.DeclSrc()})
	c := *t
	c.Alias = name
	return &c
}

func (g *gen) pick(ts []*TypeX) *TypeX { return ts[g.rng.Intn(len(ts))] }

func (g *gen) maybeNamed(t *TypeX, p int) *TypeX {
	k := g.rng.Intn(100)
	if k < p {
		return g.namedOver(t)
	}
	if k < p+p/2 {
		return g.aliasOver(t)
	}
	return t
}

// ---- integer ranges

func intRange(kind string) (lo, hi *big.Int) {
	b := func(s string) *big.Int { x, _ := new(big.Int).SetString(s, 10); return x }
	switch kind {
	case "Int8":
		return b("-128"), b("127")
	case "Int16":
		return b("-32768"), b("32767")
	case "Int32":
		return b("-2147483648"), b("2147483647")
	case "Int", "Int64":
		return b("-9223372036854775808"), b("9223372036854775807")
	case "Uint8":
		return b("0"), b("255")
	case "Uint16":
		return b("0"), b("65535")
	case "Uint32":
		return b("0"), b("4294967295")
	}
	return b("0"), b("18446744073709551615")
}

func inRange(x, lo, hi *big.Int) bool { return x.Cmp(lo) >= 0 && x.Cmp(hi) <= 0 }

// integer bounds for a kind
func (g *gen) intBounds(kind string) []string {
	lo, hi := intRange(kind)
	cands := []string{"0", "1", "-1", "10", "100", "-100", "127", "128", "255", "256", "65535", "65536", "2147483647", "4294967295",
		"9007199254740993", "-9007199254740993", "18014398509481985", lo.String(), hi.String(),
		new(big.Int).Add(lo, big.NewInt(1)).String(), new(big.Int).Sub(hi, big.NewInt(1)).String()}
	var out []string
	for _, c := range cands {
		x, _ := new(big.Int).SetString(c, 10)
		if inRange(x, lo, hi) {
			out = append(out, c)
		}
	}
	return out
}

func floatBounds(kind string) []string {
	b := []string{"0", "1", "-1", "0.5", "-0.5", "1.5", "-3.75", "100", "1000000", "0.25", "16777216", "-16777216", "0.125"}
	if kind == "Float64" {
		b = append(b, "9007199254740992", "4503599627370497", "0.0000152587890625", "123456789.5")
	}
	return b
}

// ---- candidate values

func decToBig(s string) *big.Int { x, _ := new(big.Int).SetString(s, 10); return x }

func (g *gen) intValues(t *TypeX, params []string) []*SVal {
	u := t.Underlying()
	lo, hi := intRange(u.Basic)
	set := map[string]bool{}
	add := func(x *big.Int) {
		if inRange(x, lo, hi) {
			set[x.String()] = true
		}
	}
	one := big.NewInt(1)
	for _, c := range []*big.Int{lo, new(big.Int).Add(lo, one), big.NewInt(-1), big.NewInt(0), one, new(big.Int).Sub(hi, one), hi} {
		add(c)
	}
	for _, p := range params {
		if x, ok := new(big.Int).SetString(p, 10); ok {
			add(x)
			add(new(big.Int).Add(x, one))
			add(new(big.Int).Sub(x, one))
		}
	}
	var out []*SVal
	for k := range set {
		out = append(out, intVal(t, k))
	}
	sortVals(out)
	return out
}

func parseParamFloat(p string) (float64, bool) {
	f, err := strconv.ParseFloat(p, 64)
	return f, err == nil
}

func (g *gen) floatValues(t *TypeX, params []string) []*SVal {
	u := t.Underlying()
	var out []*SVal
	if u.Basic == "Float64" {
		bits := []uint64{0, 1 << 63, f64bits(1), f64bits(-1), f64bits(0.5), 1, 1<<63 | 1, f64bits(math.MaxFloat64), f64bits(-math.MaxFloat64),
			f64bits(math.Inf(1)), f64bits(math.Inf(-1)), 0x7ff8000000000001, 0xfff8000000000000, 0x7ff0000000000001, f64bits(math.SmallestNonzeroFloat64)}
		for _, p := range params {
			if f, ok := parseParamFloat(p); ok {
				bits = append(bits, f64bits(f), f64bits(math.Nextafter(f, math.Inf(1))), f64bits(math.Nextafter(f, math.Inf(-1))))
			}
		}
		seen := map[uint64]bool{}
		for _, b := range bits {
			if !seen[b] {
				seen[b] = true
				out = append(out, f64Val(t, b))
			}
		}
		return out
	}
	bits := []uint32{0, 1 << 31, f32bits(1), f32bits(-1), f32bits(0.5), 1, 1<<31 | 1, f32bits(math.MaxFloat32), f32bits(-math.MaxFloat32),
		f32bits(float32(math.Inf(1))), f32bits(float32(math.Inf(-1))), 0x7fc00001, 0xffc00000, 0x7f800001}
	for _, p := range params {
		if f, ok := parseParamFloat(p); ok {
			f3 := float32(f)
			bits = append(bits, f32bits(f3), f32bits(math.Nextafter32(f3, float32(math.Inf(1)))), f32bits(math.Nextafter32(f3, float32(math.Inf(-1)))))
		}
	}
	seen := map[uint32]bool{}
	for _, b := range bits {
		if !seen[b] {
			seen[b] = true
			out = append(out, f32Val(t, b))
		}
	}
	return out
}

func (g *gen) complexValues(t *TypeX) []*SVal {
	if t.Underlying().Basic == "Complex128" {
		z, nz, o := uint64(0), uint64(1)<<63, f64bits(1)
		return []*SVal{c128Val(t, z, z), c128Val(t, nz, z), c128Val(t, z, nz), c128Val(t, nz, nz), c128Val(t, o, z), c128Val(t, z, o), c128Val(t, 0x7ff8000000000001, z), c128Val(t, z, 1)}
	}
	z, nz, o := uint32(0), uint32(1)<<31, f32bits(1)
	return []*SVal{c64Val(t, z, z), c64Val(t, nz, z), c64Val(t, z, nz), c64Val(t, o, z), c64Val(t, z, o), c64Val(t, 0x7fc00001, z), c64Val(t, z, 1)}
}

var emailPool = []string{"user@a.b.c.d.example.com", "user@mail.eu.example.co.uk", "u@a.b.c.d.e.f.g.h", "a@b.c", "user.name+tag@sub.example.com", "a@b", "user..name@ex.com", "user@exšmple.com", "@b.c", "a@-b.c", strings.Repeat("a", 64) + "@b.co", strings.Repeat("a", 65) + "@b.co", "us\x7fer@example.com",
	// valid members with local parts of 30 / 31 / 42 / 64 bytes and long domains (stack-buffer thresholds of helpers)
	strings.Repeat("a", 30) + "@example.com", strings.Repeat("b", 31) + "@example.com", "first.middle.last+" + strings.Repeat("t", 24) + "@example.com", strings.Repeat("ab.", 21) + "c@example.com",
	"u@" + strings.Repeat("long-label.", 12) + "example.com"}
var urlPool = []string{"http://example.com", "mailto:a@b.c", "mailto:", "http://{host}", "https://[::1]/", "ftp://", "HTTP://x.y", "http://ex ample.com", "file:/etc", "xmpp://a", "gopher://a", "http:/x",
	"https://example.com/" + strings.Repeat("path/", 12) + "index.html?q=" + strings.Repeat("v", 40), "mailto:" + strings.Repeat("x", 70) + "@example.com"}
var uuidPool = []string{"550e8400-e29b-41d4-a716-446655440000", "FFFFFFFF-FFFF-FFFF-FFFF-FFFFFFFFFFFF", "F47AC10B-58CC-4372-A567-0E02B2C3D479", "f47ac10b-58cc-4372-A567-0e02b2c3d479", "00000000-0000-0000-0000-000000000000", "550e8400-e29b-61d4-a716-446655440000", "550e8400-e29b-41d4-c716-446655440000", "550e8400-e29b-41d4-a716-44665544000\x15", "550e8400e29b41d4a716446655440000"}
var alphaPool = []string{"", "abc", "ABCxyz", "abc1", "ab c", "é", "Ren\xe9", "\xc3", "z{", strings.Repeat("abcXYZ", 12), strings.Repeat("q", 33),
	// letters only after Unicode case FOLDING (U+212A KELVIN SIGN folds to k, U+0130 to i, U+017F LONG S to s): not ASCII letters
	"\u212aelvin", "\u0130stanbul", "\u0130", "K\u212a", "\u017fee"}
var numericPool = []string{"", "0", "0123456789", "12a", "-1", "1.0", "١٢", "１", "12\xff", strings.Repeat("0123456789", 7), "18446744073709551615", "18446744073709551616", strings.Repeat("9", 20), strings.Repeat("9", 40)}
var ipPool = []string{"192.168.0.1", "::1", "::ffff:1.2.3.4", "1.2.3", "abc", "1.2.3.4 ", "2001:db8::1", "0.0.0.0", "256.1.1.1", "fe80::1%eth0", "", "01.2.3.4"}

func runeString(n int, unit string) string { return strings.Repeat(unit, n) }

// trimRunes cuts s after k code points as counted by utf8.RuneCountInString (invalid bytes count one each)
func trimRunes(s string, k int) string {
	n := 0
	for i := range s {
		if n == k {
			return s[:i]
		}
		n++
	}
	return s
}

func (g *gen) stringValues(t *TypeX, ms []Marker) []*SVal {
	set := map[string]bool{"": true, "a": true, "é": true, "\xff": true, "hello world": true}
	for _, m := range ms {
		switch m.ID {
		case "minlength", "maxlength", "length":
			n, err := strconv.Atoi(strings.TrimSpace(m.Expr))
			if err != nil || n > 300 {
				continue
			}
			for _, k := range []int{n - 1, n, n + 1} {
				if k < 0 {
					continue
				}
				set[runeString(k, "a")] = true
				set[runeString(k, "é")] = true     // 2 bytes per code point
				set[runeString(k, "€")] = true     // 3 bytes
				set[runeString(k, "\U0001f600")] = true // 4 bytes
				set[runeString(k, "\xff")] = true       // invalid bytes count one each
				if k >= 2 {
					set[runeString(k-2, "a")+"é\xc3"] = true
				}
			}
			// ill-formed sequences: a multi-byte lead byte followed by ASCII / another lead byte, overlong and
			// surrogate forms — every such byte is one code point (U+FFFD) for utf8.RuneCountInString
			for _, k := range []int{n - 1, n, n + 1} {
				if k < 3 {
					continue
				}
				set[runeString(k-2, "a")+"\xe2a"] = true
				set[runeString(k-3, "a")+"\xf0ab"] = true
				set[trimRunes(strings.Repeat("\xe2ab", k), k)] = true
				set[trimRunes(strings.Repeat("\xc0\x80z", k), k)] = true
				set[trimRunes(strings.Repeat("\xed\xa0\x80", k), k)] = true
				set[trimRunes(strings.Repeat("é\xe2€", k), k)] = true
			}
			// byte length n with fewer code points
			if n >= 2 {
				set[runeString(n/2, "é")+runeString(n%2, "a")] = true
			}
		case "enum":
			for _, it := range strings.Split(m.Expr, ",") {
				tr := strings.TrimSpace(it)
				set[tr] = true
				set[it] = true
				set[strings.ToUpper(tr)] = true
				set[strings.ToLower(tr)] = true
				set[tr+"x"] = true
				if len(tr) > 1 {
					set[tr[:len(tr)-1]] = true
				}
				set[" "+tr] = true
				set[strings.Join(strings.Fields(tr), " ")] = true // blanks inside an item are significant
				set[strings.ReplaceAll(tr, " ", "  ")] = true
			}
		case "email":
			for _, s := range emailPool {
				set[s] = true
			}
		case "url":
			for _, s := range urlPool {
				set[s] = true
			}
		case "uuid":
			for _, s := range uuidPool {
				set[s] = true
			}
		case "alpha":
			for _, s := range alphaPool {
				set[s] = true
			}
		case "numeric":
			for _, s := range numericPool {
				set[s] = true
			}
		case "ipv4", "ipv6":
			for _, s := range ipPool {
				set[s] = true
			}
		}
	}
	var out []*SVal
	for s := range set {
		out = append(out, strVal(t, s))
	}
	sortVals(out)
	return out
}

func (g *gen) collValues(t *TypeX, params []string) []*SVal {
	u := t.Underlying()
	ns := map[int]bool{0: true, 1: true, 2: true}
	for _, p := range params {
		if n, err := strconv.Atoi(strings.TrimSpace(p)); err == nil && n >= 0 && n < 60 {
			ns[n] = true
			ns[n+1] = true
			ns[n+2] = true
			if n > 0 {
				ns[n-1] = true
			}
		}
	}
	var out []*SVal
	switch u.Kind {
	case "array":
		return []*SVal{arrVal(t)}
	case "chan":
		out = append(out, chanVal(t, true, 0, 0))
		for n := range ns {
			out = append(out, chanVal(t, false, n, n+1))
		}
		out = append(out, chanVal(t, false, 0, 0))
	default:
		out = append(out, collVal(t, true, 0, ""))
		for n := range ns {
			if u.Bytes {
				out = append(out, collVal(t, false, n, strings.Repeat("a", n)))
				if n >= 3 {
					out = append(out, collVal(t, false, n, strings.Repeat("€", n/3)+strings.Repeat("z", n%3)))
				}
			} else {
				out = append(out, collVal(t, false, n, ""))
			}
		}
	}
	sortVals(out)
	return out
}

func sortVals(vs []*SVal) {
	// deterministic order (map iteration is random): by S-expression text
	for i := 1; i < len(vs); i++ {
		for j := i; j > 0 && vs[j].Sexp() < vs[j-1].Sexp(); j-- {
			vs[j], vs[j-1] = vs[j-1], vs[j]
		}
	}
}

func markerParams(ms []Marker) []string {
	var ps []string
	for _, m := range ms {
		if !m.HasExpr {
			continue
		}
		if m.ID == "enum" {
			for _, it := range strings.Split(m.Expr, ",") {
				ps = append(ps, strings.TrimSpace(it))
			}
		} else {
			ps = append(ps, strings.TrimSpace(m.Expr))
		}
	}
	return ps
}

// leafValues: candidate values of a leaf field given every marker that reaches it
func (g *gen) leafValues(t *TypeX, ms []Marker) []*SVal {
	u := t.Underlying()
	ps := markerParams(ms)
	switch u.Kind {
	case "basic":
		switch {
		case u.Basic == "String":
			return g.stringValues(t, ms)
		case u.Basic == "Bool":
			return []*SVal{boolVal(t, false), boolVal(t, true)}
		case strings.HasPrefix(u.Basic, "Float"):
			return g.floatValues(t, ps)
		case strings.HasPrefix(u.Basic, "Complex"):
			return g.complexValues(t)
		default:
			return g.intValues(t, ps)
		}
	case "slice", "map", "chan", "array":
		return g.collValues(t, ps)
	case "ptr", "iface", "func":
		return []*SVal{refVal(t, true), refVal(t, false)}
	}
	return nil
}

// ---- markers

func (g *gen) ordMarker(id string, t *TypeX) Marker {
	u := t.Underlying()
	var bs []string
	if strings.HasPrefix(u.Basic, "Float") {
		bs = floatBounds(u.Basic)
	} else {
		bs = g.intBounds(u.Basic)
		lo, hi := intRange(u.Basic)
		switch g.bound {
		case "lo":
			return Marker{ID: id, Expr: lo.String(), HasExpr: true}
		case "hi":
			return Marker{ID: id, Expr: hi.String(), HasExpr: true}
		}
	}
	if g.bound == "zero" {
		return Marker{ID: id, Expr: "0", HasExpr: true}
	}
	return Marker{ID: id, Expr: bs[g.rng.Intn(len(bs))], HasExpr: true}
}

func manyItems(n int) []string {
	var out []string
	for i := 0; i < n; i++ {
		out = append(out, fmt.Sprintf("item%02d", i))
	}
	return out
}

var enumStrPools = [][]string{manyItems(9), manyItems(12), manyItems(30), {"New  York", "Boston"}, {"a\tb", "a b"}, {"x   y  z"}, {"a", "b", "c"}, {"red", "green", "blue"}, {"A", "a"}, {"x"}, {"hello world", "x y"}, {"café", "日本"}, {"a", "a", "b"}, {"1", "2"}, {"pending", "active", "Active", "done", "x", "y", "z", "w"},
	{"N/A", "\"\"", "none", "null", "nil"}, {"--", "++", "**", "//", "\\"}, {"ab", "cd", "ef", "gh", "\"", "ij"}, {"tab\there", "plain", "other", "fourth", "fifth"},
	{"", "mr", "ms"}, {"draft", "published", ""}, {"x", "", "y"}}

func (g *gen) enumMarker(t *TypeX) Marker {
	u := t.Underlying()
	var items []string
	switch {
	case u.Basic == "String":
		if g.pool > 0 {
			items = append(items, enumStrPools[(g.pool-1)%len(enumStrPools)]...)
		} else {
			items = append(items, enumStrPools[g.rng.Intn(len(enumStrPools))]...)
		}
	case strings.HasPrefix(u.Basic, "Float"):
		bs := floatBounds(u.Basic)
		for i := 0; i < 1+g.rng.Intn(4); i++ {
			items = append(items, bs[g.rng.Intn(len(bs))])
		}
	default:
		bs := g.intBounds(u.Basic)
		for i := 0; i < 1+g.rng.Intn(4); i++ {
			items = append(items, bs[g.rng.Intn(len(bs))])
		}
	}
	// padding
	for i := range items {
		switch g.rng.Intn(5) {
		case 0:
			items[i] = " " + items[i]
		case 1:
			items[i] = items[i] + " "
		case 2:
			items[i] = "  " + items[i] + " "
		}
	}
	return Marker{ID: "enum", Expr: strings.Join(items, ","), HasExpr: true}
}

// markersFor returns the rule ids documented for a type
func rulesFor(t *TypeX) []string {
	u := t.Underlying()
	switch u.Kind {
	case "basic":
		switch {
		case u.Basic == "String" && t.Kind == "named":
			// length/format markers on a NAMED string type are outside the documented table: the emitted
			// utf8.RuneCountInString(t.F) / validationhelper.IsValidX(t.F) does not compile (DESIGN §5 D19)
			return []string{"required", "enum"}
		case u.Basic == "String":
			return []string{"required", "minlength", "maxlength", "length", "enum", "email", "url", "uuid", "alpha", "numeric", "ipv4", "ipv6"}
		case u.Basic == "Bool":
			return []string{"required"}
		case strings.HasPrefix(u.Basic, "Complex"):
			return []string{"required"}
		case u.Basic == "Uintptr":
			return []string{"required", "gt", "gte", "lt", "lte"} // enum's kind list has no uintptr: outside the table
		default:
			return []string{"required", "gt", "gte", "lt", "lte", "enum"}
		}
	case "slice", "map", "chan":
		return []string{"required", "minitems", "maxitems"}
	case "array":
		return []string{"required", "minitems", "maxitems"}
	case "ptr", "iface", "func":
		return []string{"required"}
	}
	return nil
}

func (g *gen) marker(rule string, t *TypeX) Marker {
	switch rule {
	case "gt", "gte", "lt", "lte":
		return g.ordMarker(rule, t)
	case "minlength", "maxlength", "length":
		return Marker{ID: rule, Expr: []string{"0", "1", "2", "3", "5", "10", "31", "32", "40", "64"}[g.rng.Intn(10)], HasExpr: true}
	case "minitems", "maxitems":
		return Marker{ID: rule, Expr: []string{"0", "1", "2", "3", "6"}[g.rng.Intn(5)], HasExpr: true}
	case "enum":
		return g.enumMarker(t)
	}
	return Marker{ID: rule}
}

func (g *gen) anyType() *TypeX {
	var t *TypeX
	switch g.rng.Intn(10) {
	case 0, 1, 2:
		t = g.pick(intKinds)
	case 3:
		t = g.pick(floatKinds)
	case 4, 5, 6:
		t = stringT
	case 7:
		t = g.pick(collTypes)
	case 8:
		t = g.pick(refTypes)
	default:
		t = []*TypeX{boolT, complexKinds[0], complexKinds[1]}[g.rng.Intn(3)]
	}
	return g.maybeNamed(t, 15)
}

// fieldMarkers picks k distinct documented rules for the type
func (g *gen) fieldMarkers(t *TypeX, k int) []Marker {
	rs := rulesFor(t)
	g.rng.Shuffle(len(rs), func(i, j int) { rs[i], rs[j] = rs[j], rs[i] })
	if k > len(rs) {
		k = len(rs)
	}
	var ms []Marker
	for _, r := range rs[:k] {
		m := g.marker(r, t)
		if g.rng.Intn(8) == 0 {
			m.Legacy = true
		}
		ms = append(ms, m)
	}
	return ms
}

// ---------------------------------------------------------------- struct values

type leafRef struct {
	path []string // nested field names then the leaf name
	t    *TypeX
	ms   []Marker // every marker reaching the leaf (struct-level + own)
}

func collectLeaves(fs []*Field, prefix []string, inherited []Marker, out *[]leafRef) {
	collectLeavesDirect(fs, prefix, inherited, nil, out)
}

// direct: the markers written on the enclosing nested-struct field (they reach the leaves of this level only)
func collectLeavesDirect(fs []*Field, prefix []string, inherited, direct []Marker, out *[]leafRef) {
	for _, f := range fs {
		if f.Nested != nil {
			for _, n := range f.Names {
				collectLeavesDirect(f.Nested, append(append([]string{}, prefix...), n), inherited, f.Markers, out)
			}
			continue
		}
		for _, n := range f.Names {
			ms := append(append(append([]Marker{}, inherited...), direct...), f.Markers...)
			*out = append(*out, leafRef{path: append(append([]string{}, prefix...), n), t: f.Type, ms: ms})
		}
	}
}

func setPath(root *SVal, path []string, v *SVal) {
	cur := root
	for i, p := range path {
		var next *SVal
		for _, f := range cur.Fields {
			if f.Name == p {
				next = f.V
			}
		}
		if next == nil {
			if i == len(path)-1 {
				cur.Fields = append(cur.Fields, NamedVal{Name: p, V: v})
				return
			}
			next = &SVal{Kind: "st"}
			cur.Fields = append(cur.Fields, NamedVal{Name: p, V: next})
		} else if i == len(path)-1 {
			for j := range cur.Fields {
				if cur.Fields[j].Name == p {
					cur.Fields[j].V = v
				}
			}
			return
		}
		cur = next
	}
}

func cloneVal(v *SVal) *SVal {
	c := *v
	c.Fields = nil
	for _, f := range v.Fields {
		c.Fields = append(c.Fields, NamedVal{Name: f.Name, V: cloneVal(f.V)})
	}
	return &c
}

// structValues: a base vector (first candidate of each leaf... rotated) then one-at-a-time variation
// of every leaf over all its candidates, then random vectors.
func (g *gen) structValues(d *Decl, nRandom int) []*SVal {
	var leaves []leafRef
	collectLeaves(d.Fields, nil, d.Markers, &leaves)
	cands := make([][]*SVal, len(leaves))
	for i, l := range leaves {
		cands[i] = g.leafValues(l.t, l.ms)
		if len(cands[i]) == 0 {
			cands[i] = []*SVal{{Kind: "st"}}
		}
	}
	mk := func(choice []int) *SVal {
		root := &SVal{Kind: "st"}
		for i, l := range leaves {
			setPath(root, l.path, cands[i][choice[i]])
		}
		return root
	}
	var out []*SVal
	base := make([]int, len(leaves))
	for i := range base {
		base[i] = g.rng.Intn(len(cands[i]))
	}
	out = append(out, mk(base))
	for i := range leaves {
		for c := range cands[i] {
			ch := append([]int{}, base...)
			ch[i] = c
			out = append(out, mk(ch))
		}
	}
	for r := 0; r < nRandom; r++ {
		ch := make([]int, len(leaves))
		for i := range ch {
			ch[i] = g.rng.Intn(len(cands[i]))
		}
		out = append(out, mk(ch))
	}
	// de-duplicate
	seen := map[string]bool{}
	var res []*SVal
	for _, v := range out {
		k := v.Sexp()
		if !seen[k] {
			seen[k] = true
			res = append(res, v)
		}
	}
	return res
}

// famShapes (C09): declaration shapes — struct-level vs per-field placement of the same markers,
// multi-name fields, grouped type declarations mixing struct and non-struct specs (with markers on the
// group and on a spec), embedded fields, many fields, fields before/after nested structs.
func (g *gen) famShapes(id string, count, maxFields int) []*Scenario {
	var out []*Scenario
	guarded := []string{"required", "minlength", "maxlength", "length", "gt", "gte", "lt", "lte", "minitems", "maxitems", "email", "url", "uuid", "alpha", "numeric", "ipv4", "ipv6"}
	tmMarker := func(r string) Marker {
		switch r {
		case "gt", "lt", "gte", "lte":
			return Marker{ID: r, Expr: []string{"0", "1", "5", "100"}[g.rng.Intn(4)], HasExpr: true}
		}
		return g.marker(r, stringT)
	}
	flatType := func() *TypeX {
		for {
			t := g.anyType()
			u := t.Underlying()
			if strings.HasPrefix(u.Basic, "Complex") || (t.Kind == "named" && u.Basic == "String") {
				continue // D18 / D19: struct-level ordered / string rules would not compile
			}
			return t
		}
	}
	for s := 0; s < count; s++ {
		sc := newScenario(fmt.Sprintf("%s%03d", id, s))
		g.sc = sc
		switch s % 5 {
		case 0, 1: // placement: the same markers at struct level (A) and pushed down to every applicable field (B)
			nf := 2 + g.rng.Intn(maxFields)
			var types []*TypeX
			for i := 0; i < nf; i++ {
				types = append(types, flatType())
			}
			g.rng.Shuffle(len(guarded), func(i, j int) { guarded[i], guarded[j] = guarded[j], guarded[i] })
			var tms []Marker
			for _, r := range guarded[:1+g.rng.Intn(3)] {
				tms = append(tms, tmMarker(r))
			}
			a := &Decl{Name: "A", Markers: tms}
			b := &Decl{Name: "B"}
			for i, t := range types {
				a.Fields = append(a.Fields, &Field{Names: []string{fmt.Sprintf("F%d", i)}, Type: t})
				fb := &Field{Names: []string{fmt.Sprintf("F%d", i)}, Type: t}
				fa := a.Fields[len(a.Fields)-1]
				// sometimes a field of A repeats a struct-level marker verbatim (redundant but legal: the rule is
				// then written twice and reported twice) — the fields after it must keep the struct-level rule
				if g.rng.Intn(4) == 0 {
					for _, m := range tms {
						for _, r := range rulesFor(t) {
							if r == m.ID && g.rng.Intn(2) == 0 {
								fa.Markers = append(fa.Markers, m)
								fb.Markers = append(fb.Markers, m)
							}
						}
					}
				}
				for _, m := range tms {
					for _, r := range rulesFor(t) {
						if r == m.ID {
							fb.Markers = append(fb.Markers, m)
						}
					}
				}
				b.Fields = append(b.Fields, fb)
			}
			sc.Decls = []*Decl{a, b}
			va := g.structValues(a, 10)
			sc.Values["A"] = va
			sc.Values["B"] = va // identical values for both placements
		case 2: // multi-name fields and fields around nested structs
			d := &Decl{Name: "M"}
			fi := 0
			for i := 0; i < 2+g.rng.Intn(4); i++ {
				t := g.anyType()
				fi++
				names := []string{fmt.Sprintf("A%d", fi), fmt.Sprintf("B%d", fi)}
				if g.rng.Intn(3) == 0 {
					names = append(names, fmt.Sprintf("C%d", fi))
				}
				if g.rng.Intn(3) == 0 {
					names = names[:1]
				}
				d.Fields = append(d.Fields, &Field{Names: names, Type: t, Markers: g.fieldMarkers(t, 1+g.rng.Intn(3))})
				if g.rng.Intn(3) == 0 {
					fi++
					t2 := g.anyType()
					inner := &Field{Names: []string{fmt.Sprintf("X%d", fi), fmt.Sprintf("Y%d", fi)}, Type: t2, Markers: g.fieldMarkers(t2, 1+g.rng.Intn(2))}
					// (a nested struct declared with two names `N, O struct{X}` always collides on the legacy alias
					//  Err<Struct>X…: known finding D9, replayed separately — single name here)
					nn := []string{fmt.Sprintf("N%d", fi)}
					d.Fields = append(d.Fields, &Field{Names: nn, Nested: []*Field{inner}})
				}
			}
			sc.Decls = []*Decl{d}
			sc.Values["M"] = g.structValues(d, 10)
		case 3: // grouped declarations: non-struct specs before/between structs, markers on the group and on a spec
			grp := "g1"
			var gdoc []Marker
			if g.rng.Intn(2) == 0 {
				gdoc = []Marker{tmMarker([]string{"required", "minlength", "gt"}[g.rng.Intn(3)])}
			}
			for di := 0; di < 2+g.rng.Intn(3); di++ {
				d := &Decl{Name: fmt.Sprintf("G%d", di), Group: grp, GroupDoc: gdoc}
				if g.rng.Intn(2) == 0 {
					d.PreSpec = fmt.Sprintf("K%d%d int", s, di)
				}
				if len(gdoc) == 0 && di == 0 {
					gdoc = []Marker{tmMarker([]string{"required", "minlength", "gt"}[g.rng.Intn(3)])}
					d.GroupDoc = gdoc
				}
				if g.rng.Intn(3) == 0 || di == 0 {
					r := guarded[g.rng.Intn(len(guarded))]
					dup := false
					for _, m := range gdoc {
						if m.ID == r {
							dup = true
						}
					}
					if !dup {
						d.Markers = []Marker{tmMarker(r)}
					}
				}
				for i := 0; i < 1+g.rng.Intn(3); i++ {
					t := flatType()
					var fm []Marker
					for _, m := range g.fieldMarkers(t, g.rng.Intn(3)) {
						dup := false
						for _, tm := range append(append([]Marker{}, gdoc...), d.Markers...) {
							if tm.ID == m.ID {
								dup = true
							}
						}
						if !dup {
							fm = append(fm, m)
						}
					}
					d.Fields = append(d.Fields, &Field{Names: []string{fmt.Sprintf("F%d", i)}, Type: t, Markers: fm})
				}
				sc.Decls = append(sc.Decls, d)
				sc.Values[d.Name] = g.structValues(d, 8)
			}
		case 4: // many fields; embedded fields of named non-string basic types
			d := &Decl{Name: "W"}
			n := maxFields * 4
			for i := 0; i < n; i++ {
				t := g.anyType()
				d.Fields = append(d.Fields, &Field{Names: []string{fmt.Sprintf("F%d", i)}, Type: t, Markers: g.fieldMarkers(t, 1+g.rng.Intn(4))})
			}
			for e := 0; e < 2; e++ {
				base := g.pick(intKinds)
				nt := g.namedOver(base)
				d.Fields = append(d.Fields, &Field{Names: []string{nt.Src}, Type: nt, Embed: true, Markers: g.fieldMarkers(nt, 1+g.rng.Intn(2))})
			}
			sc.Decls = []*Decl{d}
			sc.Values["W"] = g.structValues(d, 6)
		}
		switch s % 7 {
		case 0:
			sc.Layout = "split" // (only effective with two ungrouped declarations: the placement pairs A / B)
		case 3:
			sc.Layout = "crlf"
		case 5:
			sc.Layout = "header"
		}
		out = append(out, sc)
	}
	return out
}

// ---------------------------------------------------------------- scenario families

func newScenario(id string) *Scenario { return &Scenario{ID: id, Values: map[string][]*SVal{}} }

// famMatrix: one struct per (rule, documented type), single field "F" (the same field name in
// every struct of the package), sometimes nested one or two levels.
func (g *gen) famMatrix(id string, rules []string, types []*TypeX, perPkg int, withNamed bool) []*Scenario {
	var out []*Scenario
	var cur *Scenario
	n := 0
	flush := func() {
		if cur != nil && len(cur.Decls) > 0 {
			out = append(out, cur)
		}
		cur = nil
	}
	for _, t0 := range types {
		for _, r := range rules {
			ok := false
			for _, x := range rulesFor(t0) {
				if x == r {
					ok = true
				}
			}
			if !ok {
				continue
			}
			variants := []int{0}
			if withNamed {
				variants = []int{0, 1, 2} // plain, named type over it, alias of it
			}
			for _, variant := range variants {
				nm := variant == 1
				if cur == nil || len(cur.Decls) >= perPkg {
					flush()
					cur = newScenario(fmt.Sprintf("%s%03d", id, len(out)))
					g.sc = cur
				}
				t := t0
				if nm {
					probe := &TypeX{Kind: "named", Src: "X", Under: t0}
					okN := false
					for _, x := range rulesFor(probe) {
						if x == r {
							okN = true
						}
					}
					if !okN {
						continue
					}
					t = g.namedOver(t0)
				}
				if variant == 2 {
					t = g.aliasOver(t0)
				}
				n++
				d := &Decl{Name: fmt.Sprintf("S%d", n)}
				f := &Field{Names: []string{"F"}, Type: t, Markers: []Marker{g.marker(r, t)}}
				if g.rng.Intn(6) == 0 {
					f.Names = []string{"F", "G"} // `F, G T`: every name is validated on its own
					if g.rng.Intn(2) == 0 {
						f.Names = []string{"F", "G", "H"}
					}
				}
				switch g.rng.Intn(4) {
				case 0:
					d.Fields = []*Field{{Names: []string{"In"}, Nested: []*Field{f}}}
				case 1:
					d.Fields = []*Field{{Names: []string{"Outer"}, Nested: []*Field{{Names: []string{"Inner"}, Nested: []*Field{f}}}}}
				default:
					d.Fields = []*Field{f}
				}
				cur.Decls = append(cur.Decls, d)
				cur.Values[d.Name] = g.structValues(d, 0)
			}
		}
	}
	flush()
	return out
}

// famCombo: a string field carrying one marker of `primary` COMBINED with 1..3 other string markers
// (required, length family, format family), at top level or nested, field-level or struct-level.
func (g *gen) famCombo(id string, count int, primary []string) []*Scenario {
	var out []*Scenario
	others := []string{"required", "minlength", "maxlength", "length", "email", "url", "uuid", "alpha", "numeric", "ipv4", "ipv6"}
	for s := 0; s < count; s++ {
		sc := newScenario(fmt.Sprintf("%s%03d", id, s))
		g.sc = sc
		d := &Decl{Name: "K"}
		ms := []Marker{g.marker(primary[g.rng.Intn(len(primary))], stringT)}
		g.rng.Shuffle(len(others), func(i, j int) { others[i], others[j] = others[j], others[i] })
		for _, r := range others[:1+g.rng.Intn(3)] {
			dup := false
			for _, m := range ms {
				if m.ID == r {
					dup = true
				}
			}
			if !dup {
				ms = append(ms, g.marker(r, stringT))
			}
		}
		f := &Field{Names: []string{"F"}, Type: stringT}
		if g.rng.Intn(4) == 0 {
			f.Type = g.aliasOver(stringT)
		}
		// half-migrated sources: the two spellings mixed inside one doc comment (legacy first, new first, alternating)
		switch s % 4 {
		case 1:
			ms[0].Legacy = true
		case 2:
			for i := 1; i < len(ms); i++ {
				ms[i].Legacy = true
			}
		case 3:
			for i := range ms {
				ms[i].Legacy = i%2 == 0
			}
		}
		switch g.rng.Intn(3) {
		case 0: // all on the field
			f.Markers = ms
			d.Fields = []*Field{f}
		case 1: // nested
			f.Markers = ms
			d.Fields = []*Field{{Names: []string{"In"}, Nested: []*Field{f}}}
		default: // split between struct level and field level
			d.Markers = ms[:1]
			f.Markers = ms[1:]
			d.Fields = []*Field{f, {Names: []string{"Other"}, Type: g.pick(intKinds)}}
		}
		sc.Decls = []*Decl{d}
		sc.Values["K"] = g.structValues(d, 4)
		out = append(out, sc)
	}
	return out
}

// famRandom: structs of 1..maxFields fields with 0..4 markers each, optional nesting (Clean shapes only:
// no struct-level marker together with nesting, no marker on a nested-struct field, single names,
// distinct leaf names within a struct).
func (g *gen) famRandom(id string, count, maxFields int) []*Scenario {
	var out []*Scenario
	for s := 0; s < count; s++ {
		sc := newScenario(fmt.Sprintf("%s%03d", id, s))
		g.sc = sc
		nd := 1 + g.rng.Intn(3)
		for di := 0; di < nd; di++ {
			d := &Decl{Name: fmt.Sprintf("R%d", di)}
			nf := 1 + g.rng.Intn(maxFields)
			nested := g.rng.Intn(3) == 0
			fi := 0
			mkLeaf := func() *Field {
				fi++
				t := g.anyType()
				k := []int{0, 1, 1, 2, 2, 3, 4}[g.rng.Intn(7)]
				f := &Field{Names: []string{fmt.Sprintf("F%d", fi)}, Type: t, Markers: g.fieldMarkers(t, k)}
				if g.rng.Intn(10) == 0 {
					f.Extra = []string{"// F is a field; govalid:required mentioned in prose"}
				}
				if g.rng.Intn(8) == 0 {
					f.After = []string{"// the rules above are enforced by the generated validator."}
				}
				return f
			}
			for i := 0; i < nf; i++ {
				if nested && g.rng.Intn(3) == 0 {
					fi++
					nf2 := &Field{Names: []string{fmt.Sprintf("G%d", fi)}}
					for j := 0; j < 1+g.rng.Intn(3); j++ {
						if g.rng.Intn(4) == 0 {
							fi++
							deep := &Field{Names: []string{fmt.Sprintf("H%d", fi)}}
							for k := 0; k < 1+g.rng.Intn(2); k++ {
								deep.Nested = append(deep.Nested, mkLeaf())
							}
							nf2.Nested = append(nf2.Nested, deep)
						} else {
							nf2.Nested = append(nf2.Nested, mkLeaf())
						}
					}
					d.Fields = append(d.Fields, nf2)
				} else {
					d.Fields = append(d.Fields, mkLeaf())
				}
			}
			if !nested && g.rng.Intn(3) == 0 {
				// struct-level markers: only rules whose factories guard on the type (safe on every field)
				pool := []string{"required", "minlength", "maxlength", "gt", "lt", "gte", "lte", "minitems", "maxitems", "email", "alpha", "numeric", "uuid", "url", "length"}
				k := 1 + g.rng.Intn(2)
				g.rng.Shuffle(len(pool), func(i, j int) { pool[i], pool[j] = pool[j], pool[i] })
				for _, r := range pool[:k] {
					var m Marker
					switch r {
					case "gt", "lt", "gte", "lte":
						m = Marker{ID: r, Expr: []string{"0", "1", "5", "100"}[g.rng.Intn(4)], HasExpr: true}
					default:
						m = g.marker(r, stringT)
					}
					// a struct-level marker must not repeat a field-level one (outside Clean)
					d.Markers = append(d.Markers, m)
				}
				for _, f := range d.Fields {
					// struct-level string rules + named string field, struct-level ordered rules + complex field:
					// emitted code does not compile (D19, D18) — outside the documented table
					if f.Type != nil && f.Type.Kind == "named" && f.Type.Underlying().Basic == "String" {
						f.Type = stringT
					}
					if f.Type != nil && strings.HasPrefix(f.Type.Underlying().Basic, "Complex") {
						f.Type = boolT
					}
					var keep []Marker
					for _, fm := range f.Markers {
						dup := false
						for _, tm := range d.Markers {
							if tm.ID == fm.ID {
								dup = true
							}
						}
						if !dup {
							keep = append(keep, fm)
						}
					}
					f.Markers = keep
				}
			}
			sc.Decls = append(sc.Decls, d)
			sc.Values[d.Name] = g.structValues(d, 12)
		}
		switch s % 6 {
		case 1:
			sc.Layout = "split"
		case 3:
			sc.Layout = "crlf"
		case 5:
			sc.Layout = "header"
		}
		out = append(out, sc)
	}
	return out
}

// famC08: the grammar of C08 — big structs (1..40 fields, 0..5 markers per field), struct-level markers,
// nesting to depth 3 with field names unique per struct — preceded by a fixed corpus of documented
// shapes that are known not to compile (known findings; identified by their exact declaration).
func (g *gen) famC08(id string, count int) []*Scenario {
	var out []*Scenario
	str := func(names ...string) *Field { return &Field{Names: names, Type: stringT} }
	mk := func(id string, expr string) Marker { return Marker{ID: id, Expr: expr, HasExpr: expr != ""} }
	with := func(f *Field, ms ...Marker) *Field { f.Markers = ms; return f }
	corpus := []*Decl{
		// error-variable name collision: X+MinLength == XMin+Length
		{Name: "K1", Fields: []*Field{with(str("X"), mk("minlength", "1")), with(str("XMin"), mk("length", "3"))}},
		{Name: "K2", Fields: []*Field{with(str("X"), mk("maxlength", "9")), with(str("XMax"), mk("length", "3"))}},
		// the same field name in two nested structs: the legacy alias Err<Struct><Field>… is declared twice
		{Name: "K3", Fields: []*Field{
			{Names: []string{"A"}, Nested: []*Field{with(str("N"), mk("required", ""))}},
			{Names: []string{"B"}, Nested: []*Field{with(str("N"), mk("required", ""))}}}},
		// struct-level marker over an anonymous nested struct: inner fields are validated twice
		{Name: "K4", Markers: []Marker{mk("required", "")}, Fields: []*Field{
			str("P"), {Names: []string{"In"}, Nested: []*Field{str("Q")}}}},
		// a nested struct declared with two names
		{Name: "K6", Fields: []*Field{{Names: []string{"L", "R"}, Nested: []*Field{with(str("V"), mk("required", ""))}}}},
	}
	{
		for _, d := range corpus {
			one := newScenario(id + "k" + strings.ToLower(d.Name))
			one.Decls = []*Decl{d}
			g.sc = one
			one.Values[d.Name] = g.structValues(d, 2)
			out = append(out, one)
		}
	}
	// parameters needing escaping (enum items, one scenario each so that a generator failure is attributed)
	for i, item := range []string{"a b", "it's", "x,y", "tab\there", "semi;colon", "ünï", "100%", "a=b", "{x}", "`tick`", "say \"hi\"", "back\\slash", "\\\"", "%s %d"} {
		sc := newScenario(fmt.Sprintf("%se%02d", id, i))
		g.sc = sc
		d := &Decl{Name: "E", Fields: []*Field{with(str("F"), Marker{ID: "enum", Expr: item + ",plain", HasExpr: true})}}
		sc.Decls = []*Decl{d}
		sc.Values["E"] = g.structValues(d, 4)
		out = append(out, sc)
	}
	// every guarded rule once as a struct-level marker over a struct with one field of every documented kind:
	// the factory must accept exactly the fields the rule is documented for, or the output does not compile
	{
		kinds := []*TypeX{basicT("int", "Int"), basicT("int8", "Int8"), basicT("uint16", "Uint16"), basicT("float64", "Float64"), basicT("float32", "Float32"),
			stringT, boolT, collTypes[0], collTypes[len(collTypes)-1], refTypes[0], basicT("uintptr", "Uintptr"), basicT("rune", "Int32"), basicT("byte", "Uint8")}
		kinds = append(kinds, collTypes[1:len(collTypes)-1]...)
		rules := []string{"required", "gt", "gte", "lt", "lte", "minlength", "maxlength", "length", "minitems", "maxitems", "email", "url", "uuid", "alpha", "numeric", "ipv4", "ipv6"}
		for ri, r := range rules {
			sc := newScenario(fmt.Sprintf("%sm%02d", id, ri))
			g.sc = sc
			d := &Decl{Name: "M"}
			switch r {
			case "gt", "gte", "lt", "lte":
				d.Markers = []Marker{{ID: r, Expr: "1", HasExpr: true}}
			default:
				d.Markers = []Marker{g.marker(r, stringT)}
			}
			for i, t := range kinds {
				d.Fields = append(d.Fields, &Field{Names: []string{fmt.Sprintf("F%d", i)}, Type: t})
			}
			sc.Decls = []*Decl{d}
			sc.Values["M"] = g.structValues(d, 2)
			out = append(out, sc)
		}
	}
	for s := 0; s < count; s++ {
		sc := newScenario(fmt.Sprintf("%s%03d", id, s))
		g.sc = sc
		nd := 1 + g.rng.Intn(3)
		for di := 0; di < nd; di++ {
			d := &Decl{Name: fmt.Sprintf("W%d", di)}
			fi := 0
			var build func(depth, n int) []*Field
			build = func(depth, n int) []*Field {
				var fs []*Field
				for i := 0; i < n; i++ {
					fi++
					if depth < 3 && g.rng.Intn(6) == 0 {
						fs = append(fs, &Field{Names: []string{fmt.Sprintf("G%d", fi)}, Nested: build(depth+1, 1+g.rng.Intn(4))})
						continue
					}
					t := g.anyType()
					k := []int{0, 1, 1, 2, 2, 3, 4, 5}[g.rng.Intn(8)]
					fs = append(fs, &Field{Names: []string{fmt.Sprintf("F%d", fi)}, Type: t, Markers: g.fieldMarkers(t, k)})
				}
				return fs
			}
			d.Fields = build(0, []int{1, 2, 5, 10, 20, 40}[g.rng.Intn(6)])
			flat := true
			for _, f := range d.Fields {
				if f.Nested != nil {
					flat = false
				}
			}
			if flat && g.rng.Intn(2) == 0 {
				pool := []string{"required", "minlength", "maxlength", "gt", "lt", "gte", "lte", "minitems", "maxitems", "email", "alpha", "numeric", "uuid", "url", "length", "ipv4", "ipv6"}
				g.rng.Shuffle(len(pool), func(i, j int) { pool[i], pool[j] = pool[j], pool[i] })
				for _, r := range pool[:1+g.rng.Intn(3)] {
					switch r {
					case "gt", "lt", "gte", "lte":
						d.Markers = append(d.Markers, Marker{ID: r, Expr: []string{"0", "1", "5", "100"}[g.rng.Intn(4)], HasExpr: true})
					default:
						d.Markers = append(d.Markers, g.marker(r, stringT))
					}
				}
				for _, f := range d.Fields {
					if f.Type.Kind == "named" && f.Type.Underlying().Basic == "String" {
						f.Type = stringT // K5
					}
					if strings.HasPrefix(f.Type.Underlying().Basic, "Complex") {
						f.Type = boolT // outside the documented table
					}
					var keep []Marker
					for _, fm := range f.Markers {
						dup := false
						for _, tm := range d.Markers {
							if tm.ID == fm.ID {
								dup = true
							}
						}
						if !dup {
							keep = append(keep, fm)
						}
					}
					f.Markers = keep
				}
			}
			if s%3 == 0 {
				// (fields of the history below: they stay, without markers, because the generator refuses a package whose
				// stale validator files no longer type-check)
				for k := 0; k < 8; k++ {
					d.Fields = append(d.Fields, &Field{Names: []string{fmt.Sprintf("Zpre%d", k)}, Type: stringT})
				}
			}
			sc.Decls = append(sc.Decls, d)
			sc.Values[d.Name] = g.structValues(d, 3)
		}
		switch {
		case s%3 == 0:
		case s == 7 || s == 22:
			sc.Layout = "cgo"
		case s%5 == 1:
			sc.Layout = "split"
		case s%5 == 2:
			sc.Layout = "crlf"
		case s%5 == 4:
			sc.Layout = "header"
		}
		if s%3 == 0 {
			// history: the package used to carry rules on eight more fields per struct and was generated then;
			// the run under test regenerates into the same directory and must leave complete, compiling files
			pre := *sc
			pre.Decls = nil
			for _, d := range sc.Decls {
				pd := *d
				pd.Fields = append([]*Field{}, d.Fields[:len(d.Fields)-8]...)
				// (a struct without any marker generates nothing today; had it carried rules before, its stale validator
				// file would stay — the generator never deletes files — so such structs get no rules in the history either)
				marked := declHasRule(d)
				for k := 0; k < 8; k++ {
					var ms []Marker
					if !marked {
						pd.Fields = append(pd.Fields, &Field{Names: []string{fmt.Sprintf("Zpre%d", k)}, Type: stringT})
						continue
					}
					for _, m := range []Marker{{ID: "required"}, {ID: "minlength", Expr: "3", HasExpr: true}, {ID: "maxlength", Expr: "40", HasExpr: true}} {
						dup := false
						for _, tm := range d.Markers {
							if tm.ID == m.ID {
								dup = true
							}
						}
						if !dup {
							ms = append(ms, m)
						}
					}
					pd.Fields = append(pd.Fields, &Field{Names: []string{fmt.Sprintf("Zpre%d", k)}, Type: stringT, Markers: ms})
				}
				pre.Decls = append(pre.Decls, &pd)
			}
			sc.Pre = &pre
		}
		out = append(out, sc)
	}
	return out
}

// corpusC07: documented shapes on which the reported Path is known to be wrong (known findings)
func (g *gen) corpusC07(id string) []*Scenario {
	str := func(names ...string) *Field { return &Field{Names: names, Type: stringT} }
	req := Marker{ID: "required"}
	// dotted paths that clean to the same identifier: A.BC and AB.C share one error variable
	d := &Decl{Name: "K7", Fields: []*Field{
		{Names: []string{"A"}, Nested: []*Field{{Names: []string{"BC"}, Type: stringT, Markers: []Marker{req}}}},
		{Names: []string{"AB"}, Nested: []*Field{{Names: []string{"C"}, Type: stringT, Markers: []Marker{req}}}}}}
	_ = str
	sc := newScenario(id + "k7")
	g.sc = sc
	sc.Decls = []*Decl{d}
	sc.Values["K7"] = g.structValues(d, 4)
	// clean shape: rules only at the second nesting level, the middle level carries no marker of its own
	d2 := &Decl{Name: "Deep", Fields: []*Field{
		{Names: []string{"Customer"}, Nested: []*Field{
			{Names: []string{"Nick"}, Type: stringT},
			{Names: []string{"Address"}, Nested: []*Field{
				{Names: []string{"City"}, Type: stringT, Markers: []Marker{req}},
				{Names: []string{"Zip"}, Type: stringT, Markers: []Marker{{ID: "numeric"}}}}}}},
		{Names: []string{"Shipping"}, Nested: []*Field{
			{Names: []string{"Box"}, Nested: []*Field{{Names: []string{"Weight"}, Type: basicT("int", "Int"), Markers: []Marker{{ID: "gt", Expr: "0", HasExpr: true}}}}},
			{Names: []string{"Label"}, Type: stringT, Markers: []Marker{req}}}},
		{Names: []string{"L1"}, Nested: []*Field{{Names: []string{"L2"}, Nested: []*Field{{Names: []string{"L3"}, Nested: []*Field{
			{Names: []string{"Leaf"}, Type: stringT, Markers: []Marker{{ID: "minlength", Expr: "2", HasExpr: true}}}}}}}}},
	}}
	sc2 := newScenario(id + "deep")
	g.sc = sc2
	sc2.Decls = []*Decl{d2}
	sc2.Values["Deep"] = g.structValues(d2, 8)
	// marked fields AFTER an unmarked nested struct, inside a nested struct
	d3 := &Decl{Name: "After", Fields: []*Field{
		{Names: []string{"ID"}, Type: stringT, Markers: []Marker{req}},
		{Names: []string{"Customer"}, Nested: []*Field{
			{Names: []string{"Meta"}, Nested: []*Field{{Names: []string{"Note"}, Type: stringT}}},
			{Names: []string{"Name"}, Type: stringT, Markers: []Marker{req}},
			{Names: []string{"Age"}, Type: basicT("int", "Int"), Markers: []Marker{{ID: "gt", Expr: "0", HasExpr: true}}}}},
	}}
	sc3 := newScenario(id + "after")
	g.sc = sc3
	sc3.Decls = []*Decl{d3}
	sc3.Values["After"] = g.structValues(d3, 8)
	// a pointer to an anonymous struct that itself contains a nested struct with markers: the generator does not
	// look through the pointer (nothing inside is validated) — and a nil pointer must stay harmless
	ptrT := &TypeX{Kind: "ptr", Src: "*struct {\n\t\tNote string\n\n\t\tOwner struct {\n\t\t\t//govalid:required\n\t\t\tName string\n\t\t}\n\t}"}
	ptr2T := &TypeX{Kind: "ptr", Src: "*struct {\n\t\t//govalid:required\n\t\tTitle string\n\n\t\tOwner *struct {\n\t\t\t//govalid:gt=0\n\t\t\tAge int\n\t\t}\n\t}"}
	d4 := &Decl{Name: "PtrDeep", Fields: []*Field{
		{Names: []string{"ID"}, Type: stringT, Markers: []Marker{req}},
		{Names: []string{"Meta"}, Type: ptrT},
		{Names: []string{"Info"}, Type: ptr2T},
	}}
	sc4 := newScenario(id + "ptr")
	g.sc = sc4
	sc4.Decls = []*Decl{d4}
	sc4.Values["PtrDeep"] = g.structValues(d4, 6)
	// an embedded pointer to a named struct, required (C02: nil pointer is the zero value)
	sc5 := newScenario(id + "emb")
	g.sc = sc5
	sc5.Named = append(sc5.Named, NamedDecl{"Base", "struct {\n\tX int\n}"})
	baseP := &TypeX{Kind: "ptr", Src: "*Base"}
	d5 := &Decl{Name: "Emb", Fields: []*Field{
		{Names: []string{"Base"}, Type: baseP, Embed: true, Markers: []Marker{req}},
		{Names: []string{"Name"}, Type: stringT, Markers: []Marker{req}},
	}}
	sc5.Decls = []*Decl{d5}
	sc5.Values["Emb"] = g.structValues(d5, 6)
	// two length rules on one field with valid values longer than 32 code points
	lenMs := []Marker{{ID: "minlength", Expr: "1", HasExpr: true}, {ID: "maxlength", Expr: "64", HasExpr: true}}
	d6 := &Decl{Name: "Long", Fields: []*Field{{Names: []string{"User"}, Type: stringT, Markers: lenMs}}}
	d7 := &Decl{Name: "LongIn", Fields: []*Field{{Names: []string{"In"}, Nested: []*Field{{Names: []string{"City"}, Type: stringT,
		Markers: []Marker{{ID: "minlength", Expr: "2", HasExpr: true}, {ID: "maxlength", Expr: "100", HasExpr: true}, {ID: "length", Expr: "40", HasExpr: true}}}}}}}
	sc6 := newScenario(id + "long")
	g.sc = sc6
	sc6.Decls = []*Decl{d6, d7}
	sc6.Values["Long"] = g.structValues(d6, 2)
	sc6.Values["LongIn"] = g.structValues(d7, 2)
	// a marker written on a nested struct: it is handed down to the direct fields of that struct — and reported with a Path
	// that lacks the struct's name (known finding, C07)
	d8 := &Decl{Name: "K8", Fields: []*Field{
		{Names: []string{"ID"}, Type: stringT, Markers: []Marker{req}},
		{Names: []string{"Ship"}, Markers: []Marker{req}, Nested: []*Field{
			{Names: []string{"Carrier"}, Type: stringT}}},
	}}
	sc7 := newScenario(id + "k8")
	g.sc = sc7
	sc7.Decls = []*Decl{d8}
	sc7.Values["K8"] = g.structValues(d8, 4)
	return []*Scenario{sc, sc2, sc3, sc4, sc5, sc6, sc7}
}

// famBounds: one numeric field carrying a lower AND an upper bound marker (both source orders; bounds
// ordered, equal and contradictory), also with all four markers; floats get NaN through the value lattice.
func (g *gen) famBounds(id string, types []*TypeX) []*Scenario {
	var out []*Scenario
	var cur *Scenario
	n := 0
	for _, t := range types {
		for _, pair := range [][2]string{{"gte", "lte"}, {"gt", "lt"}, {"gt", "lte"}, {"gte", "lt"}} {
			for variant := 0; variant < 4; variant++ {
				lo, hi := "1", "100"
				switch variant {
				case 1:
					lo, hi = "10", "10"
				case 2:
					lo, hi = "10", "5" // contradictory: every value violates at least one, values in between violate both
				case 3:
					lo, hi = "0", "0"
				}
				ms := []Marker{{ID: pair[0], Expr: lo, HasExpr: true}, {ID: pair[1], Expr: hi, HasExpr: true}}
				if g.rng.Intn(2) == 0 {
					ms[0], ms[1] = ms[1], ms[0]
				}
				if variant == 0 && g.rng.Intn(2) == 0 {
					ms = []Marker{{ID: "gt", Expr: "0", HasExpr: true}, {ID: "gte", Expr: "1", HasExpr: true}, {ID: "lt", Expr: "100", HasExpr: true}, {ID: "lte", Expr: "99", HasExpr: true}}
				}
				if cur == nil || len(cur.Decls) >= 12 {
					if cur != nil {
						out = append(out, cur)
					}
					cur = newScenario(fmt.Sprintf("%s%03d", id, len(out)))
					g.sc = cur
				}
				n++
				d := &Decl{Name: fmt.Sprintf("B%d", n)}
				f := &Field{Names: []string{"F"}, Type: t, Markers: ms}
				if g.rng.Intn(3) == 0 {
					d.Fields = []*Field{{Names: []string{"In"}, Nested: []*Field{f}}}
				} else {
					d.Fields = []*Field{f}
				}
				cur.Decls = append(cur.Decls, d)
				cur.Values[d.Name] = g.structValues(d, 0)
			}
		}
	}
	if cur != nil {
		out = append(out, cur)
	}
	return out
}

// famTwoLevel: the same rule at struct level (bound A) and on one field (bound B != A); the other fields only get the
// struct-level rule. Both rules apply to the doubly marked field: a value between the two bounds violates exactly one.
func (g *gen) famTwoLevel(id string, rules []string, types []*TypeX) []*Scenario {
	var out []*Scenario
	var cur *Scenario
	n := 0
	for _, t := range types {
		for _, r := range rules {
			ok := false
			for _, x := range rulesFor(t) {
				if x == r {
					ok = true
				}
			}
			if !ok {
				continue
			}
			var a, b Marker
			for tries := 0; tries < 20; tries++ {
				a, b = g.marker(r, t), g.marker(r, t)
				if a.Expr != b.Expr {
					break
				}
			}
			if a.Expr == b.Expr {
				continue
			}
			if cur == nil || len(cur.Decls) >= 10 {
				if cur != nil {
					out = append(out, cur)
				}
				cur = newScenario(fmt.Sprintf("%s%03d", id, len(out)))
				g.sc = cur
			}
			n++
			d := &Decl{Name: fmt.Sprintf("L%d", n), Markers: []Marker{a}}
			own := t
			if g.rng.Intn(3) == 0 {
				own = g.aliasOver(t)
			}
			d.Fields = []*Field{
				{Names: []string{"Plain"}, Type: t},
				{Names: []string{"Own"}, Type: own, Markers: []Marker{b}},
				{Names: []string{"Tail"}, Type: t},
			}
			cur.Decls = append(cur.Decls, d)
			cur.Values[d.Name] = g.structValues(d, 6)
		}
	}
	if cur != nil {
		out = append(out, cur)
	}
	return out
}

func anyMarked(fs []*Field) bool {
	for _, f := range fs {
		if len(f.Markers) > 0 || (f.Nested != nil && anyMarked(f.Nested)) {
			return true
		}
	}
	return false
}

// declHasRule: some marker of the declaration (struct level or field level) applies to the type of a leaf it reaches — only
// then does the generator write a validator file for the struct
func declHasRule(d *Decl) bool {
	var leaves []leafRef
	collectLeaves(d.Fields, nil, d.Markers, &leaves)
	for _, l := range leaves {
		for _, m := range l.ms {
			for _, r := range rulesFor(l.t) {
				if r == m.ID {
					return true
				}
			}
		}
	}
	return false
}

// hasMarkedNest: some nested anonymous struct field of the declaration carries markers of its own
func hasMarkedNest(fs []*Field) bool {
	for _, f := range fs {
		if f.Nested != nil && (len(f.Markers) > 0 || hasMarkedNest(f.Nested)) {
			return true
		}
	}
	return false
}

// pushdown: the declaration with every marker written on a nested-struct field rewritten onto the direct leaf fields of
// that struct (which is what such a marker governs); the Spec is asked about this form, and only the multiset of
// (rule, value) entries is compared, because the Path reported for handed-down rules is a known finding.
func pushdown(fs []*Field, direct []Marker) []*Field {
	var out []*Field
	for _, f := range fs {
		nf := *f
		if f.Nested != nil {
			nf.Markers = nil
			nf.Nested = pushdown(f.Nested, f.Markers)
		} else {
			nf.Markers = append(append([]Marker{}, direct...), f.Markers...)
		}
		out = append(out, &nf)
	}
	return out
}

// famDeep (C02 / C09): rules below and next to MARKED nested structs.
//  shape 0: a marker on a nested struct, an unmarked middle level, and leaves two levels down that carry the same marker
//           themselves (plus other rules) — every written leaf rule must still be checked;
//  shape 1: `A, B struct{…}` declared with several names INSIDE another nested struct, marker on the declaration —
//           every name's struct is governed (and read through its own path);
//  shape 2: the same one level deeper, three names, two markers.
func (g *gen) famDeep(id string, count int) []*Scenario {
	var out []*Scenario
	intT := basicT("int", "Int")
	for s := 0; s < count; s++ {
		sc := newScenario(fmt.Sprintf("%s%03d", id, s))
		g.sc = sc
		var d *Decl
		switch s % 3 {
		case 0:
			type choice struct {
				m Marker
				t *TypeX
			}
			cs := []choice{
				{Marker{ID: "required"}, stringT}, {Marker{ID: "required"}, intT}, {Marker{ID: "required"}, collTypes[0]}, {Marker{ID: "required"}, refTypes[0]},
				{Marker{ID: "minlength", Expr: "2", HasExpr: true}, stringT}, {Marker{ID: "maxlength", Expr: "5", HasExpr: true}, stringT},
				{Marker{ID: "gt", Expr: "0", HasExpr: true}, intT}, {Marker{ID: "lte", Expr: "100", HasExpr: true}, basicT("int64", "Int64")},
				{Marker{ID: "email"}, stringT}, {Marker{ID: "minitems", Expr: "1", HasExpr: true}, collTypes[1]},
			}
			c := cs[(s/3)%len(cs)]
			inner := c.m
			if inner.HasExpr && g.rng.Intn(2) == 0 {
				inner = g.marker(c.m.ID, c.t)
			}
			addr := &Field{Names: []string{"Addr"}, Nested: []*Field{
				{Names: []string{"City"}, Type: c.t, Markers: []Marker{inner}},
				{Names: []string{"Zip"}, Type: stringT, Markers: []Marker{{ID: "numeric"}}},
				{Names: []string{"Floor"}, Type: intT, Markers: []Marker{{ID: "gte", Expr: "1", HasExpr: true}}},
				{Names: []string{"Note"}, Type: stringT},
			}}
			ship := &Field{Names: []string{"Ship"}, Markers: []Marker{c.m}, Nested: []*Field{
				{Names: []string{"Carrier"}, Type: c.t},
				addr,
				{Names: []string{"Memo"}, Type: c.t},
			}}
			d = &Decl{Name: "Order", Fields: []*Field{
				{Names: []string{"ID"}, Type: stringT, Markers: []Marker{{ID: "required"}}},
				ship,
				{Names: []string{"Total"}, Type: intT, Markers: []Marker{{ID: "gte", Expr: "1", HasExpr: true}}},
			}}
		case 1:
			m := []Marker{{ID: "maxlength", Expr: "5", HasExpr: true}, {ID: "minlength", Expr: "3", HasExpr: true}, {ID: "required"}, {ID: "numeric"}}[(s/3)%4]
			names := []string{"Home", "Work"}
			if g.rng.Intn(2) == 0 {
				names = append(names, "Alt")
			}
			d = &Decl{Name: "Profile", Fields: []*Field{
				{Names: []string{"Name"}, Type: stringT},
				{Names: []string{"Contacts"}, Nested: []*Field{
					{Names: names, Markers: []Marker{m}, Nested: []*Field{{Names: []string{"Phone"}, Type: stringT}}},
				}},
			}}
		default:
			ms := [][]Marker{
				{{ID: "required"}, {ID: "minlength", Expr: "3", HasExpr: true}},
				{{ID: "maxlength", Expr: "4", HasExpr: true}},
				{{ID: "alpha"}, {ID: "maxlength", Expr: "6", HasExpr: true}},
			}[(s/3)%3]
			d = &Decl{Name: "Shipment", Fields: []*Field{
				{Names: []string{"Route"}, Nested: []*Field{
					{Names: []string{"Stops"}, Nested: []*Field{
						{Names: []string{"From", "Via", "To"}, Markers: ms, Nested: []*Field{{Names: []string{"City"}, Type: stringT}}},
					}},
				}},
			}}
		}
		sc.Decls = []*Decl{d}
		sc.Values[d.Name] = g.structValues(d, 10)
		out = append(out, sc)
	}
	return out
}

// famWide: structs with more than 64 validated fields / more than 64 rules (widths at which a generator could switch
// to another code shape). Values are built explicitly: one vector satisfying every rule, then one violation per leaf,
// then a few vectors with many violations.
func (g *gen) famWide(id string) []*Scenario {
	var out []*Scenario
	intT := basicT("int", "Int")
	type rule struct {
		m       Marker
		t       *TypeX
		ok, bad *SVal
	}
	mk := func(k int) rule {
		switch k % 6 {
		case 0:
			return rule{Marker{ID: "required"}, stringT, strVal(stringT, "abc"), strVal(stringT, "")}
		case 1:
			return rule{Marker{ID: "gt", Expr: "0", HasExpr: true}, intT, intVal(intT, "5"), intVal(intT, "0")}
		case 2:
			return rule{Marker{ID: "maxlength", Expr: "10", HasExpr: true}, stringT, strVal(stringT, "héllo"), strVal(stringT, "abcdefghijk")}
		case 3:
			return rule{Marker{ID: "lte", Expr: "100", HasExpr: true}, intT, intVal(intT, "100"), intVal(intT, "101")}
		case 4:
			return rule{Marker{ID: "minlength", Expr: "2", HasExpr: true}, stringT, strVal(stringT, "ab"), strVal(stringT, "a")}
		default:
			return rule{Marker{ID: "required"}, intT, intVal(intT, "-1"), intVal(intT, "0")}
		}
	}
	for wi, width := range []int{49, 66, 100} {
		sc := newScenario(fmt.Sprintf("%s%d", id, wi))
		g.sc = sc
		d := &Decl{Name: fmt.Sprintf("Wide%d", width)}
		var rules []rule
		for i := 0; i < width; i++ {
			r := mk(i + wi)
			rules = append(rules, r)
			f := &Field{Names: []string{fmt.Sprintf("F%03d", i)}, Type: r.t, Markers: []Marker{r.m}}
			if wi == 0 && r.t == stringT && r.m.ID != "required" {
				f.Markers = append(f.Markers, Marker{ID: "required"}) // 49 fields but more than 64 rules
			}
			d.Fields = append(d.Fields, f)
		}
		vec := func(bad map[int]bool) *SVal {
			root := &SVal{Kind: "st"}
			for i, r := range rules {
				v := r.ok
				if bad[i] {
					v = r.bad
				}
				root.Fields = append(root.Fields, NamedVal{Name: d.Fields[i].Names[0], V: v})
			}
			return root
		}
		vals := []*SVal{vec(nil)}
		for i := range rules {
			vals = append(vals, vec(map[int]bool{i: true}))
		}
		all := map[int]bool{}
		for i := range rules {
			all[i] = true
		}
		vals = append(vals, vec(all))
		for k := 0; k < 3; k++ {
			some := map[int]bool{}
			for i := range rules {
				if g.rng.Intn(2) == 0 {
					some[i] = true
				}
			}
			vals = append(vals, vec(some))
		}
		sc.Decls = []*Decl{d}
		sc.Values[d.Name] = vals
		out = append(out, sc)
	}
	return out
}

// corpusDoc (C07): doc comments in which prose FOLLOWS the markers (and precedes them), on fields and on the declaration
func (g *gen) corpusDoc(id string) []*Scenario {
	sc := newScenario(id + "doc")
	g.sc = sc
	intT := basicT("int", "Int")
	d := &Decl{Name: "Prose", Markers: []Marker{{ID: "required"}}, After: []string{"// Prose is checked by the generated validator.", "//", "// Every field is mandatory."},
		Fields: []*Field{
			{Names: []string{"Name"}, Type: stringT, Markers: []Marker{{ID: "minlength", Expr: "2", HasExpr: true}}, After: []string{"// Name is what the user typed."}},
			{Names: []string{"Age"}, Type: intT, Extra: []string{"// Age in years."}, Markers: []Marker{{ID: "gt", Expr: "0", HasExpr: true}, {ID: "lte", Expr: "150", HasExpr: true}}, After: []string{"//", "// see the handbook, section 4"}},
			{Names: []string{"Mail"}, Type: stringT, Markers: []Marker{{ID: "email", Legacy: true}}, After: []string{"// (legacy spelling, still accepted)"}},
		}}
	d2 := &Decl{Name: "ProseFlat", Fields: []*Field{
		{Names: []string{"Title"}, Type: stringT, Markers: []Marker{{ID: "required"}, {ID: "maxlength", Expr: "8", HasExpr: true}}, After: []string{"// Title of the page."}},
		{Names: []string{"Count"}, Type: intT, Markers: []Marker{{ID: "gte", Expr: "1", HasExpr: true}}, After: []string{"// nolint is not a marker", "//nolint:lll"}},
		{Names: []string{"In"}, Nested: []*Field{
			{Names: []string{"Code"}, Type: stringT, Markers: []Marker{{ID: "numeric"}, {ID: "length", Expr: "4", HasExpr: true}}, After: []string{"// four digits"}},
		}},
	}}
	sc.Decls = []*Decl{d, d2}
	sc.Values["Prose"] = g.structValues(d, 8)
	sc.Values["ProseFlat"] = g.structValues(d2, 6)
	// struct types with UNEXPORTED names (methods and package-level functions are generated for them too), and lists of more
	// than 16 / 32 items that fail their rule (what a renderer of the report may want to abbreviate)
	sc2 := newScenario(id + "low")
	g.sc = sc2
	d3 := &Decl{Name: "account", Fields: []*Field{
		{Names: []string{"Owner"}, Type: stringT, Markers: []Marker{{ID: "required"}}},
		{Names: []string{"Balance"}, Type: intT, Markers: []Marker{{ID: "gte", Expr: "0", HasExpr: true}}},
		{Names: []string{"In"}, Nested: []*Field{{Names: []string{"Code"}, Type: stringT, Markers: []Marker{{ID: "numeric"}}}}},
	}}
	d4 := &Decl{Name: "settings", Markers: []Marker{{ID: "required"}}, Fields: []*Field{
		{Names: []string{"Theme"}, Type: stringT},
		{Names: []string{"Size"}, Type: intT, Markers: []Marker{{ID: "lte", Expr: "40", HasExpr: true}}},
	}}
	d5 := &Decl{Name: "Lists", Fields: []*Field{
		{Names: []string{"Tags"}, Type: collTypes[0], Markers: []Marker{{ID: "maxitems", Expr: "20", HasExpr: true}}},
		{Names: []string{"Nums"}, Type: collTypes[1], Markers: []Marker{{ID: "maxitems", Expr: "33", HasExpr: true}, {ID: "minitems", Expr: "18", HasExpr: true}}},
		{Names: []string{"Raw"}, Type: collTypes[2], Markers: []Marker{{ID: "maxitems", Expr: "17", HasExpr: true}}},
	}}
	sc2.Decls = []*Decl{d3, d4, d5}
	for _, dd := range sc2.Decls {
		sc2.Values[dd.Name] = g.structValues(dd, 6)
	}
	return []*Scenario{sc, sc2}
}

// famBig (C17): length rules with limits of 1024 and more on values of 16 KiB and 1 MiB — all ASCII, multi-byte, and long runs
// of continuation bytes, 0xFF bytes and truncated sequences (ill-formed UTF-8), where a decoder that backs up or skips
// ahead has no rune boundary to find.
func (g *gen) famBig(id string) []*Scenario {
	sc := newScenario(id + "big")
	g.sc = sc
	mk := func(id, n string) Marker { return Marker{ID: id, Expr: n, HasExpr: true} }
	d := &Decl{Name: "Big", Fields: []*Field{
		{Names: []string{"A"}, Type: stringT, Markers: []Marker{mk("maxlength", "2048")}},
		{Names: []string{"B"}, Type: stringT, Markers: []Marker{mk("minlength", "1024")}},
		{Names: []string{"C"}, Type: stringT, Markers: []Marker{mk("length", "1500")}},
		{Names: []string{"D"}, Type: stringT, Markers: []Marker{mk("maxlength", "1024"), mk("minlength", "2")}},
	}}
	var big []string
	for _, unit := range []string{"a", "\x80", "\xbf", "\xff", "é", "\xe2\x82", "€", "\U0001f600", "\xf0\x9f"} {
		big = append(big, strings.Repeat(unit, 16384/len(unit)))
	}
	big = append(big, "\xf0"+strings.Repeat("\x80", 16383), "a"+strings.Repeat("\xbf", 9000), strings.Repeat("\x80", 4100)+"abc", strings.Repeat("\x80", 1<<20), strings.Repeat("a", 1<<20),
		strings.Repeat("x", 1500), strings.Repeat("é", 1500), strings.Repeat("x", 1024), strings.Repeat("x", 1025), strings.Repeat("x", 2048), strings.Repeat("x", 2049), "", "ab")
	var vals []*SVal
	for i, s := range big {
		root := &SVal{Kind: "st"}
		for fi, f := range d.Fields {
			v := strVal(stringT, "ok")
			if fi == i%4 || i >= len(big)-8 {
				v = strVal(stringT, s)
			}
			root.Fields = append(root.Fields, NamedVal{Name: f.Names[0], V: v})
		}
		vals = append(vals, root)
	}
	// every field holding the same huge ill-formed value
	for _, s := range []string{strings.Repeat("\x80", 20000), strings.Repeat("\xbf", 1<<20)} {
		root := &SVal{Kind: "st"}
		for _, f := range d.Fields {
			root.Fields = append(root.Fields, NamedVal{Name: f.Names[0], V: strVal(stringT, s)})
		}
		vals = append(vals, root)
	}
	sc.Decls = []*Decl{d}
	sc.Values["Big"] = vals
	return []*Scenario{sc}
}

// famImported (C02 / C07 / C09): fields whose types come from OTHER packages — two imported packages that share their
// package name (`types`) and their type names (ID, Tags, Ref) but not the underlying kinds, plus a third package with
// distinct names. Anything the generator remembers per "pkg.Type" text (zero values, type classes) must not mix them up.
func (g *gen) famImported(id string) []*Scenario {
	sc := newScenario(id + "imp")
	g.sc = sc
	sc.Imports = []string{`t1 "scen/§PKG§/a/types"`, `t2 "scen/§PKG§/b/types"`, `"scen/§PKG§/units"`}
	sc.Uses = []string{"var _ t1.ID", "var _ t2.ID", "var _ units.Meters"}
	sc.Deps = map[string]string{
		"a/types/types.go": "package types\n\ntype ID int\n\ntype Tags []string\n\ntype Ref *int\n\ntype Name string\n",
		"b/types/types.go": "package types\n\ntype ID string\n\ntype Tags map[string]int\n\ntype Ref func()\n\ntype Name []byte\n",
		"units/units.go":   "package units\n\ntype Meters float64\n\ntype Code uint8\n\ntype Label string\n",
	}
	nt := func(src string, under *TypeX) *TypeX { return &TypeX{Kind: "named", Src: src, Under: under} }
	intT, f64 := basicT("int", "Int"), basicT("float64", "Float64")
	req := Marker{ID: "required"}
	mk := func(id, e string) Marker { return Marker{ID: id, Expr: e, HasExpr: true} }
	// every struct uses both packages: first the int-backed then the string-backed `types.ID` (and the other way round in Rev)
	fieldsOf := func(rev bool) []*Field {
		fs := []*Field{
			{Names: []string{"A"}, Type: nt("t1.ID", intT), Markers: []Marker{req, mk("gt", "0")}},
			{Names: []string{"B"}, Type: nt("t2.ID", stringT), Markers: []Marker{req, mk("enum", "ab, cd")}},
			{Names: []string{"C"}, Type: nt("t1.Tags", collTypes[0]), Markers: []Marker{req, mk("minitems", "1")}},
			{Names: []string{"D"}, Type: nt("t2.Tags", collTypes[5]), Markers: []Marker{req, mk("maxitems", "2")}},
			{Names: []string{"E"}, Type: nt("t1.Ref", refTypes[0]), Markers: []Marker{req}},
			{Names: []string{"F"}, Type: nt("t2.Ref", refTypes[5]), Markers: []Marker{req}},
			{Names: []string{"G"}, Type: nt("units.Meters", f64), Markers: []Marker{req, mk("lte", "100.5")}},
			{Names: []string{"H"}, Type: nt("units.Code", basicT("uint8", "Uint8")), Markers: []Marker{req, mk("enum", "1, 2,3")}},
			{Names: []string{"I"}, Type: nt("t2.Name", collTypes[2]), Markers: []Marker{req, mk("maxitems", "3")}},
		}
		if rev {
			for i, j := 0, len(fs)-1; i < j; i, j = i+1, j-1 {
				fs[i], fs[j] = fs[j], fs[i]
			}
		}
		return fs
	}
	d1 := &Decl{Name: "Imp", Fields: fieldsOf(false)}
	d2 := &Decl{Name: "Rev", Fields: fieldsOf(true)}
	d3 := &Decl{Name: "InNest", Fields: []*Field{{Names: []string{"In"}, Nested: fieldsOf(false)[:4]}}}
	// EMBEDDED fields of imported named types (selected by the type's name)
	d4 := &Decl{Name: "EmbImp", Fields: []*Field{
		{Names: []string{"Tags"}, Type: nt("t1.Tags", collTypes[0]), Embed: true, Markers: []Marker{req, mk("minitems", "2")}},
		{Names: []string{"Code"}, Type: nt("units.Code", basicT("uint8", "Uint8")), Embed: true, Markers: []Marker{mk("gt", "0")}},
		{Names: []string{"Plain"}, Type: stringT, Markers: []Marker{req}},
	}}
	d5 := &Decl{Name: "EmbImp2", Fields: []*Field{
		{Names: []string{"Tags"}, Type: nt("t2.Tags", collTypes[5]), Embed: true, Markers: []Marker{mk("maxitems", "2"), mk("minitems", "1")}},
		{Names: []string{"Name"}, Type: nt("t2.Name", collTypes[2]), Embed: true, Markers: []Marker{mk("minitems", "2")}},
		{Names: []string{"Plain"}, Type: stringT, Markers: []Marker{req}},
	}}
	sc.Decls = []*Decl{d1, d2, d3, d4, d5}
	for _, d := range sc.Decls {
		sc.Values[d.Name] = g.structValues(d, 6)
	}
	return []*Scenario{sc}
}

// famGrouped (C02 / C09): one `type ( … )` declaration whose doc comment carries a marker, with several specs that each add
// a DIFFERENT struct-level marker of their own (required first, then a string rule, then a numeric rule): every spec must keep
// exactly its own markers plus the group's.
func (g *gen) famGrouped(id string) []*Scenario {
	var out []*Scenario
	intT := basicT("int", "Int")
	for v := 0; v < 3; v++ {
		sc := newScenario(fmt.Sprintf("%sgrp%d", id, v))
		g.sc = sc
		gdoc := [][]Marker{{{ID: "maxlength", Expr: "50", HasExpr: true}}, {{ID: "lte", Expr: "100", HasExpr: true}, {ID: "maxlength", Expr: "60", HasExpr: true}}, {{ID: "maxitems", Expr: "9", HasExpr: true}}}[v]
		own := [][]Marker{{{ID: "required"}}, {{ID: "email"}}, {{ID: "gt", Expr: "0", HasExpr: true}}, {{ID: "minlength", Expr: "2", HasExpr: true}, {ID: "required"}}}
		fieldSets := [][]*TypeX{
			{stringT, intT, collTypes[0], refTypes[0], boolT, basicT("float64", "Float64"), collTypes[5], basicT("uint8", "Uint8")},
			{stringT, stringT, intT},
			{intT, basicT("int64", "Int64"), stringT, basicT("float32", "Float32")},
			{stringT, collTypes[1], intT},
		}
		for di := range own {
			d := &Decl{Name: fmt.Sprintf("G%d", di), Group: "g", GroupDoc: gdoc, Markers: own[(di+v)%len(own)]}
			// specs that are NOT plain structs standing before later structs of the group: an alias, a generic struct, a plain type
			switch di {
			case 1:
				d.PreSpec = fmt.Sprintf("Ident%d = string", v)
			case 2:
				d.PreSpec = fmt.Sprintf("Page%d[T any] struct {\n\t\tItem T\n\t}", v)
			case 3:
				d.PreSpec = fmt.Sprintf("Kind%d int", v)
			}
			for fi, t := range fieldSets[di] {
				d.Fields = append(d.Fields, &Field{Names: []string{fmt.Sprintf("F%d", fi)}, Type: t})
			}
			sc.Decls = append(sc.Decls, d)
			sc.Values[d.Name] = g.structValues(d, 8)
		}
		out = append(out, sc)
	}
	return out
}

// famCollCombo (C04): collection fields carrying SEVERAL rules at once — required with minitems / maxitems, both item rules,
// all three; on the field, and with `required` at struct level — every rule must be judged on its own (nil is length 0).
func (g *gen) famCollCombo(id string) []*Scenario {
	var out []*Scenario
	var cur *Scenario
	n := 0
	mk := func(id, e string) Marker { return Marker{ID: id, Expr: e, HasExpr: true} }
	req := Marker{ID: "required"}
	combos := [][]Marker{
		{req, mk("minitems", "1")}, {mk("minitems", "2"), req}, {req, mk("maxitems", "2")}, {mk("minitems", "1"), mk("maxitems", "3")},
		{req, mk("minitems", "2"), mk("maxitems", "2")}, {mk("maxitems", "0"), req},
	}
	for _, t0 := range collTypes {
		for ci, ms := range combos {
			for variant := 0; variant < 3; variant++ {
				if cur == nil || len(cur.Decls) >= 12 {
					if cur != nil {
						out = append(out, cur)
					}
					cur = newScenario(fmt.Sprintf("%s%03d", id, len(out)))
					g.sc = cur
				}
				t := t0
				if variant == 1 {
					t = g.namedOver(t0)
				}
				n++
				d := &Decl{Name: fmt.Sprintf("Q%d", n)}
				f := &Field{Names: []string{"Items"}, Type: t, Markers: ms}
				if variant == 2 {
					// `required` at struct level, the item rules on the field
					var rest []Marker
					hasReq := false
					for _, m := range ms {
						if m.ID == "required" {
							hasReq = true
						} else {
							rest = append(rest, m)
						}
					}
					if !hasReq {
						continue
					}
					d.Markers = []Marker{req}
					f.Markers = rest
					d.Fields = []*Field{f, {Names: []string{"Other"}, Type: stringT}}
				} else if ci%2 == 1 {
					d.Fields = []*Field{{Names: []string{"In"}, Nested: []*Field{f}}}
				} else {
					d.Fields = []*Field{f}
				}
				cur.Decls = append(cur.Decls, d)
				cur.Values[d.Name] = g.structValues(d, 2)
			}
		}
	}
	if cur != nil {
		out = append(out, cur)
	}
	return out
}

// famEnumCombo (C05): enum together with required (field level in both orders, required at struct level), on string, int,
// float64 and named types, with lists that do NOT contain the zero value: the zero value violates BOTH rules.
func (g *gen) famEnumCombo(id string) []*Scenario {
	var out []*Scenario
	var cur *Scenario
	n := 0
	req := Marker{ID: "required"}
	types := []*TypeX{stringT, basicT("int", "Int"), basicT("float64", "Float64"), basicT("uint8", "Uint8")}
	lists := map[string]string{"String": "pending,active,done", "Int": "1,2,3", "Float64": "0.5,1.5", "Uint8": "7,9"}
	for _, t0 := range types {
		for variant := 0; variant < 5; variant++ {
			if cur == nil || len(cur.Decls) >= 10 {
				if cur != nil {
					out = append(out, cur)
				}
				cur = newScenario(fmt.Sprintf("%s%03d", id, len(out)))
				g.sc = cur
			}
			t := t0
			if variant == 4 {
				t = g.namedOver(t0)
			}
			en := Marker{ID: "enum", Expr: lists[t0.Basic], HasExpr: true}
			n++
			d := &Decl{Name: fmt.Sprintf("E%d", n)}
			f := &Field{Names: []string{"Rank"}, Type: t}
			switch variant {
			case 0, 4:
				f.Markers = []Marker{en, req}
				d.Fields = []*Field{f}
			case 1:
				f.Markers = []Marker{req, en}
				d.Fields = []*Field{f}
			case 2:
				d.Markers = []Marker{req}
				f.Markers = []Marker{en}
				d.Fields = []*Field{f, {Names: []string{"Note"}, Type: stringT}}
			default:
				f.Markers = []Marker{en, req}
				d.Fields = []*Field{{Names: []string{"Inner"}, Nested: []*Field{f}}}
			}
			cur.Decls = append(cur.Decls, d)
			cur.Values[d.Name] = g.structValues(d, 2)
		}
	}
	if cur != nil {
		out = append(out, cur)
	}
	return out
}

// famNames (C06 / C07): legal but unusual FIELD names — a leading or trailing underscore, lower-case (unexported) names,
// non-ASCII identifiers, names equal to the identifiers the generated code uses itself (t, err, errs, ctx), very long names.
func (g *gen) famNames(id string, rules []string) []*Scenario {
	var out []*Scenario
	names := []string{"_id", "_", "X_", "x", "ünï", "Ünï", "t", "err", "errs", "ctx", "ok", "Err", "ErrNil", "Validate_", "A" + strings.Repeat("b", 70), "_0"}
	for ri, r := range rules {
		sc := newScenario(fmt.Sprintf("%sn%02d", id, ri))
		g.sc = sc
		d := &Decl{Name: "Named"}
		inner := &Field{Names: []string{"in"}}
		for i, nme := range names {
			if nme == "_" {
				continue // the blank identifier cannot be selected (`t._`): nothing can be validated there
			}
			m := g.marker(r, stringT)
			f := &Field{Names: []string{nme}, Type: stringT, Markers: []Marker{m}}
			if i%4 == 3 {
				f.Markers = append(f.Markers, Marker{ID: "required"})
			}
			if i%5 == 4 {
				inner.Nested = append(inner.Nested, f)
			} else {
				d.Fields = append(d.Fields, f)
			}
		}
		if len(inner.Nested) > 0 {
			d.Fields = append(d.Fields, inner)
		}
		sc.Decls = []*Decl{d}
		sc.Values["Named"] = g.structValues(d, 4)
		out = append(out, sc)
	}
	return out
}

// famMultiName (C07 / C09): one field declaration with THREE to FIVE names (`A, B, C T`), at the top level and inside a
// nested struct, next to single- and two-name declarations: every name is its own field with its own entry — the first,
// the middle ones and the last (a middle name losing its check, or the last one being checked twice, only shows with
// three or more names).
func (g *gen) famMultiName(id string, count int) []*Scenario {
	var out []*Scenario
	for s := 0; s < count; s++ {
		sc := newScenario(fmt.Sprintf("%smn%02d", id, s))
		g.sc = sc
		d := &Decl{Name: "Mn"}
		fi := 0
		mk := func(k int) *Field {
			fi++
			t := g.anyType()
			var names []string
			for j := 0; j < k; j++ {
				names = append(names, fmt.Sprintf("%c%d", 'A'+j, fi))
			}
			return &Field{Names: names, Type: t, Markers: g.fieldMarkers(t, 1+g.rng.Intn(2))}
		}
		d.Fields = append(d.Fields, mk(3+s%3))
		if s%2 == 0 {
			d.Fields = append(d.Fields, mk(1+g.rng.Intn(2)))
		}
		if s%3 != 1 {
			fi++
			d.Fields = append(d.Fields, &Field{Names: []string{fmt.Sprintf("N%d", fi)}, Nested: []*Field{mk(3 + g.rng.Intn(2)), mk(1)}})
		}
		d.Fields = append(d.Fields, mk(3))
		sc.Decls = []*Decl{d}
		sc.Values["Mn"] = g.structValues(d, 8)
		out = append(out, sc)
	}
	return out
}

// corpusRepeat (C17): the same rule at struct level AND on a field of slice / map / func / pointer type (redundant but legal:
// the rule is written and reported twice), with nil and empty values
func (g *gen) corpusRepeat(id string) []*Scenario {
	sc := newScenario(id + "rep")
	g.sc = sc
	req := Marker{ID: "required"}
	d := &Decl{Name: "Rep", Markers: []Marker{req}, Fields: []*Field{
		{Names: []string{"Tags"}, Type: collTypes[0], Markers: []Marker{req}},
		{Names: []string{"Attrs"}, Type: collTypes[5], Markers: []Marker{req}},
		{Names: []string{"Hook"}, Type: refTypes[5], Markers: []Marker{req}},
		{Names: []string{"Ptr"}, Type: refTypes[0], Markers: []Marker{req}},
		{Names: []string{"Any"}, Type: refTypes[2], Markers: []Marker{req}},
		{Names: []string{"Name"}, Type: stringT, Markers: []Marker{req}},
	}}
	mi := Marker{ID: "minitems", Expr: "1", HasExpr: true}
	d2 := &Decl{Name: "RepItems", Markers: []Marker{mi}, Fields: []*Field{
		{Names: []string{"Tags"}, Type: collTypes[0], Markers: []Marker{mi}},
		{Names: []string{"Attrs"}, Type: collTypes[5], Markers: []Marker{mi}},
		{Names: []string{"Bytes"}, Type: collTypes[2], Markers: []Marker{mi}},
		{Names: []string{"Plain"}, Type: basicT("int", "Int")},
	}}
	sc.Decls = []*Decl{d, d2}
	sc.Values["Rep"] = g.structValues(d, 6)
	sc.Values["RepItems"] = g.structValues(d2, 6)
	return []*Scenario{sc}
}


// canonFields: the declaration with every unusually spelled marker parameter replaced by its plain decimal spelling
// (what the Spec is asked about; the generator sees the spelling as written)
func canonFields(fs []*Field) ([]*Field, bool) {
	var out []*Field
	any := false
	for _, f := range fs {
		nf := *f
		nf.Markers = nil
		for _, m := range f.Markers {
			if m.Canon != "" {
				m.Expr, m.Canon = m.Canon, ""
				any = true
			}
			nf.Markers = append(nf.Markers, m)
		}
		if f.Nested != nil {
			var sub bool
			nf.Nested, sub = canonFields(f.Nested)
			any = any || sub
		}
		out = append(out, &nf)
	}
	return out, any
}

func canonDecl(d *Decl) (*Decl, bool) {
	nd := *d
	any := false
	nd.Markers = nil
	for _, m := range d.Markers {
		if m.Canon != "" {
			m.Expr, m.Canon = m.Canon, ""
			any = true
		}
		nd.Markers = append(nd.Markers, m)
	}
	var sub bool
	nd.Fields, sub = canonFields(d.Fields)
	return &nd, any || sub
}

// famSpelled (C01 / C03 / C04 / C09): the SPELLING of a numeric marker parameter — blanks and tabs around it, an explicit
// plus sign, hexadecimal / binary / octal literals, a leading zero, digit separators, exponent and decimal-point forms.
// The generator pastes the text into the comparison, where Go reads it as the same number; every spelling must
// therefore behave exactly like the plain decimal one (the Spec is asked about the decimal spelling).
func (g *gen) famSpelled(id string, rules []string, types []*TypeX) []*Scenario {
	var out []*Scenario
	var cur *Scenario
	n := 0
	type sp struct{ lit, canon string }
	ints := []sp{{" 5", "5"}, {"5 ", "5"}, {"\t5", "5"}, {"+5", "5"}, {"0x5", "5"}, {"0X0A", "10"}, {"0b101", "5"}, {"0o5", "5"}, {"05", "5"}, {"010", "8"}, {"1_0", "10"}, {"1e1", "10"}, {"2E0", "2"}, {"5.0", "5"}, {"00", "0"}}
	floats := []sp{{" 0.5", "0.5"}, {"5e-1", "0.5"}, {".5", "0.5"}, {"5.", "5"}, {"+2.5", "2.5"}, {"1_0.5", "10.5"}, {"0x1p-1", "0.5"}, {"1E2", "100"}, {"-.5", "-0.5"}}
	for _, t := range types {
		for _, r := range rules {
			ok := false
			for _, x := range rulesFor(t) {
				if x == r {
					ok = true
				}
			}
			if !ok {
				continue
			}
			list := ints
			if strings.HasPrefix(t.Underlying().Basic, "Float") {
				list = append(append([]sp{}, ints...), floats...)
			}
			for si, spv := range list {
				if cur == nil || len(cur.Decls) >= 14 {
					if cur != nil {
						out = append(out, cur)
					}
					cur = newScenario(fmt.Sprintf("%s%03d", id, len(out)))
					g.sc = cur
				}
				n++
				d := &Decl{Name: fmt.Sprintf("P%d", n)}
				m := Marker{ID: r, Expr: spv.lit, HasExpr: true, Canon: spv.canon}
				f := &Field{Names: []string{"F"}, Type: t, Markers: []Marker{m}}
				switch si % 4 {
				case 1:
					d.Fields = []*Field{{Names: []string{"In"}, Nested: []*Field{f}}}
				case 2: // as the SECOND marker of the field, and with a plain sibling field
					f.Markers = []Marker{{ID: "required"}, m}
					d.Fields = []*Field{f, {Names: []string{"G"}, Type: t, Markers: []Marker{{ID: r, Expr: spv.canon, HasExpr: true}}}}
				case 3: // at struct level over two names
					d.Markers = []Marker{m}
					f.Markers = nil
					f.Names = []string{"F", "H"}
					d.Fields = []*Field{f}
				default:
					d.Fields = []*Field{f}
				}
				cur.Decls = append(cur.Decls, d)
				// candidate values are built around the DECIMAL value
				cd, _ := canonDecl(d)
				cur.Values[d.Name] = g.structValues(cd, 0)
			}
		}
	}
	if cur != nil {
		out = append(out, cur)
	}
	return out
}
