package main

// corr-mig: the real `govalid migrate` on synthesized files (histories: dry-run, migrate, migrate again),
// and the generator's output before/after migration and for the two marker spellings.

import (
	"encoding/hex"
	"encoding/json"
	"fmt"
	"go/scanner"
	"go/token"
	"math/rand"
	"os"
	"path/filepath"
	"regexp"
	"strconv"
	"strings"
)

type MigRow struct {
	ID          string `json:"id"`
	Before      string `json:"before"` // hex
	After       string `json:"after"`  // hex after `migrate`
	Count       int    `json:"count"`  // markers migrated according to the tool's per-file line (0 if none)
	DryChanged  bool   `json:"dry_changed"`
	DryCount    int    `json:"dry_count"`
	SecondCount int    `json:"second_count"`
	After2      string `json:"after2"`   // hex after the second migrate
	GenBefore   string `json:"gen_before"` // sha-like digest (hex of concatenated validator files) before migration
	GenAfter    string `json:"gen_after"`
	GenNew      string `json:"gen_new"` // output for the same file written in the new spelling from the start
	OtherFiles  string `json:"other_files"` // files created/modified besides the source (must be none)
	Fresh       string `json:"fresh"`       // hex: the same file with exactly its marker comment lines in the new spelling
	TokensSame  bool   `json:"tokens_same"` // Go token stream (comments excluded) identical before/after
	Legacy      int    `json:"legacy"`      // number of legacy marker comment lines the generator wrote
	Err         string `json:"err,omitempty"`
	Siblings    string `json:"siblings,omitempty"` // "" or what went wrong in the sibling files of the same migrate run
}

// siblings of the file under test in the same package (one migrate run handles all of them, in name order):
// a_first.go carries REAL legacy markers on every line 4..163 (anything the tool remembers per line number from an
// earlier file meets the look-alikes of x.go), z_last.go carries LOOK-ALIKES inside a raw string on every line 4..163
// and one real marker at its end (anything remembered from x.go's real markers meets them).
func migSiblings(pkg string) (legacy, fresh map[string]string) {
	var a, an, z, zn strings.Builder
	both := func(x, y *strings.Builder, t string) { x.WriteString(t); y.WriteString(t) }
	both(&a, &an, "package "+pkg+"\n\ntype SiblingA struct {\n")
	for i := 0; i < 160; i++ {
		a.WriteString(fmt.Sprintf("\t// +govalid:maxlength=%d\n", i+1))
		an.WriteString(fmt.Sprintf("\t//govalid:maxlength=%d\n", i+1))
	}
	both(&a, &an, "\tS string\n}\n")
	both(&z, &zn, "package "+pkg+"\n\nvar siblingHelp = `\n")
	for i := 0; i < 160; i++ {
		both(&z, &zn, fmt.Sprintf("// +govalid:maxlength=%d\n", i+1))
	}
	both(&z, &zn, "`\n\ntype SiblingZ struct {\n")
	z.WriteString("\t// +govalid:required\n")
	zn.WriteString("\t//govalid:required\n")
	both(&z, &zn, "\tZ string\n}\n")
	// a HAND-WRITTEN file whose name ends like the generator's output files
	hv := "package " + pkg + "\n\ntype HandWritten struct {\n\t// +govalid:required\n\tH string\n\n\t  // +govalid:maxlength=7\n\tI string\n}"
	hvn := "package " + pkg + "\n\ntype HandWritten struct {\n\t//govalid:required\n\tH string\n\n\t  //govalid:maxlength=7\n\tI string\n}"
	return map[string]string{"a_first.go": a.String(), "z_last.go": z.String(), "hand_validator.go": hv}, map[string]string{"a_first.go": an.String(), "z_last.go": zn.String(), "hand_validator.go": hvn}
}

var migStructFields = []string{"A string", "B int", "C []string", "D float64", "E map[string]int"}

func migMarkerFor(field string, rng *rand.Rand) string {
	ty := strings.Fields(field)[1]
	switch {
	case ty == "string":
		return []string{"required", "minlength=2", "maxlength=10", "email", "enum=a,b+c,d=e", "alpha"}[rng.Intn(6)]
	case ty == "int", ty == "float64":
		return []string{"required", "gt=1", "lte=100", "gte=0"}[rng.Intn(4)]
	default:
		return []string{"required", "minitems=1", "maxitems=3"}[rng.Intn(3)]
	}
}

// genMigFile builds a Go file with legacy / new / mixed spellings and look-alikes; `newSpelling`
// renders the same file with every real marker in the new spelling.
func genMigFile(rng *rand.Rand, pkg string) (legacy, fresh string) {
	var lb, nb strings.Builder
	w := func(s string) { lb.WriteString(s); nb.WriteString(s) }
	nl := "\n"
	if rng.Intn(5) == 0 {
		nl = "\r\n"
	}
	w("package " + pkg + nl + nl)
	// look-alikes before the struct
	if rng.Intn(2) == 0 {
		w("const help = `usage:" + nl + "// +govalid:required" + nl + "\t// +govalid:gt=1" + nl + "`" + nl + nl)
	}
	if rng.Intn(2) == 0 {
		w("/*" + nl + "// +govalid:required" + nl + "   // +govalid:email" + nl + "*/" + nl + nl)
	}
	if rng.Intn(4) == 0 {
		// a long block comment closed on a look-alike line that is followed by a trailing comment
		w("/*" + nl)
		for i, n := 0, 14+rng.Intn(70); i < n; i++ {
			w(" * x" + nl)
		}
		w("// +govalid:gt=1 */ // +govalid:tail" + nl + nl)
	}
	if rng.Intn(6) == 0 {
		w("//line gen.go:" + strconv.Itoa(1+rng.Intn(500)) + nl)
	}
	if rng.Intn(3) == 0 {
		w("var lookalike = \"// +govalid:required\" // +govalid:not-a-doc-comment" + nl + nl)
	}
	if rng.Intn(3) == 0 {
		w("var q = '\\'' // quote rune" + nl + "var bt = \"`\"" + nl + nl)
	}
	// struct-level markers
	marker := func(indent, body string) {
		switch rng.Intn(4) {
		case 0: // already new
			w(indent + "//govalid:" + body + nl)
		default:
			lb.WriteString(indent + "// +govalid:" + body + nl)
			nb.WriteString(indent + "//govalid:" + body + nl)
		}
	}
	if rng.Intn(3) == 0 {
		marker("", "required")
	}
	w("type T struct {" + nl)
	emitted := 0
	for fi, f := range migStructFields {
		if rng.Intn(3) == 0 && !(emitted == 0 && fi == len(migStructFields)-1) {
			continue // (the last field is kept when every other one was skipped: a struct without markers generates nothing)
		}
		emitted++
		indent := []string{"\t", "    ", "\t\t", " \t", ""}[rng.Intn(5)]
		if rng.Intn(4) == 0 {
			w(indent + "// " + strings.Fields(f)[0] + " is documented; // +govalid:required is mentioned in prose" + nl)
		}
		for k := 0; k < 1+rng.Intn(2); k++ {
			marker(indent, migMarkerFor(f, rng))
		}
		if rng.Intn(3) == 0 {
			// the same identifier twice with different values (the later line wins), in legacy-then-new, new-then-legacy
			// or twice the same spelling
			ty := strings.Fields(f)[1]
			id, a, b := "maxitems", "2", "5"
			switch ty {
			case "string":
				id, a, b = "maxlength", "10", "20"
			case "int", "float64":
				id, a, b = "lte", "10", "99"
			}
			switch rng.Intn(4) {
			case 0:
				lb.WriteString(indent + "// +govalid:" + id + "=" + a + nl)
				nb.WriteString(indent + "//govalid:" + id + "=" + a + nl)
				w(indent + "//govalid:" + id + "=" + b + nl)
			case 1:
				w(indent + "//govalid:" + id + "=" + a + nl)
				lb.WriteString(indent + "// +govalid:" + id + "=" + b + nl)
				nb.WriteString(indent + "//govalid:" + id + "=" + b + nl)
			default:
				marker(indent, id+"="+a)
				marker(indent, id+"="+b)
			}
		}
		if rng.Intn(4) == 0 {
			w(indent + "//  +govalid:required" + nl) // two blanks: not a marker in either spelling
		}
		trailing := ""
		if rng.Intn(4) == 0 {
			trailing = " // +govalid:gt=1"
		}
		w(indent + f + trailing + nl + nl)
	}
	w("}" + nl)
	if rng.Intn(2) == 0 {
		w(nl + "var raw2 = `" + nl + "\t\t// +govalid:maxlength=3" + nl + "` // +govalid:tail")
		if rng.Intn(2) == 0 {
			w(nl)
		}
	} else if rng.Intn(2) == 0 {
		// a legacy marker comment as the LAST line of the file (a dangling comment after the declarations), with or
		// without a line terminator after it
		indent := []string{"", "\t", "  \t"}[rng.Intn(3)]
		body := []string{"required", "gt=1", "cel=value == 1 + 2"}[rng.Intn(3)]
		w(nl)
		lb.WriteString(indent + "// +govalid:" + body)
		nb.WriteString(indent + "//govalid:" + body)
		if rng.Intn(3) == 0 {
			w(nl)
		}
	}
	return lb.String(), nb.String()
}

// migCorpus: hand-written corner cases that run first (legacy, fresh)
func migCorpus(pkg string) [][2]string {
	h := "package " + pkg + "\n\n"
	t := func(body string) string { return "type T struct {\n" + body + "}\n" }
	return [][2]string{
		// a line inside a block comment that closes on the same line and is followed by a trailing legacy comment
		{h + "/* hello\n// +govalid:x */ // +govalid:y\nvar a = 1\n\n" + t("\t// +govalid:required\n\tA string\n"),
			h + "/* hello\n// +govalid:x */ // +govalid:y\nvar a = 1\n\n" + t("\t//govalid:required\n\tA string\n")},
		// raw string closed on a look-alike line, followed by a trailing comment
		{h + "var r = `\n// +govalid:x` // +govalid:y\n\n" + t("\t// +govalid:gt=1\n\tB int\n"),
			h + "var r = `\n// +govalid:x` // +govalid:y\n\n" + t("\t//govalid:gt=1\n\tB int\n")},
		// escaped quotes and backticks inside strings and runes before a real marker
		{h + "var s = \"a\\\"// +govalid:x\"\nvar q = '\\''\nvar b = '`'\nvar u = \"`\"\n\n" + t("\t// +govalid:required\n\tA string\n"),
			h + "var s = \"a\\\"// +govalid:x\"\nvar q = '\\''\nvar b = '`'\nvar u = \"`\"\n\n" + t("\t//govalid:required\n\tA string\n")},
		// CRLF everywhere, no final newline, marker with '=' and '+' in the expression
		{"package " + pkg + "\r\n\r\ntype T struct {\r\n\t// +govalid:enum=a=b,c+d\r\n\tA string\r\n}",
			"package " + pkg + "\r\n\r\ntype T struct {\r\n\t//govalid:enum=a=b,c+d\r\n\tA string\r\n}"},
		// block comment opened after code on one line, look-alike lines inside, closed later
		{h + "var x = 1 /* start\n// +govalid:required\n\t// +govalid:gt=1\nend */\n\n" + t("\t// +govalid:required\n\tA string\n"),
			h + "var x = 1 /* start\n// +govalid:required\n\t// +govalid:gt=1\nend */\n\n" + t("\t//govalid:required\n\tA string\n")},
		// division and a comment-like operator sequence; nothing legacy at all
		{h + "var d = 4 / 2 // plain\n\n" + t("\t//govalid:required\n\tA string\n"),
			h + "var d = 4 / 2 // plain\n\n" + t("\t//govalid:required\n\tA string\n")},
		// the same identifier twice in one group, legacy first: the later (new-spelled) line wins in every spelling
		{h + t("\t// +govalid:maxlength=10\n\t//govalid:maxlength=20\n\tA string\n"),
			h + t("\t//govalid:maxlength=10\n\t//govalid:maxlength=20\n\tA string\n")},
		{h + "//govalid:gt=1\n// +govalid:gt=5\n" + t("\tB int\n"),
			h + "//govalid:gt=1\n//govalid:gt=5\n" + t("\tB int\n")},
		// the file ends in a legacy marker comment without a final newline (LF and CRLF files)
		{h + t("\t// +govalid:required\n\tA string\n") + "\n// +govalid:required",
			h + t("\t//govalid:required\n\tA string\n") + "\n//govalid:required"},
		{"package " + pkg + "\r\n\r\ntype T struct {\r\n\t// +govalid:gt=1\r\n\tB int\r\n}\r\n\r\n  \t// +govalid:cel=value == 1 + 2",
			"package " + pkg + "\r\n\r\ntype T struct {\r\n\t//govalid:gt=1\r\n\tB int\r\n}\r\n\r\n  \t//govalid:cel=value == 1 + 2"},
		{h + t("\t//govalid:required\n\tA string\n") + "// +govalid:required",
			h + t("\t//govalid:required\n\tA string\n") + "//govalid:required"},
		// CRLF file with a LONG block comment (30 and 70 lines) whose last line is a look-alike that closes the comment and is
		// followed by a trailing legacy-looking comment: nothing on that line is a marker; the real marker below is
		longBlock(pkg, 30, "\r\n"), longBlock(pkg, 70, "\r\n"), longBlock(pkg, 30, "\n"), longBlock(pkg, 16, "\r\n"),
		// //line directives (generated or pre-processed sources): positions reported by the scanner are then ADJUSTED — the real
		// line and column of a marker must be used
		{h + "//line other.go:100\n" + t("\t// +govalid:required\n\tA string\n") + "\n//line other.go:1:40\n" + strings.Replace(t("\t// +govalid:gt=1\n\tB int\n"), "type T", "type U", 1),
			h + "//line other.go:100\n" + t("\t//govalid:required\n\tA string\n") + "\n//line other.go:1:40\n" + strings.Replace(t("\t//govalid:gt=1\n\tB int\n"), "type T", "type U", 1)},
		{h + "/*line x.go:7:1*/ var q = 1\n\n" + t("\t// +govalid:required\n\tA string\n"),
			h + "/*line x.go:7:1*/ var q = 1\n\n" + t("\t//govalid:required\n\tA string\n")},
		// nested anonymous struct with markers at two indentation depths, spaces and tabs mixed
		{h + t("\t// +govalid:required\n\tIn struct {\n\t\t  // +govalid:minlength=2\n\t\tA string\n\t}\n"),
			h + t("\t//govalid:required\n\tIn struct {\n\t\t  //govalid:minlength=2\n\t\tA string\n\t}\n")},
	}
}

// longBlock: a block comment of n lines, closed on a look-alike line that is followed by a trailing comment
func longBlock(pkg string, n int, nl string) [2]string {
	var lb, nb strings.Builder
	w := func(x string) { lb.WriteString(x); nb.WriteString(x) }
	w("package " + pkg + nl + nl + "/* notes" + nl)
	for i := 0; i < n-2; i++ {
		w(" * line" + nl)
	}
	w("// +govalid:required */ // +govalid:email" + nl + nl)
	w("type T struct {" + nl)
	lb.WriteString("\t// +govalid:required" + nl)
	nb.WriteString("\t//govalid:required" + nl)
	w("\tA string" + nl + "}" + nl)
	return [2]string{lb.String(), nb.String()}
}

func firstDiff(a, b string) int {
	for i := 0; i < len(a) && i < len(b); i++ {
		if a[i] != b[i] {
			return i
		}
	}
	return min(len(a), len(b))
}

func tokensOf(src string) string {
	fset := token.NewFileSet()
	f := fset.AddFile("", fset.Base(), len(src))
	var s scanner.Scanner
	s.Init(f, []byte(src), nil, 0)
	var sb strings.Builder
	for {
		_, tok, lit := s.Scan()
		if tok == token.EOF {
			break
		}
		sb.WriteString(tok.String() + ":" + lit + "\x00")
	}
	return sb.String()
}

var perFileRe = regexp.MustCompile(`(?m)^(\S+): migrated (\d+) marker\(s\)$`)
var dryRe = regexp.MustCompile(`Dry run: (\d+) marker`)

func validatorDigest(dir string) string {
	ms, _ := filepath.Glob(filepath.Join(dir, "*_validator.go"))
	var sb strings.Builder
	for _, m := range ms {
		if filepath.Base(m) == "hand_validator.go" {
			continue // a hand-written source file of the sibling set, not generator output
		}
		b, _ := os.ReadFile(m)
		sb.WriteString(filepath.Base(m) + ":" + hex.EncodeToString(b) + ";")
	}
	return sb.String()
}

func listFiles(dir string) map[string]string {
	res := map[string]string{}
	_ = filepath.Walk(dir, func(p string, info os.FileInfo, err error) error {
		if err == nil && !info.IsDir() {
			b, _ := os.ReadFile(p)
			res[p] = string(b)
		}
		return nil
	})
	return res
}

// migMain: harness mig <tier> <seed> <workdir> <govalid> <repo>
func migMain(args []string) {
	initEnv()
	tier := args[0]
	seed, _ := strconv.ParseInt(args[1], 10, 64)
	r := &runner{work: args[2], govalid: args[3], repo: args[4]}
	if err := r.setup(); err != nil {
		fmt.Fprintln(os.Stderr, err)
		os.Exit(2)
	}
	rng := rand.New(rand.NewSource(seed))
	n := 40
	if tier == "thorough" {
		n = 300
	}
	enc := json.NewEncoder(out)
	corpus := migCorpus("c")
	for i := 0; i < n+len(corpus); i++ {
		id := fmt.Sprintf("g%03d", i)
		var legacy, fresh string
		if i < len(corpus) {
			id = fmt.Sprintf("c%03d", i)
			legacy = strings.Replace(corpus[i][0], "package c", "package "+id, 1)
			fresh = strings.Replace(corpus[i][1], "package c", "package "+id, 1)
		} else {
			legacy, fresh = genMigFile(rng, id)
		}
		dir := filepath.Join(r.mod(), id)
		dirNew := filepath.Join(r.mod(), id+"new")
		_ = os.MkdirAll(dir, 0o755)
		_ = os.MkdirAll(dirNew, 0o755)
		src := filepath.Join(dir, "x.go")
		_ = os.WriteFile(src, []byte(legacy), 0o644)
		_ = os.WriteFile(filepath.Join(dirNew, "x.go"), []byte(strings.Replace(fresh, "package "+id, "package "+id+"new", 1)), 0o644)
		var sibLegacy, sibFresh map[string]string
		if i%3 == 0 {
			sibLegacy, sibFresh = migSiblings(id)
			for n, c := range sibLegacy {
				_ = os.WriteFile(filepath.Join(dir, n), []byte(c), 0o644)
				_ = os.WriteFile(filepath.Join(dirNew, n), []byte(strings.Replace(sibFresh[n], "package "+id, "package "+id+"new", 1)), 0o644)
			}
		}
		row := MigRow{ID: id, Before: hex.EncodeToString([]byte(legacy)), Fresh: hex.EncodeToString([]byte(fresh))}
		la, fa := strings.Split(legacy, "\n"), strings.Split(fresh, "\n")
		for k := range la {
			if la[k] != fa[k] {
				row.Legacy++
			}
		}
		// generator on the legacy spelling and on the fresh new spelling
		if o, c := r.cmd(r.mod(), r.govalid, "./"+id); c != 0 {
			row.Err += "gen-before: " + tail(o, 300)
		}
		row.GenBefore = validatorDigest(dir)
		if o, c := r.cmd(r.mod(), r.govalid, "./"+id+"new"); c != 0 {
			row.Err += "gen-new: " + tail(o, 300)
		}
		row.GenNew = strings.ReplaceAll(validatorDigest(dirNew), hex.EncodeToString([]byte("package "+id+"new")), hex.EncodeToString([]byte("package "+id)))
		// remove generated files so that migrate only sees the source (they contain no markers anyway)
		before := listFiles(dir)
		// history: dry-run, migrate, migrate
		o, _ := r.cmd(r.mod(), r.govalid, "migrate", "--dry-run", "./"+id)
		if m := dryRe.FindStringSubmatch(o); m != nil {
			row.DryCount, _ = strconv.Atoi(m[1])
		}
		if sibLegacy != nil {
			row.DryCount -= 163 // the announced total covers the sibling files too: 160 markers in a_first.go, one in z_last.go, two in hand_validator.go
		}
		b, _ := os.ReadFile(src)
		row.DryChanged = string(b) != legacy
		for n, c := range sibLegacy {
			if sb, _ := os.ReadFile(filepath.Join(dir, n)); string(sb) != c {
				row.Siblings += "dry-run changed " + n + "; "
			}
		}
		o, c := r.cmd(r.mod(), r.govalid, "migrate", "./"+id)
		if c != 0 {
			row.Err += "migrate: " + tail(o, 300)
		}
		for _, m := range perFileRe.FindAllStringSubmatch(o, -1) {
			if strings.HasSuffix(m[1], "x.go") {
				row.Count, _ = strconv.Atoi(m[2])
			}
		}
		b, _ = os.ReadFile(src)
		row.After = hex.EncodeToString(b)
		row.TokensSame = tokensOf(legacy) == tokensOf(string(b))
		after := listFiles(dir)
		var others []string
		for p, content := range after {
			if p == src {
				continue
			}
			if want, ok := sibFresh[filepath.Base(p)]; ok {
				if content != want {
					row.Siblings += filepath.Base(p) + " after migrate differs from the same file with exactly its marker comment lines respelled (first difference at byte " + strconv.Itoa(firstDiff(content, want)) + "); "
				}
				continue
			}
			if old, ok := before[p]; !ok || old != content {
				others = append(others, filepath.Base(p))
			}
		}
		for p := range before {
			if _, ok := after[p]; !ok {
				others = append(others, "deleted:"+filepath.Base(p))
			}
		}
		row.OtherFiles = strings.Join(others, ",")
		o, _ = r.cmd(r.mod(), r.govalid, "migrate", "./"+id)
		for _, m := range perFileRe.FindAllStringSubmatch(o, -1) {
			if strings.HasSuffix(m[1], "x.go") {
				row.SecondCount, _ = strconv.Atoi(m[2])
			}
		}
		b, _ = os.ReadFile(src)
		row.After2 = hex.EncodeToString(b)
		// generator on the migrated package
		if o, c := r.cmd(r.mod(), r.govalid, "./"+id); c != 0 {
			row.Err += "gen-after: " + tail(o, 300)
		}
		row.GenAfter = validatorDigest(dir)
		_ = enc.Encode(row)
	}
}
