package main

import (
	"fmt"
	"math/rand"
)

// buildFamily selects the scenario families of a property check.
func buildFamily(family, tier string, seed int64) []*Scenario {
	g := &gen{rng: rand.New(rand.NewSource(seed))}
	thorough := tier == "thorough"
	n := func(q, t int) int {
		if thorough {
			return t
		}
		return q
	}
	var numeric []*TypeX
	numeric = append(numeric, intKinds...)
	numeric = append(numeric, floatKinds...)
	var allTypes []*TypeX
	allTypes = append(allTypes, numeric...)
	allTypes = append(allTypes, complexKinds...)
	allTypes = append(allTypes, stringT, boolT)
	allTypes = append(allTypes, collTypes...)
	allTypes = append(allTypes, refTypes...)
	var out []*Scenario
	rep := func(k int, f func(i int) []*Scenario) {
		for i := 0; i < k; i++ {
			out = append(out, f(i)...)
		}
	}
	switch family {
	case "c01":
		rep(n(2, 90), func(i int) []*Scenario {
			return g.famMatrix(fmt.Sprintf("a%03d", i), []string{"gt", "gte", "lt", "lte"}, numeric, 12, true)
		})
		// the extremes of every type and the bound 0, systematically (one struct per rule x type each)
		for i, b := range []string{"lo", "hi", "zero"} {
			g.bound = b
			out = append(out, g.famMatrix(fmt.Sprintf("ax%d", i), []string{"gt", "gte", "lt", "lte"}, numeric, 14, false)...)
		}
		g.bound = ""
		out = append(out, g.famBounds("ay", numeric)...)
		out = append(out, g.famTwoLevel("az", []string{"gt", "gte", "lt", "lte"}, numeric)...)
		out = append(out, g.famSpelled("as", []string{"gt", "gte", "lt", "lte"}, []*TypeX{basicT("int", "Int"), basicT("uint8", "Uint8"), basicT("int64", "Int64"), basicT("float64", "Float64"), basicT("float32", "Float32")})...)
	case "c02":
		out = append(out, g.corpusC07("b")...) // path-collision and deep-nesting shapes with `required`
		out = append(out, g.famDeep("bd", n(15, 60))...)
		out = append(out, g.famImported("b")...)
		out = append(out, g.famGrouped("b")...)
		rep(n(1, 40), func(i int) []*Scenario { return g.famMatrix(fmt.Sprintf("b%03d", i), []string{"required"}, allTypes, 12, true) })
	case "c03":
		rep(n(3, 120), func(i int) []*Scenario {
			return g.famMatrix(fmt.Sprintf("c%03d", i), []string{"minlength", "maxlength", "length"}, []*TypeX{stringT}, 6, true)
		})
		out = append(out, g.famCombo("cz", n(12, 600), []string{"minlength", "maxlength", "length"})...)
		out = append(out, g.famTwoLevel("cy", []string{"minlength", "maxlength", "length"}, []*TypeX{stringT})...)
		out = append(out, g.corpusC07("cx")...)
		out = append(out, g.famSpelled("cs", []string{"minlength", "maxlength", "length"}, []*TypeX{stringT})...)
	case "c04":
		rep(n(2, 72), func(i int) []*Scenario { return g.famMatrix(fmt.Sprintf("d%03d", i), []string{"minitems", "maxitems"}, collTypes, 12, true) })
		out = append(out, g.famTwoLevel("dy", []string{"minitems", "maxitems"}, collTypes)...)
		out = append(out, g.famCollCombo("dc")...)
		out = append(out, g.famSpelled("ds", []string{"minitems", "maxitems"}, []*TypeX{collTypes[0], collTypes[5], collTypes[2]})...)
		out = append(out, g.famImported("d")...)
	case "c05":
		ts := append([]*TypeX{stringT}, numeric...)
		rep(n(2, 90), func(i int) []*Scenario { return g.famMatrix(fmt.Sprintf("e%03d", i), []string{"enum"}, ts, 12, true) })
		// every string item pool once (blanks inside items, duplicates, non-ASCII …)
		for i := range enumStrPools {
			g.pool = i + 1
			out = append(out, g.famMatrix(fmt.Sprintf("ep%02d", i), []string{"enum"}, []*TypeX{stringT}, 4, true)...)
		}
		g.pool = 0
		out = append(out, g.famEnumCombo("ec")...)
	case "c06":
		rep(n(2, 72), func(i int) []*Scenario {
			return g.famMatrix(fmt.Sprintf("f%03d", i), []string{"email", "url", "uuid", "alpha", "numeric", "ipv4", "ipv6"}, []*TypeX{stringT}, 7, true)
		})
		out = append(out, g.famCombo("fz", n(12, 600), []string{"email", "url", "uuid", "alpha", "numeric", "ipv4", "ipv6"})...)
		out = append(out, g.famNames("f", []string{"email", "url", "uuid", "alpha", "numeric", "ipv4", "ipv6"})...)
	case "c09":
		out = append(g.corpusC07("s"), g.famShapes("s", n(25, 100), n(6, 25))...)
		out = append(out, g.famDeep("sd", n(15, 60))...)
		out = append(out, g.corpusDoc("s")...)
		out = append(out, g.famImported("s")...)
		out = append(out, g.famGrouped("s")...)
		out = append(out, g.famMultiName("s", n(6, 30))...)
		out = append(out, g.corpusRepeat("s")...)
		out = append(out, g.famSpelled("ss", []string{"gt", "minlength", "minitems", "lte"}, []*TypeX{basicT("int", "Int"), stringT, collTypes[0]})...)
	case "c08":
		out = g.famC08("w", n(30, 150))
	case "c07":
		out = append(g.corpusC07("r"), g.famRandom("r", n(24, 120), 8)...)
		out = append(out, g.corpusDoc("r")...)
		out = append(out, g.famWide("rw")...)
		out = append(out, g.famImported("r")...)
		out = append(out, g.famNames("r", []string{"required", "minlength", "enum"})...)
		out = append(out, g.famMultiName("r", n(6, 30))...)
	case "random":
		out = g.famRandom("r", n(24, 120), 8)
	case "all":
		out = append(out, g.corpusC07("m")...)
		for i := 0; i < 3; i++ { // the long enum lists (9, 12 and 30 items)
			g.pool = i + 1
			out = append(out, g.famMatrix(fmt.Sprintf("me%d", i), []string{"enum"}, []*TypeX{stringT}, 4, true)...)
		}
		g.pool = 0
		out = append(out, g.famMatrix("m", []string{"required", "gt", "gte", "lt", "lte", "minlength", "maxlength", "length", "minitems", "maxitems", "enum", "email", "url", "uuid", "alpha", "numeric", "ipv4", "ipv6"}, allTypes, 14, false)...)
		out = append(out, g.famRandom("r", n(12, 60), 8)...)
		out = append(out, g.famWide("mw")...)
		out = append(out, g.famBig("m")...)
		out = append(out, g.famImported("m")...)
		out = append(out, g.corpusRepeat("m")...)
		out = append(out, g.famNames("m", []string{"email", "maxlength"})...)
	}
	return out
}
