module github.com/sivchari/govalid/verifharness

go 1.24.3

require github.com/sivchari/govalid v0.0.0

replace github.com/sivchari/govalid => /repo
