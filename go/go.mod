module github.com/sivchari/govalid/verifharness

go 1.24.3

require (
	github.com/google/cel-go v0.26.1
	github.com/sivchari/govalid v0.0.0
	google.golang.org/genproto/googleapis/api v0.0.0-20240826202546-f6391c0de4c7
)

require (
	cel.dev/expr v0.24.0 // indirect
	github.com/antlr4-go/antlr/v4 v4.13.0 // indirect
	github.com/stoewer/go-strcase v1.2.0 // indirect
	golang.org/x/exp v0.0.0-20230515195305-f3d0a9c9a5cc // indirect
	google.golang.org/genproto/googleapis/rpc v0.0.0-20240826202546-f6391c0de4c7 // indirect
	google.golang.org/protobuf v1.34.2 // indirect
)

replace github.com/sivchari/govalid => /repo
