import Gvlean.Go.Basic
import Gvlean.Go.Utf8
import Gvlean.Generated.Helpers
