/-
  C17 — validation never panics, whatever the field values.
  (a) the translated recognizers are total (`.ok`) on every byte string (C11–C13, alpha, numeric);
  (b) on Clean, Documented declarations the generated function (non-CEL) never gets stuck, under any
      poll schedule, and a nil receiver is answered before any field access;
  (c) CEL conditions are outside this model (see C10).
-/
import Gvlean.Proofs.Ctx
import Gvlean.Props.C07

namespace Props
open Go Gen Proofs

/-- (a) no byte string makes a recognizer panic -/
theorem c17_recognizers (s : Bytes) :
    (∃ b, Gen.IsValidEmail s = .ok b) ∧ (∃ b, Gen.IsValidURL s = .ok b) ∧ (∃ b, Gen.IsValidUUID s = .ok b) ∧
    (∃ b, Gen.IsValidAlpha s = .ok b) ∧ (∃ b, Gen.IsNumeric s = .ok b) :=
  ⟨⟨_, c11 s⟩, ⟨_, c12 s⟩, ⟨_, c13 s⟩, ⟨_, eq_of_triple (IsValidAlpha_spec s)⟩, ⟨_, eq_of_triple (IsNumeric_spec s)⟩⟩

/-- (b) Validate() on a Clean, Documented declaration and a value of the documented domain never
    leaves the modelled fragment (no stuck/panic outcome) -/
theorem c17_validate (d : Decl) (v : Val) (es : List Spec.Entry) (hc : cleanDecl d = true)
    (hv : Spec.violated d v = some es) : exec (gen d) bg (some v) ≠ .stuck := by
  rw [c07 d v es hc hv, toOutcome]
  split <;> simp

theorem runBlocks_not_stuck (ctx : Ctx) (recv : Val) : ∀ (bs : List Block) (k : Nat) (acc : List Gen.Entry),
    (blocksEntries recv bs).isSome = true → runBlocks ctx recv bs k acc ≠ .stuck := by
  intro bs
  induction bs with
  | nil => intro k acc _; simp only [runBlocks]; split <;> simp
  | cons b bs ih =>
    intro k acc h
    simp only [blocksEntries] at h
    simp only [runBlocks]
    cases hc : ctx k with
    | some e => simp only []; cases ctx (k + 1) <;> simp
    | none =>
      simp only []
      cases hl : lookupPath recv b.parent with
      | none => simp [hl] at h
      | some sv =>
        simp only [hl] at h ⊢
        cases hr : runChecks sv b.checks with
        | none => simp [hr] at h
        | some es =>
          simp only [hr] at h ⊢
          apply ih
          cases hb : blocksEntries recv bs with
          | none => simp [hb] at h
          | some _ => rfl

/-- (b) ValidateContext under ANY poll schedule never gets stuck either -/
theorem c17_validate_ctx (d : Decl) (v : Val) (es : List Spec.Entry) (ctx : Ctx) (hc : cleanDecl d = true)
    (hv : Spec.violated d v = some es) : exec (gen d) ctx (some v) ≠ .stuck := by
  have h := fields_sound d.name (sortById (markersOfDoc d.doc)) v d.fields [] v es hc rfl hv
  simp only [exec, gen]
  exact runBlocks_not_stuck ctx v _ 0 [] (by rw [h]; rfl)

/-- (b) nil receiver: answered by the guard before any field access -/
theorem c17_nil_receiver (bs : List Block) (ctx : Ctx) : exec bs ctx none = .nilRecv := rfl

end Props
