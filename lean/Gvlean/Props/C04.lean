/-
  C04 — minitems / maxitems compare len() of slices, arrays, maps and channels.
  Facts.* (emitted conditions, guards, names, zero table) are regenerated from /repo on every run;
  `mkCheck` is the hand model of makeValidator + factory, `fires` the Go-operator semantics over field
  values, `Spec.violates` the meaning of the marker written from the property statement.
-/
import Gvlean.Proofs.Gen

namespace Props
open Go Gen Proofs

/-- For every collection kind (and named types over them), every value and every N ≥ 0: one check, which fires iff the length is < N (minitems) or > N (maxitems); nil has length 0, an array its declared size, a channel its buffered count -/
theorem c04 (S : String) (parent : List String) (f : String) (ty : Ty) (rule p : String) (fv : Val) (b : Bool)
    (hr : rule ∈ ["minitems", "maxitems"]) (happ : Spec.applies rule ty = true)
    (hp : paramOK rule (some p) ty = true) (hv : Spec.violates rule (some p) ty fv = some b) :
    ∃ c e, mkCheck S parent [f] ty ⟨"govalid:" ++ rule, some p⟩ = some c ∧ c.cond = some e ∧ c.field = f ∧
      c.rule = rule ∧ c.path = S :: parent ++ [f] ∧ fires (envOf f ty fv) e = some b := by
  have hr18 : rule ∈ rules18 := by
    simp only [List.mem_cons, List.not_mem_nil, or_false] at hr
    rcases hr with rfl | rfl <;> decide
  obtain ⟨c, e, h1, h2, h3, _, h5, h6, h7⟩ :=
    check_sound S parent f ty ⟨"govalid:" ++ rule, some p⟩ fv b rule hr18 rfl happ hp hv
  exact ⟨c, e, h1, h2, h3, h5, h6, h7⟩

theorem c04_meaning (p : String) (ty : Ty) (v : Val) (d : Dec) (n : Nat) (hp : parseDec p = some d)
    (hint : d.isInt = true) (h0 : 0 ≤ d.toInt) (hl : Spec.collLen ty v = some n) :
    Spec.violates "minitems" (some p) ty v = some (decide ((n : Int) < d.toInt)) ∧
    Spec.violates "maxitems" (some p) ty v = some (decide ((n : Int) > d.toInt)) := by
  simp [Spec.violates, hp, hint, h0, hl]

/-- the factories accept exactly slice, array, map and chan underlying types -/
theorem c04_guard (ty : Ty) :
    guardOk Facts.info_minitems.guard ty = Spec.isCollection ty ∧ guardOk Facts.info_maxitems.guard ty = Spec.isCollection ty := by
  unfold Spec.isCollection guardOk
  cases ty.underlying <;> exact ⟨rfl, rfl⟩

example : Spec.violates "minitems" (some "1") .slice (.coll none) = some true := by decide
example : Spec.violates "maxitems" (some "2") (.named .chan) (.chan (some 3)) = some true := by decide

end Props
