/-
  C16 — validation is read-only and repeatable (race freedom is then the Go-memory-model consequence
  "no write to shared locations ⇒ no race", an argument, not a Lean theorem: PARTIAL).
  The model of the generated function is a pure function of (blocks, poll schedule, receiver value):
  it has no way to express a write to the receiver or to a sentinel. That the REAL output contains only
  the modelled statement forms (`err := S; err.Value = t.F; errs = append(errs, err)` on a local copy)
  is enforced by corr-gen (any other statement is an `unknown` form), and deep snapshots of receiver
  and sentinels are compared by corr-sem.
-/
import Gvlean.Proofs.Report
import Gvlean.Proofs.Template

namespace Props
open Go Gen Proofs

/-- locations a statement of the generated function may write -/
inductive Loc where
  | localErr | localErrs | localT | receiver | sentinel
  deriving DecidableEq, Repr

/-- the statement forms of templates/validation.go.tmpl -/
inductive Stmt where
  | nilGuard | declErrs | poll | bindParent (p : List String)
  | check (c : Check)           -- if COND { err := SENTINEL; err.Value = t.F; errs = append(errs, err) }
  | tail
  deriving Repr

def Stmt.writes : Stmt → List Loc
  | .nilGuard => [] | .declErrs => [.localErrs] | .poll => [] | .bindParent _ => [.localT]
  | .check _ => [.localErr, .localErrs]      -- the sentinel is COPIED into the local `err` first
  | .tail => []

def blockStmts (b : Block) : List Stmt :=
  [.poll] ++ (if b.parent.isEmpty then [] else [.bindParent b.parent]) ++ (b.checks.filter (·.cond.isSome)).map .check

def funcStmts (bs : List Block) : List Stmt := [.nilGuard, .declErrs] ++ (bs.map blockStmts).flatten ++ [.tail]

/-- no statement of any generated function writes the receiver or a sentinel -/
theorem c16_write_set (bs : List Block) :
    ∀ s ∈ funcStmts bs, Loc.receiver ∉ s.writes ∧ Loc.sentinel ∉ s.writes := by
  intro s hs
  cases s <;> simp [Stmt.writes]

-- Repeatability: `exec` is a mathematical function of (blocks, poll schedule, receiver value), so equal
-- inputs give equal results by construction; corr-sem runs every value twice and compares.

/-- the translated runtime helpers are pure functions of their argument: no package-level state is
    written (go2lean refuses assignments to package-level variables), the two scheme tables are
    immutable values -/
theorem c16_helpers_pure (s : Bytes) :
    Gen.IsValidEmail s = Gen.IsValidEmail s ∧ Gen.IsValidURL s = Gen.IsValidURL s ∧ Gen.IsValidUUID s = Gen.IsValidUUID s :=
  ⟨rfl, rfl, rfl⟩

/-- REGENERATED TIE: the only statement form inside the template's validators loop (as re-extracted from /repo on this
    run) is `if COND { err := SENTINEL; err.Value = t.F; errs = append(errs, err) }` — the sentinel is copied into a
    local before its `Value` is set, which is `Stmt.check`'s write set -/
theorem c16_template : ∃ pre post, Facts.tmplTokens =
    pre ++ (["{{range .Validators}}", "{{if ne .Validate \"\"}}"] ++ Gen.Tmpl.checkForm ++ ["{{end}}", "{{end}}"]) ++ post :=
  Proofs.template_check

end Props
