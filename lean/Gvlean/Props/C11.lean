/-
  C11 — Email recognizer accepts exactly the documented address grammar.
  Property theorems only. `Gen.IsValidEmail` is the go2lean translation of email.go (regenerated
  on every run); `Spec.emailSpecB` is the grammar of Gvlean/Spec/Email.lean.
-/
import Gvlean.Proofs.EmailPure

namespace Props
open Go Spec

/-- For EVERY byte string (any length, non-ASCII and invalid UTF-8 included): the translated
    `IsValidEmail` terminates without panicking and returns exactly the Spec verdict. -/
theorem c11 (s : Bytes) : Gen.IsValidEmail s = .ok (emailSpecB s) := by
  rw [eq_of_triple (Proofs.IsValidEmail_pure s), Proofs.emailPure_eq]

/-- no input makes it panic -/
theorem c11_no_panic (s : Bytes) : ∃ b, Gen.IsValidEmail s = .ok b := ⟨_, c11 s⟩

/-- total length outside 5..254 is always rejected -/
theorem c11_length (s : Bytes) (h : s.length < 5 ∨ 254 < s.length) : Gen.IsValidEmail s = .ok false := by
  rw [c11]; congr 1
  simp only [emailSpecB]
  rcases h with h | h
  · have : decide (5 ≤ s.length) = false := by simp; omega
    simp [this]
  · have : decide (s.length ≤ 254) = false := by simp; omega
    simp [this]

/-- any byte ≥ 0x80 (non-ASCII, invalid UTF-8) anywhere ⇒ rejected -/
theorem c11_non_ascii (s : Bytes) (b : UInt8) (hb : b ∈ s) (h80 : 128 ≤ b) : Gen.IsValidEmail s = .ok false := by
  rw [c11]; congr 1
  rw [← Bool.not_eq_true]
  intro h
  simp only [emailSpecB, Bool.and_eq_true] at h
  obtain ⟨⟨⟨_, _⟩, hl⟩, hd⟩ := h
  -- b lies in the local part, is the '@', or lies in the domain
  have hsplit : s = s.takeWhile (· != 64) ++ s.dropWhile (· != 64) := (List.takeWhile_append_dropWhile).symm
  rw [hsplit] at hb
  have hbne : b ≠ 64 := by intro h; subst h; exact absurd h80 (by decide)
  have hb46 : b ≠ 46 := by intro h; subst h; exact absurd h80 (by decide)
  rcases List.mem_append.mp hb with hb | hb
  · simp only [localOk, Bool.and_eq_true] at hl
    have hall := hl.2
    have h2 : (splitOn 46 (s.takeWhile (· != 64))).all (fun a => a.all atext) = true := by
      rw [List.all_eq_true] at hall ⊢
      intro a ha; have := hall a ha; simp only [Bool.and_eq_true] at this; exact this.2
    rw [Spec.splitOn_all_all, List.all_eq_true] at h2
    have := h2 b hb
    have hat : atext b = false := by
      simp only [atext, isAlnum, atextSpecials]
      rw [← Bool.not_eq_true]
      simp only [Bool.or_eq_true, Bool.and_eq_true, decide_eq_true_eq, List.contains_iff_mem, List.mem_cons,
        List.not_mem_nil, or_false, UInt8.le_iff_toNat_le, ← UInt8.toNat_inj, UInt8.toNat_ofNat] at *
      omega
    simp [hat, hb46] at this
  · cases hdw : s.dropWhile (· != 64) with
    | nil => rw [hdw] at hb; simp at hb
    | cons a t =>
      rw [hdw] at hb hd
      simp only [List.drop_succ_cons, List.drop_zero] at hd
      simp only [List.mem_cons] at hb
      have ha : a = 64 := by
        have := List.head?_dropWhile_not (· != 64) s
        rw [hdw] at this
        simpa using this
      rcases hb with rfl | hb
      · exact hbne ha
      · simp only [domainOk, Bool.and_eq_true] at hd
        have hall := hd.2
        have h2 : (splitOn 46 t).all (fun a => a.all (fun b => isAlnum b || b == 45)) = true := by
          rw [List.all_eq_true] at hall ⊢
          intro a ha; have := hall a ha; simp only [labelOk, Bool.and_eq_true] at this; exact this.1.1.2
        rw [Spec.splitOn_all_all, List.all_eq_true] at h2
        have := h2 b hb
        have hat : (isAlnum b || b == 45) = false := by
          simp only [isAlnum]
          rw [← Bool.not_eq_true]
          simp only [Bool.or_eq_true, Bool.and_eq_true, decide_eq_true_eq, beq_iff_eq,
            UInt8.le_iff_toNat_le, ← UInt8.toNat_inj, UInt8.toNat_ofNat] at *
          omega
        simp [hat, hb46] at this

-- non-vacuity (decided by the kernel)
/-- "user.name+tag@sub.example.com" -/
def exMember : Bytes := [117, 115, 101, 114, 46, 110, 97, 109, 101, 43, 116, 97, 103, 64, 115, 117, 98, 46, 101, 120, 97, 109, 112, 108, 101, 46, 99, 111, 109]
/-- "user..name@sub.example.com" -/
def exDotDot : Bytes := [117, 115, 101, 114, 46, 46, 110, 97, 109, 101, 64, 115, 117, 98, 46, 101, 120, 97, 109, 112, 108, 101, 46, 99, 111, 109]
/-- "a@b" -/
def exShort : Bytes := [97, 64, 98]
/-- "user@ex\u0161mple.com" (U+0161, low byte 'a') -/
def exNonAscii : Bytes := [117, 115, 101, 114, 64, 101, 120, 197, 161, 109, 112, 108, 101, 46, 99, 111, 109]
example : Gen.IsValidEmail exMember = .ok true := by rw [c11]; exact congrArg _ (by decide)
example : Gen.IsValidEmail exDotDot = .ok false := by rw [c11]; exact congrArg _ (by decide)
example : Gen.IsValidEmail exShort = .ok false := by rw [c11]; exact congrArg _ (by decide)
example : Gen.IsValidEmail exNonAscii = .ok false := by rw [c11]; exact congrArg _ (by decide)

end Props
