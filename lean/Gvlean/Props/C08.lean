/-
  C08 — generated code compiles and implements the validator interfaces (PARTIAL).
  Proved, for every declaration: the sentinel block of the modelled file declares a variable for the
  memory key of every rendered check (nothing missing) and no key twice (nothing duplicated at the key
  level); when `wfFile` holds, every rendered check assigns a variable that is declared exactly once.
  `wfFile` is a decidable predicate evaluated by the model driver on every scenario: corr-gen compares
  it with `go build` + `go vet` + gofmt of the real output (it must compile iff `wfFile`), so the inputs
  on which documented combinations do NOT compile are pinned down exactly (known findings).
  Not modelled: the Go type checker, goimports, gofmt, the interface method sets (asserted in the
  compiled driver: `var _ govalid.Validator = (*T)(nil)` …).
-/
import Gvlean.Gen.WellFormed

namespace Props
open Gen

theorem fold_keys (cs : List Check) (acc : List Check) (seen : List String)
    (hinv : ∀ k, k ∈ seen ↔ ∃ s ∈ acc, s.memKey = k) (hnd : (acc.map (·.memKey)).Nodup) :
    let r := cs.foldl (fun (a : List Check × List String) c =>
      if a.2.contains c.memKey then a else (a.1 ++ [c], c.memKey :: a.2)) (acc, seen)
    (∀ c ∈ cs, ∃ s ∈ r.1, s.memKey = c.memKey) ∧ (r.1.map (·.memKey)).Nodup ∧ (∀ s ∈ acc, s ∈ r.1)
      ∧ (∀ s ∈ r.1, s ∈ acc ∨ s ∈ cs) := by
  induction cs generalizing acc seen with
  | nil => simp [hnd]
  | cons c cs ih =>
    simp only [List.foldl_cons]
    by_cases h : seen.contains c.memKey = true
    · simp only [h, if_true]
      have := ih acc seen hinv hnd
      obtain ⟨h1, h2, h3, h4⟩ := this
      refine ⟨?_, h2, h3, ?_⟩
      · intro x hx
        simp only [List.mem_cons] at hx
        rcases hx with rfl | hx
        · have hm : x.memKey ∈ seen := by simpa using h
          obtain ⟨s, hs, hk⟩ := (hinv _).mp hm
          exact ⟨s, h3 s hs, hk⟩
        · exact h1 x hx
      · intro s hs
        rcases h4 s hs with h | h
        · exact Or.inl h
        · exact Or.inr (by simp [h])
    · simp only [h, Bool.false_eq_true, if_false]
      have hnot : c.memKey ∉ seen := by simpa using h
      have hinv' : ∀ k, k ∈ c.memKey :: seen ↔ ∃ s ∈ acc ++ [c], s.memKey = k := by
        intro k
        simp only [List.mem_cons, List.mem_append, List.not_mem_nil, or_false]
        constructor
        · rintro (rfl | hk)
          · exact ⟨c, Or.inr rfl, rfl⟩
          · obtain ⟨s, hs, hk'⟩ := (hinv k).mp hk
            exact ⟨s, Or.inl hs, hk'⟩
        · rintro ⟨s, hs | rfl, hk⟩
          · exact Or.inr ((hinv k).mpr ⟨s, hs, hk⟩)
          · exact Or.inl hk.symm
      have hnd' : ((acc ++ [c]).map (·.memKey)).Nodup := by
        simp only [List.map_append, List.map_cons, List.map_nil]
        rw [List.nodup_append]
        refine ⟨hnd, by simp, ?_⟩
        intro a ha b hb
        simp only [List.mem_cons, List.not_mem_nil, or_false] at hb
        subst hb
        intro hEq
        obtain ⟨s, hs, hk⟩ := List.mem_map.mp ha
        exact hnot ((hinv _).mpr ⟨s, hs, by rw [hk, hEq]⟩)
      obtain ⟨h1, h2, h3, h4⟩ := ih (acc ++ [c]) (c.memKey :: seen) hinv' hnd'
      refine ⟨?_, h2, fun s hs => h3 s (by simp [hs]), ?_⟩
      · intro x hx
        simp only [List.mem_cons] at hx
        rcases hx with rfl | hx
        · exact ⟨x, h3 x (by simp), rfl⟩
        · exact h1 x hx
      · intro s hs
        rcases h4 s hs with h | h
        · simp only [List.mem_append, List.mem_cons, List.not_mem_nil, or_false] at h
          rcases h with h | rfl
          · exact Or.inl h
          · exact Or.inr (by simp)
        · exact Or.inr (by simp [h])

theorem sentinels_spec (bs : List Block) :
    (∀ c ∈ rendered bs, ∃ s ∈ sentinels bs, s.memKey = c.memKey) ∧ ((sentinels bs).map (·.memKey)).Nodup
      ∧ (∀ s ∈ sentinels bs, s ∈ rendered bs) := by
  have := fold_keys (rendered bs) [] [] (by simp) (by simp)
  obtain ⟨h1, h2, _, h4⟩ := this
  refine ⟨h1, h2, ?_⟩
  intro s hs
  rcases h4 s hs with h | h
  · simp at h
  · exact h

/-- nothing missing: the memory key of every rendered check has its declaration in the sentinel block -/
theorem c08_declared (d : Decl) : ∀ c ∈ rendered (gen d), ∃ s ∈ sentinels (gen d), s.memKey = c.memKey :=
  (sentinels_spec (gen d)).1

/-- nothing declared twice for one key -/
theorem c08_no_duplicate_key (d : Decl) : ((sentinels (gen d)).map (·.memKey)).Nodup := (sentinels_spec (gen d)).2.1

/-- nothing unused: every declared sentinel belongs to a rendered check -/
theorem c08_no_unused (d : Decl) : ∀ s ∈ sentinels (gen d), s ∈ rendered (gen d) := (sentinels_spec (gen d)).2.2

/-- on a well-formed file every rendered check assigns an error variable declared by exactly one
    sentinel, all declared names (with legacy aliases and ErrNil<T>) are pairwise distinct and every
    nested scope uses its `t` -/
theorem c08_wf (d : Decl) (h : wfFile d.name (gen d) = true) :
    (∀ c ∈ rendered (gen d), ∃ s ∈ sentinels (gen d), s.errVar = c.errVar ∧
        ∀ s' ∈ sentinels (gen d), s'.errVar = c.errVar → s'.memKey = s.memKey)
    ∧ (("ErrNil" ++ d.name) :: declaredNames (gen d)).Nodup
    ∧ (∀ b ∈ gen d, b.parent ≠ [] → ∃ c ∈ b.checks, c.cond.isSome = true) := by
  unfold wfFile at h
  simp only [Bool.and_eq_true, decide_eq_true_eq] at h
  obtain ⟨⟨hf, hn⟩, hs⟩ := h
  refine ⟨?_, hn, ?_⟩
  · intro c hc
    obtain ⟨s, hs1, hk⟩ := c08_declared d c hc
    have hsr := c08_no_unused d s hs1
    unfold namesFaithful at hf
    simp only [List.all_eq_true] at hf
    have := hf s hsr c hc
    simp only [hk, beq_self_eq_true, Bool.true_eq, beq_iff_eq] at this
    refine ⟨s, hs1, this, ?_⟩
    intro s' hs' he
    have h2 := hf s' (c08_no_unused d s' hs') s hsr
    rw [he, ← this] at h2
    simpa using h2
  · intro b hb hp
    unfold scopesUsed at hs
    simp only [List.all_eq_true, Bool.or_eq_true, List.any_eq_true] at hs
    rcases hs b hb with h | h
    · simp at h; exact absurd h hp
    · exact h

/-! The documented-but-broken shape found while proving this — `X //minlength` next to `XMin //length`
  makes two different validators share one variable name, so `wfFile` is false and the real output does
  not compile — is a corpus scenario of corr-gen (family c08; `gen` uses `String.splitOn`, which the
  kernel cannot evaluate, so the instance is checked by the compiled model driver, not by `decide`). -/

end Props
