/-
  C15 — context contract: a done context yields exactly ctx.Err(), never a partial report.
  Facts about `runBlocks` (model of the template: one `if ctx.Err() != nil { return ctx.Err() }` poll
  at the start of every block) for ALL poll schedules; the poll/block structure itself is compared
  with the real output by corr-gen, the behaviour by corr-sem with an instrumented context.
-/
import Gvlean.Proofs.Ctx
import Gvlean.Proofs.CtxAny
import Gvlean.Proofs.Template

namespace Props
open Go Gen Proofs

/-- If the (monotone) context is first observed done at the j-th poll of the run (j < number of
    blocks) the result is exactly that error: never nil, never a report, whatever had been accumulated. -/
theorem c15_cancelled (bs : List Block) (ctx : Ctx) (v : Val) (e : CtxErr) (j : Nat) (hmono : Monotone ctx)
    (hj : j < bs.length) (hbefore : ∀ i, i < j → ctx i = none) (hat : ctx j = some e)
    (hrun : (blocksEntries v bs).isSome = true) :
    exec bs ctx (some v) = .ctxErr e := by
  simp only [exec]
  exact runBlocks_cancelled ctx v e hmono bs 0 j [] hj (by simpa using hbefore) (by simpa using hat)
    (take_isSome v bs j hrun)

/-- an already cancelled / expired context (done at the first poll) never yields nil or a report -/
theorem c15_already_done (b : Block) (bs : List Block) (ctx : Ctx) (v : Val) (e : CtxErr) (hmono : Monotone ctx)
    (h0 : ctx 0 = some e) : exec (b :: bs) ctx (some v) = .ctxErr e := by
  have h1 := hmono 0 e h0 1 (by omega)
  simp [exec, runBlocks, h0, h1]

/-- if no poll of the run observes the context done the result is identical to Validate() -/
theorem c15_undisturbed (bs : List Block) (ctx : Ctx) (v : Val) (h : ∀ j, j < bs.length → ctx j = none) :
    exec bs ctx (some v) = exec bs bg (some v) := by
  simp only [exec]
  exact runBlocks_undisturbed ctx v bs 0 [] (by simpa using h)

/-- Validate() and ValidateT(t) are ValidateTContext(context.Background(), t): in the model all three
    are `exec bs bg`; that the real wrappers have exactly this form is checked by corr-gen. -/
theorem c15_wrappers (bs : List Block) (r : Option Val) : exec bs bg r = exec bs (fun _ => none) r := rfl

-- non-vacuity: a monotone schedule that turns done at poll 1
example : Monotone (fun j => if j ≥ 1 then some CtxErr.canceled else none) := by
  intro j e h i hi
  by_cases hj : j ≥ 1
  · simp [hj] at h; subst h; have : i ≥ 1 := by omega
    simp [this]
  · simp [hj] at h

/-- the modelled validator IS the skeleton with the modelled block bodies -/
theorem c15_skeleton (bs : List Block) (ctx : Ctx) (v : Val) :
    exec bs ctx (some v) = runG (blockEv v) ctx bs 0 [] := by
  simp only [exec]; exact runBlocks_eq_runG ctx v bs 0 []

/-- C15 for ARBITRARY block bodies (rule checks, CEL conditions, helper calls — `ev` is any function of the receiver,
    `none` = panic): observed done at the j-th poll ⇒ exactly that error, whatever was accumulated and whatever the
    blocks from j on would have done; in particular never nil and never a report. -/
theorem c15_any_checks_cancelled {β : Type} (ev : β → Option (List Gen.Entry)) (bs : List β) (ctx : Ctx) (e : CtxErr) (j : Nat)
    (hmono : Monotone ctx) (hj : j < bs.length) (hbefore : ∀ i, i < j → ctx i = none) (hat : ctx j = some e)
    (hpre : ∀ b ∈ bs.take j, (ev b).isSome = true) :
    runG ev ctx bs 0 [] = .ctxErr e :=
  runG_cancelled ev ctx e hmono bs 0 j [] hj (by simpa using hbefore) (by simpa using hat) hpre

/-- already done: the error at once — two `Err()` calls, no block body runs -/
theorem c15_any_checks_already_done {β : Type} (ev : β → Option (List Gen.Entry)) (b : β) (bs : List β) (ctx : Ctx) (e : CtxErr)
    (hmono : Monotone ctx) (h0 : ctx 0 = some e) :
    runG ev ctx (b :: bs) 0 [] = .ctxErr e ∧ pollsG ev ctx (b :: bs) 0 = 2 :=
  runG_already_done ev ctx e hmono b bs [] h0

/-- no cancellation observed: identical to the Background run, with one cancellation point per block -/
theorem c15_any_checks_undisturbed {β : Type} (ev : β → Option (List Gen.Entry)) (bs : List β) (ctx : Ctx)
    (h : ∀ j, j < bs.length → ctx j = none) :
    runG ev ctx bs 0 [] = runG ev bg bs 0 [] ∧
    ((∀ b ∈ bs, (ev b).isSome = true) → pollsG ev ctx bs 0 = bs.length) :=
  ⟨runG_undisturbed ev ctx bs 0 [] (by simpa using h), fun hev => pollsG_undisturbed ev ctx bs 0 (by simpa using h) hev⟩

/-- "never a partial report": whenever a report comes back, no poll of that run had observed the context done -/
theorem c15_report_only_undisturbed {β : Type} (ev : β → Option (List Gen.Entry)) (bs : List β) (ctx : Ctx) (es : List Gen.Entry)
    (hmono : Monotone ctx) (h : runG ev ctx bs 0 [] = .report es) : ∀ j, j < bs.length → ctx j = none := by
  intro j hj
  simpa using runG_report_undisturbed ev ctx hmono bs 0 [] es h j hj

/-- non-vacuity: three opaque blocks, the second of which has appended an entry and the third of which would panic;
    cancellation at poll 2 returns the error and hides both facts -/
example : runG (β := Nat) (fun n => if n == 2 then none else some (if n == 1 then [⟨["S", "F"], "cel", "x"⟩] else []))
    (fun k => if k ≥ 2 then some .deadline else none) [0, 1, 2] 0 [] = .ctxErr .deadline := by decide


/-- REGENERATED TIE of the skeleton: the template, as re-extracted from /repo by rulefacts on this run, consists of
    exactly the statement forms `runBlocks` / `runG` model — nil guard before anything else; for every metadata entry
    with validators exactly one of the two (mutually exclusive) openings, each of which polls
    `if ctx.Err() != nil { return ctx.Err() }` BEFORE the entry's checks; report-or-nil only after the last entry;
    `Validate<T>` = `Validate<T>Context(context.Background(), t)` and the two methods delegate. -/
theorem c15_template :
    Facts.tmplTokens = Gen.Tmpl.all ∧
    (∃ pre post, Facts.tmplTokens = pre ++ Gen.Tmpl.nestedOpen ++ Gen.Tmpl.topPoll ++ Gen.Tmpl.checks ++ post) ∧
    (∃ pre, Facts.tmplTokens = pre ++ Gen.Tmpl.tail) :=
  ⟨Proofs.template_tied, Proofs.template_polls, Proofs.template_tail⟩

end Props
