/-
  C15 — context contract: a done context yields exactly ctx.Err(), never a partial report.
  Facts about `runBlocks` (model of the template: one `if ctx.Err() != nil { return ctx.Err() }` poll
  at the start of every block) for ALL poll schedules; the poll/block structure itself is compared
  with the real output by corr-gen, the behaviour by corr-sem with an instrumented context.
-/
import Gvlean.Proofs.Ctx

namespace Props
open Go Gen Proofs

/-- If the (monotone) context is first observed done at the j-th poll of the run (j < number of
    blocks) the result is exactly that error: never nil, never a report, whatever had been accumulated. -/
theorem c15_cancelled (bs : List Block) (ctx : Ctx) (v : Val) (e : CtxErr) (j : Nat) (hmono : Monotone ctx)
    (hj : j < bs.length) (hbefore : ∀ i, i < j → ctx i = none) (hat : ctx j = some e)
    (hrun : (blocksEntries v bs).isSome = true) :
    exec bs ctx (some v) = .ctxErr e := by
  simp only [exec]
  exact runBlocks_cancelled ctx v e hmono bs 0 j [] hj (by simpa using hbefore) (by simpa using hat)
    (take_isSome v bs j hrun)

/-- an already cancelled / expired context (done at the first poll) never yields nil or a report -/
theorem c15_already_done (b : Block) (bs : List Block) (ctx : Ctx) (v : Val) (e : CtxErr) (hmono : Monotone ctx)
    (h0 : ctx 0 = some e) : exec (b :: bs) ctx (some v) = .ctxErr e := by
  have h1 := hmono 0 e h0 1 (by omega)
  simp [exec, runBlocks, h0, h1]

/-- if no poll of the run observes the context done the result is identical to Validate() -/
theorem c15_undisturbed (bs : List Block) (ctx : Ctx) (v : Val) (h : ∀ j, j < bs.length → ctx j = none) :
    exec bs ctx (some v) = exec bs bg (some v) := by
  simp only [exec]
  exact runBlocks_undisturbed ctx v bs 0 [] (by simpa using h)

/-- Validate() and ValidateT(t) are ValidateTContext(context.Background(), t): in the model all three
    are `exec bs bg`; that the real wrappers have exactly this form is checked by corr-gen. -/
theorem c15_wrappers (bs : List Block) (r : Option Val) : exec bs bg r = exec bs (fun _ => none) r := rfl

-- non-vacuity: a monotone schedule that turns done at poll 1
example : Monotone (fun j => if j ≥ 1 then some CtxErr.canceled else none) := by
  intro j e h i hi
  by_cases hj : j ≥ 1
  · simp [hj] at h; subst h; have : i ≥ 1 := by omega
    simp [this]
  · simp [hj] at h

end Props
