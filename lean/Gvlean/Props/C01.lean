/-
  C01 — gt/gte/lt/lte decide exactly the order relation.
  `Facts.cond_*`, the guards and the names come from the regenerated RuleFacts.lean; `mkCheck` is the
  hand model of makeValidator + factory; `fires` the Go-operator semantics; `Spec.violates` the
  mathematical relation on the decoded value (NaN unordered).
-/
import Gvlean.Proofs.Gen

namespace Props
open Go Gen Proofs

/-- For every documented numeric field type, every value and every representable bound N:
    the generator emits exactly one check for the marker, for the right field, Type and Path, and the
    emitted condition fires iff `value OP N` is false. -/
theorem c01 (S : String) (parent : List String) (f : String) (ty : Ty) (rule p : String) (fv : Val) (b : Bool)
    (hr : rule ∈ ["gt", "gte", "lt", "lte"]) (happ : Spec.applies rule ty = true)
    (hp : paramOK rule (some p) ty = true) (hv : Spec.violates rule (some p) ty fv = some b) :
    ∃ c e, mkCheck S parent [f] ty ⟨"govalid:" ++ rule, some p⟩ = some c ∧ c.cond = some e ∧ c.field = f ∧
      c.rule = rule ∧ c.path = S :: parent ++ [f] ∧ fires (envOf f ty fv) e = some b := by
  have hr18 : rule ∈ rules18 := by
    simp only [List.mem_cons, List.not_mem_nil, or_false] at hr
    rcases hr with rfl | rfl | rfl | rfl <;> decide
  obtain ⟨c, e, h1, h2, h3, _, h5, h6, h7⟩ := check_sound S parent f ty ⟨"govalid:" ++ rule, some p⟩ fv b rule hr18 rfl happ hp hv
  exact ⟨c, e, h1, h2, h3, h5, h6, h7⟩

/-- the emitted shape is the NEGATED relation (a positive `t.F <= N` would let NaN pass) -/
theorem c01_shape (f p : String) :
    Facts.cond_gt f p = .not (.paren (.bin ">" (.sel f) (.raw p))) ∧
    Facts.cond_gte f p = .not (.paren (.bin ">=" (.sel f) (.raw p))) ∧
    Facts.cond_lt f p = .not (.paren (.bin "<" (.sel f) (.raw p))) ∧
    Facts.cond_lte f p = .not (.paren (.bin "<=" (.sel f) (.raw p))) := ⟨rfl, rfl, rfl, rfl⟩

/-- NaN fails all four markers, whatever the bound -/
theorem c01_nan (rule p : String) (d : Dec) (bits : Nat) (hr : rule ∈ ["gt", "gte", "lt", "lte"])
    (hp : parseDec p = some d) (hnan : decodeF64 bits = .nan) :
    Spec.violates rule (some p) (.basic .float64) (.f64 bits) = some true := by
  simp only [List.mem_cons, List.not_mem_nil, or_false] at hr
  rcases hr with rfl | rfl | rfl | rfl <;>
    simp [Spec.violates, hp, Spec.numCmp, Ty.underlying, hnan, cmpFloatDec, Spec.relHolds]

/-- the factory's guard accepts exactly the basic numeric underlying types (complex included: see D18) -/
theorem c01_guard (ty : Ty) : guardOk Facts.info_gt.guard ty = (match ty.underlying with | .basic k => k.isNumeric | _ => false) := rfl

-- non-vacuity: a concrete field, bound and values (decided by the kernel)
example : Spec.violates "gte" (some "18") (.basic .int) (.int 17) = some true := by decide
example : Spec.violates "gte" (some "18") (.basic .int) (.int 18) = some false := by decide
example : paramOK "gte" (some "18") (.basic .int) = true := by decide
example : decodeF64 0x7ff8000000000001 = .nan := by decide

end Props
