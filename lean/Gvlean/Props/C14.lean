/-
  C14 — the file generated for a struct is a function of that struct's declaration only (PARTIAL).
  Proved here, for the protocol facts RE-EXTRACTED from the source on every run (isofacts):
    * under the struct-generation lock and with the memory cleared at the start of each section, every
      schedule of whole-struct jobs — any number of packages, any order, any initial memory — gives
      each struct exactly the sentinel declarations it gets when generated alone in a fresh process;
    * those are the declarations of `Gen.sentinels (Gen.gen d)`, the model compared with the real
      output by corr-gen: so the whole modelled file is `gen d`, a function of `d`;
    * the output file holds exactly the content of the last generation of its struct (truncation), a
      rerun changes nothing, and no other path is created or modified.
  What Lean cannot exhibit and corr-iso observes on the real binary instead: the Go scheduler and
  GOMAXPROCS, the race detector's verdict, packages.Load / the analysis driver, goimports/gofmt,
  the real file system. Without the lock (facts.locked = false) this model does not apply.
-/
import Gvlean.Generated.IsoFacts
import Gvlean.Gen.Model

namespace Props
open Iso Gen

/-! ### the memory protocol -/

theorem runJob_clears (f : Facts) (hc : f.clears = true) (m : Mem) (j : Job) :
    (runJob f m j).2 = solo j := by
  unfold runJob solo
  simp only [hc, if_true]
  have : ∀ rs : List String, rs.foldl Mem.reset ([] : Mem) = [] := by
    intro rs; induction rs with
    | nil => rfl
    | cons r rs ih => simpa [List.foldl, Mem.reset] using ih
  rw [this]

theorem runAll_isolated (f : Facts) (hc : f.clears = true) : ∀ (m : Mem) (js : List Job), runAll f m js = js.map solo
  | _, [] => rfl
  | m, j :: js => by
    simp only [runAll, List.map_cons]
    rw [runJob_clears f hc m j, runAll_isolated f hc _ js]

/-- for the protocol of the current source: whatever other structs and packages are generated in the
    same invocation, before or after, and whatever the memory held, every struct gets the sentinel
    declarations it gets alone -/
theorem c14_isolated (m : Mem) (js : List Job) : runAll Generated.Iso.facts m js = js.map solo :=
  runAll_isolated _ rfl m js

/-- in particular the result for a job does not depend on where the scheduler placed it -/
theorem c14_any_position (m : Mem) (before after : List Job) (j : Job) :
    (runAll Generated.Iso.facts m (before ++ j :: after))[before.length]? = some (solo j) := by
  rw [c14_isolated]; simp

/-- the struct-generation section is a critical section in the current source (otherwise whole-struct
    jobs would not be the atomic steps and the statements above would say nothing) -/
theorem c14_locked : Generated.Iso.facts.locked = true ∧ Generated.Iso.facts.clears = true := ⟨rfl, rfl⟩

/-- why the clearing matters: the same two jobs without it — the second loses its declaration
    (the defect fixed by the `fix:` commit recorded in known_findings.json) -/
theorem c14_witness_noclear :
    let f : Facts := { Generated.Iso.facts with clears := false }
    let j : Job := { resets := [], emits := ["gtAX"] }
    runAll f [] [j, j] ≠ [solo j, solo j] := by decide

/-! ### link to the generator model -/

/-- the job of a generated file: factories of `resetRules` reset their key when the validator is
    created; `Err()` of every validator the template renders tests-and-sets its key -/
def jobOf (f : Facts) (bs : List Block) : Job :=
  let cs := (bs.map (·.checks)).flatten
  { resets := (cs.filter fun c => f.resetRules.contains c.rule).map (·.memKey),
    emits := (cs.filter (·.cond.isSome)).map (·.memKey) }

def select {α : Type} : List α → List Bool → List α
  | a :: as, true :: bs => a :: select as bs
  | _ :: as, false :: bs => select as bs
  | _, _ => []

theorem sentinels_fold (cs : List Check) (acc : List Check) (seen : List String) :
    (cs.foldl (fun (a : List Check × List String) c =>
      if a.2.contains c.memKey then a else (a.1 ++ [c], c.memKey :: a.2)) (acc, seen)).1
    = acc ++ select cs (emitAll seen (cs.map (·.memKey))).2 := by
  induction cs generalizing acc seen with
  | nil => simp [select, emitAll]
  | cons c cs ih =>
    simp only [List.foldl_cons, List.map_cons, emitAll]
    by_cases h : seen.contains c.memKey = true
    · simp only [h, if_true, select]
      exact ih acc seen
    · simp only [h, Bool.false_eq_true, if_false, select]
      rw [ih]; simp

/-- the sentinel declarations of the model compared with the real output by corr-gen are exactly the
    declarations selected by the memory protocol run alone -/
theorem c14_sentinels (d : Decl) :
    sentinels (gen d) =
      select (((gen d).map (·.checks)).flatten.filter (·.cond.isSome)) (solo (jobOf Generated.Iso.facts (gen d))) := by
  unfold sentinels solo jobOf
  simp only
  rw [sentinels_fold]; simp

/-! ### the output file -/

theorem write_other (f : Facts) (fs : FS) (p c q : String) (h : q ≠ p) : write f fs p c q = fs q := by
  simp [write, h]

theorem writeAll_frame (f : Facts) : ∀ (es : List (String × String)) (fs : FS) (q : String),
    (∀ e ∈ es, e.1 ≠ q) → writeAll f fs es q = fs q
  | [], _, _, _ => rfl
  | (p, c) :: es, fs, q, h => by
    simp only [writeAll]
    rw [writeAll_frame f es _ q (fun e he => h e (by simp [he]))]
    exact write_other f fs p c q (fun e => h (p, c) (by simp) e.symm)

theorem writeAll_last (f : Facts) (ht : f.truncates = true) : ∀ (es : List (String × String)) (fs : FS) (p c : String),
    (∀ e ∈ es, e.1 ≠ p) → writeAll f (write f fs p c) es p = some c := by
  intro es fs p c h
  rw [writeAll_frame f es _ p h]
  simp [write, ht]

/-- no path other than the written ones is created or modified -/
theorem c14_fs_frame (fs : FS) (es : List (String × String)) (q : String) (h : ∀ e ∈ es, e.1 ≠ q) :
    writeAll Generated.Iso.facts fs es q = fs q := writeAll_frame _ es fs q h

/-- after any history, a validator file holds exactly the content of the LAST generation of its
    struct — nothing of what earlier generations (of a larger declaration, say) had written -/
theorem c14_fs_last (fs : FS) (before after : List (String × String)) (p c : String)
    (h : ∀ e ∈ after, e.1 ≠ p) :
    writeAll Generated.Iso.facts fs (before ++ (p, c) :: after) p = some c := by
  have : ∀ (es : List (String × String)) (fs : FS), writeAll Generated.Iso.facts fs (es ++ (p, c) :: after)
      = writeAll Generated.Iso.facts (write Generated.Iso.facts (writeAll Generated.Iso.facts fs es) p c) after := by
    intro es
    induction es with
    | nil => intro fs; rfl
    | cons e es ih => intro fs; obtain ⟨p', c'⟩ := e; simp only [List.cons_append, writeAll]; exact ih _
  rw [this]
  exact writeAll_last _ rfl after _ p c h

/-- running the generator again over its own output changes nothing -/
theorem c14_rerun (fs : FS) (es : List (String × String)) (hd : (es.map (·.1)).Nodup) :
    writeAll Generated.Iso.facts (writeAll Generated.Iso.facts fs es) es = writeAll Generated.Iso.facts fs es := by
  funext q
  by_cases hq : ∃ e ∈ es, e.1 = q
  · obtain ⟨e, he, rfl⟩ := hq
    obtain ⟨before, after, rfl⟩ := List.append_of_mem he
    have hafter : ∀ x ∈ after, x.1 ≠ e.1 := by
      intro x hx hEq
      simp only [List.map_append, List.map_cons] at hd
      have := (List.nodup_append.mp hd).2.1
      simp only [List.nodup_cons] at this
      exact this.1 (by rw [← hEq]; exact List.mem_map_of_mem hx)
    obtain ⟨p, c⟩ := e
    rw [c14_fs_last _ before after p c hafter, c14_fs_last _ before after p c hafter]
  · have hq' : ∀ e ∈ es, e.1 ≠ q := fun e he hEq => hq ⟨e, he, hEq⟩
    rw [c14_fs_frame _ es q hq']

/-- why truncation matters: regenerate a struct whose file became shorter -/
theorem c14_witness_notrunc :
    let f : Facts := { Generated.Iso.facts with truncates := false }
    writeAll f (fun _ => none) [("x_t_validator.go", "long content"), ("x_t_validator.go", "short")] "x_t_validator.go"
      ≠ some "short" := by decide

/-- output file name: `<source>_<lower-cased type>_validator.go` -/
theorem c14_path : Generated.Iso.facts.pathFmt = "%s_%s_validator.go" ∧ Generated.Iso.facts.lowerType = true := ⟨rfl, rfl⟩

end Props
