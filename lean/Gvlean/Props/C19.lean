/-
  C19 — validating a valid value performs zero heap allocations (PARTIAL: what the COMPILER allocates —
  escape analysis, interface conversions, net.ParseIP's result — is observed by AllocsPerRun in
  corr-sem, not modelled).
  Allocation-counting reading of the template: the only allocating constructs are inside the failing
  branch of a check (boxing `t.F` into `Value any`, `append`); polls, `t := t.P` copies, conditions
  over the translated helpers (which build no strings or slices: go2lean refuses make/append/
  concatenation/conversion) allocate nothing.
-/
import Gvlean.Props.C07
import Gvlean.Proofs.Template

namespace Props
open Go Gen Proofs

/-- modelled allocation sites executed by a run: two per fired check (boxing Value, append) -/
def allocs (o : Outcome) : Nat :=
  match o with
  | .report es => 2 * es.length
  | _ => 0

/-- a value that satisfies all of its rules causes no modelled allocation, through Validate(),
    ValidateT(t) and ValidateTContext(Background, t) alike (all are `exec … bg`) -/
theorem c19 (d : Decl) (v : Val) (hc : cleanDecl d = true) (hv : Spec.violated d v = some []) :
    allocs (exec (gen d) bg (some v)) = 0 := by
  rw [c07 d v [] hc hv]; rfl

/-- conversely every reported entry accounts for exactly its own two allocation sites -/
theorem c19_only_failing_branches (d : Decl) (v : Val) (es : List Spec.Entry) (hc : cleanDecl d = true)
    (hv : Spec.violated d v = some es) : allocs (exec (gen d) bg (some v)) = 2 * es.length := by
  rw [c07 d v es hc hv, toOutcome]
  cases es <;> simp [allocs]

/-- REGENERATED TIE: in the template as re-extracted from /repo on this run the allocating constructs (the copy boxed
    into `Value`, `append`) occur only inside the `if COND { … }` of a check, and the function returns `errs` only when
    `len(errs) > 0` — the allocation sites `allocs` counts -/
theorem c19_template :
    (∃ pre post, Facts.tmplTokens =
      pre ++ (["{{range .Validators}}", "{{if ne .Validate \"\"}}"] ++ Gen.Tmpl.checkForm ++ ["{{end}}", "{{end}}"]) ++ post) ∧
    (∃ pre, Facts.tmplTokens = pre ++ Gen.Tmpl.tail) :=
  ⟨Proofs.template_check, Proofs.template_tail⟩

end Props
