/-
  C05 — enum accepts exactly the listed values (string-like fields: c05; integer fields: c05_numeric; float fields: c05_float, c05_float_nan).
  Facts.* (emitted conditions, guards, names, zero table) are regenerated from /repo on every run;
  `mkCheck` is the hand model of makeValidator + factory, `fires` the Go-operator semantics over field
  values, `Spec.violates` the meaning of the marker written from the property statement.
-/
import Gvlean.Proofs.Gen
import Gvlean.Proofs.EnumNum
import Gvlean.Proofs.EnumFloat

namespace Props
open Go Gen Proofs

/-- enum on a string field: one check; its `&&`-chain of `!=` fires iff the value is none of the
    comma-separated, blank-trimmed items (byte-exact, case-sensitive). Items are quoted with %q; the
    model assumes `unquote (quote s) = s` (trusted base) — exercised by corr-sem. -/
theorem c05 (S : String) (parent : List String) (f p : String) (ty : Ty) (fv : Val) (b : Bool)
    (happ : Spec.applies "enum" ty = true) (hp : paramOK "enum" (some p) ty = true)
    (hv : Spec.violates "enum" (some p) ty fv = some b) :
    ∃ c e, mkCheck S parent [f] ty ⟨"govalid:enum", some p⟩ = some c ∧ c.cond = some e ∧ c.field = f ∧
      c.rule = "enum" ∧ c.path = S :: parent ++ [f] ∧ fires (envOf f ty fv) e = some b := by
  have hid : ("govalid:enum" : String) = "govalid:" ++ "enum" := by decide
  obtain ⟨c, e, h1, h2, h3, _, h5, h6, h7⟩ :=
    check_sound S parent f ty ⟨"govalid:enum", some p⟩ fv b "enum" (by decide) hid happ hp hv
  exact ⟨c, e, h1, h2, h3, h5, h6, h7⟩

/-- the zero value gets no special case: "" is accepted iff it is listed -/
theorem c05_zero_not_special (p : String) (ty : Ty) (ip : IpClass) (hty : ty.underlying = .basic .string) :
    Spec.violates "enum" (some p) ty (.str [] ip) = some (!(Spec.enumItems p).any (fun it => it.toUTF8.toList == [])) := by
  simp [Spec.violates, Spec.enumMember, hty]

/-- item forms emitted for numeric fields (pasted verbatim) and string-like fields (quoted) -/
theorem c05_item_forms (f v : String) :
    Facts.enum_itemNum f v = .bin "!=" (.sel f) (.raw v) ∧ Facts.enum_itemStr f v = .bin "!=" (.sel f) (.strlit v) ∧
    Facts.enum_joinOp = "&&" ∧ Facts.enum_sep = "," := ⟨rfl, rfl, rfl, rfl⟩

-- non-vacuity: `String.splitOn`/`trimAscii` do not reduce in the kernel, so concrete instances of the
-- hypotheses are exhibited by the compiled Spec driver in the correspondence run (evidence: samples)
-- rather than by `decide`; the hypotheses are satisfiable, e.g. p = "red, green ,blue" on a string field.

/-- enum on an INTEGER field (items pasted verbatim into `t.F != item`): for items that are decimal
    literals representable in the field type — anything else is a compile-time error of the output — the
    `&&`-chain fires iff the value equals none of the items (numeric comparison: `007` lists 7) -/
theorem c05_numeric (f p : String) (ty : Ty) (k : Kind) (x : Int) (r : Bool)
    (hty : ty.underlying = .basic k) (hk : k.isInteger = true)
    (hnum : enumIsNum Facts.info_enum.guard ty = true)
    (hne : Spec.enumItems p ≠ []) (hfit : Proofs.itemsFit k (Spec.enumItems p))
    (hv : Spec.violates "enum" (some p) ty (.int x) = some r) :
    ∃ e, enumCond f ty p Facts.info_enum.guard = some e ∧ fires (Proofs.envOf f ty (.int x)) e = some r :=
  Proofs.enum_int_sound f p ty k x r hty hk hnum hne hfit hv

/-- the hypotheses are satisfiable: every integer kind the extracted guard lists is treated as numeric -/
example : enumIsNum Facts.info_enum.guard (.basic .int8) = true ∧ enumIsNum Facts.info_enum.guard (.named (.basic .uint64)) = true := by
  constructor <;> rfl

/-- enum on a FLOAT field (float32 / float64, also through a named type): the `&&`-chain of
    `t.F != item` fires iff the value is IEEE-equal to none of the items (decimal literals; `-0`
    equals a listed `0`, NaN equals nothing). No representability hypothesis on the value: `b` is
    any bit pattern. The literal is compared exactly (see the trusted-base note on representable
    marker parameters). -/
theorem c05_float (f p : String) (ty : Ty) (fv : Val) (x : FVal) (r : Bool)
    (hx : Proofs.floatValOf ty fv = some x)
    (hnum : enumIsNum Facts.info_enum.guard ty = true)
    (hne : Spec.enumItems p ≠ [])
    (hv : Spec.violates "enum" (some p) ty fv = some r) :
    ∃ e, enumCond f ty p Facts.info_enum.guard = some e ∧ fires (Proofs.envOf f ty fv) e = some r ∧
      r = !(Spec.enumItems p).any (fun it => match parseDec it with | some d => cmpFloatDec x d == some .eq | none => false) :=
  Proofs.enum_float_sound f p ty fv x r hx hnum hne hv

/-- a NaN is rejected by every float enum, whatever is listed -/
theorem c05_float_nan (f p : String) (ty : Ty) (fv : Val) (r : Bool)
    (hx : Proofs.floatValOf ty fv = some .nan)
    (hnum : enumIsNum Facts.info_enum.guard ty = true)
    (hne : Spec.enumItems p ≠ [])
    (hv : Spec.violates "enum" (some p) ty fv = some r) : r = true := by
  obtain ⟨_, _, _, h⟩ := c05_float f p ty fv .nan r hx hnum hne hv
  rw [h]
  have : ((Spec.enumItems p).any fun it => match parseDec it with | some d => cmpFloatDec .nan d == some .eq | none => false) = false := by
    simp only [List.any_eq_false]
    intro y _
    cases parseDec y <;> simp [cmpFloatDec]
  simp [this]

/-- the hypotheses are satisfiable: both float kinds are numeric for the extracted guard, and a
    float64 bit pattern is a float value of a (named) float64 field -/
example : enumIsNum Facts.info_enum.guard (.basic .float32) = true ∧ enumIsNum Facts.info_enum.guard (.named (.basic .float64)) = true ∧
    (Proofs.floatValOf (.named (.basic .float64)) (.f64 0x3FF8000000000000)).isSome = true := by
  refine ⟨rfl, rfl, rfl⟩

end Props
