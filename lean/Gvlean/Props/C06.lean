/-
  C06 — format markers (email/url/uuid/alpha/numeric/ipv4/ipv6) apply their language.
  Facts.* (emitted conditions, guards, names, zero table) are regenerated from /repo on every run;
  `mkCheck` is the hand model of makeValidator + factory, `fires` the Go-operator semantics over field
  values, `Spec.violates` the meaning of the marker written from the property statement.
-/
import Gvlean.Proofs.Gen

namespace Props
open Go Gen Proofs

/-- For each of the seven markers and every byte string: one check, whose condition (the negated call of the TRANSLATED recognizer, or the net.ParseIP/To4 test) fires iff the string is outside the marker's language -/
theorem c06 (S : String) (parent : List String) (f : String) (ty : Ty) (rule : String) (fv : Val) (b : Bool)
    (hr : rule ∈ ["email", "url", "uuid", "alpha", "numeric", "ipv4", "ipv6"]) (happ : Spec.applies rule ty = true)
    (hp : paramOK rule (none) ty = true) (hv : Spec.violates rule (none) ty fv = some b) :
    ∃ c e, mkCheck S parent [f] ty ⟨"govalid:" ++ rule, none⟩ = some c ∧ c.cond = some e ∧ c.field = f ∧
      c.rule = rule ∧ c.path = S :: parent ++ [f] ∧ fires (envOf f ty fv) e = some b := by
  have hr18 : rule ∈ rules18 := by
    simp only [List.mem_cons, List.not_mem_nil, or_false] at hr
    rcases hr with rfl | rfl | rfl | rfl | rfl | rfl | rfl <;> decide
  obtain ⟨c, e, h1, h2, h3, _, h5, h6, h7⟩ :=
    check_sound S parent f ty ⟨"govalid:" ++ rule, none⟩ fv b rule hr18 rfl happ hp hv
  exact ⟨c, e, h1, h2, h3, h5, h6, h7⟩

/-- the languages: email/url/uuid as in C11–C13; alpha = only ASCII letters (empty allowed);
    numeric = one or more ASCII digits; ipv4/ipv6 relative to the standard library's classification -/
theorem c06_languages (ty : Ty) (s : Bytes) (ip : IpClass) :
    Spec.violates "email" none ty (.str s ip) = some (!Spec.emailSpecB s) ∧
    Spec.violates "url" none ty (.str s ip) = some (!Spec.urlSpecB s) ∧
    Spec.violates "uuid" none ty (.str s ip) = some (!Spec.uuidSpecB s) ∧
    Spec.violates "alpha" none ty (.str s ip) = some (!s.all Spec.isAsciiLetter) ∧
    Spec.violates "numeric" none ty (.str s ip) = some (!(s != [] && s.all Spec.isAsciiDigit)) ∧
    Spec.violates "ipv4" none ty (.str s ip) = some (ip != 4) ∧
    Spec.violates "ipv6" none ty (.str s ip) = some (ip == 0 || ip == 4) := ⟨rfl, rfl, rfl, rfl, rfl, rfl, rfl⟩

/-- the translated alpha/numeric helpers are total and equal their languages for every byte string -/
theorem c06_alpha (s : Bytes) : Gen.IsValidAlpha s = .ok (Spec.alphaSpecB s) := eq_of_triple (IsValidAlpha_spec s)
theorem c06_numeric (s : Bytes) : Gen.IsNumeric s = .ok (Spec.numericSpecB s) := eq_of_triple (IsNumeric_spec s)

example : Spec.violates "alpha" none (.basic .string) (.str [] 0) = some false := by decide
example : Spec.violates "numeric" none (.basic .string) (.str [] 0) = some true := by decide
example : Spec.violates "ipv4" none (.basic .string) (.str [] 6) = some true := by decide

end Props
