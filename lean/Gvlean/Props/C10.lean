/-
  C10 — CEL markers: the generated Go agrees with reference CEL semantics (PARTIAL).

  Proved (Gvlean/Proofs/Cel.lean), for EVERY expression of the fragment `Cel.BoolE` — integer
  arithmetic + - * / % and unary minus over `value`, `this.X` and literals, the six comparisons, && || ! —
  of any nesting depth, for every struct content (`divSafe`: no division or remainder meets a zero divisor in Go's
  evaluation — where one does, the generated code panics: known finding C17-cel-div, witnessed by `c10_div_zero_witness`):
    * the translator model prints a text that the Go parser reads back as the expression's own tree
      (the parentheses the translator inserts are sufficient; nothing degrades to the `true` fallback);
    * whenever reference CEL evaluation yields a boolean (int64 arithmetic with overflow = error,
      commutative error-absorbing && and ||), Go evaluation of that tree (two's-complement `int`,
      short-circuit operators) yields the same boolean, so the CEL error is reported iff the
      expression is false.
  The translator model (Gvlean/Cel/Translate.lean) is hand-written; corr-cel compares its output text
  with the condition the real generator emits for every expression of the run (white space and
  redundant nested parentheses aside), and compares the compiled check with cel-go's evaluation on a
  value grid for the whole typed grammar (strings, size, in, conversions, ternary, macros, uint, float,
  duration, narrow integer types) — those constructs are covered by that comparison only.
  Not modelled: Go's compile-time rejection of overflowing constant expressions, cel-go's parser and
  checker (the AST is an input), regexp, strconv, fmt.
-/
import Gvlean.Proofs.Cel

namespace Props
open Cel

/-- structure: the emitted text parses back to the expression's own tree -/
theorem c10_structure (F : String) (e : BoolE) :
    ∃ f, toGo F e.toExpr = some f ∧ parse f = some (e.tree F) := by
  obtain ⟨f, hf, g⟩ := bool_good F e
  exact ⟨f, hf, good_parse g (bprec_ge1 e)⟩

/-- semantics: when the reference yields a boolean, the parsed Go text evaluates to the same boolean -/
theorem c10_core (F : String) (ρ : String → Int) (e : BoolE) (b : Bool) (hs : e.divSafe F ρ = true) (h : celB F ρ e = some b) :
    ∃ f, toGo F e.toExpr = some f ∧ (parse f).bind (goB ρ) = some b := by
  obtain ⟨f, hf, hp⟩ := c10_structure F e
  exact ⟨f, hf, by rw [hp]; exact goB_sound F ρ e b hs h⟩

/-- the generated statement is `if !(cond) { report the CEL error }`: it reports iff the expression is false -/
theorem c10_reported_iff (F : String) (ρ : String → Int) (e : BoolE) (b : Bool) (hs : e.divSafe F ρ = true) (h : celB F ρ e = some b) :
    ∃ f, condition F e.toExpr = some ("!(" ++ render f ++ ")") ∧ ((parse f).bind (goB ρ)).map (!·) = some (!b) := by
  obtain ⟨f, hf, hv⟩ := c10_core F ρ e b hs h
  exact ⟨f, by simp [condition, hf], by rw [hv]; rfl⟩

/-- Go never fails at run time on this fragment unless a division or remainder meets a zero divisor (`divSafe`; the panic
    in that case is the known finding C17-cel-div): whatever CEL says -/
theorem c10_total (F : String) (ρ : String → Int) (e : BoolE) (hs : e.divSafe F ρ = true) :
    ∃ f c, toGo F e.toExpr = some f ∧ (parse f).bind (goB ρ) = some c := by
  obtain ⟨f, hf, hp⟩ := c10_structure F e
  obtain ⟨c, hc⟩ := goB_total F ρ e hs
  exact ⟨f, c, hf, by rw [hp]; exact hc⟩

/-! ### "must fail loudly": a function or method the translator has no rendering for is REFUSED by the model
    (`none`: `fallback` records the construct, `convertCELToGo` returns an error and generation stops) — it is
    never printed as the literal `true`. Before the `fix:` commit recorded in known_findings.json the real
    translator printed `true` there (`//govalid:cel=value[0]` on a `[]bool` field compiled to `if !(true)`). -/

theorem c10_unknown_function_refused (F fn : String) (args : List Expr)
    (hb : ∀ as, builtinText fn as = none) (hs : fnSym fn = none)
    (h1 : fn ≠ "_?_:_") (h2 : fn ≠ "@in") (h3 : fn ≠ "!_") (h4 : fn ≠ "-_") :
    toGo F (.call fn args) = none := by
  unfold toGo
  cases h : toGoList F args with
  | none => rfl
  | some as =>
    simp only []
    split <;> simp_all

theorem c10_unknown_method_refused (F fn : String) (t : Expr) (args : List Expr)
    (hm : ∀ x as, methodText fn x as = none) : toGo F (.mcall fn t args) = none := by
  unfold toGo
  cases toGo F t <;> cases toGoList F args <;> simp [hm]

/-- non-vacuity: the index operator and `bool()` meet the hypotheses -/
example (F : String) (a b : Expr) : toGo F (.call "_[_]" [a, b]) = none :=
  c10_unknown_function_refused F "_[_]" [a, b] (by intro as; simp [builtinText]) (by decide) (by decide) (by decide) (by decide) (by decide)
example (F : String) (a : Expr) : toGo F (.call "bool" [a]) = none :=
  c10_unknown_function_refused F "bool" [a] (by intro as; simp [builtinText]) (by decide) (by decide) (by decide) (by decide) (by decide)
example (F : String) (t : Expr) : toGo F (.mcall "size" t []) = none :=
  c10_unknown_method_refused F "size" t [] (by intro x as; simp [methodText])

/-- the proved fragment is never refused: for these expressions generation goes through -/
theorem c10_fragment_accepted (F : String) (e : BoolE) : refuses F e.toExpr = false := by
  obtain ⟨f, hf, _⟩ := c10_structure F e
  simp [refuses, hf]

/-- an index expression over covered operands IS refused (it used to be printed as `true`) -/
theorem c10_index_refused (F : String) (a b : Expr) (ha : hasUnmodelled a = false) (hb : hasUnmodelled b = false) :
    refuses F (.call "_[_]" [a, b]) = true := by
  have h : toGo F (.call "_[_]" [a, b]) = none :=
    c10_unknown_function_refused F "_[_]" [a, b] (by intro as; simp [builtinText]) (by decide) (by decide) (by decide) (by decide) (by decide)
  simp [refuses, h, hasUnmodelled, anyUnmodelled, ha, hb]

/-! ### why the parentheses matter: the flat text of the translator BEFORE the fix (`fix:` commit
    recorded in known_findings.json) for `(value + 1) * 2 > 10` parses to a different tree -/

def oldFlat : Flat :=
  [.operand "t.F" (.ref "F"), .op "+", .operand "1" (.int 1), .op "*", .operand "2" (.int 2), .op ">", .operand "10" (.int 10)]

theorem c10_grouping_witness :
    parse oldFlat = some (.bin ">" (.bin "+" (.ref "F") (.bin "*" (.int 1) (.int 2))) (.int 10))
    ∧ (BoolE.cmp .gt (.mul (.add .value (.lit 1)) (.lit 2)) (.lit 10)).tree "F"
        = .bin ">" (.bin "*" (.bin "+" (.ref "F") (.int 1)) (.int 2)) (.int 10) := by
  constructor
  · decide +kernel
  · rfl

/-- and the two trees disagree on F = 5: CEL says (5+1)*2 > 10, the old text said 5+1*2 > 10 -/
theorem c10_grouping_witness_value :
    goB (fun _ => 5) (.bin ">" (.bin "+" (.ref "F") (.bin "*" (.int 1) (.int 2))) (.int 10)) = some false
    ∧ celB "F" (fun _ => 5) (.cmp .gt (.mul (.add .value (.lit 1)) (.lit 2)) (.lit 10)) = some true := by
  constructor <;> decide +kernel

/-- why `divSafe` is needed: `value / this.Y > 1 || true` with Y = 0 — CEL absorbs the error (true), Go's left-to-right
    evaluation meets the zero divisor first (`none` = run-time panic) -/
theorem c10_div_zero_witness :
    celB "F" (fun _ => 0) (.or (.cmp .gt (.div .value (.this "Y")) (.lit 1)) (.lit true)) = some true
    ∧ goB (fun _ => 0) ((BoolE.or (.cmp .gt (.div .value (.this "Y")) (.lit 1)) (.lit true)).tree "F") = none := by
  constructor <;> decide +kernel

/-! non-vacuity of the division case: `value * (this.X / this.Y) > 3` with F = 2, X = 5, Y = 2 (grouping matters: 2*(5/2) = 4) -/
example : celB "F" (fun s => if s == "F" then 2 else if s == "X" then 5 else 2) (.cmp .gt (.mul .value (.div (.this "X") (.this "Y"))) (.lit 3)) = some true
    ∧ (BoolE.cmp .gt (.mul .value (.div (.this "X") (.this "Y"))) (.lit 3)).divSafe "F" (fun s => if s == "F" then 2 else if s == "X" then 5 else 2) = true := by
  constructor <;> decide +kernel

/-! non-vacuity: an expression with overflow absorbed by || on which CEL yields a boolean -/
example : celB "F" (fun _ => 9223372036854775807) (.or (.cmp .gt (.add .value (.lit 1)) (.lit 0)) (.cmp .ge .value (.lit 18))) = some true := by
  decide +kernel

end Props
