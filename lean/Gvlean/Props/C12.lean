/-
  C12 — URL recognizer accepts exactly the documented scheme/host shape.
  Property theorems only. `Gen.IsValidURL` is the go2lean translation of url.go (regenerated every run);
  `Spec.urlSpecB` uses scheme tables written by hand in Gvlean/Spec/Url.lean.
-/
import Gvlean.Proofs.Url

namespace Props
open Go Spec

/-- For EVERY byte string: the translated `IsValidURL` never panics and returns the Spec verdict. -/
theorem c12 (s : Bytes) : Gen.IsValidURL s = .ok (urlSpecB s) :=
  eq_of_triple (Proofs.IsValidURL_spec s)

/-- never panics; deterministic (it is a function of its input) -/
theorem c12_no_panic (s : Bytes) : ∃ b, Gen.IsValidURL s = .ok b := ⟨_, c12 s⟩

/-- any forbidden byte (space, control, DEL) anywhere ⇒ rejected -/
theorem c12_forbidden (s : Bytes) (b : UInt8) (hb : b ∈ s) (hf : forbiddenByte b = true) :
    Gen.IsValidURL s = .ok false := by
  rw [c12]; congr 1
  rw [← Bool.not_eq_true]
  simp only [urlSpecB, List.any_eq_true, Bool.and_eq_true, List.all_eq_true]
  rintro ⟨sc, _, ⟨_, hall⟩, _⟩
  have := hall b hb
  simp [hf] at this

/-- the code's scheme tables are exactly the documented ones (as sets) -/
theorem c12_tables :
    (∀ x, Gen.validSchemes.contains x = Spec.schemes.contains x) ∧
    (∀ x, Gen.schemesNotRequiringHost.contains x = Spec.opaqueSchemes.contains x) := Proofs.tables_agree

-- non-vacuity (decided by the kernel)
/-- "http://example.com" -/
def exHttp : Bytes := [104, 116, 116, 112, 58, 47, 47, 101, 120, 97, 109, 112, 108, 101, 46, 99, 111, 109]
/-- "mailto:" -/
def exMailtoEmpty : Bytes := [109, 97, 105, 108, 116, 111, 58]
/-- "https://[::1]/x" -/
def exIPv6Host : Bytes := [104, 116, 116, 112, 115, 58, 47, 47, 91, 58, 58, 49, 93, 47, 120]
/-- "http://{host}" -/
def exBrace : Bytes := [104, 116, 116, 112, 58, 47, 47, 123, 104, 111, 115, 116, 125]
example : Gen.IsValidURL exHttp = .ok true := by rw [c12]; exact congrArg _ (by decide)
example : Gen.IsValidURL exMailtoEmpty = .ok false := by rw [c12]; exact congrArg _ (by decide)
example : Gen.IsValidURL exIPv6Host = .ok true := by rw [c12]; exact congrArg _ (by decide)
example : Gen.IsValidURL exBrace = .ok false := by rw [c12]; exact congrArg _ (by decide)

end Props
