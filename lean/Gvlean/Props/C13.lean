/-
  C13 — UUID recognizer accepts exactly RFC 4122 textual UUIDs, case-insensitively.
  Property theorems only. `Gen.IsValidUUID` is the go2lean translation of
  /repo/validation/validationhelper/uuid.go, regenerated on every run.
-/
import Gvlean.Proofs.Uuid
import Gvlean.Proofs.UuidCase

namespace Props
open Go Spec

/-- For EVERY byte string (any length, any bytes): the translated `IsValidUUID` terminates
    without panicking (`.ok`) and returns exactly the Spec verdict. -/
theorem c13 (s : Bytes) : Gen.IsValidUUID s = .ok (uuidSpecB s) :=
  eq_of_triple (Proofs.IsValidUUID_spec s)

/-- the verdict is the declarative grammar -/
theorem c13_grammar (s : Bytes) : Gen.IsValidUUID s = .ok true ↔ UuidSpec s := by
  rw [c13, ← uuidSpecB_iff]; simp

/-- never panics -/
theorem c13_no_panic (s : Bytes) : ∃ b, Gen.IsValidUUID s = .ok b := ⟨_, c13 s⟩

/-- wrong length is always rejected -/
theorem c13_length (s : Bytes) (h : s.length ≠ 36) : Gen.IsValidUUID s = .ok false := by
  rw [c13]; simp [uuidSpecB, uuidShape, h]

/-- the verdict does not depend on the case of hexadecimal letters: swapping the case of any
    subset of positions (selected by `σ`) leaves the verdict unchanged -/
theorem c13_case (σ : Nat → Bool) (s : Bytes) : Gen.IsValidUUID (caseMap σ s) = Gen.IsValidUUID s := by
  rw [c13, c13, Proofs.uuidSpecB_caseMap]

-- non-vacuity: concrete members and non-members (decided by the kernel)
/-- "550e8400-e29b-41d4-a716-446655440000" -/
def exV4 : Bytes := [53, 53, 48, 101, 56, 52, 48, 48, 45, 101, 50, 57, 98, 45, 52, 49, 100, 52, 45, 97, 55, 49, 54, 45, 52, 52, 54, 54, 53, 53, 52, 52, 48, 48, 48, 48]
/-- "FFFFFFFF-ffff-FFFF-ffff-FFFFFFFFFFFF" -/
def exMaxMixed : Bytes := [70, 70, 70, 70, 70, 70, 70, 70, 45, 102, 102, 102, 102, 45, 70, 70, 70, 70, 45, 102, 102, 102, 102, 45, 70, 70, 70, 70, 70, 70, 70, 70, 70, 70, 70, 70]
/-- "550e8400-e29b-61d4-a716-446655440000" (version 6) -/
def exV6 : Bytes := [53, 53, 48, 101, 56, 52, 48, 48, 45, 101, 50, 57, 98, 45, 54, 49, 100, 52, 45, 97, 55, 49, 54, 45, 52, 52, 54, 54, 53, 53, 52, 52, 48, 48, 48, 48]
example : Gen.IsValidUUID exV4 = .ok true := by rw [c13]; exact congrArg _ (by decide)
example : Gen.IsValidUUID exMaxMixed = .ok true := by rw [c13]; exact congrArg _ (by decide)
example : Gen.IsValidUUID exV6 = .ok false := by rw [c13]; exact congrArg _ (by decide)

end Props
