/-
  C20 — the HTTP middleware lets a request through iff its body decodes and validates.
  The two programs are REGENERATED from validation/middleware/middleware.go on every run (mwfacts,
  fail-closed); their semantics is Gvlean/Gen/Mw.lean; corr-mw compares the real middleware (httptest,
  generated validators, request sequences on one instance, live / cancelled / expired contexts) with
  `Mw.run` on the same observations.
  Parameters of the theorems (not modelled): encoding/json's decoder, the target type's validator
  (C07/C15 cover generated ones), net/http.
-/
import Gvlean.Generated.MwFacts
import Gvlean.Spec.Mw
import Gvlean.Gen.MwSeq

namespace Props
open Mw Generated.Mw Spec

/-- plain variant: the closure does exactly what C20 says, for every decoder behaviour and every validator -/
theorem c20_plain {α : Type} (e : Env α) : run e validateRequest = specAct false e := by
  unfold run validateRequest specAct
  simp only [exec]
  cases e.decode e.zero with
  | none => rfl
  | some t =>
    simp only
    cases e.validate false t with
    | ok => rfl
    | err msg ca de => simp

/-- context-aware variant -/
theorem c20_ctx {α : Type} (e : Env α) : run e validateRequestContext = specAct true e := by
  unfold run validateRequestContext specAct
  simp only [exec]
  cases e.decode e.zero with
  | none => rfl
  | some t =>
    simp only
    cases e.validate true t with
    | ok => rfl
    | err msg ca de => cases ca <;> cases de <;> simp

/-- the handler is invoked iff the body decodes (into a fresh zero value) and validation returns nil -/
theorem c20_called_iff {α : Type} (v : Bool) (e : Env α) :
    specAct v e = .callNext ↔ ∃ t, e.decode e.zero = some t ∧ e.validate v t = .ok := by
  unfold specAct
  cases hd : e.decode e.zero with
  | none => simp
  | some t =>
    cases hv : e.validate v t with
    | ok => simp [hv]
    | err msg ca de => simp [hv]

theorem c20_plain_called_iff {α : Type} (e : Env α) :
    run e validateRequest = .callNext ↔ ∃ t, e.decode e.zero = some t ∧ e.validate false t = .ok := by
  rw [c20_plain]; exact c20_called_iff false e

theorem c20_ctx_called_iff {α : Type} (e : Env α) :
    run e validateRequestContext = .callNext ↔ ∃ t, e.decode e.zero = some t ∧ e.validate true t = .ok := by
  rw [c20_ctx]; exact c20_called_iff true e

/-- otherwise the answer is 400 — or 408, only in the context variant and only for a context error —
    carrying the validation message, and the handler is never called -/
theorem c20_reject {α : Type} (v : Bool) (e : Env α) (h : specAct v e ≠ .callNext) :
    ∃ status body, specAct v e = .respond status body ∧ (status = 400 ∨ (status = 408 ∧ v = true)) := by
  unfold specAct at h ⊢
  cases hd : e.decode e.zero with
  | none => exact ⟨400, _, rfl, Or.inl rfl⟩
  | some t =>
    cases hv : e.validate v t with
    | ok => simp [hd, hv] at h
    | err msg ca de =>
      simp only [hv]
      by_cases hc : (v && (ca || de)) = true
      · refine ⟨408, _, by rw [if_pos hc], Or.inr ⟨rfl, ?_⟩⟩
        simp only [Bool.and_eq_true] at hc; exact hc.1
      · exact ⟨400, _, by rw [if_neg hc], Or.inl rfl⟩

/-- 408 exactly for context errors in the context variant -/
theorem c20_408_iff {α : Type} (e : Env α) (t : α) (msg : String) (ca de : Bool)
    (hd : e.decode e.zero = some t) (hv : e.validate true t = .err msg ca de) :
    run e validateRequestContext = .respond (if ca || de then 408 else 400) ("Validation error: " ++ msg ++ "\n") := by
  rw [c20_ctx]; simp [specAct, hd, hv]

/-! non-vacuity: an environment for each exit -/
example : run (α := Nat) { zero := 0, decode := fun _ => some 7, validate := fun _ _ => .ok } validateRequestContext = .callNext := by decide
example : run (α := Nat) { zero := 0, decode := fun _ => none, validate := fun _ _ => .ok } validateRequest = .respond 400 "Invalid JSON\n" := by decide
example : run (α := Nat) { zero := 0, decode := fun _ => some 7, validate := fun c _ => .err "context canceled" c false } validateRequestContext
    = .respond 408 "Validation error: context canceled\n" := by decide

/-- HISTORY INDEPENDENCE: one middleware value answering any sequence of requests, whatever an earlier request
    left behind (`st`), answers the n-th request exactly as C20 demands of that request alone. Rests on the
    EXTRACTED fact that both closures start with `var body T` (`.fresh`): were the payload kept outside the
    closure (captured variable, pool), mwfacts would not emit `.fresh` and this theorem would not check. -/
theorem c20_sequence {α : Type} (st : Option α) (es : List (Env α)) :
    serveAll validateRequest st es = es.map (specAct false) ∧
    serveAll validateRequestContext st es = es.map (specAct true) := by
  constructor
  · rw [serveAll_of_head validateRequest rfl]
    exact List.map_congr_left fun e _ => c20_plain e
  · rw [serveAll_of_head validateRequestContext rfl]
    exact List.map_congr_left fun e _ => c20_ctx e

/-- the handler is called for the n-th request iff THAT request's body decodes into a fresh zero value and validates -/
theorem c20_sequence_called_iff {α : Type} (st : Option α) (es : List (Env α)) (n : Nat) (hn : n < es.length) :
    (serveAll validateRequestContext st es)[n]? = some .callNext ↔
      ∃ t, es[n].decode es[n].zero = some t ∧ es[n].validate true t = .ok := by
  rw [(c20_sequence st es).2, List.getElem?_map, List.getElem?_eq_getElem hn]
  simp only [Option.map_some, Option.some.injEq]
  exact c20_called_iff true es[n]

/-- a payload with one optional field: `none` = absent. Decoding a body that sets the field overwrites it,
    decoding `{}` leaves the target untouched (encoding/json's behaviour on a non-fresh target);
    the validator demands the field. -/
def reqSet : Env (Option String) := { zero := none, decode := fun _ => some (some "John"), validate := fun _ b => if b.isSome then .ok else .err "field Name is required" false false }
def reqEmpty : Env (Option String) := { zero := none, decode := fun b => some b, validate := fun _ b => if b.isSome then .ok else .err "field Name is required" false false }

/-- WITNESS (seeded change C20i): the same closure WITHOUT the fresh declaration — the payload survives from
    request to request — lets the invalid second request through, which C20 forbids -/
theorem c20_pooled_witness :
    serveAll [(.decode "Invalid JSON" 400), (.validate false "Validation error: " 400 none false false), .next] (some none) [reqSet, reqEmpty]
      = [.callNext, .callNext] ∧
    [reqSet, reqEmpty].map (specAct false) = [.callNext, .respond 400 "Validation error: field Name is required\n"] := by
  decide

/-- non-vacuity of c20_sequence on the same two requests -/
example : serveAll validateRequest (some (some "left over")) [reqSet, reqEmpty] = [.callNext, .respond 400 "Validation error: field Name is required\n"] := by
  decide


end Props
