/-
  C18 — the legacy `// +govalid:` and the new `//govalid:` spelling are equivalent; `govalid migrate`
  rewrites exactly the legacy marker comment lines, is idempotent and does not change the generator's
  output.

  Two models are involved:
  * `Gen.parseMarkerComment` / `Gen.gen` (Gvlean/Gen/Decl.lean, Model.lean) — the generator front end;
    tied to the code by corr-gen (byte comparison of the skeleton of the real output, both spellings).
  * `Mig.migrate` (Gvlean/Gen/Migrate.lean) — `migrateFile`; tied by corr-mig (bytes and count of the
    real `govalid migrate` on synthesized files).
  NOT modelled (observed by corr-mig only): the file system side (`--dry-run` writes nothing, no other
  file of the directory is touched), go/scanner's treatment of malformed source.
-/
import Gvlean.Proofs.Migrate
import Gvlean.Gen.Model

namespace Props
open Gen Mig Proofs

/-! ### (1) spelling equivalence -/

/-- the respelling of one comment text done by `migrate` on a marker line: a legacy prefix at the
    start of the comment is replaced by the new one, anything else is untouched -/
def respell (c : String) : String :=
  if oldPrefix.isPrefixOf c.toList then String.ofList (newPrefix ++ c.toList.drop oldPrefix.length) else c

theorem c18_respell_parse (c : String) : parseMarkerComment (respell c) = parseMarkerComment c := by
  unfold respell
  split
  · rename_i h
    obtain ⟨r, hr⟩ := List.isPrefixOf_iff_prefix.mp h
    have hc : c = String.ofList (oldPrefix ++ r) := by rw [hr]; simp
    rw [hc]
    simp [parseMarkerComment, oldPrefix, newPrefix]
  · rfl

theorem c18_respell_doc (doc : List String) : markersOfDoc (doc.map respell) = markersOfDoc doc := by
  unfold markersOfDoc
  congr 1
  induction doc with
  | nil => rfl
  | cons c cs ih => simp only [List.map_cons, List.filterMap_cons, c18_respell_parse, ih]

mutual
def respellField : FieldT → FieldT
  | .leaf ns ty doc => .leaf ns ty (doc.map respell)
  | .nest ns doc fs => .nest ns (doc.map respell) (respellFields fs)
def respellFields : List FieldT → List FieldT
  | [] => []
  | f :: fs => respellField f :: respellFields fs
end

/-- a declaration with every doc comment respelled (what the migrated file declares) -/
def respellDecl (d : Decl) : Decl :=
  { name := d.name, doc := d.doc.map respell, fields := respellFields d.fields }

theorem propagated_respell (sn : String) (parent : List String) (ml : List Marker) :
    ∀ fs : List FieldT, propagated sn parent ml (respellFields fs) = propagated sn parent ml fs
  | [] => rfl
  | f :: fs => by
    have ih := propagated_respell sn parent ml fs
    unfold propagated at ih ⊢
    simp only [respellFields, List.map_cons, List.flatten_cons]
    rw [ih]
    cases f <;> simp [respellField, fieldNames, fieldTy]

mutual
theorem analyzeField_respell (sn : String) (tm : List Marker) (parent : List String) :
    ∀ f : FieldT, analyzeField sn tm parent (respellField f) = analyzeField sn tm parent f
  | .leaf ns ty doc => by simp [respellField, analyzeField, c18_respell_doc]
  | .nest ns doc fs => by
    simp only [respellField, analyzeField, c18_respell_doc]
    exact analyzeNest_respell sn tm parent _ fs ns
theorem analyzeNest_respell (sn : String) (tm : List Marker) (parent : List String) (ml : List Marker)
    (fs : List FieldT) :
    ∀ ns : List String, analyzeNest sn tm parent ml (respellFields fs) ns = analyzeNest sn tm parent ml fs ns
  | [] => by simp [analyzeNest]
  | n :: ns => by
    simp only [analyzeNest, propagated_respell]
    rw [analyzeFields_respell sn tm (parent ++ [n]) fs, analyzeNest_respell sn tm parent ml fs ns]
theorem analyzeFields_respell (sn : String) (tm : List Marker) (parent : List String) :
    ∀ fs : List FieldT, analyzeFields sn tm parent (respellFields fs) = analyzeFields sn tm parent fs
  | [] => by simp [respellFields, analyzeFields]
  | f :: fs => by
    simp only [respellFields, analyzeFields]
    rw [analyzeField_respell sn tm parent f, analyzeFields_respell sn tm parent fs]
end

/-- the generated validator (all blocks, checks, messages, error variables — everything `gen` renders)
    is the same for a declaration and for its respelled form, wherever the legacy comments sit
    (type doc, field doc, nested fields) and however the two spellings are mixed -/
theorem c18_spelling (d : Decl) : gen (respellDecl d) = gen d := by
  unfold gen respellDecl
  simp only [c18_respell_doc]
  exact analyzeFields_respell _ _ _ _

/-! ### (2) migrate rewrites exactly the qualifying lines -/

/-- line structure is preserved: the output has the same lines as the input, each passed through
    `rewriteLine` (so '\r' before '\n', a missing final newline, empty lines … are kept) -/
theorem c18_lines (src : List Char) :
    splitLines (migrate src).1 = (rewriteLines .code (splitLines src)).map (·.1) := migrate_lines src

/-- each line is either kept byte for byte or is `indent ++ "// +govalid:" ++ rest` with the scanner in
    code state at its start — i.e. the line begins with a legacy line comment — and becomes
    `indent ++ "//govalid:" ++ rest` -/
theorem c18_line (st : Lex) (l : List Char) :
    rewriteLine st l = (l, false) ∨
    ∃ indent rest, l = indent ++ oldPrefix ++ rest ∧ (∀ c ∈ indent, isBlank c = true) ∧
      st = .code ∧ rewriteLine st l = (indent ++ newPrefix ++ rest, true) :=
  rewriteLine_cases st l

/-- the comment text of a rewritten line is the `respell` of the original comment text -/
theorem c18_line_respell (rest : List Char) :
    respell (String.ofList (oldPrefix ++ rest)) = String.ofList (newPrefix ++ rest) := by
  simp [respell, oldPrefix, newPrefix]

/-- a line that starts inside a raw string or a block comment is never changed, whatever it looks like -/
theorem c18_lookalike (st : Lex) (l : List Char) (h : st ≠ .code) :
    rewriteLine st l = (l, false) := rewriteLine_no_comment st l h

/-- … and such a state persists over every line that does not contain the closing delimiter, so
    whole multi-line raw strings / block comments are preserved -/
theorem c18_raw_string (ls : List (List Char)) (h : ∀ l ∈ ls, '`' ∉ l) :
    (rewriteLines .raw ls).map (·.1) = ls ∧ ((rewriteLines .raw ls).filter (·.2)).length = 0 := by
  induction ls with
  | nil => exact ⟨rfl, rfl⟩
  | cons l ls ih =>
    have hl := h l (by simp)
    have := ih (fun x hx => h x (by simp [hx]))
    simp only [rewriteLines, scanLine_raw l hl, afterNewline, rewriteLine_no_comment .raw l (by decide)]
    simp [this.1, this.2]

theorem c18_block_comment (ls : List (List Char)) (h : ∀ l ∈ ls, '*' ∉ l) :
    (rewriteLines .block ls).map (·.1) = ls ∧ ((rewriteLines .block ls).filter (·.2)).length = 0 := by
  induction ls with
  | nil => exact ⟨rfl, rfl⟩
  | cons l ls ih =>
    have hl := h l (by simp)
    have := ih (fun x hx => h x (by simp [hx]))
    simp only [rewriteLines, scanLine_block l hl, afterNewline, rewriteLine_no_comment .block l (by decide)]
    simp [this.1, this.2]

/-- a look-alike that is not the first text of its line (trailing comment, inside an interpreted
    string, prose) does not make the line qualify -/
theorem c18_not_first (st : Lex) (l : List Char) (h : oldPrefix.isPrefixOf (trimLeft l) = false) :
    rewriteLine st l = (l, false) := by
  simp [rewriteLine, h]

/-- rewriting does not disturb the tokenisation of what follows -/
theorem c18_state (st : Lex) (ind rest : List Char) (h : ∀ c ∈ ind, isBlank c = true) :
    scanLine st (ind ++ newPrefix ++ rest) = scanLine st (ind ++ oldPrefix ++ rest) :=
  scan_state_rewrite st ind rest h

/-- count = number of rewritten lines; count 0 ⇒ the bytes are returned unchanged -/
theorem c18_count (src : List Char) :
    (migrate src).2 = ((rewriteLines .code (splitLines src)).filter (·.2)).length := rfl

theorem c18_noop (src : List Char) (h : (migrate src).2 = 0) : (migrate src).1 = src := migrate_noop src h

/-! ### (3) idempotence: histories migrateⁿ -/

theorem c18_idempotent (src : List Char) : migrate (migrate src).1 = ((migrate src).1, 0) :=
  migrate_idempotent src

def iter : Nat → List Char → List Char
  | 0, s => s
  | n + 1, s => iter n (migrate s).1

theorem c18_iterate (n : Nat) (src : List Char) : iter (n + 1) src = (migrate src).1 := by
  induction n generalizing src with
  | zero => rfl
  | succ k ih =>
    show iter (k + 1) (migrate src).1 = (migrate src).1
    rw [ih, c18_idempotent]

/-! ### non-vacuity -/

example : migrate "type T struct {\n\t// +govalid:required\r\n\tA string // +govalid:gt=1\n\ts := `\n// +govalid:x\n`\n}".toList =
    ("type T struct {\n\t//govalid:required\r\n\tA string // +govalid:gt=1\n\ts := `\n// +govalid:x\n`\n}".toList, 1) := by
  decide +kernel

end Props
