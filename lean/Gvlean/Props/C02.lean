/-
  C02 — required rejects exactly the zero value of the field's type.
  Facts.* (emitted conditions, guards, names, zero table) are regenerated from /repo on every run;
  `mkCheck` is the hand model of makeValidator + factory, `fires` the Go-operator semantics over field
  values, `Spec.violates` the meaning of the marker written from the property statement.
-/
import Gvlean.Proofs.Gen

namespace Props
open Go Gen Proofs

/-- one check per `required` marker, right field/Type/Path; it fires iff the field holds its type's zero value -/
theorem c02_check (S : String) (parent : List String) (f : String) (ty : Ty) (rule : String) (fv : Val) (b : Bool)
    (hr : rule ∈ ["required"]) (happ : Spec.applies rule ty = true)
    (hp : paramOK rule (none) ty = true) (hv : Spec.violates rule (none) ty fv = some b) :
    ∃ c e, mkCheck S parent [f] ty ⟨"govalid:" ++ rule, none⟩ = some c ∧ c.cond = some e ∧ c.field = f ∧
      c.rule = rule ∧ c.path = S :: parent ++ [f] ∧ fires (envOf f ty fv) e = some b := by
  have hr18 : rule ∈ rules18 := by
    simp only [List.mem_cons, List.not_mem_nil, or_false] at hr
    rcases hr with rfl <;> decide
  obtain ⟨c, e, h1, h2, h3, _, h5, h6, h7⟩ :=
    check_sound S parent f ty ⟨"govalid:" ++ rule, none⟩ fv b rule hr18 rfl happ hp hv
  exact ⟨c, e, h1, h2, h3, h5, h6, h7⟩

/-- For every field type and value in the documented domain: the emitted condition exists and fires
    iff the value is the zero value — "" / 0 / -0.0 / 0+0i / false / nil pointer, interface, func /
    nil slice, map, chan; never for a non-nil empty collection or an array of non-zero length. -/
theorem c02 (f : String) (ty : Ty) (fv : Val) (b : Bool)
    (hv : Spec.violates "required" none ty fv = some b) :
    ∃ e, requiredCond f ty = some e ∧ fires (envOf f ty fv) e = some b :=
  required_sound f ty fv b hv

/-- a named type behaves like its underlying type (the Spec only looks at `ty.underlying`) -/
theorem c02_named (u : Ty) (fv : Val) : Spec.isZero (.named u) fv = Spec.isZero u fv := by
  unfold Spec.isZero; rfl

/-- the EXTRACTED required() now looks through named types (regression guard for the fixed defect D2) -/
theorem c02_switch_underlying : Facts.required_switchOnUnderlying = true := rfl

-- non-vacuity
example : Spec.violates "required" none (.named .slice) (.coll none) = some true := by decide
example : Spec.violates "required" none (.named .slice) (.coll (some 0)) = some false := by decide
example : Spec.violates "required" none (.basic .float64) (.f64 0x8000000000000000) = some true := by decide   -- -0.0
example : Spec.violates "required" none (.array 3) (.arr 3) = some false := by decide

end Props
