/-
  C09 — every field governed by a marker is checked (no silent validation gaps).
  Proved here: coverage on Clean declarations (a corollary of C07), "inapplicable struct-level
  markers emit nothing", and the hand-down of markers written on a nested anonymous struct to its direct
  leaf fields (`c09_nest_marker…`, Gvlean/Proofs/NestMarker.lean). The struct-level ≡ per-field placement claim (equal as multisets) and the
  shapes outside `cleanDecl` (multi-name fields, grouped declarations, embedded fields) are decided
  by the correspondence run, see DESIGN §4 C09.
-/
import Gvlean.Props.C07
import Gvlean.Proofs.NestMarker

namespace Props
open Go Gen Proofs

/-- a value violating any written, applicable rule is never accepted -/
theorem c09_never_accepted (d : Decl) (v : Val) (es : List Spec.Entry) (e : Spec.Entry) (hc : cleanDecl d = true)
    (hv : Spec.violated d v = some es) (he : e ∈ es) : exec (gen d) bg (some v) ≠ .ok := by
  rw [c07 d v es hc hv, toOutcome]
  cases es with
  | nil => simp at he
  | cons _ _ => simp

/-- every demanded entry is reported -/
theorem c09_coverage (d : Decl) (v : Val) (es : List Spec.Entry) (e : Spec.Entry) (hc : cleanDecl d = true)
    (hv : Spec.violated d v = some es) (he : e ∈ es) :
    ∃ rep, exec (gen d) bg (some v) = .report rep ∧ conv e ∈ rep := by
  rw [c07 d v es hc hv, toOutcome]
  cases es with
  | nil => simp at he
  | cons a rest => exact ⟨_, by simp, List.mem_map_of_mem he⟩

/-- a struct-level marker whose factory guard rejects a field's type emits nothing for that field
    (the field is left unconstrained, generation is not disturbed) -/
theorem c09_inapplicable (S : String) (parent : List String) (f : String) (ty : Ty) (m : Marker) (r : String)
    (info : RuleInfo) (h1 : Facts.markerTable.lookup m.id = some r) (h2 : ruleInfo r = some info)
    (hg : guardOk info.guard ty = false) : mkCheck S parent [f] ty m = none :=
  mkCheck_guard_none S parent f ty m r info h1 h2 hg

/-- every name of a multi-name field declaration `A, B T` gets its own block with its own checks,
    under the same marker list: struct-level markers (sorted by identifier) then the field's own (sorted) -/
theorem c09_every_name (S : String) (tm : List Marker) (parent : List String) (a b : String) (ty : Ty) (doc : List String) :
    analyzeField S tm parent (.leaf [a, b] ty doc) =
      analyzeField S tm parent (.leaf [a] ty doc) ++ analyzeField S tm parent (.leaf [b] ty doc) := by
  simp [analyzeField, leafBlocks]

/-! ### markers written on a nested anonymous struct

`//govalid:required` (or any other marker list `ml`) on `Ship struct{…}` is handed down to the direct leaf fields of
`Ship`. Shape covered: no struct-level markers, the nested struct's own fields Clean, `ml` documented for every
direct leaf; struct-typed members stay silent (`hsil`; `strukt_required_silent` discharges it for `required`). -/

/-- the blocks of the nested struct report: the handed-down rules of the direct leaves (under the path WITHOUT the
    nested struct's name — known finding C07-K8), then the nested fields' own rules under the full path -/
theorem c09_nest_marker (S : String) (recv : Val) (fields : List FieldT) (n : String) (parent : List String)
    (sv nv : Val) (ml : List Marker)
    (hclean : cleanFields [] fields = true)
    (hok : ∀ names ty doc, FieldT.leaf names ty doc ∈ fields → ∀ m ∈ ml, markerOK ty m = true)
    (hsil : ∀ x, runChecks nv (mkChecks S parent [x] Ty.strukt ml) = some [])
    (hsv : lookupPath recv parent = some sv) (hn : lookupField sv n = some nv)
    (e0 e1 : List Spec.Entry)
    (hd : Spec.directEntries (S :: parent) ml nv fields = some e0)
    (ho : Spec.fieldsEntries [] (S :: (parent ++ [n])) nv fields = some e1) :
    blocksEntries recv (analyzeNest S [] parent ml fields [n]) = some ((e0 ++ e1).map conv) :=
  nest_marked_sound S recv fields n parent sv nv ml hclean hok hsil hsv hn e0 e1 hd ho

/-- "a value violating any written rule is never accepted": a violated handed-down rule makes the report non-empty -/
theorem c09_nest_marker_never_accepted (S : String) (recv : Val) (fields : List FieldT) (n : String) (parent : List String)
    (sv nv : Val) (ml : List Marker)
    (hclean : cleanFields [] fields = true)
    (hok : ∀ names ty doc, FieldT.leaf names ty doc ∈ fields → ∀ m ∈ ml, markerOK ty m = true)
    (hsil : ∀ x, runChecks nv (mkChecks S parent [x] Ty.strukt ml) = some [])
    (hsv : lookupPath recv parent = some sv) (hn : lookupField sv n = some nv)
    (e0 e1 : List Spec.Entry) (e : Spec.Entry)
    (hd : Spec.directEntries (S :: parent) ml nv fields = some e0)
    (ho : Spec.fieldsEntries [] (S :: (parent ++ [n])) nv fields = some e1) (he : e ∈ e0 ++ e1) :
    ∃ rep, blocksEntries recv (analyzeNest S [] parent ml fields [n]) = some rep ∧ conv e ∈ rep :=
  ⟨_, c09_nest_marker S recv fields n parent sv nv ml hclean hok hsil hsv hn e0 e1 hd ho, List.mem_map_of_mem he⟩

/-- the Path aside, the handed-down entries are the ones the Spec demands under the FULL path (rule and value, in order):
    this is the comparison the correspondence run makes for such structs -/
theorem c09_nest_marker_rv (S : String) (parent : List String) (n : String) (ml : List Marker) (nv : Val) (fields : List FieldT) :
    (Spec.directEntries (S :: parent) ml nv fields).map (·.map Spec.Entry.rv) =
      (Spec.directEntries (S :: (parent ++ [n])) ml nv fields).map (·.map Spec.Entry.rv) :=
  directEntries_rv _ _ ml nv fields

/-- the same against the Spec WITH markers on nested structs (`Spec.nestEntriesN`, what the correspondence run asks the
    Spec driver for): Path aside, the model reports exactly the demanded entries, in order -/
theorem c09_nest_marker_specN (S : String) (recv : Val) (fields : List FieldT) (n : String) (parent : List String)
    (sv nv : Val) (doc : List String)
    (hclean : cleanFields [] fields = true)
    (hok : ∀ names ty d, FieldT.leaf names ty d ∈ fields → ∀ m ∈ sortById (markersOfDoc doc), markerOK ty m = true)
    (hsil : ∀ x, runChecks nv (mkChecks S parent [x] Ty.strukt (sortById (markersOfDoc doc))) = some [])
    (hsv : lookupPath recv parent = some sv) (hn : lookupField sv n = some nv)
    (es : List Spec.Entry) (hN : Spec.nestEntriesN [] doc (S :: parent) sv fields [n] = some es) :
    ∃ rep, blocksEntries recv (analyzeNest S [] parent (sortById (markersOfDoc doc)) fields [n]) = some rep ∧
      rep.map rvG = es.map Spec.Entry.rv :=
  nest_marked_specN S recv fields n parent sv nv doc hclean hok hsil hsv hn es hN

/-- `Spec.violatedN` is a conservative extension of `Spec.violated`: where no nested struct carries markers they coincide,
    so everything proved about `violated` on Clean declarations (C07, C09) holds for `violatedN` verbatim -/
theorem c09_specN_conservative (d : Decl) (v : Val) (h : plainFields d.fields = true) : Spec.violatedN d v = Spec.violated d v :=
  violatedN_eq d v h

theorem c09_specN_clean (d : Decl) (v : Val) (es : List Spec.Entry) (hc : cleanDecl d = true)
    (hv : Spec.violatedN d v = some es) : exec (gen d) bg (some v) = toOutcome es := by
  rw [violatedN_eq d v (clean_plain_fields _ d.fields hc)] at hv
  exact c07 d v es hc hv

/-- `required` handed down to a struct-typed member reports nothing -/
theorem c09_nest_required_struct_member (S : String) (parent : List String) (x : String) (nv : Val) :
    runChecks nv (mkChecks S parent [x] Ty.strukt [{ id := "govalid:required", expr := none }]) = some [] :=
  strukt_required_silent S parent x nv

/-- non-vacuity: the hypotheses of `c09_nest_marker` are met by `Ship struct{ Carrier string; Weight int }` under `required` -/
example : cleanFields [] [.leaf ["Carrier"] (.basic .string) [], .leaf ["Weight"] (.basic .int) []] = true ∧
    (∀ names ty doc, FieldT.leaf names ty doc ∈ [FieldT.leaf ["Carrier"] (.basic .string) [], .leaf ["Weight"] (.basic .int) []] →
      ∀ m ∈ [({ id := "govalid:required", expr := none } : Marker)], markerOK ty m = true) := by
  constructor
  · simp [cleanFields, cleanField, markersOfDoc, sortById]
  · intro names ty doc hm m hmm
    simp only [List.mem_cons, List.mem_singleton, List.not_mem_nil, or_false] at hm hmm
    subst hmm
    rcases hm with h | h <;> (injection h with _ h2 _; subst h2; decide +kernel)

end Props
