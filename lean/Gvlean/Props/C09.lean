/-
  C09 — every field governed by a marker is checked (no silent validation gaps).
  Proved here: coverage on Clean declarations (a corollary of C07) and "inapplicable struct-level
  markers emit nothing". The struct-level ≡ per-field placement claim (equal as multisets) and the
  shapes outside `cleanDecl` (multi-name fields, grouped declarations, embedded fields) are decided
  by the correspondence run, see DESIGN §4 C09.
-/
import Gvlean.Props.C07

namespace Props
open Go Gen Proofs

/-- a value violating any written, applicable rule is never accepted -/
theorem c09_never_accepted (d : Decl) (v : Val) (es : List Spec.Entry) (e : Spec.Entry) (hc : cleanDecl d = true)
    (hv : Spec.violated d v = some es) (he : e ∈ es) : exec (gen d) bg (some v) ≠ .ok := by
  rw [c07 d v es hc hv, toOutcome]
  cases es with
  | nil => simp at he
  | cons _ _ => simp

/-- every demanded entry is reported -/
theorem c09_coverage (d : Decl) (v : Val) (es : List Spec.Entry) (e : Spec.Entry) (hc : cleanDecl d = true)
    (hv : Spec.violated d v = some es) (he : e ∈ es) :
    ∃ rep, exec (gen d) bg (some v) = .report rep ∧ conv e ∈ rep := by
  rw [c07 d v es hc hv, toOutcome]
  cases es with
  | nil => simp at he
  | cons a rest => exact ⟨_, by simp, List.mem_map_of_mem he⟩

/-- a struct-level marker whose factory guard rejects a field's type emits nothing for that field
    (the field is left unconstrained, generation is not disturbed) -/
theorem c09_inapplicable (S : String) (parent : List String) (f : String) (ty : Ty) (m : Marker) (r : String)
    (info : RuleInfo) (h1 : Facts.markerTable.lookup m.id = some r) (h2 : ruleInfo r = some info)
    (hg : guardOk info.guard ty = false) : mkCheck S parent [f] ty m = none :=
  mkCheck_guard_none S parent f ty m r info h1 h2 hg

/-- every name of a multi-name field declaration `A, B T` gets its own block with its own checks,
    under the same marker list: struct-level markers (sorted by identifier) then the field's own (sorted) -/
theorem c09_every_name (S : String) (tm : List Marker) (parent : List String) (a b : String) (ty : Ty) (doc : List String) :
    analyzeField S tm parent (.leaf [a, b] ty doc) =
      analyzeField S tm parent (.leaf [a] ty doc) ++ analyzeField S tm parent (.leaf [b] ty doc) := by
  simp [analyzeField, leafBlocks]

end Props
