/-
  C03 — minlength / maxlength / length count Unicode code points (every invalid byte counts one).
  Facts.* (emitted conditions, guards, names, zero table) are regenerated from /repo on every run;
  `mkCheck` is the hand model of makeValidator + factory, `fires` the Go-operator semantics over field
  values, `Spec.violates` the meaning of the marker written from the property statement.
-/
import Gvlean.Proofs.Gen
import Gvlean.Proofs.Utf8

namespace Props
open Go Gen Proofs

/-- For every string (arbitrary bytes) and every N ≥ 0: one check, which fires iff the number of code points `runeCount s` is < N, > N, ≠ N respectively -/
theorem c03 (S : String) (parent : List String) (f : String) (ty : Ty) (rule p : String) (fv : Val) (b : Bool)
    (hr : rule ∈ ["minlength", "maxlength", "length"]) (happ : Spec.applies rule ty = true)
    (hp : paramOK rule (some p) ty = true) (hv : Spec.violates rule (some p) ty fv = some b) :
    ∃ c e, mkCheck S parent [f] ty ⟨"govalid:" ++ rule, some p⟩ = some c ∧ c.cond = some e ∧ c.field = f ∧
      c.rule = rule ∧ c.path = S :: parent ++ [f] ∧ fires (envOf f ty fv) e = some b := by
  have hr18 : rule ∈ rules18 := by
    simp only [List.mem_cons, List.not_mem_nil, or_false] at hr
    rcases hr with rfl | rfl | rfl <;> decide
  obtain ⟨c, e, h1, h2, h3, _, h5, h6, h7⟩ :=
    check_sound S parent f ty ⟨"govalid:" ++ rule, some p⟩ fv b rule hr18 rfl happ hp hv
  exact ⟨c, e, h1, h2, h3, h5, h6, h7⟩

/-- what the three markers compare: the code-point count of Go's UTF-8 decoding -/
theorem c03_meaning (p : String) (ty : Ty) (s : Bytes) (ip : IpClass) (d : Dec) (hp : parseDec p = some d)
    (hint : d.isInt = true) (h0 : 0 ≤ d.toInt) :
    Spec.violates "minlength" (some p) ty (.str s ip) = some (decide ((runeCount s : Int) < d.toInt)) ∧
    Spec.violates "maxlength" (some p) ty (.str s ip) = some (decide ((runeCount s : Int) > d.toInt)) ∧
    Spec.violates "length" (some p) ty (.str s ip) = some ((runeCount s : Int) != d.toInt) := by
  simp [Spec.violates, hp, hint, h0]

/-- an ASCII string has as many code points as bytes -/
theorem c03_ascii (s : Bytes) (h : ∀ b ∈ s, b < 0x80) : runeCount s = s.length := by
  have : ∀ (n : Nat) (s : Bytes) (off : Nat), s.length ≤ n → (∀ b ∈ s, b < 0x80) → (runesFrom off s).length = s.length := by
    intro n
    induction n with
    | zero => intro s off hl _; have : s = [] := List.length_eq_zero_iff.mp (by omega); subst this; simp [runesFrom_nil]
    | succ n ih =>
      intro s off hl hb
      match s with
      | [] => simp [runesFrom_nil]
      | b0 :: rest =>
        rw [runesFrom_cons, decode1_ascii rest (hb b0 (by simp))]
        simp only [List.length_cons, List.drop_zero]
        rw [ih rest _ (by simpa using hl) (fun b hb' => hb b (by simp [hb']))]
  exact this s.length s 0 (Nat.le_refl _) h

/-- every byte ≥ 0x80 that does not continue a valid sequence counts as one code point; in particular a
    string of k bytes 0xFF has k code points -/
theorem c03_invalid_bytes (k : Nat) : runeCount (List.replicate k 0xFF) = k := by
  have : ∀ (k off : Nat), (runesFrom off (List.replicate k (0xFF : UInt8))).length = k := by
    intro k
    induction k with
    | zero => intro off; simp [runesFrom_nil]
    | succ k ih =>
      intro off
      rw [List.replicate_succ, runesFrom_cons]
      have hd : decode1 0xFF (List.replicate k 0xFF) = (runeError, 0) := by simp [decode1]
      rw [hd]; simp [ih]
  exact this k 0

-- non-vacuity: "é" (2 bytes) has length 1
example : Spec.violates "length" (some "1") (.basic .string) (.str [0xC3, 0xA9] 0) = some false := by decide +kernel
example : Spec.violates "maxlength" (some "1") (.basic .string) (.str [0xC3, 0xA9, 0x61] 0) = some true := by decide +kernel

end Props
