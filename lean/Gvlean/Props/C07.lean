/-
  C07 — the validation report is exact: one entry per violated rule, right Path / Type / Value.
  `gen` = hand model of analyzeMarker/makeValidator/template over the regenerated rule facts;
  `exec` = execution of the generated function; `Spec.violated` = the report the property demands.
  `cleanDecl` (Gvlean/Proofs/Report.lean) is the Clean ∧ Documented side condition; the excluded
  shapes are exactly the known findings D3–D9 (DESIGN §5).
-/
import Gvlean.Proofs.Report

namespace Props
open Go Gen Proofs

def toOutcome (es : List Spec.Entry) : Outcome := if es.isEmpty then .ok else .report (es.map conv)

/-- For every Clean, Documented declaration and every value in the documented domain, `Validate()`
    returns nil iff no rule is violated, otherwise a report with EXACTLY the Spec's entries — same
    Paths, Types and Values, none missing, none duplicated (here even in the same order). -/
theorem c07 (d : Decl) (v : Val) (es : List Spec.Entry) (hc : cleanDecl d = true)
    (hv : Spec.violated d v = some es) :
    exec (gen d) bg (some v) = toOutcome es := by
  have h := fields_sound d.name (sortById (markersOfDoc d.doc)) v d.fields [] v es hc rfl hv
  simp only [exec, gen, runBlocks_bg, h, List.nil_append, toOutcome]
  cases es <;> simp

/-- nil ⇔ nothing violated -/
theorem c07_nil_iff (d : Decl) (v : Val) (es : List Spec.Entry) (hc : cleanDecl d = true)
    (hv : Spec.violated d v = some es) : exec (gen d) bg (some v) = .ok ↔ es = [] := by
  rw [c07 d v es hc hv, toOutcome]
  cases es <;> simp

/-- a nil receiver yields the ErrNil<T> sentinel, under any context -/
theorem c07_nil_receiver (d : Decl) (ctx : Ctx) : exec (gen d) ctx none = .nilRecv := rfl

/-- `errors.Is(err, S)` as implemented by validation/errors: a report matches a sentinel iff some
    element has the sentinel's Path and Type (Value is ignored) -/
def isMatch (o : Outcome) (path : List String) (type : String) : Bool :=
  match o with
  | .report es => es.any fun e => e.path == path && e.type == type
  | _ => false

/-- errors.Is holds for a sentinel exactly when an entry with its Path and Type is demanded by the Spec -/
theorem c07_is (d : Decl) (v : Val) (es : List Spec.Entry) (hc : cleanDecl d = true)
    (hv : Spec.violated d v = some es) (path : List String) (type : String) :
    isMatch (exec (gen d) bg (some v)) path type = es.any (fun e => e.path == path && e.type == type) := by
  rw [c07 d v es hc hv, toOutcome]
  cases es with
  | nil => rfl
  | cons e rest => simp [isMatch, conv, List.any_map, Function.comp_def]

end Props
