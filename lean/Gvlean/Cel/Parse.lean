/-
  How Go parses a flat sequence `operand op operand op …`: binary operators are left associative and
  grouped by precedence level. `parseAt m` handles the levels `6 - m … 5`: it cuts the sequence at
  EVERY operator of level `6 - m`, parses the pieces with `parseAt (m - 1)` and folds them to the left;
  `parseAt 0` accepts a single operand.
-/
import Gvlean.Cel.Syntax

namespace Cel

/-- cut at every operator of level `k`: the piece before the first one, then (operator, piece) pairs -/
def splitAll (k : Nat) : Flat → Flat × List (String × Flat)
  | [] => ([], [])
  | it :: rest =>
    match it with
    | .op s => if level s == k then ([], (s, (splitAll k rest).1) :: (splitAll k rest).2)
               else (it :: (splitAll k rest).1, (splitAll k rest).2)
    | .operand _ _ => (it :: (splitAll k rest).1, (splitAll k rest).2)

def step (p : Flat → Option GoTree) (acc : Option GoTree) (x : String × Flat) : Option GoTree :=
  match acc, p x.2 with
  | some a, some b => some (.bin x.1 a b)
  | _, _ => none

def parseAt : Nat → Flat → Option GoTree
  | 0, [.operand _ t] => some t
  | 0, _ => none
  | m + 1, l => (splitAll (5 - m) l).2.foldl (step (parseAt m)) (parseAt m (splitAll (5 - m) l).1)

/-- the Go parse of a flat expression (levels 1 … 5) -/
def parse (l : Flat) : Option GoTree := parseAt 5 l

/-- no operator of level `k` at the top level of `l` -/
def noOps (k : Nat) (l : Flat) : Prop := ∀ s, Item.op s ∈ l → level s ≠ k

theorem splitAll_noOps (k : Nat) : ∀ (l : Flat), noOps k l → splitAll k l = (l, [])
  | [], _ => rfl
  | it :: rest, h => by
    have ih := splitAll_noOps k rest (fun s hs => h s (by simp [hs]))
    cases it with
    | op s =>
      have : level s ≠ k := h s (by simp)
      simp [splitAll, this, ih]
    | operand t tr => simp [splitAll, ih]

theorem splitAll_snoc (k : Nat) (s : String) (R : Flat) (hs : level s = k) (hR : noOps k R) :
    ∀ (L : Flat), splitAll k (L ++ .op s :: R) = ((splitAll k L).1, (splitAll k L).2 ++ [(s, R)])
  | [] => by simp [splitAll, hs, splitAll_noOps k R hR]
  | it :: L => by
    have ih := splitAll_snoc k s R hs hR L
    cases it with
    | op s' =>
      by_cases h : level s' = k
      · simp [splitAll, h, ih]
      · simp [splitAll, h, ih]
    | operand t tr => simp [splitAll, ih]

theorem parseAt_noOps (m : Nat) (l : Flat) (h : noOps (5 - m) l) : parseAt (m + 1) l = parseAt m l := by
  simp [parseAt, splitAll_noOps _ l h]

theorem parseAt_snoc (m : Nat) (L R : Flat) (s : String) (hs : level s = 5 - m) (hR : noOps (5 - m) R) :
    parseAt (m + 1) (L ++ .op s :: R) = step (parseAt m) (parseAt (m + 1) L) (s, R) := by
  simp [parseAt, splitAll_snoc _ s R hs hR L, List.foldl_append]

theorem parseAt_single (t : String) (tr : GoTree) : ∀ m, parseAt m [.operand t tr] = some tr
  | 0 => rfl
  | m + 1 => by
    rw [parseAt_noOps m _ (by intro s hs; simp at hs)]
    exact parseAt_single t tr m

end Cel
