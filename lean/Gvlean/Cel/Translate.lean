/-
  Hand-written model of the CEL → Go translator (internal/validator/rules/cel.go: convertASTToGo and
  everything below it, after the precedence / unary-operator fix). `none` = a construct the model
  does not cover (comprehension macros, bytes constants) or one the translator refuses (functions and
  methods without a translation: generation stops); everything else is transcribed function by
  function, including the text tests the real code performs on already rendered operands.
  Tied to the real generator by corr-cel: for every expression of the run the emitted condition must
  equal `"!(" ++ render (toGo ast) ++ ")"` up to white space and semicolons (gofmt).
-/
import Gvlean.Cel.Parse

namespace Cel

def single (text : String) (tree : GoTree) : Flat := [.operand text tree]
def opq (text : String) : Flat := single text (.opaque text)

/-- the tree of a parenthesised / nested flat: what the Go parser makes of its text -/
def treeOf (f : Flat) : GoTree := (parse f).getD (.opaque (render f))

def paren (f : Flat) : Flat := single ("(" ++ render f ++ ")") (treeOf f)

/-- CEL operator functions rendered as Go binary operators -/
def fnSym (fn : String) : Option String :=
  if fn == "_||_" then some "||" else if fn == "_&&_" then some "&&"
  else if fn == "_>_" then some ">" else if fn == "_>=_" then some ">="
  else if fn == "_<_" then some "<" else if fn == "_<=_" then some "<="
  else if fn == "_==_" then some "==" else if fn == "_!=_" then some "!="
  else if fn == "_+_" then some "+" else if fn == "_-_" then some "-"
  else if fn == "_*_" then some "*" else if fn == "_/_" then some "/"
  else if fn == "_%_" then some "%" else none

/-- `operatorPrecedence` -/
def fnPrec (fn : String) : Nat :=
  match fnSym fn with
  | some s => level s
  | none => if fn == "_?_:_" then 3 else 0

/-- `convertOperand`: should this operand be wrapped? (decided on the AST, not on the text) -/
def needsParen (arg : Expr) (parent : Nat) (rightHand : Bool) : Bool :=
  match arg with
  | .call fn _ =>
    let prec := fnPrec fn
    if prec == 0 || parent == 0 || prec > parent then false
    else if prec == parent && !rightHand && parent != 3 then false
    else true
  | _ => false

def wrapIf (b : Bool) (f : Flat) : Flat := if b then paren f else f

def isQuoted (s : String) : Bool := s.startsWith "\"" && s.endsWith "\""

/-- `convertInOperator` on the rendered operands -/
def inText (element collection : String) : String :=
  let closure := "func() bool { for _, item := range " ++ collection ++ " { if item == " ++ element ++ " { return true } }; return false }()"
  let viaField := if collection.startsWith "t." && isQuoted element then "slices.Contains(" ++ collection ++ ", " ++ element ++ ")" else closure
  if collection.startsWith "[]interface{}{" && collection.endsWith "}" then
    let content := (collection.drop "[]interface{}{".length).toString.dropRight 1
    if content.contains '"' then "slices.Contains([]string{" ++ content ++ "}, " ++ element ++ ")" else viaField
  else viaField

def builtinText (fn : String) (args : List String) : Option String :=
  match fn, args with
  | "size", [a] => some ("len(" ++ a ++ ")")
  | "contains", [a, b] => some ("strings.Contains(" ++ a ++ ", " ++ b ++ ")")
  | "matches", [a, b] => some ("regexp.MustCompile(" ++ b ++ ").MatchString(" ++ a ++ ")")
  | "startsWith", [a, b] => some ("strings.HasPrefix(" ++ a ++ ", " ++ b ++ ")")
  | "endsWith", [a, b] => some ("strings.HasSuffix(" ++ a ++ ", " ++ b ++ ")")
  | "int", [a] => some ("func() int { v, err := strconv.Atoi(" ++ a ++ "); if err != nil { return 0 }; return v }()")
  | "string", [a] => some ("fmt.Sprintf(\"%v\", " ++ a ++ ")")
  | "double", [a] => some ("func() float64 { v, err := strconv.ParseFloat(fmt.Sprintf(\"%v\", " ++ a ++ "), 64); if err != nil { return 0.0 }; return v }()")
  | "timestamp", [a] => some ("func() time.Time { t, err := time.Parse(time.RFC3339, " ++ a ++ "); if err != nil { return time.Time{} }; return t }()")
  | "duration", [a] => some ("func() time.Duration { d, err := time.ParseDuration(" ++ a ++ "); if err != nil { return 0 }; return d }()")
  | _, _ => none

/-- `convertMethodCall`; `none` = "unknown method": the conversion is refused (`fallback` records it) -/
def methodText (fn target : String) (args : List String) : Option String :=
  match fn, args with
  | "startsWith", [a] => some ("strings.HasPrefix(" ++ target ++ ", " ++ a ++ ")")
  | "endsWith", [a] => some ("strings.HasSuffix(" ++ target ++ ", " ++ a ++ ")")
  | "contains", [a] => some ("strings.Contains(" ++ target ++ ", " ++ a ++ ")")
  | "matches", [a] => some ("regexp.MustCompile(" ++ a ++ ").MatchString(" ++ target ++ ")")
  | _, _ => none

/-- a binary operator application, operands already converted (and wrapped by `convertOperand`) -/
def binFlat (sym : String) (l r : Flat) : Flat :=
  if level sym ≤ 2 then paren l ++ [.op sym] ++ paren r      -- `(%s) && (%s)`
  else l ++ [.op sym] ++ r

mutual
/-- `convertASTToGo` -/
def toGo (field : String) : Expr → Option Flat
  | .cbool b => some (single (if b then "true" else "false") (.bool b))
  | .cint n => some (single (toString n) (.int n))
  | .cuint n => some (single (toString n) (.int n))
  | .cdouble t => some (opq t)
  | .cstring q => some (opq q)
  | .cnull => some (opq "nil")
  | .strukt => some (opq "struct{}{}")
  | .unmodelled => none
  | .ident name =>
    if name == "value" then some (single ("t." ++ field) (.ref field))
    else if name == "this" then some (opq "t")
    else some (opq name)
  | .select e f =>
    match toGo field e with
    | none => none
    | some o =>
      if render o == "t" then some (single ("t." ++ f) (.ref f))
      else some (opq (render o ++ "." ++ f))
  | .list es =>
    match toGoList field es with
    | none => none
    | some fs => some (opq ("[]interface{}{" ++ ", ".intercalate (fs.map render) ++ "}"))
  | .mcall fn target args =>
    match toGo field target, toGoList field args with
    | some t, some as => (methodText fn (render t) (as.map render)).map opq
    | _, _ => none
  | .call fn args =>
    match toGoList field args with
    | none => none
    | some as =>
      -- convertOperator
      -- a function without a translation: `fallback` records it and `convertCELToGo` fails (generation stops)
      let viaBuiltin : Option Flat := (builtinText fn (as.map render)).map opq
      match fn, args, as with
      | "_?_:_", [_, _, _], [c, a, b] =>
        some (opq ("func() int { if " ++ render c ++ " { return " ++ render a ++ " }; return " ++ render b ++ " }()") ++ [.op ">"] ++ single "0" (.int 0))
      | "@in", [_, _], [e, c] => some (opq (inText (render e) (render c)))
      | _, [_], [x] =>
        if fn == "!_" then some (single ("!(" ++ render x ++ ")") (.not (treeOf x)))
        else if fn == "-_" then some (single ("-(" ++ render x ++ ")") (.neg (treeOf x)))
        else viaBuiltin
      | _, [a0, a1], [l, r] =>
        match fnSym fn with
        | some sym => some (binFlat sym (wrapIf (needsParen a0 (fnPrec fn) false) l) (wrapIf (needsParen a1 (fnPrec fn) true) r))
        | none => viaBuiltin
      | _, _, _ => viaBuiltin

def toGoList (field : String) : List Expr → Option (List Flat)
  | [] => some []
  | e :: es =>
    match toGo field e, toGoList field es with
    | some f, some fs => some (f :: fs)
    | _, _ => none
end

mutual
/-- the expression contains a node outside the model's coverage (comprehension macros, bytes constants) -/
def hasUnmodelled : Expr → Bool
  | .unmodelled => true
  | .select e _ => hasUnmodelled e
  | .call _ args => anyUnmodelled args
  | .mcall _ t args => hasUnmodelled t || anyUnmodelled args
  | .list es => anyUnmodelled es
  | _ => false
def anyUnmodelled : List Expr → Bool
  | [] => false
  | e :: es => hasUnmodelled e || anyUnmodelled es
end

/-- the model's verdict on an expression it covers entirely: `none` from `toGo` then means that the translator
    REFUSES it (a function or method without a rendering; `convertCELToGo` returns "unsupported CEL construct") -/
def refuses (field : String) (e : Expr) : Bool := !hasUnmodelled e && (toGo field e).isNone

/-- `Validate()`: the emitted condition -/
def condition (field : String) (e : Expr) : Option String := (toGo field e).map fun f => "!(" ++ render f ++ ")"

end Cel
