/-
  C10: the CEL abstract syntax the generator walks (cel-go's checked AST, as serialised by the harness),
  and the shape of the Go text it prints.

  The translator (internal/validator/rules/cel.go) builds its output by pasting the TEXT of operands
  around operator symbols. What the Go compiler later makes of that text is decided by Go's operator
  precedence, not by the CEL tree. The model keeps exactly that information: the output is a flat
  list of operands and binary operator symbols (`Item`); an operand that the translator wrapped in
  parentheses, or a call, is ONE operand carrying its text and the tree the Go parser builds for it.
-/
namespace Cel

/-- cel-go AST -/
inductive Expr where
  | cbool (b : Bool)
  | cint (n : Int)
  | cuint (n : Nat)
  | cdouble (text : String)             -- text = fmt.Sprintf("%g", v)  (supplied by the harness)
  | cstring (quoted : String)           -- quoted = fmt.Sprintf("%q", v)
  | cnull
  | ident (name : String)
  | select (e : Expr) (field : String)  -- also `has(e.f)` (the translator ignores the test-only flag)
  | call (fn : String) (args : List Expr)
  | mcall (fn : String) (target : Expr) (args : List Expr)
  | list (es : List Expr)
  | strukt
  | unmodelled                           -- comprehensions, bytes constants
  deriving Repr, Inhabited

/-- what the Go parser builds -/
inductive GoTree where
  | int (n : Int)
  | bool (b : Bool)
  | ref (name : String)                  -- t.<name>
  | bin (op : String) (l r : GoTree)
  | not (t : GoTree)
  | neg (t : GoTree)
  | opaque (text : String)               -- anything whose meaning is not modelled (calls, closures, literals of other types)
  deriving Repr, Inhabited, DecidableEq

inductive Item where
  | operand (text : String) (tree : GoTree)
  | op (sym : String)
  deriving Repr, Inhabited, DecidableEq

abbrev Flat := List Item

def Item.text : Item → String
  | .operand t _ => t
  | .op s => s

def render (f : Flat) : String := " ".intercalate (f.map Item.text)

/-- Go binary operator precedence levels (1 lowest … 5 highest); 0 = not a binary operator -/
def level (sym : String) : Nat :=
  if sym == "||" then 1
  else if sym == "&&" then 2
  else if sym == "==" || sym == "!=" || sym == "<" || sym == "<=" || sym == ">" || sym == ">=" then 3
  else if sym == "+" || sym == "-" then 4
  else if sym == "*" || sym == "/" || sym == "%" then 5
  else 0

end Cel
