/-
  The proved fragment of C10: integer arithmetic (+, -, *, /, %, unary -) over `value`, `this.X` and
  literals, compared by the six comparison operators and combined with &&, ||, ! — on fields of Go
  type `int` / `int64` — with reference CEL semantics (int64, overflow = error, && / || absorb
  errors) on one side and Go semantics of the PARSED output text (two's-complement wrap-around,
  precedence decided by the Go parser) on the other.
-/
import Gvlean.Cel.Translate

namespace Cel

inductive Cmp where
  | lt | le | gt | ge | eq | ne
  deriving Repr, DecidableEq, Inhabited

inductive IntE where
  | lit (n : Int)
  | value
  | this (f : String)
  | add (a b : IntE)
  | sub (a b : IntE)
  | mul (a b : IntE)
  | div (a b : IntE)
  | mod (a b : IntE)
  | neg (a : IntE)
  deriving Repr, Inhabited

inductive BoolE where
  | lit (b : Bool)
  | cmp (op : Cmp) (a b : IntE)
  | and (a b : BoolE)
  | or (a b : BoolE)
  | not (a : BoolE)
  deriving Repr, Inhabited

def Cmp.fn : Cmp → String
  | .lt => "_<_" | .le => "_<=_" | .gt => "_>_" | .ge => "_>=_" | .eq => "_==_" | .ne => "_!=_"
def Cmp.sym : Cmp → String
  | .lt => "<" | .le => "<=" | .gt => ">" | .ge => ">=" | .eq => "==" | .ne => "!="
def Cmp.holds : Cmp → Int → Int → Bool
  | .lt, x, y => x < y | .le, x, y => x ≤ y | .gt, x, y => x > y | .ge, x, y => x ≥ y
  | .eq, x, y => x == y | .ne, x, y => x != y

/-- the cel-go AST of a fragment expression -/
def IntE.toExpr : IntE → Expr
  | .lit n => .cint n
  | .value => .ident "value"
  | .this f => .select (.ident "this") f
  | .add a b => .call "_+_" [a.toExpr, b.toExpr]
  | .sub a b => .call "_-_" [a.toExpr, b.toExpr]
  | .mul a b => .call "_*_" [a.toExpr, b.toExpr]
  | .div a b => .call "_/_" [a.toExpr, b.toExpr]
  | .mod a b => .call "_%_" [a.toExpr, b.toExpr]
  | .neg a => .call "-_" [a.toExpr]

def BoolE.toExpr : BoolE → Expr
  | .lit b => .cbool b
  | .cmp op a b => .call op.fn [a.toExpr, b.toExpr]
  | .and a b => .call "_&&_" [a.toExpr, b.toExpr]
  | .or a b => .call "_||_" [a.toExpr, b.toExpr]
  | .not a => .call "!_" [a.toExpr]

/-! ### reference CEL semantics -/

def inI64 (n : Int) : Bool := decide (-9223372036854775808 ≤ n ∧ n ≤ 9223372036854775807)

def chk (n : Int) : Option Int := if inI64 n then some n else none

/-- `field` is the field carrying the marker (`value`), `ρ` the struct (`this.X`) -/
def celI (field : String) (ρ : String → Int) : IntE → Option Int
  | .lit n => chk n
  | .value => some (ρ field)
  | .this f => some (ρ f)
  | .add a b => match celI field ρ a, celI field ρ b with | some x, some y => chk (x + y) | _, _ => none
  | .sub a b => match celI field ρ a, celI field ρ b with | some x, some y => chk (x - y) | _, _ => none
  | .mul a b => match celI field ρ a, celI field ρ b with | some x, some y => chk (x * y) | _, _ => none
  -- division truncates toward zero, the remainder takes the sign of the dividend (as in Go); a zero divisor is an
  -- evaluation error, and so is MinInt64 / -1 (overflow) — MinInt64 % -1 is treated as an error too (cel-go reports overflow)
  | .div a b => match celI field ρ a, celI field ρ b with
    | some x, some y => if y = 0 then none else chk (Int.tdiv x y)
    | _, _ => none
  | .mod a b => match celI field ρ a, celI field ρ b with
    | some x, some y => if y = 0 then none else if x = -9223372036854775808 ∧ y = -1 then none else chk (Int.tmod x y)
    | _, _ => none
  | .neg a => match celI field ρ a with | some x => chk (-x) | none => none

/-- `none` = evaluation error; && and || are commutative and absorb errors (CEL spec) -/
def celB (field : String) (ρ : String → Int) : BoolE → Option Bool
  | .lit b => some b
  | .cmp op a b => match celI field ρ a, celI field ρ b with | some x, some y => some (op.holds x y) | _, _ => none
  | .and a b =>
    match celB field ρ a, celB field ρ b with
    | some false, _ => some false
    | _, some false => some false
    | some true, some true => some true
    | _, _ => none
  | .or a b =>
    match celB field ρ a, celB field ρ b with
    | some true, _ => some true
    | _, some true => some true
    | some false, some false => some false
    | _, _ => none
  | .not a => (celB field ρ a).map (!·)

/-! ### Go semantics of the parsed output -/

/-- two's-complement wrap-around of Go's 64-bit `int` -/
def wrap (n : Int) : Int := (n + 9223372036854775808) % 18446744073709551616 - 9223372036854775808

def goI (ρ : String → Int) : GoTree → Option Int
  | .int n => some n
  | .ref x => some (ρ x)
  | .neg t => (goI ρ t).map fun x => wrap (-x)
  | .bin op l r =>
    match goI ρ l, goI ρ r with
    | some x, some y =>
      if op == "+" then some (wrap (x + y)) else if op == "-" then some (wrap (x - y))
      else if op == "*" then some (wrap (x * y))
      -- a zero divisor panics at run time (`none`); MinInt64 / -1 wraps to MinInt64, MinInt64 % -1 is 0
      else if op == "/" then (if y = 0 then none else some (wrap (Int.tdiv x y)))
      else if op == "%" then (if y = 0 then none else some (wrap (Int.tmod x y)))
      else none
    | _, _ => none
  | _ => none

def goCmp (op : String) (x y : Int) : Option Bool :=
  if op == "<" then some (x < y) else if op == "<=" then some (x ≤ y) else if op == ">" then some (x > y)
  else if op == ">=" then some (x ≥ y) else if op == "==" then some (x == y) else if op == "!=" then some (x != y) else none

def goB (ρ : String → Int) : GoTree → Option Bool
  | .bool b => some b
  | .not t => (goB ρ t).map (!·)
  | .bin op l r =>
    if op == "&&" then
      match goB ρ l with
      | some false => some false                    -- short circuit
      | some true => goB ρ r
      | none => none
    else if op == "||" then
      match goB ρ l with
      | some true => some true
      | some false => goB ρ r
      | none => none
    else
      match goI ρ l, goI ρ r with
      | some x, some y => goCmp op x y
      | _, _ => none
  | _ => none

/-! ### what the parser is expected to build -/

def IntE.tree (field : String) : IntE → GoTree
  | .lit n => .int n
  | .value => .ref field
  | .this f => .ref f
  | .add a b => .bin "+" (a.tree field) (b.tree field)
  | .sub a b => .bin "-" (a.tree field) (b.tree field)
  | .mul a b => .bin "*" (a.tree field) (b.tree field)
  | .div a b => .bin "/" (a.tree field) (b.tree field)
  | .mod a b => .bin "%" (a.tree field) (b.tree field)
  | .neg a => .neg (a.tree field)

def BoolE.tree (field : String) : BoolE → GoTree
  | .lit b => .bool b
  | .cmp op a b => .bin op.sym (a.tree field) (b.tree field)
  | .and a b => .bin "&&" (a.tree field) (b.tree field)
  | .or a b => .bin "||" (a.tree field) (b.tree field)
  | .not a => .not (a.tree field)

def IntE.prec : IntE → Nat
  | .add _ _ => 4 | .sub _ _ => 4 | .mul _ _ => 5 | .div _ _ => 5 | .mod _ _ => 5 | _ => 6

def BoolE.prec : BoolE → Nat
  | .or _ _ => 1 | .and _ _ => 2 | .cmp _ _ _ => 3 | _ => 6

/-- Go folds constant expressions exactly and rejects the program when a constant does not fit
    (compile-time failure — allowed by C10); the theorem is about programs that compile: every
    literal fits in int64 and no arithmetic node has only literal operands below it. -/
def IntE.isConst : IntE → Bool
  | .lit _ => true
  | .value => false
  | .this _ => false
  | .add a b => a.isConst && b.isConst
  | .sub a b => a.isConst && b.isConst
  | .mul a b => a.isConst && b.isConst
  | .div a b => a.isConst && b.isConst
  | .mod a b => a.isConst && b.isConst
  | .neg a => a.isConst

def IntE.compiles : IntE → Bool
  | .lit n => inI64 n
  | .value => true
  | .this _ => true
  | .add a b => a.compiles && b.compiles && !(a.isConst && b.isConst)
  | .sub a b => a.compiles && b.compiles && !(a.isConst && b.isConst)
  | .mul a b => a.compiles && b.compiles && !(a.isConst && b.isConst)
  | .div a b => a.compiles && b.compiles && !(a.isConst && b.isConst)
  | .mod a b => a.compiles && b.compiles && !(a.isConst && b.isConst)
  | .neg a => a.compiles && !a.isConst

/-- no division or remainder of the expression meets a zero divisor when Go evaluates it (two's-complement values):
    the run-time panic of `x / 0` is the known finding C17-cel-div; the theorems about Go's result assume it away -/
def IntE.divSafe (field : String) (ρ : String → Int) : IntE → Bool
  | .add a b => a.divSafe field ρ && b.divSafe field ρ
  | .sub a b => a.divSafe field ρ && b.divSafe field ρ
  | .mul a b => a.divSafe field ρ && b.divSafe field ρ
  | .div a b => a.divSafe field ρ && b.divSafe field ρ && (goI ρ (b.tree field) != some 0)
  | .mod a b => a.divSafe field ρ && b.divSafe field ρ && (goI ρ (b.tree field) != some 0)
  | .neg a => a.divSafe field ρ
  | _ => true

def BoolE.divSafe (field : String) (ρ : String → Int) : BoolE → Bool
  | .lit _ => true
  | .cmp _ a b => a.divSafe field ρ && b.divSafe field ρ
  | .and a b => a.divSafe field ρ && b.divSafe field ρ
  | .or a b => a.divSafe field ρ && b.divSafe field ρ
  | .not a => a.divSafe field ρ

def BoolE.compiles : BoolE → Bool
  | .lit _ => true
  | .cmp _ a b => a.compiles && b.compiles
  | .and a b => a.compiles && b.compiles
  | .or a b => a.compiles && b.compiles
  | .not a => a.compiles

end Cel
