def hello := "world"
