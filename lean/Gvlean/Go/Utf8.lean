/-
  Go embedding, part 2: Go's UTF-8 decoding of strings, as used by `for i, c := range s`
  and by `utf8.RuneCountInString`. Hand-written model of `unicode/utf8` (first-byte classes,
  accept ranges, RuneError with width 1 on any invalid byte); validated against the Go
  runtime by the `corr-rec` correspondence check (utf8 lines).

  Runes are `Int` (Go `rune = int32`; decoded values are 0..0x10FFFF).
-/
import Gvlean.Go.Basic

namespace Go

/-- Go `rune`; spelled `Int` in signatures so that `omega` sees through it -/
abbrev Rune := Int

def runeError : Int := 0xFFFD

@[inline] def isCont (b : UInt8) : Bool := 0x80 ≤ b && b ≤ 0xBF

/-- accept range of the second byte after a 3-byte lead `b0` (0xE0..0xEF) -/
def lo3 (b0 : UInt8) : UInt8 := if b0 == 0xE0 then 0xA0 else 0x80
def hi3 (b0 : UInt8) : UInt8 := if b0 == 0xED then 0x9F else 0xBF
/-- accept range of the second byte after a 4-byte lead `b0` (0xF0..0xF4) -/
def lo4 (b0 : UInt8) : UInt8 := if b0 == 0xF0 then 0x90 else 0x80
def hi4 (b0 : UInt8) : UInt8 := if b0 == 0xF4 then 0x8F else 0xBF

/-- Decode the rune starting with byte `b0` followed by `rest`.
    Returns the rune and the number `k` of bytes of `rest` that were consumed (0..3). -/
def decode1 (b0 : UInt8) (rest : Bytes) : Int × Nat :=
  if b0 < 0x80 then (Int.ofNat b0.toNat, 0)
  else if b0 < 0xC2 then (runeError, 0)
  else if b0 < 0xE0 then
    match rest with
    | b1 :: _ =>
      if isCont b1 then (Int.ofNat ((b0.toNat - 0xC0) * 64 + (b1.toNat - 0x80)), 1) else (runeError, 0)
    | _ => (runeError, 0)
  else if b0 < 0xF0 then
    match rest with
    | b1 :: b2 :: _ =>
      if lo3 b0 ≤ b1 && b1 ≤ hi3 b0 && isCont b2 then
        (Int.ofNat ((b0.toNat - 0xE0) * 4096 + (b1.toNat - 0x80) * 64 + (b2.toNat - 0x80)), 2)
      else (runeError, 0)
    | _ => (runeError, 0)
  else if b0 < 0xF5 then
    match rest with
    | b1 :: b2 :: b3 :: _ =>
      if lo4 b0 ≤ b1 && b1 ≤ hi4 b0 && isCont b2 && isCont b3 then
        (Int.ofNat ((b0.toNat - 0xF0) * 262144 + (b1.toNat - 0x80) * 4096 + (b2.toNat - 0x80) * 64 + (b3.toNat - 0x80)), 3)
      else (runeError, 0)
    | _ => (runeError, 0)
  else (runeError, 0)

/-- `for i, c := range s` starting at byte offset `off`. -/
def runesFrom (off : Nat) : Bytes → List (Int × Int)
  | [] => []
  | b0 :: rest =>
    let d := decode1 b0 rest
    ((off : Int), d.1) :: runesFrom (off + 1 + d.2) (rest.drop d.2)
termination_by s => s.length
decreasing_by simp only [List.length_drop, List.length_cons]; omega

/-- `for i, c := range s`. -/
def runes (s : Bytes) : List (Int × Int) := runesFrom 0 s

/-- `utf8.RuneCountInString(s)`. -/
def runeCount (s : Bytes) : Nat := (runes s).length

end Go
