/-
  Go embedding, part 3: the field types and values that occur in validated structs.

  * integers are mathematical `Int`s (constrained to the width by the harness that produces them);
  * floats are IEEE-754 BIT PATTERNS, decoded here to `nan | ±inf | ±m·2^e`; comparisons with a
    decimal literal are done exactly in integer arithmetic;
  * collections are `nil | length`, channels `nil | buffered count`, pointers/interfaces/funcs `nil | set`.

  Hand-written model of Go values; validated against the compiler/runtime by corr-sem.
-/
import Gvlean.Go.Basic

namespace Go

inductive Kind where
  | bool | int | int8 | int16 | int32 | int64 | uint | uint8 | uint16 | uint32 | uint64 | uintptr
  | float32 | float64 | complex64 | complex128 | string
  deriving DecidableEq, Repr, Inhabited

/-- the name of the kind constant in go/types (`types.Int8` …) -/
def Kind.goName : Kind → String
  | .bool => "Bool" | .int => "Int" | .int8 => "Int8" | .int16 => "Int16" | .int32 => "Int32" | .int64 => "Int64"
  | .uint => "Uint" | .uint8 => "Uint8" | .uint16 => "Uint16" | .uint32 => "Uint32" | .uint64 => "Uint64"
  | .uintptr => "Uintptr" | .float32 => "Float32" | .float64 => "Float64"
  | .complex64 => "Complex64" | .complex128 => "Complex128" | .string => "String"

def Kind.ofGoName (s : String) : Option Kind :=
  [Kind.bool, .int, .int8, .int16, .int32, .int64, .uint, .uint8, .uint16, .uint32, .uint64, .uintptr,
   .float32, .float64, .complex64, .complex128, .string].find? (fun k => k.goName == s)

def Kind.isInteger : Kind → Bool
  | .int | .int8 | .int16 | .int32 | .int64 | .uint | .uint8 | .uint16 | .uint32 | .uint64 | .uintptr => true
  | _ => false
def Kind.isFloat : Kind → Bool
  | .float32 | .float64 => true
  | _ => false
def Kind.isComplex : Kind → Bool
  | .complex64 | .complex128 => true
  | _ => false
/-- go/types `IsNumeric` = integer | float | complex -/
def Kind.isNumeric (k : Kind) : Bool := k.isInteger || k.isFloat || k.isComplex

/-- value range of an integer kind (`int`/`uint`/`uintptr` are 64-bit on the platforms modelled) -/
def Kind.intRange : Kind → Option (Int × Int)
  | .int8 => some (-128, 127) | .int16 => some (-32768, 32767)
  | .int32 => some (-2147483648, 2147483647)
  | .int | .int64 => some (-9223372036854775808, 9223372036854775807)
  | .uint8 => some (0, 255) | .uint16 => some (0, 65535) | .uint32 => some (0, 4294967295)
  | .uint | .uint64 | .uintptr => some (0, 18446744073709551615)
  | _ => none

/-- Field types. Anonymous nested structs are part of the declaration tree (`Gen.FieldT`), not of `Ty`. -/
inductive Ty where
  | basic (k : Kind)
  | slice | array (n : Nat) | map | chan | ptr | iface | func
  | strukt                       -- a struct type used as a leaf (named struct): outside the documented table
  | named (u : Ty)               -- defined/alias type with underlying type `u`
  deriving DecidableEq, Repr, Inhabited

/-- `typ.Underlying()` -/
def Ty.underlying : Ty → Ty
  | .named u => u.underlying
  | t => t

/-- the go/types class name of a type as matched by a type switch (`*types.Slice` …) -/
def Ty.className : Ty → String
  | .basic _ => "Basic" | .slice => "Slice" | .array _ => "Array" | .map => "Map" | .chan => "Chan"
  | .ptr => "Pointer" | .iface => "Interface" | .func => "Signature" | .strukt => "Struct" | .named _ => "Named"

/-- decoded float -/
inductive FVal where
  | nan
  | inf (neg : Bool)
  | fin (neg : Bool) (m : Nat) (e : Int)       -- (-1)^neg · m · 2^e
  deriving DecidableEq, Repr, Inhabited

/-- IEEE-754 binary64 bit pattern → value -/
def decodeF64 (bits : Nat) : FVal :=
  let sign := (bits / 2 ^ 63) % 2 == 1
  let ex : Nat := (bits / 2 ^ 52) % 2048
  let man : Nat := bits % 2 ^ 52
  if ex == 2047 then (if man == 0 then .inf sign else .nan)
  else if ex == 0 then .fin sign man (-1074)
  else .fin sign (man + 2 ^ 52) ((ex : Int) - 1075)

/-- IEEE-754 binary32 bit pattern → value -/
def decodeF32 (bits : Nat) : FVal :=
  let sign := (bits / 2 ^ 31) % 2 == 1
  let ex : Nat := (bits / 2 ^ 23) % 256
  let man : Nat := bits % 2 ^ 23
  if ex == 255 then (if man == 0 then .inf sign else .nan)
  else if ex == 0 then .fin sign man (-149)
  else .fin sign (man + 2 ^ 23) ((ex : Int) - 150)

def FVal.isZero : FVal → Bool
  | .fin _ 0 _ => true
  | _ => false

/-- a decimal constant `num / 10^k` -/
structure Dec where
  num : Int
  k : Nat
  deriving DecidableEq, Repr, Inhabited

/-- three-way comparison of a finite float with a decimal constant, exactly -/
def cmpFinDec (neg : Bool) (m : Nat) (e : Int) (d : Dec) : Ordering :=
  let sm : Int := if neg then -(m : Int) else (m : Int)
  let den : Int := (10 : Int) ^ d.k
  -- compare sm·2^e with num/den  ⇔  sm·2^e·den with num
  let (lhs, rhs) : Int × Int :=
    if e ≥ 0 then (sm * (2 : Int) ^ e.toNat * den, d.num) else (sm * den, d.num * (2 : Int) ^ (-e).toNat)
  compare lhs rhs

/-- `some ord` for ordered operands, `none` when the float is NaN (every comparison is false) -/
def cmpFloatDec (f : FVal) (d : Dec) : Option Ordering :=
  match f with
  | .nan => none
  | .inf true => some .lt
  | .inf false => some .gt
  | .fin neg m e => some (cmpFinDec neg m e d)

/-- IP classification of a string by the standard library: 0 = not an IP, 4, 6 (oracle supplied by the harness) -/
abbrev IpClass := Nat

inductive Val where
  | int (v : Int)
  | f64 (bits : Nat) | f32 (bits : Nat)
  | c128 (re im : Nat) | c64 (re im : Nat)
  | str (b : Bytes) (ip : IpClass)
  | bool (b : Bool)
  | coll (len : Option Nat)          -- slice / map: none = nil
  | chan (len : Option Nat)          -- none = nil, some k = k elements buffered
  | arr (n : Nat)
  | ref (isNil : Bool)               -- pointer / interface / func
  | strukt (fs : List (String × Val))
  deriving Repr, Inhabited

/-- canonical text of a value, the same as the harness prints for `err.Value` -/
def hexDigit (n : Nat) : Char := if n < 10 then Char.ofNat (48 + n) else Char.ofNat (87 + n)
def hexByte (b : UInt8) : String := String.ofList [hexDigit (b.toNat / 16), hexDigit (b.toNat % 16)]
def hexBytes (b : Bytes) : String := if b.isEmpty then "-" else String.join (b.map hexByte)
def hexNat (width : Nat) (n : Nat) : String :=
  String.ofList ((List.range width).reverse.map fun i => hexDigit ((n / 16 ^ i) % 16))

def Val.repr : Val → String
  | .int v => s!"i:{v}"
  | .f64 b => "f64:" ++ hexNat 16 b
  | .f32 b => "f32:" ++ hexNat 8 b
  | .c128 r i => "c128:" ++ hexNat 16 r ++ ":" ++ hexNat 16 i
  | .c64 r i => "c64:" ++ hexNat 8 r ++ ":" ++ hexNat 8 i
  | .str b _ => "s:" ++ hexBytes b
  | .bool b => if b then "b:true" else "b:false"
  | .coll none => "coll:nil"
  | .coll (some n) => s!"coll:{n}"
  | .chan none => "chan:nil"
  | .chan (some n) => s!"chan:{n}"
  | .arr n => s!"arr:{n}"
  | .ref true => "ref:nil"
  | .ref false => "ref:set"
  | .strukt _ => "struct"

/-! ### decimal literals (the marker parameters the harness uses: `[-+]?digits[.digits]`) -/

def digitsToNat (cs : List Char) : Option Nat :=
  if cs.isEmpty then none else
  cs.foldlM (fun acc c => if '0' ≤ c ∧ c ≤ '9' then some (acc * 10 + (c.toNat - 48)) else none) 0

/-- parse `[-+]?d+(.d+)?`; anything else is `none` (never a default) -/
def parseDec (s : String) : Option Dec :=
  let cs := s.toList
  let (neg, cs) := match cs with
    | '-' :: r => (true, r)
    | '+' :: r => (false, r)
    | r => (false, r)
  let ip := cs.takeWhile (· != '.')
  let rest := cs.dropWhile (· != '.')
  match rest with
  | [] => (digitsToNat ip).map fun n => { num := if neg then -(n : Int) else n, k := 0 }
  | _ :: fp =>
    match digitsToNat ip, digitsToNat fp with
    | some a, some b =>
      let n : Int := (a * 10 ^ fp.length + b : Nat)
      some { num := if neg then -n else n, k := fp.length }
    | _, _ => none

def Dec.isInt (d : Dec) : Bool := d.k == 0 || d.num % ((10 : Int) ^ d.k) == 0
def Dec.toInt (d : Dec) : Int := d.num / ((10 : Int) ^ d.k)

/-- compare an integer with a decimal constant exactly -/
def cmpIntDec (v : Int) (d : Dec) : Ordering := compare (v * (10 : Int) ^ d.k) d.num

end Go
