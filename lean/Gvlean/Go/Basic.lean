/-
  Go embedding, part 1: byte strings, panics, partial indexing and slicing.

  A Go `string` is an arbitrary byte sequence: `Bytes := List UInt8`.
  Go `int` is modelled as unbounded `Int` (strings are far below 2^63 bytes).
  `idx` / `slice` are PARTIAL exactly like Go: out of range ⇒ a panic outcome,
  never a default value.
-/
import Std.Tactic.Do

set_option mvcgen.warning false

namespace Go

abbrev Bytes := List UInt8

inductive Panic where
  | index | slice | other
  deriving Repr, DecidableEq, Inhabited

abbrev GoM := Except Panic

/-- Go `s[i]`. -/
def idx (s : Bytes) (i : Int) : GoM UInt8 :=
  if h : 0 ≤ i ∧ i.toNat < s.length then pure (s[i.toNat]'h.2) else throw .index

/-- Go `s[a:b]`. -/
def slice (s : Bytes) (a b : Int) : GoM Bytes :=
  if 0 ≤ a ∧ a ≤ b ∧ b ≤ s.length then pure ((s.drop a.toNat).take (b.toNat - a.toNat))
  else throw .slice

/-- Go `len(s)`. -/
@[inline] def len (s : Bytes) : Int := (s.length : Int)

/-- Go string literal. -/
def lit (s : String) : Bytes := s.toUTF8.toList

open Std.Do

@[spec]
theorem idx_spec (s : Bytes) (i : Int) (h : 0 ≤ i ∧ i.toNat < s.length) {Q : PostCond UInt8 (.except Panic .pure)} :
    ⦃Q.1 (s[i.toNat]'h.2)⦄ idx s i ⦃Q⦄ := by
  unfold idx
  simp only [h, and_self, ↓reduceDIte]
  mvcgen

@[spec]
theorem slice_spec (s : Bytes) (a b : Int) (h : 0 ≤ a ∧ a ≤ b ∧ b ≤ s.length) {Q : PostCond Bytes (.except Panic .pure)} :
    ⦃Q.1 ((s.drop a.toNat).take (b.toNat - a.toNat))⦄ slice s a b ⦃Q⦄ := by
  unfold slice
  simp only [h, and_self, ↓reduceIte]
  mvcgen

/-- From a total-correctness triple to an equation: the `.ok` is "never panics". -/
theorem eq_of_triple {α : Type} {x : GoM α} {v : α}
    (h : ⦃⌜True⌝⦄ x ⦃post⟨fun r => ⌜r = v⌝, fun _ => ⌜False⌝⟩⦄) : x = .ok v := by
  apply Except.of_wp_eq (prog := x) rfl (fun r => r = .ok v)
  have h' := h
  simp only [Triple] at h'
  refine SPred.entails.trans ?_ (SPred.entails.trans h' ?_)
  · simp
  · apply (wp x).mono
    refine ⟨fun a => ?_, ?_⟩
    · simp
    · simp

/-- A hypothesis may be moved into the (pure) precondition of a triple. -/
theorem triple_pure_pre {α : Type} {x : GoM α} {P : Prop} {Q : PostCond α (.except Panic .pure)}
    (h : P → ⦃⌜True⌝⦄ x ⦃Q⦄) : ⦃⌜P⌝⦄ x ⦃Q⦄ := by
  by_cases hp : P
  · have := h hp
    simp only [Triple] at *
    refine SPred.entails.trans ?_ this
    simp
  · simp only [Triple]
    simp [hp]

end Go
