/-
  Go embedding, part 4: the (small) fragment of Go expression syntax that the non-CEL rules emit,
  with a canonical, whitespace-free rendering used by the structural correspondence (corr-gen).
-/
import Gvlean.Go.Val

namespace Go

inductive GoExpr where
  | sel (f : String)                          -- t.<f>
  | ident (n : String)                        -- nil, ip, true …
  | raw (text : String)                       -- a marker parameter / literal pasted verbatim
  | strlit (s : String)                       -- fmt %q of a marker parameter
  | not (e : GoExpr)
  | paren (e : GoExpr)
  | bin (op : String) (l r : GoExpr)
  | call (fn : String) (arg : GoExpr)         -- len(x), utf8.RuneCountInString(x), validationhelper.F(x), net.ParseIP(x)
  | method (recv : GoExpr) (m : String)       -- ip.To4()
  | initThen (v : String) (init cond : GoExpr)  -- `v := init; cond` (the form used inside `if`)
  deriving Repr, Inhabited, DecidableEq

/-- model of strconv.Quote / fmt %q for the strings the harness uses (printable text; the control
    characters get Go's escapes) -/
def goQuote (s : String) : String :=
  let esc (c : Char) : String :=
    if c == '"' then "\\\"" else if c == '\\' then "\\\\"
    else if c == '\n' then "\\n" else if c == '\t' then "\\t" else if c == '\r' then "\\r"
    else if c == '\x07' then "\\a" else if c == '\x08' then "\\b" else if c == '\x0c' then "\\f" else if c == '\x0b' then "\\v"
    else if c.toNat < 32 || c.toNat == 127 then "\\x" ++ hexNat 2 c.toNat
    else String.singleton c
  "\"" ++ String.join (s.toList.map esc) ++ "\""

/-- canonical rendering: Go source text with every blank removed outside string literals -/
def GoExpr.render : GoExpr → String
  | .sel f => "t." ++ f
  | .ident n => n
  | .raw t => String.ofList (t.toList.filter (· != ' '))
  | .strlit s => goQuote s
  | .not e => "!" ++ e.render
  | .paren e => "(" ++ e.render ++ ")"
  | .bin op l r => l.render ++ op ++ r.render
  | .call fn a => fn ++ "(" ++ a.render ++ ")"
  | .method r m => r.render ++ "." ++ m ++ "()"
  | .initThen v i c => v ++ ":=" ++ i.render ++ ";" ++ c.render

/-- the type guard of a rule factory -/
inductive Guard where
  | none                                         -- no guard (required, ipv4, ipv6)
  | numericBasic                                 -- Underlying is *types.Basic with Info()&IsNumeric
  | stringBasic                                  -- Underlying is *types.Basic of Kind String
  | underlyingIn (classes : List String)         -- type switch over Underlying()
  | enumKinds (str num : List String)            -- enum: basic kinds accepted as string / numeric; non-basic = custom
  deriving Repr, Inhabited

structure RuleInfo where
  name : String
  guard : Guard
  needsExpr : Bool          -- factory returns nil when the marker has no `=value`
  errSuffix : String        -- Err<Path><errSuffix>Validation
  legacyFmt : String        -- legacy alias format "Err%s%s<…>Validation" (struct, field)
  keyFmt : String           -- GeneratorMemory key format
  keyWithStruct : Bool      -- key = structName ++ cleanedPath (true) or cleanedPath (false)
  imports : List String
  deriving Repr, Inhabited

end Go
