/-
  C13 — what a textual UUID is. Independent of the code and of the model.
-/
import Gvlean.Go.Basic

namespace Spec
open Go

def isHex (b : UInt8) : Bool :=
  (48 ≤ b && b ≤ 57) || (97 ≤ b && b ≤ 102) || (65 ≤ b && b ≤ 70)

/-- positions of the four hyphens in the 8-4-4-4-12 layout -/
def hyphenPos (i : Nat) : Bool := i == 8 || i == 13 || i == 18 || i == 23

def isVersion (b : UInt8) : Bool := 49 ≤ b && b ≤ 53                     -- '1'..'5'
def isVariant (b : UInt8) : Bool :=                                      -- 8 9 a b A B
  b == 56 || b == 57 || b == 97 || b == 98 || b == 65 || b == 66

/-- every hexadecimal position of `s` satisfies `p` -/
def hexAll (s : Bytes) (p : UInt8 → Bool) : Bool :=
  (List.range 36).all fun i => hyphenPos i || s[i]?.any p

/-- 36 bytes, '-' at 8/13/18/23, hex digits elsewhere -/
def uuidShape (s : Bytes) : Bool :=
  s.length == 36 && ((List.range 36).all fun i => !hyphenPos i || s[i]? == some 45) && hexAll s isHex

/-- C13: shape ∧ (RFC 4122 version/variant ∨ nil UUID ∨ max UUID in any case) -/
def uuidSpecB (s : Bytes) : Bool :=
  uuidShape s &&
    ((s[14]?.any isVersion && s[19]?.any isVariant)
      || hexAll s (· == 48)
      || hexAll s (fun b => b == 102 || b == 70))

/-- Prop-valued reading of the same definition. -/
def UuidSpec (s : Bytes) : Prop :=
  s.length = 36 ∧ (∀ i < 36, hyphenPos i = true → s[i]? = some 45) ∧
  (∀ i < 36, hyphenPos i = false → ∃ b, s[i]? = some b ∧ isHex b = true) ∧
  ((∃ v w, s[14]? = some v ∧ s[19]? = some w ∧ isVersion v = true ∧ isVariant w = true)
   ∨ (∀ i < 36, hyphenPos i = false → s[i]? = some 48)
   ∨ (∀ i < 36, hyphenPos i = false → s[i]? = some 102 ∨ s[i]? = some 70))

theorem uuidSpecB_iff (s : Bytes) : uuidSpecB s = true ↔ UuidSpec s := by
  simp only [uuidSpecB, uuidShape, hexAll, UuidSpec, Bool.and_eq_true, Bool.or_eq_true,
    List.all_eq_true, List.mem_range, beq_iff_eq, Bool.not_eq_true', Option.any_eq_true]
  constructor
  · rintro ⟨⟨⟨h1, h2⟩, h3⟩, h4⟩
    refine ⟨h1, ?_, ?_, ?_⟩
    · intro i hi hh; have := h2 i hi; simp [hh] at this; exact this
    · intro i hi hh; have := h3 i hi; simp [hh] at this; exact this
    · rcases h4 with (⟨⟨v, hv, hv'⟩, ⟨w, hw, hw'⟩⟩ | h) | h
      · exact Or.inl ⟨v, w, hv, hw, hv', hw'⟩
      · right; left; intro i hi hh; have := h i hi; simp [hh] at this; exact this
      · right; right; intro i hi hh; have := h i hi; simp [hh] at this
        obtain ⟨b, hb, hb'⟩ := this
        rcases hb' with rfl | rfl <;> simp [hb]
  · rintro ⟨h1, h2, h3, h4⟩
    refine ⟨⟨⟨h1, ?_⟩, ?_⟩, ?_⟩
    · intro i hi
      cases hh : hyphenPos i with
      | true => simp [h2 i hi hh]
      | false => simp
    · intro i hi
      cases hh : hyphenPos i with
      | true => simp
      | false => simpa using h3 i hi hh
    · rcases h4 with ⟨v, w, hv, hw, hv', hw'⟩ | h | h
      · exact Or.inl (Or.inl ⟨⟨v, hv, hv'⟩, ⟨w, hw, hw'⟩⟩)
      · left; right; intro i hi
        cases hh : hyphenPos i with
        | true => simp
        | false => simp [h i hi hh]
      · right; intro i hi
        cases hh : hyphenPos i with
        | true => simp
        | false => rcases h i hi hh with h' | h' <;> simp [h']

/-- swap the case of an ASCII letter -/
def swapCase (b : UInt8) : UInt8 :=
  if 97 ≤ b && b ≤ 122 then b - 32 else if 65 ≤ b && b ≤ 90 then b + 32 else b

/-- apply `swapCase` at the positions selected by `σ` -/
def caseMap (σ : Nat → Bool) (s : Bytes) : Bytes :=
  s.mapIdx fun i b => if σ i then swapCase b else b

end Spec
