/-
  C07 / C09: which entries `Validate()` must report for a struct declaration and a value.
  Written independently of the generator model:
    * fields are visited in declaration order, nested anonymous structs in place, depth first;
    * every name of a multi-name field is a field of its own;
    * on each field first the struct-level markers (sorted by identifier), then the field's own
      markers (sorted) — one rule per written marker that applies to the field's type;
    * one entry per violated rule: Path = struct name · nested field names · field name,
      Type = marker name, Value = the field's current value.
-/
import Gvlean.Gen.Decl
import Gvlean.Spec.Rules

namespace Spec
open Go Gen

structure Entry where
  path : List String
  type : String
  value : String
  deriving Repr, DecidableEq, Inhabited

def ruleName (m : Marker) : Option String :=
  if m.id.startsWith "govalid:" then some (m.id.drop 8).toString else none

def dotted (parts : List String) : String := ".".intercalate parts

/-- entries of one (single-name) leaf field under the marker list `ms` -/
def leafEntries (path : List String) (name : String) (ty : Ty) (ms : List Marker) (fv : Val) : Option (List Entry) :=
  ms.foldlM (fun acc m =>
    match ruleName m with
    | none => some acc
    | some r =>
      if applies r ty then
        match violates r m.expr ty fv with
        | none => none                         -- outside the documented domain
        | some true => some (acc ++ [{ path := path ++ [name], type := r, value := fv.repr }])
        | some false => some acc
      else some acc) []

def getField (v : Val) (f : String) : Option Val :=
  match v with
  | .strukt fs => fs.lookup f
  | _ => none

mutual
def fieldEntries (tm : List Marker) (path : List String) (sv : Val) : FieldT → Option (List Entry)
  | .leaf names ty doc =>
    let ms := tm ++ sortById (markersOfDoc doc)
    names.foldlM (fun acc n =>
      match getField sv n with
      | none => none
      | some fv => (leafEntries path n ty ms fv).map (acc ++ ·)) []
  | .nest names _ fields =>
    names.foldlM (fun acc n =>
      match getField sv n with
      | none => none
      | some nv => (fieldsEntries tm (path ++ [n]) nv fields).map (acc ++ ·)) []
def fieldsEntries (tm : List Marker) (path : List String) (sv : Val) : List FieldT → Option (List Entry)
  | [] => some []
  | f :: fs =>
    match fieldEntries tm path sv f, fieldsEntries tm path sv fs with
    | some a, some b => some (a ++ b)
    | _, _ => none
end

/-- the report required for declaration `d` on struct value `v` (`none` = outside the documented domain) -/
def violated (d : Decl) (v : Val) : Option (List Entry) :=
  fieldsEntries (sortById (markersOfDoc d.doc)) [d.name] v d.fields

def Entry.render (e : Entry) : String := dotted e.path ++ "|" ++ e.type ++ "|" ++ e.value

def renderReport (es : List Entry) : String :=
  if es.isEmpty then "nil" else "report " ++ " ".intercalate (es.map Entry.render)

end Spec
