/-
  C07 / C09: which entries `Validate()` must report for a struct declaration and a value.
  Written independently of the generator model:
    * fields are visited in declaration order, nested anonymous structs in place, depth first;
    * every name of a multi-name field is a field of its own;
    * on each field first the struct-level markers (sorted by identifier), then the field's own
      markers (sorted) — one rule per written marker that applies to the field's type;
    * one entry per violated rule: Path = struct name · nested field names · field name,
      Type = marker name, Value = the field's current value.
-/
import Gvlean.Gen.Decl
import Gvlean.Spec.Rules

namespace Spec
open Go Gen

structure Entry where
  path : List String
  type : String
  value : String
  deriving Repr, DecidableEq, Inhabited

def ruleName (m : Marker) : Option String :=
  if m.id.startsWith "govalid:" then some (m.id.drop 8).toString else none

def dotted (parts : List String) : String := ".".intercalate parts

/-- the entry (if any) of one written marker on one leaf field -/
def markerEntry (path : List String) (name : String) (ty : Ty) (m : Marker) (fv : Val) : Option (List Entry) :=
  match ruleName m with
  | none => some []
  | some r =>
    if applies r ty then
      match violates r m.expr ty fv with
      | none => none                         -- outside the documented domain
      | some true => some [{ path := path ++ [name], type := r, value := fv.repr }]
      | some false => some []
    else some []

/-- entries of one (single-name) leaf field under the marker list `ms`, in marker order -/
def leafEntries (path : List String) (name : String) (ty : Ty) : List Marker → Val → Option (List Entry)
  | [], _ => some []
  | m :: ms, fv =>
    match markerEntry path name ty m fv, leafEntries path name ty ms fv with
    | some e, some rest => some (e ++ rest)
    | _, _ => none

def getField (v : Val) (f : String) : Option Val :=
  match v with
  | .strukt fs => fs.lookup f
  | _ => none

/-- every name of a multi-name field is a field of its own -/
def namesEntries (path : List String) (ty : Ty) (ms : List Marker) (sv : Val) : List String → Option (List Entry)
  | [] => some []
  | n :: ns =>
    match getField sv n with
    | none => none
    | some fv =>
      match leafEntries path n ty ms fv, namesEntries path ty ms sv ns with
      | some a, some b => some (a ++ b)
      | _, _ => none

mutual
def fieldEntries (tm : List Marker) (path : List String) (sv : Val) : FieldT → Option (List Entry)
  | .leaf names ty doc => namesEntries path ty (tm ++ sortById (markersOfDoc doc)) sv names
  | .nest names _ fields => nestEntries tm path sv fields names
/-- a nested anonymous struct declared with the names `ns` (one nested struct per name) -/
def nestEntries (tm : List Marker) (path : List String) (sv : Val) (fields : List FieldT) : List String → Option (List Entry)
  | [] => some []
  | n :: ns =>
    match getField sv n with
    | none => none
    | some nv =>
      match fieldsEntries tm (path ++ [n]) nv fields, nestEntries tm path sv fields ns with
      | some a, some b => some (a ++ b)
      | _, _ => none
def fieldsEntries (tm : List Marker) (path : List String) (sv : Val) : List FieldT → Option (List Entry)
  | [] => some []
  | f :: fs =>
    match fieldEntries tm path sv f, fieldsEntries tm path sv fs with
    | some a, some b => some (a ++ b)
    | _, _ => none
end

/-- the report required for declaration `d` on struct value `v` (`none` = outside the documented domain) -/
def violated (d : Decl) (v : Val) : Option (List Entry) :=
  fieldsEntries (sortById (markersOfDoc d.doc)) [d.name] v d.fields

/-! ### C09: markers written on a nested anonymous struct

A marker list `ml` written on a nested anonymous struct field governs the DIRECT leaf fields of that struct
(every name on its own); struct-typed members get no check from it. `path` is the path the entries are
reported under — struct name · nested field names up to and including the nested struct. (The generator reports
these entries under the path WITHOUT the nested struct's name: known finding C07-K8; `Entry.rv` is what C02/C09
compare.) -/

def directEntries (path : List String) (ml : List Marker) (nv : Val) : List FieldT → Option (List Entry)
  | [] => some []
  | .leaf names ty _ :: fs =>
    match namesEntries path ty ml nv names, directEntries path ml nv fs with
    | some a, some b => some (a ++ b)
    | _, _ => none
  | .nest _ _ _ :: fs => directEntries path ml nv fs

/-- rule and value of an entry (its Path aside) -/
def Entry.rv (e : Entry) : String × String := (e.type, e.value)

mutual
/-- as `fieldEntries`, with the markers written on nested anonymous structs taken into account -/
def fieldEntriesN (tm : List Marker) (path : List String) (sv : Val) : FieldT → Option (List Entry)
  | .leaf names ty doc => namesEntries path ty (tm ++ sortById (markersOfDoc doc)) sv names
  | .nest names doc fields => nestEntriesN tm doc path sv fields names
termination_by f => (sizeOf f, 0)
/-- per name of the nested struct: the rules handed down to its direct leaves, then the fields' own rules -/
def nestEntriesN (tm : List Marker) (doc : List String) (path : List String) (sv : Val) (fields : List FieldT) : List String → Option (List Entry)
  | [] => some []
  | n :: ns =>
    match getField sv n with
    | none => none
    | some nv =>
      match directEntries (path ++ [n]) (sortById (markersOfDoc doc)) nv fields, fieldsEntriesN tm (path ++ [n]) nv fields, nestEntriesN tm doc path sv fields ns with
      | some d, some a, some b => some (d ++ a ++ b)
      | _, _, _ => none
termination_by names => (sizeOf fields, names.length + 1)
def fieldsEntriesN (tm : List Marker) (path : List String) (sv : Val) : List FieldT → Option (List Entry)
  | [] => some []
  | f :: fs =>
    match fieldEntriesN tm path sv f, fieldsEntriesN tm path sv fs with
    | some a, some b => some (a ++ b)
    | _, _ => none
termination_by fs => (sizeOf fs, 0)
end

/-- the report required for `d` on `v` when nested anonymous structs may carry markers of their own -/
def violatedN (d : Decl) (v : Val) : Option (List Entry) :=
  fieldsEntriesN (sortById (markersOfDoc d.doc)) [d.name] v d.fields


/-! ### C15: one cancellation point per validated field -/

def leafHasRule (ty : Ty) (ms : List Marker) : Bool :=
  ms.any fun m => match ruleName m with | some r => applies r ty | none => false

mutual
def fieldPolls (tm : List Marker) : FieldT → Nat
  | .leaf names ty doc => if leafHasRule ty (tm ++ sortById (markersOfDoc doc)) then names.length else 0
  | .nest names _ fields => names.length * fieldsPolls tm fields
def fieldsPolls (tm : List Marker) : List FieldT → Nat
  | [] => 0
  | f :: fs => fieldPolls tm f + fieldsPolls tm fs
end

/-- the number of validated fields of a declaration = the number of cancellation points an undisturbed
    `ValidateContext` run must pass ("a cancellation point precedes every validated field") -/
def validatedFields (d : Decl) : Nat := fieldsPolls (sortById (markersOfDoc d.doc)) d.fields

def Entry.render (e : Entry) : String := dotted e.path ++ "|" ++ e.type ++ "|" ++ e.value

def renderReport (es : List Entry) : String :=
  if es.isEmpty then "nil" else "report " ++ " ".intercalate (es.map Entry.render)

end Spec
