/-
  C12 — the documented scheme/host shape of a URL. Independent of the code and of the model:
  the scheme tables below are hand-written here, NOT extracted from url.go.
  (The property text says "32 schemes"; the documented/source table has these 31 — the set is
  taken as the meaning, see DESIGN.md §4 C12.)
-/
import Gvlean.Go.Basic

namespace Spec
open Go

/-- supported lower-case schemes -/
def schemes : List Bytes := [
  [104, 116, 116, 112] /- http -/,
  [104, 116, 116, 112, 115] /- https -/,
  [102, 116, 112] /- ftp -/,
  [102, 116, 112, 115] /- ftps -/,
  [115, 115, 104] /- ssh -/,
  [115, 102, 116, 112] /- sftp -/,
  [115, 109, 116, 112] /- smtp -/,
  [115, 109, 116, 112, 115] /- smtps -/,
  [105, 109, 97, 112] /- imap -/,
  [105, 109, 97, 112, 115] /- imaps -/,
  [112, 111, 112, 51] /- pop3 -/,
  [112, 111, 112, 51, 115] /- pop3s -/,
  [116, 101, 108, 110, 101, 116] /- telnet -/,
  [102, 105, 108, 101] /- file -/,
  [100, 97, 116, 97] /- data -/,
  [119, 115] /- ws -/,
  [119, 115, 115] /- wss -/,
  [103, 105, 116] /- git -/,
  [115, 118, 110] /- svn -/,
  [108, 100, 97, 112] /- ldap -/,
  [108, 100, 97, 112, 115] /- ldaps -/,
  [109, 97, 105, 108, 116, 111] /- mailto -/,
  [110, 101, 119, 115] /- news -/,
  [110, 110, 116, 112] /- nntp -/,
  [105, 114, 99] /- irc -/,
  [105, 114, 99, 115] /- ircs -/,
  [114, 116, 115, 112] /- rtsp -/,
  [114, 116, 109, 112] /- rtmp -/,
  [115, 105, 112] /- sip -/,
  [115, 105, 112, 115] /- sips -/,
  [120, 109, 112, 112] /- xmpp -/
]

/-- schemes of the opaque form `scheme:rest` (no host required) -/
def opaqueSchemes : List Bytes := [
  [109, 97, 105, 108, 116, 111] /- mailto -/,
  [110, 101, 119, 115] /- news -/,
  [110, 110, 116, 112] /- nntp -/,
  [100, 97, 116, 97] /- data -/,
  [102, 105, 108, 101] /- file -/
]

/-- space, control byte 0x00–0x1F, or DEL -/
def forbiddenByte (b : UInt8) : Bool := b == 32 || b < 32 || b == 127

/-- ASCII letter, digit or '[' -/
def hostStart (b : UInt8) : Bool :=
  (97 ≤ b && b ≤ 122) || (65 ≤ b && b ≤ 90) || (48 ≤ b && b ≤ 57) || b == 91

/-- what must follow `scheme:` -/
def restOk (sc rest : Bytes) : Bool :=
  if opaqueSchemes.contains sc then rest != []
  else match rest with
    | 47 :: 47 :: h :: _ => hostStart h
    | _ => false

/-- C12: some supported scheme `sc` with `sc ++ ":"` a prefix of `s`, no forbidden byte anywhere,
    and the remainder of the right form. -/
def urlSpecB (s : Bytes) : Bool :=
  schemes.any fun sc =>
    (sc ++ [58]).isPrefixOf s && s.all (fun b => !forbiddenByte b) && restOk sc (s.drop (sc.length + 1))

/-- Prop-valued reading. -/
def UrlSpec (s : Bytes) : Prop :=
  ∃ sc rest, sc ∈ schemes ∧ s = sc ++ 58 :: rest ∧ (∀ b ∈ s, forbiddenByte b = false) ∧
    (sc ∈ opaqueSchemes → rest ≠ []) ∧
    (sc ∉ opaqueSchemes → ∃ h t, rest = 47 :: 47 :: h :: t ∧ hostStart h = true)

end Spec
