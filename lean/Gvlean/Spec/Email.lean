/-
  C11 — the documented e-mail address grammar. Independent of the code and of the model.
-/
import Gvlean.Go.Basic

namespace Spec
open Go

def isAlnum (b : UInt8) : Bool := (97 ≤ b && b ≤ 122) || (65 ≤ b && b ≤ 90) || (48 ≤ b && b ≤ 57)

/-- the allowed specials of an atom:  ! # $ % & ' * + - / = ? ^ _ ` { | } ~ -/
def atextSpecials : List UInt8 := [33, 35, 36, 37, 38, 39, 42, 43, 45, 47, 61, 63, 94, 95, 96, 123, 124, 125, 126]

/-- atom character: ASCII letter, digit or one of the allowed specials ('.' is the separator, not atext) -/
def atext (b : UInt8) : Bool := isAlnum b || atextSpecials.contains b

/-- split on a separator byte; always returns at least one (possibly empty) piece -/
def splitOn (sep : UInt8) : Bytes → List Bytes
  | [] => [[]]
  | b :: bs =>
    if b = sep then [] :: splitOn sep bs
    else match splitOn sep bs with
      | h :: t => (b :: h) :: t
      | [] => [[b]]

/-- local part: dot-separated non-empty atoms -/
def localOk (l : Bytes) : Bool :=
  1 ≤ l.length && l.length ≤ 64 && (splitOn 46 l).all fun a => a != [] && a.all atext

/-- a domain label: 1–63 letters, digits or hyphens, no hyphen at either end -/
def labelOk (lb : Bytes) : Bool :=
  1 ≤ lb.length && lb.length ≤ 63 && lb.all (fun b => isAlnum b || b == 45) &&
    lb.head? != some 45 && lb.getLast? != some 45

/-- domain: at most 253 bytes, at least two dot-separated labels -/
def domainOk (d : Bytes) : Bool :=
  d.length ≤ 253 && 2 ≤ (splitOn 46 d).length && (splitOn 46 d).all labelOk

/-- C11: length 5–254, exactly one '@', valid local part before it and valid domain after it -/
def emailSpecB (s : Bytes) : Bool :=
  5 ≤ s.length && s.length ≤ 254 && s.count 64 == 1 &&
    localOk (s.takeWhile (· != 64)) && domainOk ((s.dropWhile (· != 64)).drop 1)

end Spec
