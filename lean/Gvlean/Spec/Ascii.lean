/-
  C06 — the languages of the `alpha` and `numeric` markers. Independent of code and model.
-/
import Gvlean.Go.Basic

namespace Spec
open Go

def isAsciiLetter (b : UInt8) : Bool := (97 ≤ b && b ≤ 122) || (65 ≤ b && b ≤ 90)
def isAsciiDigit (b : UInt8) : Bool := 48 ≤ b && b ≤ 57

/-- alpha: only ASCII letters (the empty string is allowed) -/
def alphaSpecB (s : Bytes) : Bool := s.all isAsciiLetter

/-- numeric: one or more ASCII digits -/
def numericSpecB (s : Bytes) : Bool := s != [] && s.all isAsciiDigit

end Spec
