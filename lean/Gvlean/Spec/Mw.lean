/-
  C20 stated outright (independent of the regenerated programs): what a validation middleware must do
  with one request, given what the JSON decoder and the validator answer.
-/
import Gvlean.Gen.Mw

namespace Spec
open Mw

/-- what C20 demands of a middleware for one request, stated outright -/
def specAct {α : Type} (ctxVariant : Bool) (e : Env α) : Act :=
  match e.decode e.zero with
  | none => .respond 400 "Invalid JSON\n"
  | some t =>
    match e.validate ctxVariant t with
    | .ok => .callNext
    | .err msg ca de => .respond (if ctxVariant && (ca || de) then 408 else 400) ("Validation error: " ++ msg ++ "\n")

end Spec
