/-
  C01–C06: what each marker MEANS on a field value, written directly from the property statements.
  Independent of the generator model and of every regenerated file.
  `applies rule ty` is the documented (marker × field type) table; outside it nothing is claimed.
-/
import Gvlean.Go.Val
import Gvlean.Go.Utf8
import Gvlean.Spec.Uuid
import Gvlean.Spec.Url
import Gvlean.Spec.Email
import Gvlean.Spec.Ascii

namespace Spec
open Go

/-- numeric order relation of a field value against a decimal bound; `none` = NaN (unordered) -/
def numCmp (ty : Ty) (v : Val) (d : Dec) : Option (Option Ordering) :=
  match ty.underlying, v with
  | .basic k, .int x => if k.isInteger then some (some (cmpIntDec x d)) else none
  | .basic .float64, .f64 b => some (cmpFloatDec (decodeF64 b) d)
  | .basic .float32, .f32 b => some (cmpFloatDec (decodeF32 b) d)
  | _, _ => none

/-- does `value OP N` hold? NaN satisfies no relation. -/
def relHolds (op : String) (o : Option Ordering) : Bool :=
  match o, op with
  | some .gt, "gt" => true
  | some .gt, "gte" => true | some .eq, "gte" => true
  | some .lt, "lt" => true
  | some .lt, "lte" => true | some .eq, "lte" => true
  | _, _ => false

/-- the zero value of the field's type (C02) -/
def isZero (ty : Ty) (v : Val) : Option Bool :=
  match ty.underlying, v with
  | .basic .string, .str b _ => some b.isEmpty
  | .basic .bool, .bool b => some (!b)
  | .basic k, .int x => if k.isInteger then some (x == 0) else none
  | .basic .float64, .f64 b => some (decodeF64 b).isZero                     -- +0.0 and -0.0
  | .basic .float32, .f32 b => some (decodeF32 b).isZero
  | .basic .complex128, .c128 r i => some ((decodeF64 r).isZero && (decodeF64 i).isZero)
  | .basic .complex64, .c64 r i => some ((decodeF32 r).isZero && (decodeF32 i).isZero)
  | .ptr, .ref n => some n | .iface, .ref n => some n | .func, .ref n => some n
  | .slice, .coll l => some l.isNone | .map, .coll l => some l.isNone | .chan, .chan l => some l.isNone
  | .array n, .arr m => if n == m then some (n == 0) else none                 -- a non-empty array is never "missing"
  | _, _ => none

/-- `len()` of a collection (C04): nil ↦ 0, array ↦ declared size, channel ↦ buffered count -/
def collLen (ty : Ty) (v : Val) : Option Nat :=
  match ty.underlying, v with
  | .slice, .coll l => some (l.getD 0) | .map, .coll l => some (l.getD 0)
  | .chan, .chan l => some (l.getD 0)
  | .array n, .arr m => if n == m then some n else none          -- (a well-typed array value has the declared size)
  | _, _ => none

def trim (s : String) : String := s.trimAscii.toString

/-- enum items: split on ',' and trimmed (C05) -/
def enumItems (param : String) : List String := (param.splitOn ",").map trim

/-- is the value one of the listed items? strings byte-exact; numbers by numeric value -/
def enumMember (ty : Ty) (v : Val) (items : List String) : Option Bool :=
  match ty.underlying, v with
  | .basic .string, .str b _ => some (items.any fun it => it.toUTF8.toList == b)
  | .basic k, .int x =>
    if k.isInteger then
      if items.all (fun it => (parseDec it).isSome) then
        some (items.any fun it => match parseDec it with | some d => cmpIntDec x d == .eq | none => false)
      else none
    else none
  | .basic .float64, .f64 b =>
    if items.all (fun it => (parseDec it).isSome) then
      some (items.any fun it => match parseDec it with | some d => cmpFloatDec (decodeF64 b) d == some .eq | none => false)
    else none
  | .basic .float32, .f32 b =>
    if items.all (fun it => (parseDec it).isSome) then
      some (items.any fun it => match parseDec it with | some d => cmpFloatDec (decodeF32 b) d == some .eq | none => false)
    else none
  | _, _ => none

def isStringTy (ty : Ty) : Bool := match ty.underlying with | .basic .string => true | _ => false
def isOrderedNumeric (ty : Ty) : Bool := match ty.underlying with | .basic k => k.isInteger || k.isFloat | _ => false
def isCollection (ty : Ty) : Bool :=
  match ty.underlying with | .slice | .array _ | .map | .chan => true | _ => false

/-- the documented (marker × field type) table (DESIGN.md Appendix C) -/
def applies (rule : String) (ty : Ty) : Bool :=
  match rule with
  | "gt" | "gte" | "lt" | "lte" => isOrderedNumeric ty
  | "required" =>
    (match ty.underlying with
      | .basic _ | .ptr | .iface | .func | .slice | .map | .chan => true
      | .array n => n ≥ 1
      | _ => false)
  | "minlength" | "maxlength" | "length" => isStringTy ty
  | "minitems" | "maxitems" => isCollection ty
  | "enum" => isStringTy ty || (isOrderedNumeric ty && ty.underlying != .basic .uintptr)
  | "email" | "url" | "uuid" | "alpha" | "numeric" | "ipv4" | "ipv6" => isStringTy ty
  | _ => false

/-- Is the rule VIOLATED by this value? `none` = outside the documented domain (parameter not a
    representable literal, value of another type, …). -/
def violates (rule : String) (param : Option String) (ty : Ty) (v : Val) : Option Bool :=
  match rule with
  | "gt" | "gte" | "lt" | "lte" =>
    (match param.bind parseDec with
      | none => none
      | some d => (numCmp ty v d).map fun o => !relHolds rule o)
  | "required" => isZero ty v
  | "minlength" | "maxlength" | "length" =>
    (match param.bind parseDec, v with
      | some d, .str b _ =>
        if d.isInt && d.toInt ≥ 0 then
          let n : Int := runeCount b
          some (match rule with
            | "minlength" => n < d.toInt
            | "maxlength" => n > d.toInt
            | _ => n != d.toInt)
        else none
      | _, _ => none)
  | "minitems" | "maxitems" =>
    (match param.bind parseDec, collLen ty v with
      | some d, some n =>
        if d.isInt && d.toInt ≥ 0 then
          some (if rule == "minitems" then (n : Int) < d.toInt else (n : Int) > d.toInt)
        else none
      | _, _ => none)
  | "enum" => (match param with
      | none => none
      | some p => (enumMember ty v (enumItems p)).map (!·))
  | "email" => (match v with | .str b _ => some (!emailSpecB b) | _ => none)
  | "url" => (match v with | .str b _ => some (!urlSpecB b) | _ => none)
  | "uuid" => (match v with | .str b _ => some (!uuidSpecB b) | _ => none)
  | "alpha" => (match v with | .str b _ => some (!alphaSpecB b) | _ => none)
  | "numeric" => (match v with | .str b _ => some (!numericSpecB b) | _ => none)
  | "ipv4" => (match v with | .str _ cls => some (cls != 4) | _ => none)
  | "ipv6" => (match v with | .str _ cls => some (cls == 0 || cls == 4) | _ => none)   -- not an IP, or an IPv4 address
  | _ => none

end Spec
