/-
  Proofs about the TRANSLATED url.go.
-/
import Gvlean.Generated.Helpers
import Gvlean.Proofs.Loop
import Gvlean.Spec.Url

set_option mvcgen.warning false

namespace Proofs
open Go Gen Std.Do Spec

/-- `c` is the position of a ':' that terminates a run of scheme characters starting at index 1 -/
def GoodColon (s : Bytes) (c : Nat) : Prop :=
  1 ≤ c ∧ c < s.length ∧ s[c]? = some 58 ∧
    ∀ j, 1 ≤ j → j < c → ∃ b, s[j]? = some b ∧ isValidSchemeChar b = true

theorem colon_not_schemeChar : isValidSchemeChar 58 = false := by decide

theorem GoodColon_unique {s : Bytes} {c c' : Nat} (h : GoodColon s c) (h' : GoodColon s c') : c = c' := by
  rcases Nat.lt_trichotomy c c' with hlt | heq | hgt
  · obtain ⟨b, hb, hsc⟩ := h'.2.2.2 c h.1 hlt
    rw [h.2.2.1] at hb; cases hb
    simp [colon_not_schemeChar] at hsc
  · exact heq
  · obtain ⟨b, hb, hsc⟩ := h.2.2.2 c' h'.1 hgt
    rw [h'.2.2.1] at hb; cases hb
    simp [colon_not_schemeChar] at hsc

theorem goodColon_found {s : Bytes} {cur : Nat} (h1 : 1 ≤ cur) (hlt : cur < s.length) (hc : s[cur]? = some 58)
    (hp : ∀ j, 1 ≤ j → j < cur → ∃ b, s[j]? = some b ∧ b ≠ 58 ∧ isValidSchemeChar b = true) : GoodColon s cur :=
  ⟨h1, hlt, hc, fun j a b => by obtain ⟨x, hx, _, hx'⟩ := hp j a b; exact ⟨x, hx, hx'⟩⟩

theorem goodColon_none_at {s : Bytes} {cur : Nat} {ch : UInt8} (h0 : 1 ≤ cur) (hch : s[cur]? = some ch) (h58 : ch ≠ 58)
    (hsc : isValidSchemeChar ch = false)
    (hp : ∀ j, 1 ≤ j → j < cur → ∃ b, s[j]? = some b ∧ b ≠ 58 ∧ isValidSchemeChar b = true) :
    ¬ ∃ c, GoodColon s c := by
  rintro ⟨c, hc1, hc2, hc3, hc4⟩
  rcases Nat.lt_trichotomy c cur with hlt | heq | hgt
  · obtain ⟨b, hb, hb', _⟩ := hp c hc1 hlt
    rw [hc3] at hb; cases hb; exact hb' rfl
  · subst heq; rw [hc3] at hch; cases hch; exact h58 rfl
  · obtain ⟨b, hb, hb'⟩ := hc4 cur h0 hgt
    rw [hch] at hb; cases hb; simp [hsc] at hb'

theorem goodColon_none_end {s : Bytes}
    (hp : ∀ j, 1 ≤ j → j < s.length → ∃ b, s[j]? = some b ∧ b ≠ 58 ∧ isValidSchemeChar b = true) :
    ¬ ∃ c, GoodColon s c := by
  rintro ⟨c, hc1, hc2, hc3, _⟩
  obtain ⟨b, hb, hb', _⟩ := hp c hc1 hc2
  rw [hc3] at hb; cases hb; exact hb' rfl

theorem findSchemeEnd_spec (s : Bytes) :
    ⦃⌜True⌝⦄ findSchemeEnd s
    ⦃post⟨fun r => ⌜(r = -1 ∧ ¬ ∃ c, GoodColon s c) ∨ (∃ c : Nat, r = (c : Int) ∧ GoodColon s c)⌝,
          fun _ => ⌜False⌝⟩⦄ := by
  mvcgen [findSchemeEnd] invariants
  · Invariant.withEarlyReturnNewDo
      (onReturn := fun r _ => ⌜(r = -1 ∧ ¬ ∃ c, GoodColon s c) ∨ (∃ c : Nat, r = (c : Int) ∧ GoodColon s c)⌝)
      (onContinue := fun xs _ => ⌜∀ j ∈ xs.prefix, ∃ b, s[j]? = some b ∧ b ≠ 58 ∧ isValidSchemeChar b = true⌝)
      (onExcept := post⟨fun _ => ⌜False⌝⟩)
  all_goals mleave
  all_goals (try have hrs := range_split ‹[_:_].toList = _ ++ _ :: _›)
  all_goals (try simp only [mem_range_toList] at *)
  case vc1 => simp +zetaDelta only [len] at *; omega
  case vc2 pref cur suff _ _ _ hI ch hc =>
    obtain ⟨hcur, hlt, h1, hpref⟩ := hrs
    rcases hI with ⟨_, hI⟩ | ⟨_, _, hnil, _⟩
    case inr => simp at hnil
    have hinv := pref_inv hpref hI
    simp +zetaDelta only [len, Int.toNat_natCast] at hlt hc
    refine Or.inr ⟨_, rfl, trivial, Or.inr ⟨cur, rfl, ?_⟩⟩
    refine goodColon_found h1 hlt ?_ (fun j a b => hinv j a (by omega))
    rw [List.getElem?_eq_getElem hlt]
    simpa using hc
  case vc3 pref cur suff _ _ _ hI ch hc hsc =>
    obtain ⟨hcur, hlt, h1, hpref⟩ := hrs
    rcases hI with ⟨_, hI⟩ | ⟨_, _, hnil, _⟩
    case inr => simp at hnil
    have hinv := pref_inv hpref hI
    simp +zetaDelta only [len, Int.toNat_natCast] at hlt hc hsc
    refine Or.inr ⟨_, rfl, trivial, Or.inl ⟨rfl, ?_⟩⟩
    refine goodColon_none_at (ch := s[cur]) h1 (List.getElem?_eq_getElem hlt) (by simpa using hc) (by simpa using hsc)
      (fun j a b => hinv j a (by omega))
  case vc4 pref cur suff _ _ _ hI ch hc hsc =>
    obtain ⟨hcur, hlt, h1, hpref⟩ := hrs
    rcases hI with ⟨_, hI⟩ | ⟨_, _, hnil, _⟩
    case inr => simp at hnil
    simp +zetaDelta only [len, Int.toNat_natCast] at hlt hc hsc
    refine Or.inl ⟨trivial, ?_⟩
    intro j hj
    simp only [List.mem_append, List.mem_singleton] at hj
    rcases hj with hj | rfl
    · exact hI j hj
    · exact ⟨s[j], List.getElem?_eq_getElem hlt, by simpa using hc, by simpa using hsc⟩
  case vc5 => simp
  case vc6 => grind
  case vc7 hI =>
    refine Or.inl ⟨trivial, ?_⟩
    rcases hI with ⟨_, hi⟩ | ⟨_, hnil, _⟩
    · apply goodColon_none_end
      intro j a b
      apply hi j; simp +zetaDelta only [len]; omega
    · simp_all

theorem all_iff_index {s : Bytes} {p : UInt8 → Bool} :
    s.all p = true ↔ ∀ j (h : j < s.length), p s[j] = true := by
  simp only [List.all_eq_true, List.mem_iff_getElem]
  constructor
  · intro h j hj; exact h _ ⟨j, hj, rfl⟩
  · rintro h b ⟨j, hj, rfl⟩; exact h j hj

theorem hasInvalidChars_spec (s : Bytes) :
    ⦃⌜True⌝⦄ hasInvalidChars s
    ⦃post⟨fun r => ⌜r = !(s.all fun b => !forbiddenByte b)⌝, fun _ => ⌜False⌝⟩⦄ := by
  mvcgen [hasInvalidChars] invariants
  · Invariant.withEarlyReturnNewDo
      (onReturn := fun r _ => ⌜r = true ∧ ∃ j, ∃ h : j < s.length, forbiddenByte s[j] = true⌝)
      (onContinue := fun xs _ => ⌜∀ j ∈ xs.prefix, ∀ h : j < s.length, forbiddenByte s[j] = false⌝)
      (onExcept := post⟨fun _ => ⌜False⌝⟩)
  all_goals mleave
  all_goals (try have hrs := range_split ‹[_:_].toList = _ ++ _ :: _›)
  all_goals (try simp only [mem_range_toList] at *)
  case vc1 => simp only [len] at *; omega
  case vc2 pref cur suff _ _ _ hI ch hc =>
    obtain ⟨hcur, hlt, h1, hpref⟩ := hrs
    simp +zetaDelta only [len, Int.toNat_natCast] at hlt hc
    exact Or.inr ⟨_, rfl, trivial, rfl, cur, hlt, by simp [forbiddenByte]; simp at hc; simp [hc]⟩
  case vc3 pref cur suff _ _ _ hI ch hc hc2 =>
    obtain ⟨hcur, hlt, h1, hpref⟩ := hrs
    simp +zetaDelta only [len, Int.toNat_natCast] at hlt hc hc2
    refine Or.inr ⟨_, rfl, trivial, rfl, cur, hlt, ?_⟩
    simp only [forbiddenByte]; simp at hc2; rcases hc2 with h | h <;> simp [h]
  case vc4 pref cur suff _ _ _ hI ch hc hc2 =>
    obtain ⟨hcur, hlt, h1, hpref⟩ := hrs
    rcases hI with ⟨_, hI⟩ | ⟨_, _, hnil, _⟩
    case inr => simp at hnil
    simp +zetaDelta only [len, Int.toNat_natCast] at hlt hc hc2
    refine Or.inl ⟨trivial, ?_⟩
    intro j hj hjl
    simp only [List.mem_append, List.mem_singleton] at hj
    rcases hj with hj | rfl
    · exact hI j hj hjl
    · simp only [forbiddenByte]; simp at hc hc2; simp [hc, hc2]
  case vc5 => simp
  case vc6 r a hr hI =>
    rcases hI with ⟨h, _⟩ | ⟨a', ha, _, ha', j, hj, hf⟩
    · simp_all
    · have : a = a' := by simpa using hr.symm.trans ha
      subst this; subst ha'
      symm; rw [Bool.not_eq_true', ← Bool.not_eq_true, all_iff_index]
      intro hall; have := hall j hj; simp [hf] at this
  case vc7 hI =>
    rcases hI with ⟨_, hi⟩ | ⟨_, hnil, _⟩
    · symm; rw [Bool.not_eq_false', all_iff_index]
      intro j hj; simp [hi j ⟨by omega, by simp [len]; omega⟩ hj]
    · simp_all

theorem isValidHostStart_eq (b : UInt8) : isValidHostStart b = hostStart b := by
  simp [isValidHostStart, hostStart]

/-- the host form, as a function of the remainder after the colon -/
def hostRest : Bytes → Bool
  | 47 :: 47 :: h :: _ => hostStart h
  | _ => false

theorem hostRest_short {l : Bytes} (h : l.length < 3) : hostRest l = false := by
  match l, h with
  | [], _ => rfl
  | [_], _ => simp [hostRest]
  | [_, _], _ => simp [hostRest]

theorem drop_three {s : Bytes} {k : Nat} (h : k + 2 < s.length) :
    s.drop k = s[k] :: s[k+1] :: s[k+2] :: s.drop (k+3) := by
  rw [List.drop_eq_getElem_cons (by omega), List.drop_eq_getElem_cons (by omega),
    List.drop_eq_getElem_cons (by omega)]

theorem hostRest_cons (a b h : UInt8) (t : Bytes) :
    hostRest (a :: b :: h :: t) = (a == 47 && b == 47 && hostStart h) := by
  by_cases ha : a = 47 <;> by_cases hb : b = 47 <;> simp [hostRest, ha, hb]

theorem validateSchemeWithHost_spec (s : Bytes) (c : Nat) (hc : c < s.length) :
    ⦃⌜True⌝⦄ validateSchemeWithHost s c
    ⦃post⟨fun r => ⌜r = hostRest (s.drop (c + 1))⌝, fun _ => ⌜False⌝⟩⦄ := by
  mvcgen [validateSchemeWithHost]
  all_goals mleave
  case vc1 il h => simp +zetaDelta only [len] at h; symm; apply hostRest_short; simp; omega
  case vc2 il h => simp +zetaDelta only [len] at h; omega
  case vc4 il h _ => simp +zetaDelta only [len] at h; omega
  case vc7 il h _ _ hs _ => simp +zetaDelta only [len] at h ⊢; omega
  case vc3 il h h1 =>
    simp +zetaDelta only [len] at h
    have h3 : c + 1 + 2 < s.length := by omega
    have e1 : (↑c + 1 : Int).toNat = c + 1 := by omega
    rw [drop_three h3, hostRest_cons]
    simp only [e1] at h1
    simp at h1; simp [h1]
  case vc5 il h h1 h2 =>
    simp +zetaDelta only [len] at h
    have h3 : c + 1 + 2 < s.length := by omega
    have e1 : (↑c + 1 : Int).toNat = c + 1 := by omega
    have e2 : (↑c + 2 : Int).toNat = c + 1 + 1 := by omega
    rw [drop_three h3, hostRest_cons]
    simp only [e1, e2] at h1 h2
    simp at h1 h2; simp [h1, h2]
  case vc8 il h h1 h2 hs _ =>
    simp +zetaDelta only [len] at h ⊢
    have h3 : c + 1 + 2 < s.length := by omega
    have e1 : (↑c + 1 : Int).toNat = c + 1 := by omega
    have e2 : (↑c + 2 : Int).toNat = c + 1 + 1 := by omega
    have e3 : (↑c + 3 : Int).toNat = c + 1 + 2 := by omega
    rw [drop_three h3, hostRest_cons]
    simp only [e1, e2, e3] at h1 h2 ⊢
    simp at h1 h2; simp [h1, h2, isValidHostStart_eq]

theorem validateSchemeWithHost_spec' (s : Bytes) (ci : Int) :
    ⦃⌜0 ≤ ci ∧ ci.toNat < s.length⌝⦄ validateSchemeWithHost s ci
    ⦃post⟨fun r => ⌜r = hostRest (s.drop (ci.toNat + 1))⌝, fun _ => ⌜False⌝⟩⦄ := by
  apply triple_pure_pre
  rintro ⟨h0, h1⟩
  obtain ⟨c, rfl⟩ := Int.eq_ofNat_of_zero_le h0
  simpa using validateSchemeWithHost_spec s c (by simpa using h1)

/-- what `IsValidURL` computes once the colon position is known -/
def urlCore (s : Bytes) (c : Nat) : Bool :=
  Spec.schemes.contains (s.take c) && (s.all fun b => !forbiddenByte b) && restOk (s.take c) (s.drop (c + 1))

theorem tables_agree :
    (∀ x, Gen.validSchemes.contains x = Spec.schemes.contains x) ∧
    (∀ x, Gen.schemesNotRequiringHost.contains x = Spec.opaqueSchemes.contains x) := by
  have h1 : Gen.validSchemes.all Spec.schemes.contains = true := by decide
  have h2 : Spec.schemes.all Gen.validSchemes.contains = true := by decide
  have h3 : Gen.schemesNotRequiringHost.all Spec.opaqueSchemes.contains = true := by decide
  have h4 : Spec.opaqueSchemes.all Gen.schemesNotRequiringHost.contains = true := by decide
  simp only [List.all_eq_true, List.contains_iff_mem] at h1 h2 h3 h4
  constructor <;> intro x <;> rw [Bool.eq_iff_iff] <;> simp only [List.contains_iff_mem]
  · exact ⟨h1 x, h2 x⟩
  · exact ⟨h3 x, h4 x⟩

/-- outcome of `findSchemeEnd` -/
def FindEnd (s : Bytes) (r : Int) : Prop :=
  (r = -1 ∧ ¬ ∃ c, GoodColon s c) ∨ (∃ c : Nat, r = (c : Int) ∧ GoodColon s c)

/-- `IsValidURL` as a pure function of the input and the result `r` of `findSchemeEnd` -/
def urlPure (s : Bytes) (r : Int) : Bool :=
  if s == [] then false
  else if r == -1 || r == 0 then false
  else
    let scheme := s.take r.toNat
    if !Gen.validSchemes.contains scheme then false
    else if !(s.all fun b => !forbiddenByte b) then false
    else if Gen.schemesNotRequiringHost.contains scheme then validateSchemeWithoutHost s r
    else hostRest (s.drop (r.toNat + 1))

theorem IsValidURL_pure (s : Bytes) :
    ⦃⌜True⌝⦄ IsValidURL s
    ⦃post⟨fun res => ⌜∃ r, FindEnd s r ∧ res = urlPure s r⌝, fun _ => ⌜False⌝⟩⦄ := by
  have h1 := findSchemeEnd_spec s
  have h2 := hasInvalidChars_spec s
  mvcgen [IsValidURL, h1, h2, validateSchemeWithHost_spec']
  all_goals mleave
  case vc1 h => exact ⟨-1, Or.inl ⟨rfl, by simp at h; subst h; rintro ⟨c, _, h, _⟩; simp at h⟩, by simp [urlPure, h]⟩
  case vc3 r hr hfs =>
    rcases hfs with ⟨rfl, _⟩ | ⟨c, rfl, hg⟩
    · simp at hr
    · have := hg.2.1; omega
  case vc7 r _ hfs _ _ _ _ _ _ =>
    rcases hfs with ⟨rfl, _⟩ | ⟨c, rfl, hg⟩
    · simp_all
    · have := hg.2.1; omega
  case vc2 h0 r hr hfs => exact ⟨r, hfs, by simp [urlPure, h0, hr]⟩
  case vc4 h0 r hr hfs sch hsc =>
    refine ⟨r, hfs, ?_⟩
    simp +zetaDelta at hsc
    simp [urlPure, h0, hr, hsc]
  case vc5 h0 r hr hfs sch hsc r2 hr2 hr2' =>
    refine ⟨r, hfs, ?_⟩
    simp +zetaDelta at hsc
    subst hr2
    simp [urlPure, h0, hr, hsc, ← hr2']
  case vc6 h0 r hr hfs sch hsc r2 hr2 ho hr2' =>
    refine ⟨r, hfs, ?_⟩
    simp +zetaDelta at hsc ho
    have : r2 = false := by simpa using hr2
    subst this
    simp [urlPure, h0, hr, hsc, ← hr2', ho]
  case vc8 h0 r hr hfs sch hsc r2 hr2 ho hr2' r3 =>
    intro hr3
    refine ⟨r, hfs, ?_⟩
    simp +zetaDelta at hsc ho
    have : r2 = false := by simpa using hr2
    subst this
    simp [urlPure, h0, hr, hsc, ← hr2', ho, hr3]

/-- every supported scheme is a non-empty run of scheme characters -/
theorem schemes_wf : ∀ sc ∈ Spec.schemes, sc ≠ [] ∧ ∀ b ∈ sc, isValidSchemeChar b = true := by
  decide

theorem prefix_goodColon {s sc : Bytes} (hsc : sc ∈ Spec.schemes) (hp : (sc ++ [58]).isPrefixOf s = true) :
    GoodColon s sc.length ∧ s.take sc.length = sc := by
  obtain ⟨hne, hch⟩ := schemes_wf sc hsc
  rw [List.isPrefixOf_iff_prefix] at hp
  obtain ⟨t, rfl⟩ := hp
  have hlen : 1 ≤ sc.length := by cases sc <;> simp_all
  refine ⟨⟨hlen, by simp, by simp, ?_⟩, by simp⟩
  intro j _ hj
  refine ⟨sc[j], ?_, hch _ (List.getElem_mem hj)⟩
  rw [List.append_assoc, List.getElem?_append_left hj, List.getElem?_eq_getElem hj]

theorem urlSpecB_of_goodColon {s : Bytes} {c : Nat} (hg : GoodColon s c) :
    urlSpecB s = (Spec.schemes.contains (s.take c) && (s.all fun b => !forbiddenByte b) &&
      restOk (s.take c) (s.drop (c + 1))) := by
  rw [Bool.eq_iff_iff]
  simp only [urlSpecB, List.any_eq_true, Bool.and_eq_true, List.contains_iff_mem]
  constructor
  · rintro ⟨sc, hsc, ⟨hp, hall⟩, hrest⟩
    obtain ⟨hg', htake⟩ := prefix_goodColon hsc hp
    have := GoodColon_unique hg hg'
    subst this
    rw [htake]; exact ⟨⟨hsc, hall⟩, hrest⟩
  · rintro ⟨⟨hsc, hall⟩, hrest⟩
    refine ⟨s.take c, hsc, ⟨?_, hall⟩, ?_⟩
    · rw [List.isPrefixOf_iff_prefix]
      refine ⟨s.drop (c + 1), ?_⟩
      have hlt := hg.2.1
      have h58 : s[c] = 58 := by have := hg.2.2.1; rw [List.getElem?_eq_getElem hlt] at this; simpa using this
      conv => rhs; rw [← List.take_append_drop c s]
      rw [List.append_assoc]; congr 1
      rw [List.drop_eq_getElem_cons hlt, h58]; rfl
    · have : (s.take c).length = c := by simp; have := hg.2.1; omega
      rw [this]; exact hrest

theorem urlSpecB_of_no_goodColon {s : Bytes} (hn : ¬ ∃ c, GoodColon s c) : urlSpecB s = false := by
  rw [← Bool.not_eq_true]
  simp only [urlSpecB, List.any_eq_true, Bool.and_eq_true]
  rintro ⟨sc, hsc, ⟨hp, _⟩, _⟩
  exact hn ⟨_, (prefix_goodColon hsc hp).1⟩

theorem restOk_eq (sc rest : Bytes) :
    restOk sc rest = (if Spec.opaqueSchemes.contains sc then rest != [] else hostRest rest) := by
  unfold restOk
  split
  · rfl
  · match rest with
    | [] => rfl
    | [_] => simp [hostRest]
    | [_, _] => simp [hostRest]
    | a :: b :: h :: t =>
      rw [hostRest_cons]
      by_cases ha : a = 47 <;> by_cases hb : b = 47 <;> simp [ha, hb]

theorem urlPure_eq_spec {s : Bytes} {r : Int} (h : FindEnd s r) : urlPure s r = urlSpecB s := by
  obtain ⟨hta, htb⟩ := tables_agree
  rcases h with ⟨rfl, hn⟩ | ⟨c, rfl, hg⟩
  · rw [urlSpecB_of_no_goodColon hn]; simp [urlPure]
  · rw [urlSpecB_of_goodColon hg]
    have hc1 := hg.1
    have hlt := hg.2.1
    have hne : s ≠ [] := by intro h; subst h; simp at hlt
    have hr : ((c : Int) == -1 || (c : Int) == 0) = false := by
      simp; omega
    have hdrop : (s.drop (c + 1) != []) = !decide ((s.length : Int) ≤ (c : Int) + 1) := by
      rw [Bool.eq_iff_iff]; simp; omega
    simp only [urlPure, hr, Int.toNat_natCast, hta, htb, restOk_eq, validateSchemeWithoutHost, len, hdrop]
    simp only [beq_iff_eq, hne, if_false, Bool.false_eq_true, List.contains_iff_mem, ge_iff_le]
    by_cases h1 : s.take c ∈ Spec.schemes
    · by_cases h2 : (s.all fun b => !forbiddenByte b) = true
      · by_cases h3 : s.take c ∈ Spec.opaqueSchemes
        · simp [h1, h2, h3]
        · simp [h1, h2, h3]
      · simp only [Bool.not_eq_true] at h2; simp [h1, h2]
    · simp [h1]

theorem IsValidURL_spec (s : Bytes) :
    ⦃⌜True⌝⦄ IsValidURL s ⦃post⟨fun res => ⌜res = urlSpecB s⌝, fun _ => ⌜False⌝⟩⦄ := by
  have h := IsValidURL_pure s
  mvcgen [h]
  all_goals (rintro ⟨r, hf, hres⟩; rw [hres]; exact urlPure_eq_spec hf)

end Proofs
