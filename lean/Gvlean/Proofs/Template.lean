/-
  The regenerated template tokens equal the statement forms the model assumes.
-/
import Gvlean.Generated.RuleFacts
import Gvlean.Gen.Template

namespace Proofs
open Gen

theorem template_tied : Facts.tmplTokens = Tmpl.all := by decide +kernel

/-- every block with validators starts with the poll, in both its forms, and the poll text is the one `runBlocks` models -/
theorem template_polls : ∃ pre post, Facts.tmplTokens = pre ++ Tmpl.nestedOpen ++ Tmpl.topPoll ++ Tmpl.checks ++ post := by
  refine ⟨Tmpl.header ++ Tmpl.funcHead ++ Tmpl.loopOpen, Tmpl.nestedClose ++ Tmpl.tail, ?_⟩
  rw [template_tied]; simp [Tmpl.all, List.append_assoc]

/-- the only statement form inside the validators loop is the copy-set-append check -/
theorem template_check : ∃ pre post, Facts.tmplTokens =
    pre ++ (["{{range .Validators}}", "{{if ne .Validate \"\"}}"] ++ Tmpl.checkForm ++ ["{{end}}", "{{end}}"]) ++ post := by
  refine ⟨Tmpl.header ++ Tmpl.funcHead ++ Tmpl.loopOpen ++ Tmpl.nestedOpen ++ Tmpl.topPoll, Tmpl.nestedClose ++ Tmpl.tail, ?_⟩
  rw [template_tied]; simp [Tmpl.all, Tmpl.checks, List.append_assoc]

/-- the function ends with report-or-nil and the three delegating wrappers -/
theorem template_tail : ∃ pre, Facts.tmplTokens = pre ++ Tmpl.tail :=
  ⟨Tmpl.header ++ Tmpl.funcHead ++ Tmpl.loopOpen ++ Tmpl.nestedOpen ++ Tmpl.topPoll ++ Tmpl.checks ++ Tmpl.nestedClose, by rw [template_tied]; rfl⟩

end Proofs
