/-
  C07 core: on Clean, Documented declarations the generated validator (model) reports exactly the
  entries the Spec requires — by induction over marker lists, field lists and nesting.
-/
import Gvlean.Proofs.Gen

namespace Proofs
open Go Gen

/-- a written marker is either applicable with a representable parameter, or its factory's guard
    rejects the field type (so nothing is emitted) -/
def markerOK (ty : Ty) (m : Marker) : Bool :=
  rules18.any fun r => m.id == "govalid:" ++ r &&
    (if Spec.applies r ty then paramOK r m.expr ty
     else match ruleInfo r with
       | some info => !guardOk info.guard ty
       | none => false)

mutual
/-- Clean ∧ Documented (DESIGN §4 C07): named fields (one or several names — no embedded fields), no
    struct-level marker together with nesting, no marker on a nested-struct field, every marker
    `markerOK` for the field it reaches -/
def cleanField (tm : List Marker) : FieldT → Bool
  | .leaf names ty doc => !names.isEmpty && (tm ++ sortById (markersOfDoc doc)).all (markerOK ty)
  | .nest names doc fields => !names.isEmpty && (markersOfDoc doc).isEmpty && tm.isEmpty && cleanFields tm fields
def cleanFields (tm : List Marker) : List FieldT → Bool
  | [] => true
  | f :: fs => cleanField tm f && cleanFields tm fs
end

def cleanDecl (d : Decl) : Bool := cleanFields (sortById (markersOfDoc d.doc)) d.fields

def conv (e : Spec.Entry) : Gen.Entry := { path := e.path, type := e.type, value := e.value }

theorem rule_ids : ∀ r ∈ rules18,
    Facts.markerTable.lookup ("govalid:" ++ r) = some r ∧ (ruleInfo r).isSome = true ∧
    (("govalid:" ++ r).startsWith "govalid:" = true) ∧ (("govalid:" ++ r).drop 8).toString = r := by
  decide +kernel

theorem ruleName_of (m : Marker) (r : String) (hr : r ∈ rules18) (hid : m.id = "govalid:" ++ r) :
    Spec.ruleName m = some r := by
  obtain ⟨_, _, h3, h4⟩ := rule_ids r hr
  simp only [Spec.ruleName, hid, h3, if_true, h4]

theorem markerOK_cases {ty : Ty} {m : Marker} (h : markerOK ty m = true) :
    ∃ r, r ∈ rules18 ∧ m.id = "govalid:" ++ r ∧
      ((Spec.applies r ty = true ∧ paramOK r m.expr ty = true) ∨
       (Spec.applies r ty = false ∧ ∀ S parent f, mkCheck S parent [f] ty m = none)) := by
  simp only [markerOK, List.any_eq_true, Bool.and_eq_true, beq_iff_eq] at h
  obtain ⟨r, hr, hid, hrest⟩ := h
  refine ⟨r, hr, hid, ?_⟩
  by_cases happ : Spec.applies r ty = true
  · simp only [happ, if_true] at hrest
    exact Or.inl ⟨happ, hrest⟩
  · simp only [happ, Bool.false_eq_true, if_false] at hrest
    right
    refine ⟨by simpa using happ, ?_⟩
    obtain ⟨h1, h2, _, _⟩ := rule_ids r hr
    cases hi : ruleInfo r with
    | none => simp [hi] at h2
    | some info =>
      simp only [hi, Bool.not_eq_true'] at hrest
      intro S parent f
      exact mkCheck_guard_none S parent f ty m r info (by rw [hid]; exact h1) hi hrest

/-- one leaf field: the checks the generator emits report exactly the Spec's entries -/
theorem leaf_sound (S : String) (parent : List String) (f : String) (ty : Ty) (sv fv : Val)
    (hf : lookupField sv f = some fv) :
    ∀ (ms : List Marker) (es : List Spec.Entry), (∀ m ∈ ms, markerOK ty m = true) →
      Spec.leafEntries (S :: parent) f ty ms fv = some es →
      runChecks sv (mkChecks S parent [f] ty ms) = some (es.map conv) := by
  intro ms
  induction ms with
  | nil => intro es _ h; simp [Spec.leafEntries] at h; subst h; simp [mkChecks, runChecks]
  | cons m ms ih =>
    intro es hok hspec
    simp only [Spec.leafEntries] at hspec
    cases hme : Spec.markerEntry (S :: parent) f ty m fv with
    | none => simp [hme] at hspec
    | some e1 =>
      cases hrest : Spec.leafEntries (S :: parent) f ty ms fv with
      | none => simp [hme, hrest] at hspec
      | some rest =>
        simp only [hme, hrest, Option.some.injEq] at hspec
        subst hspec
        have ihr := ih rest (fun m' hm' => hok m' (by simp [hm'])) hrest
        obtain ⟨r, hr, hid, hcase⟩ := markerOK_cases (hok m (by simp))
        have hrn := ruleName_of m r hr hid
        simp only [Spec.markerEntry, hrn] at hme
        rcases hcase with ⟨happ, hp⟩ | ⟨hna, hnone⟩
        · simp only [happ, if_true] at hme
          cases hv : Spec.violates r m.expr ty fv with
          | none => simp [hv] at hme
          | some b =>
            obtain ⟨c, e, hmk, hcond, hfield, hty, hrule, hpath, hfire⟩ :=
              check_sound S parent f ty m fv b r hr hid happ hp hv
            have hmks : mkChecks S parent [f] ty (m :: ms) = c :: mkChecks S parent [f] ty ms := by
              simp [mkChecks, List.filterMap_cons, hmk]
            rw [hmks, runChecks, hcond]
            simp only [hfield, hf, hty]
            have henv : (fun g => if g == f then some (ty, fv) else none) = envOf f ty fv := rfl
            rw [henv, hfire, ihr]
            cases b
            · simp only [hv] at hme; simp at hme; subst hme; simp
            · simp only [hv] at hme; simp at hme; subst hme
              simp [conv, hpath, hrule]
        · simp only [hna, Bool.false_eq_true, if_false, Option.some.injEq] at hme
          subst hme
          have hmks : mkChecks S parent [f] ty (m :: ms) = mkChecks S parent [f] ty ms := by
            simp [mkChecks, List.filterMap_cons, hnone S parent f]
          rw [hmks]; simpa using ihr

/-! ### blocks under the background context -/

/-- the entries appended by a list of blocks when no poll ever fires -/
def blocksEntries (recv : Val) : List Block → Option (List Gen.Entry)
  | [] => some []
  | b :: bs =>
    match lookupPath recv b.parent with
    | none => none
    | some sv =>
      match runChecks sv b.checks, blocksEntries recv bs with
      | some es, some rest => some (es ++ rest)
      | _, _ => none

theorem blocksEntries_append (recv : Val) (a b : List Block) :
    blocksEntries recv (a ++ b) =
      (match blocksEntries recv a, blocksEntries recv b with
        | some x, some y => some (x ++ y)
        | _, _ => none) := by
  induction a with
  | nil => simp [blocksEntries]; cases blocksEntries recv b <;> rfl
  | cons blk rest ih =>
    simp only [List.cons_append, blocksEntries]
    cases hl : lookupPath recv blk.parent with
    | none => simp
    | some sv =>
      simp only []
      rw [ih]
      cases hr : runChecks sv blk.checks <;> cases h1 : blocksEntries recv rest <;>
        cases h2 : blocksEntries recv b <;> simp [List.append_assoc]

theorem runBlocks_bg (recv : Val) : ∀ (bs : List Block) (k : Nat) (acc : List Gen.Entry),
    runBlocks bg recv bs k acc =
      (match blocksEntries recv bs with
        | some es => if (acc ++ es).isEmpty then .ok else .report (acc ++ es)
        | none => .stuck) := by
  intro bs
  induction bs with
  | nil => intro k acc; simp [runBlocks, blocksEntries]
  | cons b bs ih =>
    intro k acc
    simp only [runBlocks, bg, blocksEntries]
    cases hl : lookupPath recv b.parent with
    | none => rfl
    | some sv =>
      simp only []
      cases hrc : runChecks sv b.checks with
      | none => simp
      | some es =>
        simp only []
        rw [ih]
        cases h1 : blocksEntries recv bs with
        | none => rfl
        | some rest => simp [List.append_assoc]

/-! ### fields and nesting -/

theorem lookupPath_snoc (recv : Val) (parent : List String) (sv nv : Val) (n : String)
    (h : lookupPath recv parent = some sv) (hn : lookupField sv n = some nv) :
    lookupPath recv (parent ++ [n]) = some nv := by
  induction parent generalizing recv with
  | nil => simp [lookupPath] at h; subst h; simp [lookupPath, hn]
  | cons p ps ih =>
    simp only [List.cons_append, lookupPath] at h ⊢
    cases hl : lookupField recv p with
    | none => simp [hl] at h
    | some w => simp only [hl] at h ⊢; exact ih w h

theorem getField_eq (sv : Val) (n : String) : Spec.getField sv n = lookupField sv n := by
  cases sv <;> rfl

/-- every name of a (multi-name) leaf field gets its own block -/
theorem names_sound (S : String) (parent : List String) (ty : Ty) (ml : List Marker) (recv sv : Val)
    (hsv : lookupPath recv parent = some sv) (hok : ∀ m ∈ ml, markerOK ty m = true) :
    ∀ (names : List String) (es : List Spec.Entry),
      Spec.namesEntries (S :: parent) ty ml sv names = some es →
      blocksEntries recv (leafBlocks S parent ty ml names) = some (es.map conv) := by
  intro names
  induction names with
  | nil => intro es h; simp [Spec.namesEntries] at h; subst h; simp [leafBlocks, blocksEntries]
  | cons f ns ih =>
    intro es hspec
    simp only [Spec.namesEntries, getField_eq] at hspec
    cases hf : lookupField sv f with
    | none => simp [hf] at hspec
    | some fv =>
      simp only [hf] at hspec
      cases hl : Spec.leafEntries (S :: parent) f ty ml fv with
      | none => simp [hl] at hspec
      | some e1 =>
        cases hr : Spec.namesEntries (S :: parent) ty ml sv ns with
        | none => simp [hl, hr] at hspec
        | some e2 =>
          simp only [hl, hr, Option.some.injEq] at hspec
          subst hspec
          have hrun := leaf_sound S parent f ty sv fv hf _ _ hok hl
          have ihr := ih e2 hr
          simp only [leafBlocks, blocksEntries_append, ihr, List.map_append]
          by_cases hempty : (mkChecks S parent [f] ty ml).isEmpty = true
          · simp only [hempty, if_true]
            simp only [List.isEmpty_iff] at hempty
            rw [hempty, runChecks] at hrun
            simp only [Option.some.injEq] at hrun
            simp [blocksEntries, ← hrun]
          · simp only [hempty, Bool.false_eq_true, if_false]
            simp [blocksEntries, hsv, hrun]

/-- a nested struct declared with several names, given the result for its field list -/
theorem nest_names (S : String) (recv : Val) (fields : List FieldT)
    (hfields : ∀ (parent : List String) (sv : Val) (es : List Spec.Entry), lookupPath recv parent = some sv →
      Spec.fieldsEntries [] (S :: parent) sv fields = some es →
      blocksEntries recv (analyzeFields S [] parent fields) = some (es.map conv)) :
    ∀ (names : List String) (parent : List String) (sv : Val) (es : List Spec.Entry),
      lookupPath recv parent = some sv →
      Spec.nestEntries [] (S :: parent) sv fields names = some es →
      blocksEntries recv (analyzeNest S [] parent [] fields names) = some (es.map conv) := by
  intro names
  induction names with
  | nil => intro parent sv es _ hspec; simp [Spec.nestEntries] at hspec; subst hspec; simp [analyzeNest, blocksEntries]
  | cons n ns ih =>
    intro parent sv es hsv hspec
    simp only [Spec.nestEntries, getField_eq] at hspec
    cases hn : lookupField sv n with
    | none => simp [hn] at hspec
    | some nv =>
      simp only [hn, List.cons_append] at hspec
      cases hfs : Spec.fieldsEntries [] (S :: (parent ++ [n])) nv fields with
      | none => simp [hfs] at hspec
      | some e1 =>
        cases hrest : Spec.nestEntries [] (S :: parent) sv fields ns with
        | none => simp [hfs, hrest] at hspec
        | some e2 =>
          simp only [hfs, hrest, Option.some.injEq] at hspec
          subst hspec
          have hlp := lookupPath_snoc recv parent sv nv n hsv hn
          have ih1 := hfields (parent ++ [n]) nv e1 hlp hfs
          have ih2 := ih parent sv e2 hsv hrest
          have hvs : propagated S parent [] fields = [] := by simp [propagated, mkChecks]
          simp only [analyzeNest, hvs, List.isEmpty_nil, if_true, List.nil_append, blocksEntries_append, ih1, ih2,
            List.map_append]

mutual
theorem field_sound (S : String) (tm : List Marker) (recv : Val) :
    ∀ (fld : FieldT) (parent : List String) (sv : Val) (es : List Spec.Entry),
      cleanField tm fld = true → lookupPath recv parent = some sv →
      Spec.fieldEntries tm (S :: parent) sv fld = some es →
      blocksEntries recv (analyzeField S tm parent fld) = some (es.map conv)
  | .leaf names ty doc, parent, sv, es, hc, hsv, hspec => by
    simp only [cleanField, Bool.and_eq_true, List.all_eq_true] at hc
    simp only [Spec.fieldEntries] at hspec
    simp only [analyzeField]
    exact names_sound S parent ty _ recv sv hsv hc.2 names es hspec
  | .nest names doc fields, parent, sv, es, hc, hsv, hspec => by
    simp only [cleanField, Bool.and_eq_true, List.isEmpty_iff] at hc
    obtain ⟨⟨⟨_, hdoc⟩, htm⟩, hcf⟩ := hc
    simp only [Spec.fieldEntries] at hspec
    simp only [analyzeField, hdoc, htm, sortById, List.foldr_nil, List.append_nil]
    subst htm
    exact nest_names S recv fields (fun parent' sv' es' h1 h2 => fields_sound S [] recv fields parent' sv' es' hcf h1 h2)
      names parent sv es hsv hspec
theorem fields_sound (S : String) (tm : List Marker) (recv : Val) :
    ∀ (fs : List FieldT) (parent : List String) (sv : Val) (es : List Spec.Entry),
      cleanFields tm fs = true → lookupPath recv parent = some sv →
      Spec.fieldsEntries tm (S :: parent) sv fs = some es →
      blocksEntries recv (analyzeFields S tm parent fs) = some (es.map conv)
  | [], parent, sv, es, _, _, hspec => by
    simp [Spec.fieldsEntries] at hspec; subst hspec; simp [analyzeFields, blocksEntries]
  | f :: fs, parent, sv, es, hc, hsv, hspec => by
    simp only [cleanFields, Bool.and_eq_true] at hc
    simp only [Spec.fieldsEntries] at hspec
    cases h1 : Spec.fieldEntries tm (S :: parent) sv f with
    | none => simp [h1] at hspec
    | some e1 =>
      cases h2 : Spec.fieldsEntries tm (S :: parent) sv fs with
      | none => simp [h1, h2] at hspec
      | some e2 =>
        simp only [h1, h2, Option.some.injEq] at hspec
        subst hspec
        simp only [analyzeFields, blocksEntries_append,
          field_sound S tm recv f parent sv e1 hc.1 hsv h1,
          fields_sound S tm recv fs parent sv e2 hc.2 hsv h2, List.map_append]
end

end Proofs
