/-
  C15 with the block bodies ABSTRACT. `runG ev` is the poll / return skeleton of templates/validation.go.tmpl
  (`if ctx.Err() != nil { return ctx.Err() }` at the start of every block, report after the last one) over blocks
  whose statements are an arbitrary function `ev : β → Option (List Entry)` of the receiver — `some es` = the entries
  the block appends, `none` = the block panics. Nothing is assumed about `ev`: ordinary rule checks, CEL conditions
  (outside the `fires` fragment), helper calls. `runBlocks` is the instance `ev := blockEv recv` (`runBlocks_eq_runG`),
  so the theorems of Proofs/Ctx.lean are corollaries; the generic ones also cover structs with CEL rules, whose
  conditions the Lean model does not evaluate.
-/
import Gvlean.Proofs.Ctx

namespace Gen

def runG {β : Type} (ev : β → Option (List Entry)) (ctx : Ctx) : List β → Nat → List Entry → Outcome
  | [], _, acc => if acc.isEmpty then .ok else .report acc
  | b :: bs, k, acc =>
    match ctx k with
    | some _ =>
      (match ctx (k + 1) with
        | some e => .ctxErr e
        | none => .ok)
    | none =>
      match ev b with
      | none => .stuck
      | some es => runG ev ctx bs (k + 1) (acc ++ es)

/-- what one block of the model does on the receiver -/
def blockEv (recv : Go.Val) (b : Block) : Option (List Entry) :=
  match lookupPath recv b.parent with
  | none => none
  | some sv => runChecks sv b.checks

/-- number of `ctx.Err()` calls of a run (the instrumented context of corr-sem counts them) -/
def pollsG {β : Type} (ev : β → Option (List Entry)) (ctx : Ctx) : List β → Nat → Nat
  | [], _ => 0
  | b :: bs, k =>
    match ctx k with
    | some _ => 2
    | none =>
      match ev b with
      | none => 1
      | some _ => 1 + pollsG ev ctx bs (k + 1)

end Gen

namespace Proofs
open Go Gen

theorem runBlocks_eq_runG (ctx : Ctx) (recv : Val) :
    ∀ (bs : List Block) (k : Nat) (acc : List Gen.Entry), runBlocks ctx recv bs k acc = runG (blockEv recv) ctx bs k acc := by
  intro bs
  induction bs with
  | nil => intro k acc; rfl
  | cons b bs ih =>
    intro k acc
    simp only [runBlocks, runG, blockEv]
    cases ctx k with
    | some _ => rfl
    | none =>
      simp only
      cases lookupPath recv b.parent with
      | none => rfl
      | some sv =>
        simp only
        cases runChecks sv b.checks with
        | none => rfl
        | some es => exact ih (k + 1) (acc ++ es)

variable {β : Type} (ev : β → Option (List Gen.Entry))

/-- first observed done at poll `k + j`: exactly that error, whatever the blocks before it appended and whatever the
    blocks from `j` on would have done (they are not run — not even a block that would panic) -/
theorem runG_cancelled (ctx : Ctx) (e : CtxErr) (hmono : Monotone ctx) :
    ∀ (bs : List β) (k j : Nat) (acc : List Gen.Entry), j < bs.length →
      (∀ i, i < j → ctx (k + i) = none) → ctx (k + j) = some e →
      (∀ b ∈ bs.take j, (ev b).isSome = true) →
      runG ev ctx bs k acc = .ctxErr e := by
  intro bs
  induction bs with
  | nil => intro k j acc hj; simp at hj
  | cons b bs ih =>
    intro k j acc hj hbefore hat hpre
    cases j with
    | zero =>
      simp only [Nat.add_zero] at hat
      have h1 := hmono k e hat (k + 1) (by omega)
      simp [runG, hat, h1]
    | succ j =>
      have h0 : ctx k = none := by simpa using hbefore 0 (by omega)
      simp only [runG, h0]
      have hb := hpre b (by simp)
      cases hr : ev b with
      | none => simp [hr] at hb
      | some es =>
        simp only
        apply ih (k + 1) j (acc ++ es) (by simpa using hj)
        · intro i hi
          have := hbefore (i + 1) (by omega)
          rw [← this]; congr 1; omega
        · rw [← hat]; congr 1; omega
        · intro b' hb'
          exact hpre b' (by simp [List.take_succ_cons, hb'])

/-- an already done context: the error, at once, after exactly two `Err()` calls, no block body run -/
theorem runG_already_done (ctx : Ctx) (e : CtxErr) (hmono : Monotone ctx) (b : β) (bs : List β) (acc : List Gen.Entry)
    (h0 : ctx 0 = some e) : runG ev ctx (b :: bs) 0 acc = .ctxErr e ∧ pollsG ev ctx (b :: bs) 0 = 2 := by
  have h1 := hmono 0 e h0 1 (by omega)
  simp [runG, pollsG, h0, h1]

/-- no poll of the run observes the context done: the same result as under context.Background() -/
theorem runG_undisturbed (ctx : Ctx) :
    ∀ (bs : List β) (k : Nat) (acc : List Gen.Entry), (∀ j, j < bs.length → ctx (k + j) = none) →
      runG ev ctx bs k acc = runG ev bg bs k acc := by
  intro bs
  induction bs with
  | nil => intro k acc _; rfl
  | cons b bs ih =>
    intro k acc h
    have h0 : ctx k = none := by simpa using h 0 (by simp)
    simp only [runG, h0, bg]
    cases ev b with
    | none => rfl
    | some es =>
      simp only
      apply ih
      intro j hj
      have := h (j + 1) (by simp; omega)
      rw [← this]; congr 1; omega

/-- an undisturbed run that panics nowhere polls once per block: a cancellation point precedes every block -/
theorem pollsG_undisturbed (ctx : Ctx) :
    ∀ (bs : List β) (k : Nat), (∀ j, j < bs.length → ctx (k + j) = none) → (∀ b ∈ bs, (ev b).isSome = true) →
      pollsG ev ctx bs k = bs.length := by
  intro bs
  induction bs with
  | nil => intro k _ _; rfl
  | cons b bs ih =>
    intro k h hev
    have h0 : ctx k = none := by simpa using h 0 (by simp)
    have hb := hev b (by simp)
    cases hr : ev b with
    | none => simp [hr] at hb
    | some es =>
      simp only [pollsG, h0, hr, List.length_cons]
      rw [ih (k + 1) (fun j hj => by have := h (j + 1) (by simp; omega); rw [← this]; congr 1; omega)
        (fun b' hb' => hev b' (by simp [hb']))]
      omega

/-- a report is only ever returned by a run in which NO poll observed the context done -/
theorem runG_report_undisturbed (ctx : Ctx) (hmono : Monotone ctx) :
    ∀ (bs : List β) (k : Nat) (acc es : List Gen.Entry), runG ev ctx bs k acc = .report es →
      ∀ j, j < bs.length → ctx (k + j) = none := by
  intro bs
  induction bs with
  | nil => intro k acc es _ j hj; simp at hj
  | cons b bs ih =>
    intro k acc es h j hj
    simp only [runG] at h
    cases h0 : ctx k with
    | some e =>
      have h1 := hmono k e h0 (k + 1) (by omega)
      simp [h0, h1] at h
    | none =>
      simp only [h0] at h
      cases hr : ev b with
      | none => simp [hr] at h
      | some es' =>
        simp only [hr] at h
        cases j with
        | zero => simpa using h0
        | succ j =>
          have := ih (k + 1) _ es h j (by simpa using hj)
          rw [← this]; congr 1; omega

end Proofs
