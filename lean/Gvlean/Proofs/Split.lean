/-
  Lemmas about `Spec.splitOn` (the separator-splitting used by the e-mail grammar).
-/
import Gvlean.Spec.Email

namespace Spec
open Go

theorem splitOn_ne_nil (sep : UInt8) (l : Bytes) : splitOn sep l ≠ [] := by
  induction l with
  | nil => simp [splitOn]
  | cons b t ih =>
    simp only [splitOn]
    split
    · simp
    · split <;> simp

theorem splitOn_cons_sep (sep : UInt8) (t : Bytes) : splitOn sep (sep :: t) = [] :: splitOn sep t := by
  simp [splitOn]

theorem splitOn_cons_ne {sep b : UInt8} (h : b ≠ sep) (t : Bytes) :
    ∃ hd tl, splitOn sep t = hd :: tl ∧ splitOn sep (b :: t) = (b :: hd) :: tl := by
  cases hs : splitOn sep t with
  | nil => exact absurd hs (splitOn_ne_nil sep t)
  | cons hd tl => exact ⟨hd, tl, rfl, by simp [splitOn, h, hs]⟩

/-- a run without separators followed by a separator is one complete piece -/
theorem splitOn_nosep_append (sep : UInt8) (a rest : Bytes) (ha : ∀ b ∈ a, b ≠ sep) :
    splitOn sep (a ++ sep :: rest) = a :: splitOn sep rest := by
  induction a with
  | nil => simp [splitOn]
  | cons b t ih =>
    have hb : b ≠ sep := ha b (by simp)
    have := ih (fun x hx => ha x (by simp [hx]))
    simp only [List.cons_append, splitOn, hb, if_false, this]

theorem splitOn_nosep (sep : UInt8) (a : Bytes) (ha : ∀ b ∈ a, b ≠ sep) : splitOn sep a = [a] := by
  induction a with
  | nil => simp [splitOn]
  | cons b t ih =>
    have hb : b ≠ sep := ha b (by simp)
    have := ih (fun x hx => ha x (by simp [hx]))
    simp only [splitOn, hb, if_false, this]

/-- no piece contains the separator -/
theorem splitOn_pieces_nosep (sep : UInt8) (l : Bytes) : ∀ p ∈ splitOn sep l, ∀ b ∈ p, b ≠ sep := by
  induction l with
  | nil => simp [splitOn]
  | cons b t ih =>
    by_cases h : b = sep
    · subst h; rw [splitOn_cons_sep]; intro p hp; simp at hp
      rcases hp with rfl | hp
      · simp
      · exact ih p hp
    · obtain ⟨hd, tl, hs, hs'⟩ := splitOn_cons_ne h t
      rw [hs']; intro p hp; simp at hp
      rcases hp with rfl | hp
      · intro x hx; simp at hx
        rcases hx with rfl | hx
        · exact h
        · exact ih hd (by rw [hs]; simp) x hx
      · exact ih p (by rw [hs]; simp [hp])

/-- every piece satisfies `p` everywhere iff every non-separator byte satisfies `p` -/
theorem splitOn_all_all (sep : UInt8) (p : UInt8 → Bool) (l : Bytes) :
    (splitOn sep l).all (fun a => a.all p) = l.all (fun b => b == sep || p b) := by
  induction l with
  | nil => simp [splitOn]
  | cons b t ih =>
    by_cases h : b = sep
    · subst h; rw [splitOn_cons_sep]; simp [ih]
    · obtain ⟨hd, tl, hs, hs'⟩ := splitOn_cons_ne h t
      rw [hs'] ; rw [hs] at ih
      simp only [List.all_cons] at ih ⊢
      rw [← ih]
      have : (b == sep) = false := by simpa using h
      simp [this, Bool.and_assoc]

theorem splitOn_length (sep : UInt8) (l : Bytes) : (splitOn sep l).length = l.count sep + 1 := by
  induction l with
  | nil => simp [splitOn]
  | cons b t ih =>
    by_cases h : b = sep
    · subst h; rw [splitOn_cons_sep]; simp [ih]
    · obtain ⟨hd, tl, hs, hs'⟩ := splitOn_cons_ne h t
      rw [hs']; rw [hs] at ih
      simp only [List.length_cons] at ih ⊢
      rw [ih, List.count_cons_of_ne h]

/-- pieces joined by the separator -/
def joinSep (sep : UInt8) : List Bytes → Bytes
  | [] => []
  | [p] => p
  | p :: q :: r => p ++ sep :: joinSep sep (q :: r)

theorem joinSep_splitOn (sep : UInt8) (l : Bytes) : joinSep sep (splitOn sep l) = l := by
  induction l with
  | nil => simp [splitOn, joinSep]
  | cons b t ih =>
    by_cases h : b = sep
    · subst h
      rw [splitOn_cons_sep]
      cases hs : splitOn b t with
      | nil => exact absurd hs (splitOn_ne_nil b t)
      | cons q r => rw [hs] at ih; simp [joinSep, ih]
    · obtain ⟨hd, tl, hs, hs'⟩ := splitOn_cons_ne h t
      rw [hs']; rw [hs] at ih
      cases tl with
      | nil => simp only [joinSep] at ih ⊢; rw [ih]
      | cons q r => simp only [joinSep, List.cons_append] at ih ⊢; rw [ih]

theorem joinSep_head (sep : UInt8) (p : Bytes) (tl : List Bytes) (hp : p ≠ []) :
    (joinSep sep (p :: tl)).head? = p.head? := by
  cases tl with
  | nil => rfl
  | cons q r =>
    simp only [joinSep]
    cases p with
    | nil => exact absurd rfl hp
    | cons a t => rfl

theorem joinSep_getLast (sep : UInt8) : ∀ (ps : List Bytes) (q : Bytes), ps.getLast? = some q → q ≠ [] →
    (joinSep sep ps).getLast? = q.getLast? := by
  intro ps
  induction ps with
  | nil => intro q h; simp at h
  | cons p tl ih =>
    intro q h hq
    cases tl with
    | nil => simp at h; subst h; rfl
    | cons p2 r =>
      simp only [joinSep]
      rw [List.getLast?_cons_cons] at h
      have := ih q h hq
      obtain ⟨x, hx⟩ : ∃ x, q.getLast? = some x := by
        cases q with
        | nil => exact absurd rfl hq
        | cons a t => exact ⟨_, List.getLast?_cons⟩
      rw [List.getLast?_append, List.getLast?_cons, this, hx]
      rfl

end Spec
