/-
  C15 core: behaviour of the generated function under an arbitrary poll schedule.
  Model-only facts about `runBlocks` (the template's poll / block / return structure).
-/
import Gvlean.Proofs.Report

namespace Proofs
open Go Gen

/-- once done, a context stays done with the same error -/
def Monotone (ctx : Ctx) : Prop := ∀ j e, ctx j = some e → ∀ i, j ≤ i → ctx i = some e

/-- no poll of this run observes the context done ⇒ identical to the background run -/
theorem runBlocks_undisturbed (ctx : Ctx) (recv : Val) :
    ∀ (bs : List Block) (k : Nat) (acc : List Gen.Entry), (∀ j, j < bs.length → ctx (k + j) = none) →
      runBlocks ctx recv bs k acc = runBlocks bg recv bs k acc := by
  intro bs
  induction bs with
  | nil => intro k acc _; rfl
  | cons b bs ih =>
    intro k acc h
    have h0 : ctx k = none := by simpa using h 0 (by simp)
    simp only [runBlocks, h0, bg]
    cases hl : lookupPath recv b.parent with
    | none => rfl
    | some sv =>
      simp only []
      cases hr : runChecks sv b.checks with
      | none => rfl
      | some es =>
        simp only []
        apply ih
        intro j hj
        have := h (j + 1) (by simp; omega)
        rw [← this]; congr 1; omega

/-- the context turns done at poll index `k + j` (and no earlier poll of this run saw it done):
    the result is exactly that error — never nil, never a report, whatever had been accumulated —
    provided the blocks before it ran normally. -/
theorem runBlocks_cancelled (ctx : Ctx) (recv : Val) (e : CtxErr) (hmono : Monotone ctx) :
    ∀ (bs : List Block) (k j : Nat) (acc : List Gen.Entry), j < bs.length →
      (∀ i, i < j → ctx (k + i) = none) → ctx (k + j) = some e →
      (blocksEntries recv (bs.take j)).isSome = true →
      runBlocks ctx recv bs k acc = .ctxErr e := by
  intro bs
  induction bs with
  | nil => intro k j acc hj; simp at hj
  | cons b bs ih =>
    intro k j acc hj hbefore hat hpre
    cases j with
    | zero =>
      simp only [Nat.add_zero] at hat
      have h1 := hmono k e hat (k + 1) (by omega)
      simp [runBlocks, hat, h1]
    | succ j =>
      have h0 : ctx k = none := by simpa using hbefore 0 (by omega)
      simp only [List.take_succ_cons, blocksEntries] at hpre
      simp only [runBlocks, h0]
      cases hl : lookupPath recv b.parent with
      | none => simp [hl] at hpre
      | some sv =>
        simp only [hl] at hpre ⊢
        cases hr : runChecks sv b.checks with
        | none => simp [hr] at hpre
        | some es =>
          simp only [hr] at hpre
          simp only [hr]
          apply ih (k + 1) j (acc ++ es) (by simpa using hj)
          · intro i hi
            have := hbefore (i + 1) (by omega)
            rw [← this]; congr 1; omega
          · rw [← hat]; congr 1; omega
          · cases hb : blocksEntries recv (bs.take j) with
            | none => simp [hb] at hpre
            | some _ => rfl

theorem take_isSome (recv : Val) : ∀ (bs : List Block) (j : Nat), (blocksEntries recv bs).isSome = true →
    (blocksEntries recv (bs.take j)).isSome = true := by
  intro bs
  induction bs with
  | nil => intro j h; simp [blocksEntries]
  | cons b bs ih =>
    intro j h
    cases j with
    | zero => simp [blocksEntries]
    | succ j =>
      simp only [List.take_succ_cons, blocksEntries] at h ⊢
      cases hl : lookupPath recv b.parent with
      | none => simp [hl] at h
      | some sv =>
        simp only [hl] at h ⊢
        cases hr : runChecks sv b.checks with
        | none => simp [hr] at h
        | some es =>
          simp only [hr] at h ⊢
          cases hb : blocksEntries recv bs with
          | none => simp [hb] at h
          | some rest =>
            have := ih j (by simp [hb])
            cases hb' : blocksEntries recv (bs.take j) with
            | none => simp [hb'] at this
            | some _ => rfl

end Proofs
