/-
  C18: facts about the model of `govalid migrate` (Gvlean/Gen/Migrate.lean) and about the two marker
  spellings (Gvlean/Gen/Decl.lean).
-/
import Gvlean.Gen.Migrate
import Gvlean.Gen.Decl

namespace Proofs
open Mig

/-! ### the two spellings parse to the same marker -/

theorem parse_new (r : List Char) (h : "govalid:".toList.isPrefixOf r = true) :
    Gen.parseMarkerComment (String.ofList ("//".toList ++ r)) = some (String.ofList r) := by
  obtain ⟨t, rfl⟩ := List.isPrefixOf_iff_prefix.mp h
  simp [Gen.parseMarkerComment]

theorem parse_legacy (r : List Char) (h : "govalid:".toList.isPrefixOf r = true) :
    Gen.parseMarkerComment (String.ofList ("// +".toList ++ r)) = some (String.ofList r) := by
  obtain ⟨t, rfl⟩ := List.isPrefixOf_iff_prefix.mp h
  simp [Gen.parseMarkerComment]

/-! ### lines -/

theorem rewriteLines_length : ∀ (st : Lex) (ls : List (List Char)), (rewriteLines st ls).length = ls.length
  | _, [] => rfl
  | st, l :: ls => by simp [rewriteLines, rewriteLines_length]

theorem indent_trim (l : List Char) : l = indentOf l ++ trimLeft l ∧ ∀ c ∈ indentOf l, isBlank c = true := by
  refine ⟨(List.takeWhile_append_dropWhile).symm, ?_⟩
  intro c hc
  unfold indentOf at hc
  induction l with
  | nil => simp at hc
  | cons a t ih =>
    simp only [List.takeWhile_cons] at hc
    split at hc
    · rename_i ha
      simp only [List.mem_cons] at hc
      rcases hc with rfl | hc
      · exact ha
      · exact ih hc
    · simp at hc

/-- a line is either untouched, or it is `indent ++ "// +govalid:" ++ rest` (indent = blanks/tabs) and
    becomes `indent ++ "//govalid:" ++ rest`: indentation, the marker text and everything after it
    (including a trailing '\r') are preserved byte for byte -/
theorem rewriteLine_cases (st : Lex) (l : List Char) :
    rewriteLine st l = (l, false) ∨
    ∃ indent rest, l = indent ++ oldPrefix ++ rest ∧ (∀ c ∈ indent, isBlank c = true) ∧
      st = .code ∧ rewriteLine st l = (indent ++ newPrefix ++ rest, true) := by
  unfold rewriteLine
  by_cases h : (oldPrefix.isPrefixOf (trimLeft l) && st == .code) = true
  · right
    simp only [h, if_true]
    simp only [Bool.and_eq_true, beq_iff_eq] at h
    obtain ⟨hp, hs⟩ := h
    obtain ⟨rest, hrest⟩ := List.isPrefixOf_iff_prefix.mp hp
    obtain ⟨hsplit, hblank⟩ := indent_trim l
    refine ⟨indentOf l, rest, ?_, hblank, hs, ?_⟩
    · rw [List.append_assoc, hrest]; exact hsplit
    · rw [← hrest]; simp
  · left
    simp only [h, Bool.false_eq_true, if_false]

/-- text that merely looks like a marker but lies where the scanner is not in code state at the start
    of the line (inside a raw string or a block comment) is preserved -/
theorem rewriteLine_no_comment (st : Lex) (l : List Char) (h : st ≠ .code) :
    rewriteLine st l = (l, false) := by
  cases st <;> simp_all [rewriteLine]

/-- inside a raw string literal that is not closed on this line the state stays `raw` -/
theorem scanLine_raw (l : List Char) (h : '`' ∉ l) : scanLine .raw l = .raw := by
  induction l with
  | nil => rfl
  | cons c cs ih =>
    have hc : c ≠ '`' := fun e => h (by simp [e])
    have hcs : '`' ∉ cs := fun e => h (by simp [e])
    rw [scanLine]
    · exact ih hcs
    · intro hEq; exact hc hEq

/-- inside a block comment that is not closed on this line the state stays `block` -/
theorem scanLine_block (l : List Char) (h : '*' ∉ l) : scanLine .block l = .block := by
  induction l with
  | nil => rfl
  | cons c cs ih =>
    have hc : c ≠ '*' := fun e => h (by simp [e])
    have hcs : '*' ∉ cs := fun e => h (by simp [e])
    rw [scanLine]
    · exact ih hcs
    · intro r hEq _; exact hc hEq

/-- the count reported is the number of rewritten lines -/
theorem migrate_count (src : List Char) :
    (migrate src).2 = ((rewriteLines .code (splitLines src)).filter (·.2)).length := rfl

/-! ### scanner facts used for idempotence -/

theorem scan_blank (st : Lex) (c : Char) (r : List Char) (h : isBlank c = true) :
    scanLine st (c :: r) = scanLine st r := by
  have hc : c = ' ' ∨ c = '\t' := by simpa [isBlank] using h
  rcases hc with rfl | rfl <;> cases st <;> simp [scanLine]

theorem scan_indent (st : Lex) (ind r : List Char) (h : ∀ c ∈ ind, isBlank c = true) :
    scanLine st (ind ++ r) = scanLine st r := by
  induction ind with
  | nil => rfl
  | cons c cs ih =>
    rw [List.cons_append, scan_blank st c _ (h c (by simp))]
    exact ih (fun x hx => h x (by simp [hx]))

theorem scan_old_code (r : List Char) : scanLine .code (oldPrefix ++ r) = .code := by
  simp [oldPrefix, scanLine]

theorem scan_new_code (r : List Char) : scanLine .code (newPrefix ++ r) = .code := by
  simp [newPrefix, scanLine]

theorem scan_old_other (st : Lex) (h : st ≠ .code) (r : List Char) :
    scanLine st (oldPrefix ++ r) = scanLine st r := by
  cases st <;> simp_all [oldPrefix, scanLine]

theorem scan_new_other (st : Lex) (h : st ≠ .code) (r : List Char) :
    scanLine st (newPrefix ++ r) = scanLine st r := by
  cases st <;> simp_all [newPrefix, scanLine]

/-- the lexer state at the end of a rewritten line is the state at the end of the original line:
    rewriting never changes how the rest of the file is tokenised -/
theorem scan_state_rewrite (st : Lex) (ind rest : List Char) (h : ∀ c ∈ ind, isBlank c = true) :
    scanLine st (ind ++ newPrefix ++ rest) = scanLine st (ind ++ oldPrefix ++ rest) := by
  rw [List.append_assoc, List.append_assoc, scan_indent _ _ _ h, scan_indent _ _ _ h]
  by_cases hs : st = .code
  · subst hs; rw [scan_old_code, scan_new_code]
  · rw [scan_old_other _ hs, scan_new_other _ hs]

theorem trimLeft_indent (ind r : List Char) (h : ∀ c ∈ ind, isBlank c = true) (c : Char) (hc : isBlank c = false) :
    trimLeft (ind ++ c :: r) = c :: r := by
  induction ind with
  | nil => simp [trimLeft, List.dropWhile_cons, hc]
  | cons a t ih =>
    have ha := h a (by simp)
    simp only [trimLeft, List.cons_append, List.dropWhile_cons, ha, if_true]
    exact ih (fun x hx => h x (by simp [hx]))

/-- a rewritten line is not rewritten again -/
theorem rewriteLine_new (st : Lex) (ind rest : List Char) (h : ∀ c ∈ ind, isBlank c = true) :
    rewriteLine st (ind ++ newPrefix ++ rest) = (ind ++ newPrefix ++ rest, false) := by
  have ht : trimLeft (ind ++ newPrefix ++ rest) = newPrefix ++ rest := by
    rw [List.append_assoc]
    exact trimLeft_indent ind _ h '/' (by decide)
  unfold rewriteLine
  simp only [ht]
  have : oldPrefix.isPrefixOf (newPrefix ++ rest) = false := rfl
  simp [this]

/-- second pass over the output lines of a first pass: nothing changes -/
theorem rewriteLines_again : ∀ (st : Lex) (ls : List (List Char)),
    rewriteLines st ((rewriteLines st ls).map (·.1)) = ((rewriteLines st ls).map (·.1)).map (fun l => (l, false))
  | _, [] => rfl
  | st, l :: ls => by
    simp only [rewriteLines, List.map_cons]
    rcases rewriteLine_cases st l with h | ⟨ind, rest, hl, hb, _, hr⟩
    · rw [h]
      simp only
      rw [h]
      congr 1
      exact rewriteLines_again _ ls
    · rw [hr]
      simp only
      rw [rewriteLine_new st ind rest hb, scan_state_rewrite st ind rest hb, ← hl]
      congr 1
      exact rewriteLines_again _ ls

/-! ### split / join -/

theorem splitLines_ne_nil : ∀ (s : List Char), splitLines s ≠ []
  | [] => by simp [splitLines]
  | c :: cs => by
    unfold splitLines
    split
    · simp
    · split <;> simp

theorem join_split : ∀ (s : List Char), joinLines (splitLines s) = s
  | [] => rfl
  | c :: cs => by
    unfold splitLines
    split
    · rename_i h
      have hne := splitLines_ne_nil cs
      cases hs : splitLines cs with
      | nil => exact absurd hs hne
      | cons l ls =>
        have := join_split cs
        rw [hs] at this
        simp [joinLines, h, this]
    · cases hs : splitLines cs with
      | nil => exact absurd hs (splitLines_ne_nil cs)
      | cons l ls =>
        have := join_split cs
        rw [hs] at this
        cases ls with
        | nil => simp [joinLines] at this ⊢; exact this
        | cons l2 ls2 => simp [joinLines] at this ⊢; exact this

theorem splitLines_no_nl : ∀ (s : List Char), ∀ l ∈ splitLines s, '\n' ∉ l
  | [] => by simp [splitLines]
  | c :: cs => by
    intro l hl
    unfold splitLines at hl
    split at hl
    · simp only [List.mem_cons] at hl
      rcases hl with rfl | hl
      · simp
      · exact splitLines_no_nl cs l hl
    · rename_i hc
      cases hs : splitLines cs with
      | nil => exact absurd hs (splitLines_ne_nil cs)
      | cons l0 ls =>
        rw [hs] at hl
        simp only [List.mem_cons] at hl
        have ih := splitLines_no_nl cs
        rw [hs] at ih
        rcases hl with rfl | hl
        · intro hm
          simp only [List.mem_cons] at hm
          rcases hm with hm | hm
          · exact hc hm.symm
          · exact ih l0 (by simp) hm
        · exact ih l (by simp [hl])

theorem split_single : ∀ (l : List Char), '\n' ∉ l → splitLines l = [l]
  | [], _ => rfl
  | c :: cs, hl => by
    have hc : c ≠ '\n' := fun e => hl (by simp [e])
    have hcs : '\n' ∉ cs := fun e => hl (by simp [e])
    unfold splitLines
    rw [if_neg hc, split_single cs hcs]

theorem split_cons : ∀ (l rest : List Char), '\n' ∉ l → splitLines (l ++ '\n' :: rest) = l :: splitLines rest
  | [], rest, _ => by
    simp only [List.nil_append]
    rw [splitLines]
    simp
  | c :: cs, rest, hl => by
    have hc : c ≠ '\n' := fun e => hl (by simp [e])
    have hcs : '\n' ∉ cs := fun e => hl (by simp [e])
    rw [List.cons_append, splitLines, if_neg hc, split_cons cs rest hcs]

theorem split_join : ∀ (ls : List (List Char)), ls ≠ [] → (∀ l ∈ ls, '\n' ∉ l) → splitLines (joinLines ls) = ls
  | [], h, _ => absurd rfl h
  | [l], _, hn => by
    simp only [joinLines]
    exact split_single l (hn l (by simp))
  | l :: l2 :: ls, _, hn => by
    have ih := split_join (l2 :: ls) (by simp) (fun x hx => hn x (by simp [hx]))
    simp only [joinLines]
    rw [split_cons l _ (hn l (by simp)), ih]

theorem rewriteLine_no_nl (st : Lex) (l : List Char) (h : '\n' ∉ l) : '\n' ∉ (rewriteLine st l).1 := by
  rcases rewriteLine_cases st l with h1 | ⟨ind, rest, hl, _, _, hr⟩
  · rw [h1]; exact h
  · rw [hr]
    subst hl
    simp only [List.mem_append, not_or] at h ⊢
    exact ⟨⟨h.1.1, by decide⟩, h.2⟩

theorem rewriteLines_no_nl : ∀ (st : Lex) (ls : List (List Char)), (∀ l ∈ ls, '\n' ∉ l) →
    ∀ l ∈ (rewriteLines st ls).map (·.1), '\n' ∉ l
  | _, [], _ => by simp [rewriteLines]
  | st, l :: ls, h => by
    intro x hx
    simp only [rewriteLines, List.map_cons, List.mem_cons] at hx
    rcases hx with rfl | hx
    · exact rewriteLine_no_nl st l (h l (by simp))
    · exact rewriteLines_no_nl _ ls (fun y hy => h y (by simp [hy])) x hx

/-- the output, split into lines, is the list of (possibly rewritten) input lines: the number of
    lines, every line ending and the presence/absence of a final newline are preserved -/
theorem migrate_lines (src : List Char) :
    splitLines (migrate src).1 = (rewriteLines .code (splitLines src)).map (·.1) := by
  unfold migrate
  simp only
  apply split_join
  · intro h
    have := congrArg List.length h
    simp [rewriteLines_length] at this
    exact splitLines_ne_nil src this
  · exact rewriteLines_no_nl _ _ (splitLines_no_nl src)

theorem migrate_idempotent (src : List Char) : migrate (migrate src).1 = ((migrate src).1, 0) := by
  have hl := migrate_lines src
  have h2 : migrate (migrate src).1 =
      (joinLines ((rewriteLines .code (splitLines (migrate src).1)).map (·.1)),
       ((rewriteLines .code (splitLines (migrate src).1)).filter (·.2)).length) := rfl
  rw [h2, hl, rewriteLines_again]
  simp only [List.map_map, List.filter_map]
  have : (migrate src).1 = joinLines ((rewriteLines .code (splitLines src)).map (·.1)) := rfl
  rw [this]
  simp [Function.comp_def]

/-- nothing to migrate ⇒ the file is returned byte for byte -/
theorem migrate_noop (src : List Char) (h : (migrate src).2 = 0) : (migrate src).1 = src := by
  have hc : ∀ (st : Lex) (ls : List (List Char)), ((rewriteLines st ls).filter (·.2)).length = 0 →
      (rewriteLines st ls).map (·.1) = ls := by
    intro st ls
    induction ls generalizing st with
    | nil => intro _; rfl
    | cons l ls ih =>
      intro h0
      simp only [rewriteLines, List.map_cons] at h0 ⊢
      rcases rewriteLine_cases st l with h1 | ⟨ind, rest, _, _, _, hr⟩
      · rw [h1] at h0 ⊢
        simp only [List.filter_cons] at h0
        simp only [Bool.false_eq_true, if_false] at h0
        rw [ih _ h0]
      · rw [hr] at h0
        simp [List.filter_cons] at h0
  have : (migrate src).1 = joinLines ((rewriteLines .code (splitLines src)).map (·.1)) := rfl
  rw [this, hc _ _ (by rw [← migrate_count]; exact h), join_split]

end Proofs
