/-
  From rules to the generator: a written marker that is applicable (and whose parameter is a
  representable literal) yields exactly one check whose condition fires iff the Spec says "violated";
  a struct-level marker that is not applicable to a field yields nothing (its factory's guard fails).
-/
import Gvlean.Proofs.Rules
import Gvlean.Spec.Report

namespace Proofs
open Go Gen

/-- the 18 non-CEL rules -/
def rules18 : List String :=
  ["required", "gt", "gte", "lt", "lte", "minlength", "maxlength", "length", "minitems", "maxitems", "enum",
   "email", "url", "uuid", "alpha", "numeric", "ipv4", "ipv6"]

/-- side conditions on the marker parameter for an applicable rule ("N representable in the field type") -/
def paramOK (r : String) (expr : Option String) (ty : Ty) : Bool :=
  match r with
  | "gt" | "gte" | "lt" | "lte" =>
    (match expr.bind parseDec with | some d => fits ty d | none => false)
  | "minlength" | "maxlength" | "length" | "minitems" | "maxitems" => (expr.bind parseDec).isSome
  | "enum" => (match expr with
      | some p => Spec.isStringTy ty && !(Spec.enumItems p).isEmpty       -- numeric enums: see c05 note
      | none => false)
  | "required" | "email" | "url" | "uuid" | "alpha" | "numeric" | "ipv4" | "ipv6" => expr.isNone
  | _ => false

theorem mkCheck_eq (S : String) (parent : List String) (f : String) (ty : Ty) (m : Marker) (rule : String)
    (info : RuleInfo) (h1 : Facts.markerTable.lookup m.id = some rule) (hcel : (rule == "cel") = false)
    (h2 : ruleInfo rule = some info) (hg : guardOk info.guard ty = true)
    (he : (info.needsExpr && m.expr.isNone) = false) :
    mkCheck S parent [f] ty m =
      some (buildCheck S parent f ty m.id info (ruleCond rule f ty (m.expr.getD "") info)) := by
  unfold mkCheck
  simp only [h1, List.head?_cons, hcel, h2, hg, he, Bool.not_true, Bool.false_eq_true, if_false]

theorem mkCheck_guard_none (S : String) (parent : List String) (f : String) (ty : Ty) (m : Marker) (rule : String)
    (info : RuleInfo) (h1 : Facts.markerTable.lookup m.id = some rule)
    (h2 : ruleInfo rule = some info) (hg : guardOk info.guard ty = false) :
    mkCheck S parent [f] ty m = none := by
  unfold mkCheck
  simp only [h1, List.head?_cons, h2, hg]
  split <;> simp

/-! ### guards vs the documented table -/

theorem guard_numeric {ty : Ty} (h : Spec.isOrderedNumeric ty = true) : guardOk .numericBasic ty = true := by
  unfold Spec.isOrderedNumeric at h
  unfold guardOk
  cases hu : ty.underlying <;> simp [hu] at h ⊢
  simp only [Kind.isNumeric, Bool.or_eq_true]
  rcases h with h | h <;> simp [h]

theorem guard_string {ty : Ty} (h : Spec.isStringTy ty = true) : guardOk .stringBasic ty = true := by
  unfold Spec.isStringTy at h
  unfold guardOk
  cases hu : ty.underlying <;> simp [hu] at h ⊢
  rename_i k; cases k <;> simp at h ⊢

theorem string_underlying {ty : Ty} (h : Spec.isStringTy ty = true) : ty.underlying = .basic .string := by
  unfold Spec.isStringTy at h
  cases hu : ty.underlying <;> simp [hu] at h
  rename_i k; cases k <;> simp at h; rfl

theorem guard_coll {ty : Ty} (h : Spec.isCollection ty = true) :
    guardOk (.underlyingIn ["Slice", "Array", "Map", "Chan"]) ty = true := by
  unfold Spec.isCollection at h
  unfold guardOk
  cases hu : ty.underlying <;> simp [hu] at h <;> rfl

theorem ruleCond_simple (rule f p : String) (ty : Ty) (info : RuleInfo) (h1 : (rule == "required") = false)
    (h2 : (rule == "enum") = false) : ruleCond rule f ty p info = simpleCond rule f p := by
  simp [ruleCond, h1, h2]

/-- An applicable marker with a representable parameter yields exactly one check, for the right
    field, with the right Type and Path, whose emitted condition fires iff the Spec says "violated". -/
theorem check_sound (S : String) (parent : List String) (f : String) (ty : Ty) (m : Marker) (fv : Val) (b : Bool)
    (r : String) (hr : r ∈ rules18) (hid : m.id = "govalid:" ++ r) (happ : Spec.applies r ty = true)
    (hp : paramOK r m.expr ty = true) (hv : Spec.violates r m.expr ty fv = some b) :
    ∃ c e, mkCheck S parent [f] ty m = some c ∧ c.cond = some e ∧ c.field = f ∧ c.ty = ty ∧ c.rule = r ∧
      c.path = S :: parent ++ [f] ∧ fires (envOf f ty fv) e = some b := by
  simp only [rules18, List.mem_cons, List.not_mem_nil, or_false] at hr
  rcases hr with rfl | rfl | rfl | rfl | rfl | rfl | rfl | rfl | rfl | rfl | rfl | rfl | rfl | rfl | rfl | rfl | rfl | rfl
  · -- required
    obtain ⟨id, expr⟩ := m
    have hid' : id = "govalid:required" := by simp only at hid; rw [hid]; decide
    subst hid'
    cases expr with
    | some p => simp [paramOK] at hp
    | none =>
      obtain ⟨e, he, hf⟩ := required_sound f ty fv b hv
      have hc := mkCheck_eq S parent f ty ⟨"govalid:required", none⟩ "required" Facts.info_required (by rfl) (by decide) (by rfl) (by rfl) (by rfl)
      refine ⟨_, e, hc, ?_, rfl, rfl, (by show (("govalid:required" : String).drop 8).toString = "required"; decide), rfl, hf⟩
      show ruleCond "required" f ty "" Facts.info_required = some e
      simp only [ruleCond, beq_self_eq_true, if_true]
      exact he
  · -- gt
    obtain ⟨id, expr⟩ := m
    have hid' : id = "govalid:gt" := by simp only at hid; rw [hid]; decide
    subst hid'
    cases expr with
    | none => simp [paramOK] at hp
    | some p =>
      simp only [paramOK, Option.bind_some] at hp
      cases hd : parseDec p with
      | none => simp [hd] at hp
      | some d =>
      simp only [hd] at hp
      have hg : guardOk Facts.info_gt.guard ty = true := guard_numeric (by simpa [Spec.applies] using happ)
      have hc := mkCheck_eq S parent f ty ⟨"govalid:gt", some p⟩ "gt" Facts.info_gt (by rfl) (by decide) (by rfl) hg (by rfl)
      refine ⟨_, Facts.cond_gt f p, hc, ?_, rfl, rfl, (by show (("govalid:gt" : String).drop 8).toString = "gt"; decide), rfl, ?_⟩
      · show ruleCond "gt" f ty p Facts.info_gt = some (Facts.cond_gt f p)
        rw [ruleCond_simple _ _ _ _ _ (by decide) (by decide)]; rfl
      · exact gt_sound f p ty fv d b hd hp hv
  · -- gte
    obtain ⟨id, expr⟩ := m
    have hid' : id = "govalid:gte" := by simp only at hid; rw [hid]; decide
    subst hid'
    cases expr with
    | none => simp [paramOK] at hp
    | some p =>
      simp only [paramOK, Option.bind_some] at hp
      cases hd : parseDec p with
      | none => simp [hd] at hp
      | some d =>
      simp only [hd] at hp
      have hg : guardOk Facts.info_gte.guard ty = true := guard_numeric (by simpa [Spec.applies] using happ)
      have hc := mkCheck_eq S parent f ty ⟨"govalid:gte", some p⟩ "gte" Facts.info_gte (by rfl) (by decide) (by rfl) hg (by rfl)
      refine ⟨_, Facts.cond_gte f p, hc, ?_, rfl, rfl, (by show (("govalid:gte" : String).drop 8).toString = "gte"; decide), rfl, ?_⟩
      · show ruleCond "gte" f ty p Facts.info_gte = some (Facts.cond_gte f p)
        rw [ruleCond_simple _ _ _ _ _ (by decide) (by decide)]; rfl
      · exact gte_sound f p ty fv d b hd hp hv
  · -- lt
    obtain ⟨id, expr⟩ := m
    have hid' : id = "govalid:lt" := by simp only at hid; rw [hid]; decide
    subst hid'
    cases expr with
    | none => simp [paramOK] at hp
    | some p =>
      simp only [paramOK, Option.bind_some] at hp
      cases hd : parseDec p with
      | none => simp [hd] at hp
      | some d =>
      simp only [hd] at hp
      have hg : guardOk Facts.info_lt.guard ty = true := guard_numeric (by simpa [Spec.applies] using happ)
      have hc := mkCheck_eq S parent f ty ⟨"govalid:lt", some p⟩ "lt" Facts.info_lt (by rfl) (by decide) (by rfl) hg (by rfl)
      refine ⟨_, Facts.cond_lt f p, hc, ?_, rfl, rfl, (by show (("govalid:lt" : String).drop 8).toString = "lt"; decide), rfl, ?_⟩
      · show ruleCond "lt" f ty p Facts.info_lt = some (Facts.cond_lt f p)
        rw [ruleCond_simple _ _ _ _ _ (by decide) (by decide)]; rfl
      · exact lt_sound f p ty fv d b hd hp hv
  · -- lte
    obtain ⟨id, expr⟩ := m
    have hid' : id = "govalid:lte" := by simp only at hid; rw [hid]; decide
    subst hid'
    cases expr with
    | none => simp [paramOK] at hp
    | some p =>
      simp only [paramOK, Option.bind_some] at hp
      cases hd : parseDec p with
      | none => simp [hd] at hp
      | some d =>
      simp only [hd] at hp
      have hg : guardOk Facts.info_lte.guard ty = true := guard_numeric (by simpa [Spec.applies] using happ)
      have hc := mkCheck_eq S parent f ty ⟨"govalid:lte", some p⟩ "lte" Facts.info_lte (by rfl) (by decide) (by rfl) hg (by rfl)
      refine ⟨_, Facts.cond_lte f p, hc, ?_, rfl, rfl, (by show (("govalid:lte" : String).drop 8).toString = "lte"; decide), rfl, ?_⟩
      · show ruleCond "lte" f ty p Facts.info_lte = some (Facts.cond_lte f p)
        rw [ruleCond_simple _ _ _ _ _ (by decide) (by decide)]; rfl
      · exact lte_sound f p ty fv d b hd hp hv
  · -- minlength
    obtain ⟨id, expr⟩ := m
    have hid' : id = "govalid:minlength" := by simp only at hid; rw [hid]; decide
    subst hid'
    cases expr with
    | none => simp [paramOK] at hp
    | some p =>
      simp only [paramOK, Option.bind_some] at hp
      cases hd : parseDec p with
      | none => simp [hd] at hp
      | some d =>
      simp only [hd] at hp
      have hs : Spec.isStringTy ty = true := by simpa [Spec.applies] using happ
      have hg : guardOk Facts.info_minlength.guard ty = true := guard_string hs
      have hc := mkCheck_eq S parent f ty ⟨"govalid:minlength", some p⟩ "minlength" Facts.info_minlength (by rfl) (by decide) (by rfl) hg (by rfl)
      refine ⟨_, Facts.cond_minlength f p, hc, ?_, rfl, rfl, (by show (("govalid:minlength" : String).drop 8).toString = "minlength"; decide), rfl, ?_⟩
      · show ruleCond "minlength" f ty p Facts.info_minlength = some (Facts.cond_minlength f p)
        rw [ruleCond_simple _ _ _ _ _ (by decide) (by decide)]; rfl
      · exact minlength_sound f p ty fv d b (string_underlying hs) hd hv
  · -- maxlength
    obtain ⟨id, expr⟩ := m
    have hid' : id = "govalid:maxlength" := by simp only at hid; rw [hid]; decide
    subst hid'
    cases expr with
    | none => simp [paramOK] at hp
    | some p =>
      simp only [paramOK, Option.bind_some] at hp
      cases hd : parseDec p with
      | none => simp [hd] at hp
      | some d =>
      simp only [hd] at hp
      have hs : Spec.isStringTy ty = true := by simpa [Spec.applies] using happ
      have hg : guardOk Facts.info_maxlength.guard ty = true := guard_string hs
      have hc := mkCheck_eq S parent f ty ⟨"govalid:maxlength", some p⟩ "maxlength" Facts.info_maxlength (by rfl) (by decide) (by rfl) hg (by rfl)
      refine ⟨_, Facts.cond_maxlength f p, hc, ?_, rfl, rfl, (by show (("govalid:maxlength" : String).drop 8).toString = "maxlength"; decide), rfl, ?_⟩
      · show ruleCond "maxlength" f ty p Facts.info_maxlength = some (Facts.cond_maxlength f p)
        rw [ruleCond_simple _ _ _ _ _ (by decide) (by decide)]; rfl
      · exact maxlength_sound f p ty fv d b (string_underlying hs) hd hv
  · -- length
    obtain ⟨id, expr⟩ := m
    have hid' : id = "govalid:length" := by simp only at hid; rw [hid]; decide
    subst hid'
    cases expr with
    | none => simp [paramOK] at hp
    | some p =>
      simp only [paramOK, Option.bind_some] at hp
      cases hd : parseDec p with
      | none => simp [hd] at hp
      | some d =>
      simp only [hd] at hp
      have hs : Spec.isStringTy ty = true := by simpa [Spec.applies] using happ
      have hg : guardOk Facts.info_length.guard ty = true := guard_string hs
      have hc := mkCheck_eq S parent f ty ⟨"govalid:length", some p⟩ "length" Facts.info_length (by rfl) (by decide) (by rfl) hg (by rfl)
      refine ⟨_, Facts.cond_length f p, hc, ?_, rfl, rfl, (by show (("govalid:length" : String).drop 8).toString = "length"; decide), rfl, ?_⟩
      · show ruleCond "length" f ty p Facts.info_length = some (Facts.cond_length f p)
        rw [ruleCond_simple _ _ _ _ _ (by decide) (by decide)]; rfl
      · exact length_sound f p ty fv d b (string_underlying hs) hd hv
  · -- minitems
    obtain ⟨id, expr⟩ := m
    have hid' : id = "govalid:minitems" := by simp only at hid; rw [hid]; decide
    subst hid'
    cases expr with
    | none => simp [paramOK] at hp
    | some p =>
      simp only [paramOK, Option.bind_some] at hp
      cases hd : parseDec p with
      | none => simp [hd] at hp
      | some d =>
      simp only [hd] at hp
      have hg : guardOk Facts.info_minitems.guard ty = true := guard_coll (by simpa [Spec.applies] using happ)
      have hc := mkCheck_eq S parent f ty ⟨"govalid:minitems", some p⟩ "minitems" Facts.info_minitems (by rfl) (by decide) (by rfl) hg (by rfl)
      refine ⟨_, Facts.cond_minitems f p, hc, ?_, rfl, rfl, (by show (("govalid:minitems" : String).drop 8).toString = "minitems"; decide), rfl, ?_⟩
      · show ruleCond "minitems" f ty p Facts.info_minitems = some (Facts.cond_minitems f p)
        rw [ruleCond_simple _ _ _ _ _ (by decide) (by decide)]; rfl
      · exact minitems_sound f p ty fv d b hd hv
  · -- maxitems
    obtain ⟨id, expr⟩ := m
    have hid' : id = "govalid:maxitems" := by simp only at hid; rw [hid]; decide
    subst hid'
    cases expr with
    | none => simp [paramOK] at hp
    | some p =>
      simp only [paramOK, Option.bind_some] at hp
      cases hd : parseDec p with
      | none => simp [hd] at hp
      | some d =>
      simp only [hd] at hp
      have hg : guardOk Facts.info_maxitems.guard ty = true := guard_coll (by simpa [Spec.applies] using happ)
      have hc := mkCheck_eq S parent f ty ⟨"govalid:maxitems", some p⟩ "maxitems" Facts.info_maxitems (by rfl) (by decide) (by rfl) hg (by rfl)
      refine ⟨_, Facts.cond_maxitems f p, hc, ?_, rfl, rfl, (by show (("govalid:maxitems" : String).drop 8).toString = "maxitems"; decide), rfl, ?_⟩
      · show ruleCond "maxitems" f ty p Facts.info_maxitems = some (Facts.cond_maxitems f p)
        rw [ruleCond_simple _ _ _ _ _ (by decide) (by decide)]; rfl
      · exact maxitems_sound f p ty fv d b hd hv
  · -- enum (string-like fields; numeric enums are covered by corr-sem only, see Props/C05)
    obtain ⟨id, expr⟩ := m
    have hid' : id = "govalid:enum" := by simp only at hid; rw [hid]; decide
    subst hid'
    cases expr with
    | none => simp [paramOK] at hp
    | some p =>
      simp only [paramOK, Bool.and_eq_true, Bool.not_eq_true', List.isEmpty_eq_false_iff] at hp
      obtain ⟨hs, hne⟩ := hp
      have hu := string_underlying hs
      have hg : guardOk Facts.info_enum.guard ty = true := by unfold guardOk; rw [hu]; rfl
      obtain ⟨e, he, hf⟩ := enum_str_sound f p ty fv b hu hne hv
      have hc := mkCheck_eq S parent f ty ⟨"govalid:enum", some p⟩ "enum" Facts.info_enum (by rfl) (by decide) (by rfl) hg (by rfl)
      refine ⟨_, e, hc, ?_, rfl, rfl, (by show (("govalid:enum" : String).drop 8).toString = "enum"; decide), rfl, hf⟩
      show ruleCond "enum" f ty p Facts.info_enum = some e
      have e1 : ("enum" == "required") = false := by decide
      simp only [ruleCond, e1, Bool.false_eq_true, if_false, beq_self_eq_true, if_true]
      exact he
  · -- email
    obtain ⟨id, expr⟩ := m
    have hid' : id = "govalid:email" := by simp only at hid; rw [hid]; decide
    subst hid'
    cases expr with
    | some p => simp [paramOK] at hp
    | none =>
      have hs : Spec.isStringTy ty = true := by simpa [Spec.applies] using happ
      have hg : guardOk Facts.info_email.guard ty = true := guard_string hs
      have hc := mkCheck_eq S parent f ty ⟨"govalid:email", none⟩ "email" Facts.info_email (by rfl) (by decide) (by rfl) hg (by rfl)
      refine ⟨_, Facts.cond_email f "", hc, ?_, rfl, rfl, (by show (("govalid:email" : String).drop 8).toString = "email"; decide), rfl, ?_⟩
      · show ruleCond "email" f ty "" Facts.info_email = some (Facts.cond_email f "")
        rw [ruleCond_simple _ _ _ _ _ (by decide) (by decide)]; rfl
      · exact email_sound f "" ty fv b (string_underlying hs) hv
  · -- url
    obtain ⟨id, expr⟩ := m
    have hid' : id = "govalid:url" := by simp only at hid; rw [hid]; decide
    subst hid'
    cases expr with
    | some p => simp [paramOK] at hp
    | none =>
      have hs : Spec.isStringTy ty = true := by simpa [Spec.applies] using happ
      have hg : guardOk Facts.info_url.guard ty = true := guard_string hs
      have hc := mkCheck_eq S parent f ty ⟨"govalid:url", none⟩ "url" Facts.info_url (by rfl) (by decide) (by rfl) hg (by rfl)
      refine ⟨_, Facts.cond_url f "", hc, ?_, rfl, rfl, (by show (("govalid:url" : String).drop 8).toString = "url"; decide), rfl, ?_⟩
      · show ruleCond "url" f ty "" Facts.info_url = some (Facts.cond_url f "")
        rw [ruleCond_simple _ _ _ _ _ (by decide) (by decide)]; rfl
      · exact url_sound f "" ty fv b (string_underlying hs) hv
  · -- uuid
    obtain ⟨id, expr⟩ := m
    have hid' : id = "govalid:uuid" := by simp only at hid; rw [hid]; decide
    subst hid'
    cases expr with
    | some p => simp [paramOK] at hp
    | none =>
      have hs : Spec.isStringTy ty = true := by simpa [Spec.applies] using happ
      have hg : guardOk Facts.info_uuid.guard ty = true := guard_string hs
      have hc := mkCheck_eq S parent f ty ⟨"govalid:uuid", none⟩ "uuid" Facts.info_uuid (by rfl) (by decide) (by rfl) hg (by rfl)
      refine ⟨_, Facts.cond_uuid f "", hc, ?_, rfl, rfl, (by show (("govalid:uuid" : String).drop 8).toString = "uuid"; decide), rfl, ?_⟩
      · show ruleCond "uuid" f ty "" Facts.info_uuid = some (Facts.cond_uuid f "")
        rw [ruleCond_simple _ _ _ _ _ (by decide) (by decide)]; rfl
      · exact uuid_sound f "" ty fv b (string_underlying hs) hv
  · -- alpha
    obtain ⟨id, expr⟩ := m
    have hid' : id = "govalid:alpha" := by simp only at hid; rw [hid]; decide
    subst hid'
    cases expr with
    | some p => simp [paramOK] at hp
    | none =>
      have hs : Spec.isStringTy ty = true := by simpa [Spec.applies] using happ
      have hg : guardOk Facts.info_alpha.guard ty = true := guard_string hs
      have hc := mkCheck_eq S parent f ty ⟨"govalid:alpha", none⟩ "alpha" Facts.info_alpha (by rfl) (by decide) (by rfl) hg (by rfl)
      refine ⟨_, Facts.cond_alpha f "", hc, ?_, rfl, rfl, (by show (("govalid:alpha" : String).drop 8).toString = "alpha"; decide), rfl, ?_⟩
      · show ruleCond "alpha" f ty "" Facts.info_alpha = some (Facts.cond_alpha f "")
        rw [ruleCond_simple _ _ _ _ _ (by decide) (by decide)]; rfl
      · exact alpha_sound f "" ty fv b (string_underlying hs) hv
  · -- numeric
    obtain ⟨id, expr⟩ := m
    have hid' : id = "govalid:numeric" := by simp only at hid; rw [hid]; decide
    subst hid'
    cases expr with
    | some p => simp [paramOK] at hp
    | none =>
      have hs : Spec.isStringTy ty = true := by simpa [Spec.applies] using happ
      have hg : guardOk Facts.info_numeric.guard ty = true := guard_string hs
      have hc := mkCheck_eq S parent f ty ⟨"govalid:numeric", none⟩ "numeric" Facts.info_numeric (by rfl) (by decide) (by rfl) hg (by rfl)
      refine ⟨_, Facts.cond_numeric f "", hc, ?_, rfl, rfl, (by show (("govalid:numeric" : String).drop 8).toString = "numeric"; decide), rfl, ?_⟩
      · show ruleCond "numeric" f ty "" Facts.info_numeric = some (Facts.cond_numeric f "")
        rw [ruleCond_simple _ _ _ _ _ (by decide) (by decide)]; rfl
      · exact numeric_sound f "" ty fv b (string_underlying hs) hv
  · -- ipv4
    obtain ⟨id, expr⟩ := m
    have hid' : id = "govalid:ipv4" := by simp only at hid; rw [hid]; decide
    subst hid'
    cases expr with
    | some p => simp [paramOK] at hp
    | none =>
      have hs : Spec.isStringTy ty = true := by simpa [Spec.applies] using happ
      have hg : guardOk Facts.info_ipv4.guard ty = true := guard_string hs
      have hc := mkCheck_eq S parent f ty ⟨"govalid:ipv4", none⟩ "ipv4" Facts.info_ipv4 (by rfl) (by decide) (by rfl) hg (by rfl)
      refine ⟨_, Facts.cond_ipv4 f "", hc, ?_, rfl, rfl, (by show (("govalid:ipv4" : String).drop 8).toString = "ipv4"; decide), rfl, ?_⟩
      · show ruleCond "ipv4" f ty "" Facts.info_ipv4 = some (Facts.cond_ipv4 f "")
        rw [ruleCond_simple _ _ _ _ _ (by decide) (by decide)]; rfl
      · exact ipv4_sound f "" ty fv b (string_underlying hs) hv
  · -- ipv6
    obtain ⟨id, expr⟩ := m
    have hid' : id = "govalid:ipv6" := by simp only at hid; rw [hid]; decide
    subst hid'
    cases expr with
    | some p => simp [paramOK] at hp
    | none =>
      have hs : Spec.isStringTy ty = true := by simpa [Spec.applies] using happ
      have hg : guardOk Facts.info_ipv6.guard ty = true := guard_string hs
      have hc := mkCheck_eq S parent f ty ⟨"govalid:ipv6", none⟩ "ipv6" Facts.info_ipv6 (by rfl) (by decide) (by rfl) hg (by rfl)
      refine ⟨_, Facts.cond_ipv6 f "", hc, ?_, rfl, rfl, (by show (("govalid:ipv6" : String).drop 8).toString = "ipv6"; decide), rfl, ?_⟩
      · show ruleCond "ipv6" f ty "" Facts.info_ipv6 = some (Facts.cond_ipv6 f "")
        rw [ruleCond_simple _ _ _ _ _ (by decide) (by decide)]; rfl
      · exact ipv6_sound f "" ty fv b (string_underlying hs) hv

end Proofs
