/-
  Per-rule soundness: the condition the generator EMITS for a rule (regenerated facts), evaluated by
  the Go-expression semantics on a field value, fires exactly when the Spec says the rule is violated.
-/
import Gvlean.Gen.Exec
import Gvlean.Spec.Rules
import Gvlean.Props.C11
import Gvlean.Props.C12
import Gvlean.Props.C13
import Gvlean.Proofs.Ascii

namespace Proofs
open Go Gen

/-- the environment of one check: only its own field is visible -/
def envOf (f : String) (ty : Ty) (fv : Val) : Env := fun g => if g == f then some (ty, fv) else none

@[simp] theorem envOf_self (f : String) (ty : Ty) (fv : Val) : envOf f ty fv f = some (ty, fv) := by
  simp [envOf]

/-- "N is representable in the field type" for integer fields (floats: the harness uses dyadic literals) -/
def fits (ty : Ty) (d : Dec) : Bool :=
  match ty.underlying with
  | .basic k => if k.isInteger then decFitsInt k d else true
  | _ => true

theorem evalRaw_dec {p : String} {d : Dec} (hp : parseDec p = some d) : evalRaw p = some (.dec d) := by
  simp [evalRaw, hp]

/-- shape `!(t.F OP N)` -/
theorem fires_negated_cmp (op f p : String) (ty : Ty) (fv : Val) (d : Dec) (hp : parseDec p = some d)
    (hop : op ≠ "||" ∧ op ≠ "&&") :
    fires (envOf f ty fv) (.not (.paren (.bin op (.sel f) (.raw p)))) = (cmpFldConst op ty fv (.dec d)).map (!·) := by
  obtain ⟨h1, h2⟩ := hop
  simp only [fires, eval, envOf_self, Option.map_some, evalRaw_dec hp, evalBin]
  have e1 : (op == "||") = false := by simpa using h1
  have e2 : (op == "&&") = false := by simpa using h2
  simp only [e1, e2, Bool.false_and, Bool.false_eq_true, if_false]
  cases h : cmpFldConst op ty fv (.dec d) <;> simp

theorem ordHolds_gt (o : Ordering) : ordHolds ">" o = some (Spec.relHolds "gt" (some o)) := by cases o <;> rfl
theorem ordHolds_gte (o : Ordering) : ordHolds ">=" o = some (Spec.relHolds "gte" (some o)) := by cases o <;> rfl
theorem ordHolds_lt (o : Ordering) : ordHolds "<" o = some (Spec.relHolds "lt" (some o)) := by cases o <;> rfl
theorem ordHolds_lte (o : Ordering) : ordHolds "<=" o = some (Spec.relHolds "lte" (some o)) := by cases o <;> rfl

/-- Go's comparison of a numeric field with a constant agrees with the Spec's order relation
    (NaN: every ordered comparison is false) — for the four operators of C01. -/
theorem cmpFldConst_ord (op rule : String) (ty : Ty) (fv : Val) (d : Dec) (o : Option Ordering)
    (hops : (op, rule) ∈ [(">", "gt"), (">=", "gte"), ("<", "lt"), ("<=", "lte")])
    (hfit : fits ty d = true) (hcmp : Spec.numCmp ty fv d = some o) :
    cmpFldConst op ty fv (.dec d) = some (Spec.relHolds rule o) := by
  have hord : ∀ o', ordHolds op o' = some (Spec.relHolds rule (some o')) := by
    intro o'
    simp only [List.mem_cons, Prod.mk.injEq, List.not_mem_nil, or_false] at hops
    rcases hops with ⟨rfl, rfl⟩ | ⟨rfl, rfl⟩ | ⟨rfl, rfl⟩ | ⟨rfl, rfl⟩
    · exact ordHolds_gt o'
    · exact ordHolds_gte o'
    · exact ordHolds_lt o'
    · exact ordHolds_lte o'
  have hun : unordered op = some (Spec.relHolds rule none) := by
    simp only [List.mem_cons, Prod.mk.injEq, List.not_mem_nil, or_false] at hops
    rcases hops with ⟨rfl, rfl⟩ | ⟨rfl, rfl⟩ | ⟨rfl, rfl⟩ | ⟨rfl, rfl⟩ <;> rfl
  unfold Spec.numCmp at hcmp
  unfold cmpFldConst fits at *
  generalize ty.underlying = u at *
  cases u with
  | basic k =>
    cases fv with
    | int x =>
      by_cases hk : k.isInteger = true
      · simp only [hk, if_true, Option.some.injEq] at hcmp hfit
        subst hcmp
        simp [hk, hfit, hord]
      · simp [hk] at hcmp
    | f64 b =>
      cases k <;> simp at hcmp
      subst hcmp
      cases hc : cmpFloatDec (decodeF64 b) d with
      | none => simp only [hc, hun]
      | some o' => simp only [hc, hord]
    | f32 b =>
      cases k <;> simp at hcmp
      subst hcmp
      cases hc : cmpFloatDec (decodeF32 b) d with
      | none => simp only [hc, hun]
      | some o' => simp only [hc, hord]
    | _ => cases k <;> simp at hcmp
  | _ => cases fv <;> simp at hcmp

/-! ### C01: gt / gte / lt / lte -/

theorem violates_ord {rule p : String} {ty : Ty} {fv : Val} {d : Dec} {b : Bool}
    (hr : rule ∈ ["gt", "gte", "lt", "lte"]) (hp : parseDec p = some d)
    (hv : Spec.violates rule (some p) ty fv = some b) :
    ∃ o, Spec.numCmp ty fv d = some o ∧ b = !Spec.relHolds rule o := by
  simp only [List.mem_cons, List.not_mem_nil, or_false] at hr
  rcases hr with rfl | rfl | rfl | rfl <;>
  · simp only [Spec.violates, Option.bind_some, hp] at hv
    cases hc : Spec.numCmp ty fv d with
    | none => simp [hc] at hv
    | some o => simp [hc] at hv; exact ⟨o, rfl, by rw [hv]; simp⟩

theorem gt_sound (f p : String) (ty : Ty) (fv : Val) (d : Dec) (b : Bool)
    (hp : parseDec p = some d) (hfit : fits ty d = true)
    (hv : Spec.violates "gt" (some p) ty fv = some b) :
    fires (envOf f ty fv) (Facts.cond_gt f p) = some b := by
  obtain ⟨o, hc, rfl⟩ := violates_ord (by simp) hp hv
  rw [Facts.cond_gt, fires_negated_cmp _ _ _ _ _ _ hp (by decide),
    cmpFldConst_ord ">" "gt" ty fv d o (by simp) hfit hc]
  rfl

theorem gte_sound (f p : String) (ty : Ty) (fv : Val) (d : Dec) (b : Bool)
    (hp : parseDec p = some d) (hfit : fits ty d = true)
    (hv : Spec.violates "gte" (some p) ty fv = some b) :
    fires (envOf f ty fv) (Facts.cond_gte f p) = some b := by
  obtain ⟨o, hc, rfl⟩ := violates_ord (by simp) hp hv
  rw [Facts.cond_gte, fires_negated_cmp _ _ _ _ _ _ hp (by decide),
    cmpFldConst_ord ">=" "gte" ty fv d o (by simp) hfit hc]
  rfl

theorem lt_sound (f p : String) (ty : Ty) (fv : Val) (d : Dec) (b : Bool)
    (hp : parseDec p = some d) (hfit : fits ty d = true)
    (hv : Spec.violates "lt" (some p) ty fv = some b) :
    fires (envOf f ty fv) (Facts.cond_lt f p) = some b := by
  obtain ⟨o, hc, rfl⟩ := violates_ord (by simp) hp hv
  rw [Facts.cond_lt, fires_negated_cmp _ _ _ _ _ _ hp (by decide),
    cmpFldConst_ord "<" "lt" ty fv d o (by simp) hfit hc]
  rfl

theorem lte_sound (f p : String) (ty : Ty) (fv : Val) (d : Dec) (b : Bool)
    (hp : parseDec p = some d) (hfit : fits ty d = true)
    (hv : Spec.violates "lte" (some p) ty fv = some b) :
    fires (envOf f ty fv) (Facts.cond_lte f p) = some b := by
  obtain ⟨o, hc, rfl⟩ := violates_ord (by simp) hp hv
  rw [Facts.cond_lte, fires_negated_cmp _ _ _ _ _ _ hp (by decide),
    cmpFldConst_ord "<=" "lte" ty fv d o (by simp) hfit hc]
  rfl

/-! ### generic shapes -/

/-- shape `t.F OP <literal>` -/
theorem fires_cmp_raw (op f z : String) (ty : Ty) (fv : Val) (c : RV) (hz : evalRaw z = some c)
    (hop : op ≠ "||" ∧ op ≠ "&&") :
    fires (envOf f ty fv) (.bin op (.sel f) (.raw z)) = cmpFldConst op ty fv c := by
  obtain ⟨h1, h2⟩ := hop
  have e1 : (op == "||") = false := by simpa using h1
  have e2 : (op == "&&") = false := by simpa using h2
  simp only [fires, eval, envOf_self, Option.map_some, hz, e1, e2, Bool.false_and, Bool.false_eq_true, if_false]
  have hb : evalBin op (.fld ty fv) c = (cmpFldConst op ty fv c).map .bool := by
    unfold evalBin
    split <;> first | rfl | (simp_all)
  rw [hb]
  cases cmpFldConst op ty fv c <;> rfl

theorem compare_eq_iff (a b : Int) : (compare a b == .eq) = (a == b) := by
  rw [Bool.eq_iff_iff]
  simp only [beq_iff_eq]
  constructor
  · intro h
    unfold compare instOrdInt at h
    simp only [compareOfLessAndEq] at h
    split at h
    · simp at h
    · split at h
      · assumption
      · simp at h
  · rintro rfl
    unfold compare instOrdInt
    simp [compareOfLessAndEq]

theorem compare_mul_pos (a b c : Int) (hc : 0 < c) : compare (a * c) (b * c) = compare a b := by
  unfold compare instOrdInt
  simp only [compareOfLessAndEq]
  have h1 : a * c < b * c ↔ a < b := Int.mul_lt_mul_right hc
  have h2 : a * c = b * c ↔ a = b := by
    constructor
    · intro h; exact Int.eq_of_mul_eq_mul_right (by omega) h
    · rintro rfl; rfl
  simp only [h1, h2]

theorem pow10_pos (k : Nat) : (0 : Int) < (10 : Int) ^ k := Int.pow_pos (by decide)

/-- comparing an integer with an integral decimal constant is comparing with its integer value -/
theorem cmpIntDec_isInt (n : Int) (d : Dec) (h : d.isInt = true) : cmpIntDec n d = compare n d.toInt := by
  unfold cmpIntDec Dec.toInt
  unfold Dec.isInt at h
  have hnum : d.num = d.num / (10 : Int) ^ d.k * (10 : Int) ^ d.k := by
    simp only [Bool.or_eq_true, beq_iff_eq] at h
    rcases h with h | h
    · rw [h]; simp
    · exact (Int.ediv_mul_cancel (Int.dvd_of_emod_eq_zero h)).symm
  conv => lhs; rhs; rw [hnum]
  exact compare_mul_pos _ _ _ (pow10_pos d.k)

theorem compare_cases (a b : Int) :
    (a < b ∧ compare a b = .lt) ∨ (a = b ∧ compare a b = .eq) ∨ (b < a ∧ compare a b = .gt) := by
  unfold compare instOrdInt; simp only [compareOfLessAndEq]
  rcases Int.lt_trichotomy a b with h | h | h
  · left; simp [h]
  · right; left; subst h; simp
  · right; right
    have h1 : ¬ a < b := by omega
    have h2 : ¬ a = b := by omega
    simp [h, h1, h2]

theorem ordHolds_compare_lt (a b : Int) : ordHolds "<" (compare a b) = some (decide (a < b)) := by
  rcases compare_cases a b with ⟨h, hc⟩ | ⟨h, hc⟩ | ⟨h, hc⟩ <;> rw [hc] <;> simp [ordHolds] <;> omega
theorem ordHolds_compare_gt (a b : Int) : ordHolds ">" (compare a b) = some (decide (a > b)) := by
  rcases compare_cases a b with ⟨h, hc⟩ | ⟨h, hc⟩ | ⟨h, hc⟩ <;> rw [hc] <;> simp [ordHolds] <;> omega
theorem ordHolds_compare_ne (a b : Int) : ordHolds "!=" (compare a b) = some (a != b) := by
  rcases compare_cases a b with ⟨h, hc⟩ | ⟨h, hc⟩ | ⟨h, hc⟩ <;> rw [hc]
  · have : (a != b) = true := by simp; omega
    rw [this]; rfl
  · simp [ordHolds, h]
  · have : (a != b) = true := by simp; omega
    rw [this]; rfl
theorem ordHolds_compare_eq (a b : Int) : ordHolds "==" (compare a b) = some (a == b) := by
  rcases compare_cases a b with ⟨h, hc⟩ | ⟨h, hc⟩ | ⟨h, hc⟩ <;> rw [hc]
  · have : a ≠ b := by omega
    simp [ordHolds, this]
  · simp [ordHolds, h]
  · have : a ≠ b := by omega
    simp [ordHolds, this]

/-- shape `fn(t.F) OP N` where `fn` yields an int -/
theorem fires_intfn_cmp (op fn f p : String) (ty : Ty) (fv : Val) (n : Int) (d : Dec)
    (hfn : eval (envOf f ty fv) [] (.call fn (.sel f)) = some (.int n))
    (hp : parseDec p = some d) (hint : d.isInt = true) (hop : op ≠ "||" ∧ op ≠ "&&") :
    fires (envOf f ty fv) (.bin op (.call fn (.sel f)) (.raw p)) = (ordHolds op (compare n d.toInt)) := by
  obtain ⟨h1, h2⟩ := hop
  have e1 : (op == "||") = false := by simpa using h1
  have e2 : (op == "&&") = false := by simpa using h2
  simp only [fires]
  rw [eval, hfn]
  simp only [e1, e2, Bool.false_and, Bool.false_eq_true, if_false, eval, evalRaw_dec hp]
  have hb : evalBin op (.int n) (.dec d) = (ordHolds op (compare n d.toInt)).map .bool := by
    unfold evalBin
    split <;> simp_all [cmpIntDec_isInt]
  rw [hb]
  cases ordHolds op (compare n d.toInt) <;> rfl

/-! ### C03: minlength / maxlength / length -/

theorem runeCount_eval (f : String) (ty : Ty) (b : Bytes) (ip : IpClass) (hty : ty.underlying = .basic .string) :
    eval (envOf f ty (.str b ip)) [] (.call "utf8.RuneCountInString" (.sel f)) = some (.int (runeCount b)) := by
  simp [eval, hty]

theorem violates_minlength {p : String} {ty : Ty} {fv : Val} {d : Dec} {r : Bool} (hp : parseDec p = some d)
    (hv : Spec.violates "minlength" (some p) ty fv = some r) :
    ∃ b ip, fv = .str b ip ∧ d.isInt = true ∧ r = decide ((runeCount b : Int) < d.toInt) := by
  simp only [Spec.violates, Option.bind_some, hp] at hv
  cases fv <;> simp at hv
  rename_i b ip
  exact ⟨b, ip, rfl, hv.1.1, hv.2.symm⟩

theorem violates_maxlength {p : String} {ty : Ty} {fv : Val} {d : Dec} {r : Bool} (hp : parseDec p = some d)
    (hv : Spec.violates "maxlength" (some p) ty fv = some r) :
    ∃ b ip, fv = .str b ip ∧ d.isInt = true ∧ r = decide ((runeCount b : Int) > d.toInt) := by
  simp only [Spec.violates, Option.bind_some, hp] at hv
  cases fv <;> simp at hv
  rename_i b ip
  exact ⟨b, ip, rfl, hv.1.1, hv.2.symm⟩

theorem violates_length {p : String} {ty : Ty} {fv : Val} {d : Dec} {r : Bool} (hp : parseDec p = some d)
    (hv : Spec.violates "length" (some p) ty fv = some r) :
    ∃ b ip, fv = .str b ip ∧ d.isInt = true ∧ r = ((runeCount b : Int) != d.toInt) := by
  simp only [Spec.violates, Option.bind_some, hp] at hv
  cases fv <;> simp at hv
  rename_i b ip
  exact ⟨b, ip, rfl, hv.1.1, hv.2.symm⟩

theorem minlength_sound (f p : String) (ty : Ty) (fv : Val) (d : Dec) (r : Bool)
    (hty : ty.underlying = .basic .string) (hp : parseDec p = some d)
    (hv : Spec.violates "minlength" (some p) ty fv = some r) :
    fires (envOf f ty fv) (Facts.cond_minlength f p) = some r := by
  obtain ⟨b, ip, rfl, hint, rfl⟩ := violates_minlength hp hv
  rw [Facts.cond_minlength, fires_intfn_cmp "<" _ f p ty _ _ d (runeCount_eval f ty b ip hty) hp hint (by decide)]
  exact ordHolds_compare_lt _ _

theorem maxlength_sound (f p : String) (ty : Ty) (fv : Val) (d : Dec) (r : Bool)
    (hty : ty.underlying = .basic .string) (hp : parseDec p = some d)
    (hv : Spec.violates "maxlength" (some p) ty fv = some r) :
    fires (envOf f ty fv) (Facts.cond_maxlength f p) = some r := by
  obtain ⟨b, ip, rfl, hint, rfl⟩ := violates_maxlength hp hv
  rw [Facts.cond_maxlength, fires_intfn_cmp ">" _ f p ty _ _ d (runeCount_eval f ty b ip hty) hp hint (by decide)]
  exact ordHolds_compare_gt _ _

theorem length_sound (f p : String) (ty : Ty) (fv : Val) (d : Dec) (r : Bool)
    (hty : ty.underlying = .basic .string) (hp : parseDec p = some d)
    (hv : Spec.violates "length" (some p) ty fv = some r) :
    fires (envOf f ty fv) (Facts.cond_length f p) = some r := by
  obtain ⟨b, ip, rfl, hint, rfl⟩ := violates_length hp hv
  rw [Facts.cond_length, fires_intfn_cmp "!=" _ f p ty _ _ d (runeCount_eval f ty b ip hty) hp hint (by decide)]
  exact ordHolds_compare_ne _ _

/-! ### C04: minitems / maxitems -/

theorem lenOf_collLen {ty : Ty} {fv : Val} {n : Nat} (h : Spec.collLen ty fv = some n) : lenOf fv = some (n : Int) := by
  unfold Spec.collLen at h
  generalize ty.underlying = u at h
  cases u <;> cases fv <;> simp at h
  case array.arr m k => obtain ⟨rfl, rfl⟩ := h; simp [lenOf]
  all_goals (rename_i l; subst h; cases l <;> simp [lenOf])

theorem len_eval (f : String) (ty : Ty) (fv : Val) (n : Nat) (h : Spec.collLen ty fv = some n) :
    eval (envOf f ty fv) [] (.call "len" (.sel f)) = some (.int (n : Int)) := by
  simp [eval, lenOf_collLen h]

theorem violates_minitems {p : String} {ty : Ty} {fv : Val} {d : Dec} {r : Bool} (hp : parseDec p = some d)
    (hv : Spec.violates "minitems" (some p) ty fv = some r) :
    ∃ n, Spec.collLen ty fv = some n ∧ d.isInt = true ∧ r = decide ((n : Int) < d.toInt) := by
  simp only [Spec.violates, Option.bind_some, hp] at hv
  cases hc : Spec.collLen ty fv with
  | none => simp [hc] at hv
  | some n => simp [hc] at hv; exact ⟨n, rfl, hv.1.1, hv.2.symm⟩

theorem violates_maxitems {p : String} {ty : Ty} {fv : Val} {d : Dec} {r : Bool} (hp : parseDec p = some d)
    (hv : Spec.violates "maxitems" (some p) ty fv = some r) :
    ∃ n, Spec.collLen ty fv = some n ∧ d.isInt = true ∧ r = decide ((n : Int) > d.toInt) := by
  simp only [Spec.violates, Option.bind_some, hp] at hv
  cases hc : Spec.collLen ty fv with
  | none => simp [hc] at hv
  | some n => simp [hc] at hv; exact ⟨n, rfl, hv.1.1, hv.2.symm⟩

theorem minitems_sound (f p : String) (ty : Ty) (fv : Val) (d : Dec) (r : Bool) (hp : parseDec p = some d)
    (hv : Spec.violates "minitems" (some p) ty fv = some r) :
    fires (envOf f ty fv) (Facts.cond_minitems f p) = some r := by
  obtain ⟨n, hc, hint, rfl⟩ := violates_minitems hp hv
  rw [Facts.cond_minitems, fires_intfn_cmp "<" _ f p ty _ _ d (len_eval f ty fv n hc) hp hint (by decide)]
  exact ordHolds_compare_lt _ _

theorem maxitems_sound (f p : String) (ty : Ty) (fv : Val) (d : Dec) (r : Bool) (hp : parseDec p = some d)
    (hv : Spec.violates "maxitems" (some p) ty fv = some r) :
    fires (envOf f ty fv) (Facts.cond_maxitems f p) = some r := by
  obtain ⟨n, hc, hint, rfl⟩ := violates_maxitems hp hv
  rw [Facts.cond_maxitems, fires_intfn_cmp ">" _ f p ty _ _ d (len_eval f ty fv n hc) hp hint (by decide)]
  exact ordHolds_compare_gt _ _

/-! ### C06: format markers -/

theorem fires_not_helper (fn f : String) (ty : Ty) (b : Bytes) (ip : IpClass) (r : Bool)
    (h : eval (envOf f ty (.str b ip)) [] (.call fn (.sel f)) = some (.bool r)) :
    fires (envOf f ty (.str b ip)) (.not (.call fn (.sel f))) = some (!r) := by
  simp only [fires]
  rw [eval, h]

theorem str_of_violates {rule : String} {ty : Ty} {fv : Val} {r : Bool}
    (hr : rule ∈ ["email", "url", "uuid", "alpha", "numeric", "ipv4", "ipv6"])
    (hv : Spec.violates rule none ty fv = some r) : ∃ b ip, fv = .str b ip := by
  simp only [List.mem_cons, List.not_mem_nil, or_false] at hr
  rcases hr with rfl | rfl | rfl | rfl | rfl | rfl | rfl <;>
  · simp only [Spec.violates] at hv
    cases fv <;> simp at hv
    exact ⟨_, _, rfl⟩

theorem email_sound (f p : String) (ty : Ty) (fv : Val) (r : Bool) (hty : ty.underlying = .basic .string)
    (hv : Spec.violates "email" none ty fv = some r) :
    fires (envOf f ty fv) (Facts.cond_email f p) = some r := by
  obtain ⟨b, ip, rfl⟩ := str_of_violates (by simp) hv
  simp only [Spec.violates, Option.some.injEq] at hv
  rw [Facts.cond_email, fires_not_helper _ _ _ _ _ (Spec.emailSpecB b), hv]
  simp [eval, hty, Props.c11, helperResult]

theorem url_sound (f p : String) (ty : Ty) (fv : Val) (r : Bool) (hty : ty.underlying = .basic .string)
    (hv : Spec.violates "url" none ty fv = some r) :
    fires (envOf f ty fv) (Facts.cond_url f p) = some r := by
  obtain ⟨b, ip, rfl⟩ := str_of_violates (by simp) hv
  simp only [Spec.violates, Option.some.injEq] at hv
  rw [Facts.cond_url, fires_not_helper _ _ _ _ _ (Spec.urlSpecB b), hv]
  simp [eval, hty, Props.c12, helperResult]

theorem uuid_sound (f p : String) (ty : Ty) (fv : Val) (r : Bool) (hty : ty.underlying = .basic .string)
    (hv : Spec.violates "uuid" none ty fv = some r) :
    fires (envOf f ty fv) (Facts.cond_uuid f p) = some r := by
  obtain ⟨b, ip, rfl⟩ := str_of_violates (by simp) hv
  simp only [Spec.violates, Option.some.injEq] at hv
  rw [Facts.cond_uuid, fires_not_helper _ _ _ _ _ (Spec.uuidSpecB b), hv]
  simp [eval, hty, Props.c13, helperResult]

theorem alpha_sound (f p : String) (ty : Ty) (fv : Val) (r : Bool) (hty : ty.underlying = .basic .string)
    (hv : Spec.violates "alpha" none ty fv = some r) :
    fires (envOf f ty fv) (Facts.cond_alpha f p) = some r := by
  obtain ⟨b, ip, rfl⟩ := str_of_violates (by simp) hv
  simp only [Spec.violates, Option.some.injEq] at hv
  rw [Facts.cond_alpha, fires_not_helper _ _ _ _ _ (Spec.alphaSpecB b), hv]
  simp [eval, hty, eq_of_triple (IsValidAlpha_spec b), helperResult]

theorem numeric_sound (f p : String) (ty : Ty) (fv : Val) (r : Bool) (hty : ty.underlying = .basic .string)
    (hv : Spec.violates "numeric" none ty fv = some r) :
    fires (envOf f ty fv) (Facts.cond_numeric f p) = some r := by
  obtain ⟨b, ip, rfl⟩ := str_of_violates (by simp) hv
  simp only [Spec.violates, Option.some.injEq] at hv
  rw [Facts.cond_numeric, fires_not_helper _ _ _ _ _ (Spec.numericSpecB b), hv]
  simp [eval, hty, eq_of_triple (IsNumeric_spec b), helperResult]

/-- ipv4: relative to the standard library's classification `ip` of the string (0 = not an IP, 4, 6) -/
theorem ipv4_sound (f p : String) (ty : Ty) (fv : Val) (r : Bool) (hty : ty.underlying = .basic .string)
    (hv : Spec.violates "ipv4" none ty fv = some r) :
    fires (envOf f ty fv) (Facts.cond_ipv4 f p) = some r := by
  obtain ⟨b, ip, rfl⟩ := str_of_violates (by simp) hv
  simp only [Spec.violates, Option.some.injEq] at hv
  subst hv
  by_cases h0 : ip = 0
  · subst h0; simp [Facts.cond_ipv4, fires, eval, hty, evalBin, isEqOp, ordHolds, List.lookup]
  · by_cases h4 : ip = 4
    · subst h4; simp [Facts.cond_ipv4, fires, eval, hty, evalBin, isEqOp, ordHolds, List.lookup]
    · simp [Facts.cond_ipv4, fires, eval, hty, evalBin, isEqOp, ordHolds, List.lookup, h0, h4]

theorem ipv6_sound (f p : String) (ty : Ty) (fv : Val) (r : Bool) (hty : ty.underlying = .basic .string)
    (hv : Spec.violates "ipv6" none ty fv = some r) :
    fires (envOf f ty fv) (Facts.cond_ipv6 f p) = some r := by
  obtain ⟨b, ip, rfl⟩ := str_of_violates (by simp) hv
  simp only [Spec.violates, Option.some.injEq] at hv
  subst hv
  by_cases h0 : ip = 0
  · subst h0; simp [Facts.cond_ipv6, fires, eval, hty, evalBin, isEqOp, ordHolds, List.lookup]
  · by_cases h4 : ip = 4
    · subst h4; simp [Facts.cond_ipv6, fires, eval, hty, evalBin, isEqOp, ordHolds, List.lookup]
    · simp [Facts.cond_ipv6, fires, eval, hty, evalBin, isEqOp, ordHolds, List.lookup, h0, h4]

/-! ### C02: required -/

theorem zeroLit_underlying (ty : Ty) : zeroLit ty = zeroBase ty.underlying := by
  cases ty <;> simp [zeroLit, Ty.underlying, Facts.zeroViaUnderlying]

theorem cmpFinDec_zero (neg : Bool) (m : Nat) (e : Int) (k : Nat) :
    (cmpFinDec neg m e ⟨0, k⟩ == .eq) = (m == 0) := by
  unfold cmpFinDec
  have hp := pow10_pos k
  have h2 : ∀ n : Nat, (0 : Int) < (2 : Int) ^ n := fun n => Int.pow_pos (by decide)
  simp only
  split
  · rw [compare_eq_iff, Bool.eq_iff_iff]; simp only [beq_iff_eq]
    constructor
    · intro h
      have h' := Int.mul_eq_zero.mp h
      rcases h' with h' | h'
      · have h'' := Int.mul_eq_zero.mp h'
        rcases h'' with h'' | h''
        · cases neg <;> simp at h'' <;> omega
        · have := h2 e.toNat; omega
      · omega
    · intro h; subst h; cases neg <;> simp
  · rw [compare_eq_iff, Bool.eq_iff_iff]; simp only [beq_iff_eq, Int.zero_mul]
    constructor
    · intro h
      have h' := Int.mul_eq_zero.mp h
      rcases h' with h' | h'
      · cases neg <;> simp at h' <;> omega
      · omega
    · intro h; subst h; cases neg <;> simp

theorem cmpFloatDec_zero (fvl : FVal) (k : Nat) :
    (match cmpFloatDec fvl ⟨0, k⟩ with | some o => ordHolds "==" o | none => unordered "==") = some fvl.isZero := by
  cases fvl with
  | nan => rfl
  | inf neg => cases neg <;> rfl
  | fin neg m e =>
    simp only [cmpFloatDec]
    have := cmpFinDec_zero neg m e k
    cases h : cmpFinDec neg m e ⟨0, k⟩ <;> simp [h] at this <;> simp [ordHolds, FVal.isZero, this]
    all_goals (cases m <;> simp_all)

theorem imEq_zero (fvl : FVal) (k : Nat) : floatEqDec fvl ⟨0, k⟩ = fvl.isZero := by
  unfold floatEqDec
  cases fvl with
  | nan => rfl
  | inf neg => cases neg <;> rfl
  | fin neg m e =>
    simp only [cmpFloatDec]
    have := cmpFinDec_zero neg m e k
    cases h : cmpFinDec neg m e ⟨0, k⟩ <;> simp [h] at this <;> simp [FVal.isZero, this]
    all_goals (cases m <;> simp_all)

theorem decFitsInt_zero (k : Kind) (hk : k.isInteger = true) : decFitsInt k ⟨0, 0⟩ = true := by
  cases k <;> simp [Kind.isInteger] at hk <;> decide

theorem cmpIntDec_zero (x : Int) : ordHolds "==" (cmpIntDec x ⟨0, 0⟩) = some (x == 0) := by
  unfold cmpIntDec
  simp only [Int.pow_zero, Int.mul_one]
  exact ordHolds_compare_eq x 0

/-- The condition emitted for `required` fires exactly on the zero value of the field's type. -/
theorem required_sound (f : String) (ty : Ty) (fv : Val) (r : Bool)
    (hv : Spec.violates "required" none ty fv = some r) :
    ∃ e, requiredCond f ty = some e ∧ fires (envOf f ty fv) e = some r := by
  simp only [Spec.violates] at hv
  unfold Spec.isZero at hv
  unfold requiredCond
  rw [zeroLit_underlying]
  simp only [Facts.required_switchOnUnderlying, if_true]
  cases hu : ty.underlying with
  | basic k =>
    rw [hu] at hv
    have hfind : Facts.required_cases.find? (fun c => c.1.contains (Ty.basic k).className) = none := by rfl
    simp only [hfind]
    cases fv with
    | int x =>
      by_cases hk : k.isInteger = true
      · have hz : zeroBase (.basic k) = "0" := by cases k <;> simp [Kind.isInteger] at hk <;> rfl
        refine ⟨_, by rw [hz]; rfl, ?_⟩
        cases k <;> simp [Kind.isInteger] at hk <;> simp [Kind.isInteger] at hv <;> subst hv <;>
          (rw [Facts.required_zeroCond, fires_cmp_raw "==" f "0" ty _ (.dec ⟨0, 0⟩) (by rfl) (by decide)]
           simp only [cmpFldConst, hu, Kind.isInteger, Bool.true_and]
           rw [decFitsInt_zero _ (by rfl)]; simp only [if_true]; exact cmpIntDec_zero x)
      · cases k <;> simp [Kind.isInteger] at hk <;> simp [Kind.isInteger] at hv
    | f64 b =>
      cases k <;> simp at hv
      subst hv
      refine ⟨_, rfl, ?_⟩
      show fires _ (GoExpr.bin "==" (.sel f) (.raw "0.0")) = _
      rw [fires_cmp_raw "==" f "0.0" ty _ (.dec ⟨0, 1⟩) (by rfl) (by decide)]
      simp only [cmpFldConst, hu]
      exact cmpFloatDec_zero _ 1
    | f32 b =>
      cases k <;> simp at hv
      subst hv
      refine ⟨_, rfl, ?_⟩
      show fires _ (GoExpr.bin "==" (.sel f) (.raw "0.0")) = _
      rw [fires_cmp_raw "==" f "0.0" ty _ (.dec ⟨0, 1⟩) (by rfl) (by decide)]
      simp only [cmpFldConst, hu]
      exact cmpFloatDec_zero _ 1
    | c128 re im =>
      cases k <;> simp at hv
      subst hv
      refine ⟨_, rfl, ?_⟩
      show fires _ (GoExpr.bin "==" (.sel f) (.raw "0.0i")) = _
      rw [fires_cmp_raw "==" f "0.0i" ty _ (.imag ⟨0, 1⟩) (by rfl) (by decide)]
      simp only [cmpFldConst, hu, isEqOp, beq_self_eq_true, Bool.true_or, if_true, imEq_zero]
      cases (decodeF64 re).isZero <;> cases (decodeF64 im).isZero <;> simp [ordHolds]
    | c64 re im =>
      cases k <;> simp at hv
      subst hv
      refine ⟨_, rfl, ?_⟩
      show fires _ (GoExpr.bin "==" (.sel f) (.raw "0.0i")) = _
      rw [fires_cmp_raw "==" f "0.0i" ty _ (.imag ⟨0, 1⟩) (by rfl) (by decide)]
      simp only [cmpFldConst, hu, isEqOp, beq_self_eq_true, Bool.true_or, if_true, imEq_zero]
      cases (decodeF32 re).isZero <;> cases (decodeF32 im).isZero <;> simp [ordHolds]
    | str b ip =>
      cases k <;> simp at hv
      subst hv
      refine ⟨_, rfl, ?_⟩
      show fires _ (GoExpr.bin "==" (.sel f) (.raw "\"\"")) = _
      rw [fires_cmp_raw "==" f "\"\"" ty _ (.str []) (by rfl) (by decide)]
      simp only [cmpFldConst, hu, isEqOp, beq_self_eq_true, Bool.true_or, if_true]
      cases b <;> rfl
    | bool b =>
      cases k <;> simp at hv
      subst hv
      refine ⟨_, rfl, ?_⟩
      show fires _ (GoExpr.bin "==" (.sel f) (.raw "false")) = _
      rw [fires_cmp_raw "==" f "false" ty _ (.bool false) (by rfl) (by decide)]
      simp only [cmpFldConst, hu, isEqOp, beq_self_eq_true, Bool.true_or, if_true]
      cases r <;> rfl
    | _ => cases k <;> simp at hv
  | slice =>
    rw [hu] at hv
    cases fv <;> simp at hv
    subst hv
    refine ⟨_, rfl, ?_⟩
    rename_i l
    simp only [fires, eval, envOf_self, Option.map_some, List.lookup, evalBin, cmpFldConst, hu, isEqOp]
    cases l <;> rfl
  | map =>
    rw [hu] at hv
    cases fv <;> simp at hv
    subst hv
    refine ⟨_, rfl, ?_⟩
    rename_i l
    simp only [fires, eval, envOf_self, Option.map_some, List.lookup, evalBin, cmpFldConst, hu, isEqOp]
    cases l <;> rfl
  | chan =>
    rw [hu] at hv
    cases fv <;> simp at hv
    subst hv
    refine ⟨_, rfl, ?_⟩
    rename_i l
    simp only [fires, eval, envOf_self, Option.map_some, List.lookup, evalBin, cmpFldConst, hu, isEqOp]
    cases l <;> rfl
  | array n =>
    rw [hu] at hv
    cases fv <;> simp at hv
    obtain ⟨rfl, rfl⟩ := hv
    refine ⟨_, rfl, ?_⟩
    have hlen : eval (envOf f ty (.arr n)) [] (.call "len" (.sel f)) = some (.int (n : Int)) := by simp [eval, lenOf]
    rw [fires_intfn_cmp "==" "len" f "0" ty _ _ ⟨0, 0⟩ hlen (by rfl) (by rfl) (by decide)]
    rw [show (Dec.toInt ⟨0, 0⟩) = 0 from rfl, ordHolds_compare_eq]
    congr 1
    rw [Bool.eq_iff_iff]; simp
  | ptr =>
    rw [hu] at hv
    cases fv <;> simp at hv
    subst hv
    refine ⟨_, rfl, ?_⟩
    show fires _ (GoExpr.bin "==" (GoExpr.sel f) (GoExpr.raw "nil")) = _
    rw [fires_cmp_raw "==" f "nil" ty _ RV.nil (by rfl) (by decide)]
    rename_i n
    simp only [cmpFldConst, hu, isEqOp]
    cases n <;> rfl
  | iface =>
    rw [hu] at hv
    cases fv <;> simp at hv
    subst hv
    refine ⟨_, rfl, ?_⟩
    show fires _ (GoExpr.bin "==" (GoExpr.sel f) (GoExpr.raw "nil")) = _
    rw [fires_cmp_raw "==" f "nil" ty _ RV.nil (by rfl) (by decide)]
    rename_i n
    simp only [cmpFldConst, hu, isEqOp]
    cases n <;> rfl
  | func =>
    rw [hu] at hv
    cases fv <;> simp at hv
    subst hv
    refine ⟨_, rfl, ?_⟩
    show fires _ (GoExpr.bin "==" (GoExpr.sel f) (GoExpr.raw "nil")) = _
    rw [fires_cmp_raw "==" f "nil" ty _ RV.nil (by rfl) (by decide)]
    rename_i n
    simp only [cmpFldConst, hu, isEqOp]
    cases n <;> rfl
  | strukt => rw [hu] at hv; cases fv <;> simp at hv
  | named u => rw [hu] at hv; cases fv <;> simp at hv

/-! ### C05: enum -/

/-- one step of a `&&` chain (Go's short-circuit order) -/
theorem fires_and (env : Env) (l r : GoExpr) (a v : Bool) (hl : fires env l = some a) (hr : fires env r = some v) :
    fires env (.bin "&&" l r) = some (a && v) := by
  simp only [fires] at hl hr ⊢
  rw [eval]
  cases hl' : eval env [] l with
  | none => simp [hl'] at hl
  | some lv =>
    simp only [hl'] at hl
    cases lv <;> simp at hl
    subst hl
    rename_i ab
    cases ab
    · simp
    · cases hr' : eval env [] r with
      | none => simp [hr'] at hr
      | some rv =>
        simp only [hr'] at hr
        cases rv <;> simp at hr
        subst hr
        simp [evalBin]

/-- evaluation of a left-nested `&&` chain -/
theorem fires_and_chain (env : Env) (val : GoExpr → Bool) :
    ∀ (conds : List GoExpr) (acc : GoExpr) (a : Bool), fires env acc = some a →
      (∀ c ∈ conds, fires env c = some (val c)) →
      fires env (conds.foldl (fun acc x => .bin "&&" acc x) acc) = some (a && conds.all val) := by
  intro conds
  induction conds with
  | nil => intro acc a hacc _; simp [hacc]
  | cons c cs ih =>
    intro acc a hacc hall
    simp only [List.foldl_cons, List.all_cons]
    rw [ih _ _ (fires_and env acc c a (val c) hacc (hall c (by simp))) (fun x hx => hall x (by simp [hx])), Bool.and_assoc]

theorem enum_item_str (f it : String) (ty : Ty) (b : Bytes) (ip : IpClass) (hty : ty.underlying = .basic .string) :
    fires (envOf f ty (.str b ip)) (Facts.enum_itemStr f it) = some (b != it.toUTF8.toList) := by
  simp only [Facts.enum_itemStr, fires, eval, envOf_self, Option.map_some]
  have e1 : ("!=" == "||") = false := by decide
  have e2 : ("!=" == "&&") = false := by decide
  simp only [e1, e2, Bool.false_and, Bool.false_eq_true, if_false, evalBin, cmpFldConst, hty, isEqOp]
  by_cases h : b = it.toUTF8.toList
  · subst h; simp [ordHolds]
  · have : (b == it.toUTF8.toList) = false := by simpa using h
    have hb : (b != it.toUTF8.toList) = true := bne_iff_ne.mpr h
    rw [hb]
    simp only [ordHolds, this]
    rfl

/-- enum on a string field: the emitted chain fires iff the value is none of the (trimmed) items.
    Stated for the guard EXTRACTED from enum.go (`Facts.info_enum.guard`). -/
theorem enum_str_sound (f p : String) (ty : Ty) (fv : Val) (r : Bool)
    (hty : ty.underlying = .basic .string) (hne : Spec.enumItems p ≠ [])
    (hv : Spec.violates "enum" (some p) ty fv = some r) :
    ∃ e, enumCond f ty p Facts.info_enum.guard = some e ∧ fires (envOf f ty fv) e = some r := by
  simp only [Spec.violates] at hv
  cases hm : Spec.enumMember ty fv (Spec.enumItems p) with
  | none => simp [hm] at hv
  | some m =>
    simp only [hm, Option.map_some, Option.some.injEq] at hv
    subst hv
    unfold Spec.enumMember at hm
    rw [hty] at hm
    cases fv <;> simp [Kind.isInteger] at hm
    rename_i b ip
    have hitems : (p.splitOn Facts.enum_sep).map trimSpace = Spec.enumItems p := rfl
    have hnum : enumIsNum Facts.info_enum.guard ty = false := by unfold enumIsNum; rw [hty]; rfl
    unfold enumCond
    simp only [hitems, hnum, Bool.false_eq_true, if_false]
    cases hi : Spec.enumItems p with
    | nil => exact absurd hi hne
    | cons it its =>
      simp only [List.map_cons, Facts.enum_joinOp]
      refine ⟨_, rfl, ?_⟩
      have hval : ∀ c ∈ its.map (fun it => Facts.enum_itemStr f it),
          fires (envOf f ty (.str b ip)) c = some ((fun c => match c with
            | .bin _ _ (.strlit s) => b != s.toUTF8.toList
            | _ => true) c) := by
        intro c hc
        simp only [List.mem_map] at hc
        obtain ⟨it', _, rfl⟩ := hc
        exact enum_item_str f it' ty b ip hty
      rw [fires_and_chain _ _ _ _ _ (enum_item_str f it ty b ip hty) hval]
      rw [hi] at hm
      subst hm
      congr 1
      simp only [List.any_cons, List.all_map, Bool.not_or]
      congr 1
      · rw [Bool.eq_iff_iff]; simp only [bne_iff_ne, ne_eq, Bool.not_eq_true', beq_eq_false_iff_ne]
        exact ⟨fun h heq => h heq.symm, fun h heq => h heq.symm⟩
      · rw [Bool.eq_iff_iff]
        simp only [List.all_eq_true, Function.comp, Facts.enum_itemStr, bne_iff_ne, ne_eq, Bool.not_eq_true',
          List.any_eq_false, beq_iff_eq]
        constructor
        · intro h x hx; exact fun heq => h x hx heq.symm
        · intro h x hx; exact fun heq => h x hx heq.symm

end Proofs
