/-
  C09 (markers on nested anonymous structs): the propagation block of `analyzeNest` reports exactly what
  `Spec.directEntries` demands of the direct leaf fields — under the OUTER path (finding C07-K8) — followed by
  the entries of the nested fields' own markers under the full path.
-/
import Gvlean.Proofs.Report

namespace Proofs
open Go Gen

theorem runChecks_append (sv : Val) (a b : List Check) :
    runChecks sv (a ++ b) =
      (match runChecks sv a, runChecks sv b with
        | some x, some y => some (x ++ y)
        | _, _ => none) := by
  induction a with
  | nil => simp [runChecks]; cases runChecks sv b <;> rfl
  | cons c cs ih =>
    simp only [List.cons_append, runChecks]
    cases hc : c.cond with
    | none => simp only []; exact ih
    | some e =>
      simp only []
      cases hl : lookupField sv c.field with
      | none => simp
      | some fv =>
        simp only []
        rw [ih]
        cases hf : fires (fun f => if f == c.field then some (c.ty, fv) else none) e with
        | none => cases runChecks sv cs <;> cases runChecks sv b <;> simp
        | some t =>
          cases t <;> cases runChecks sv cs <;> cases runChecks sv b <;> simp

/-- one leaf declared with `names`: the propagation loop's checks, run on the nested struct's value -/
theorem names_run (S : String) (parent : List String) (ty : Ty) (ml : List Marker) (nv : Val)
    (hok : ∀ m ∈ ml, markerOK ty m = true) :
    ∀ (names : List String) (es : List Spec.Entry),
      Spec.namesEntries (S :: parent) ty ml nv names = some es →
      runChecks nv ((names.map fun n => mkChecks S parent [n] ty ml).flatten) = some (es.map conv) := by
  intro names
  induction names with
  | nil => intro es h; simp [Spec.namesEntries] at h; subst h; simp [runChecks]
  | cons f ns ih =>
    intro es hspec
    simp only [Spec.namesEntries, getField_eq] at hspec
    cases hf : lookupField nv f with
    | none => simp [hf] at hspec
    | some fv =>
      simp only [hf] at hspec
      cases hl : Spec.leafEntries (S :: parent) f ty ml fv with
      | none => simp [hl] at hspec
      | some e1 =>
        cases hr : Spec.namesEntries (S :: parent) ty ml nv ns with
        | none => simp [hl, hr] at hspec
        | some e2 =>
          simp only [hl, hr, Option.some.injEq] at hspec
          subst hspec
          have h1 := leaf_sound S parent f ty nv fv hf ml e1 hok hl
          have h2 := ih e2 hr
          simp only [List.map_cons, List.flatten_cons, runChecks_append, h1, h2, List.map_append]

/-- struct-typed members of the nested struct: silent under `ml` (hypothesis `hsil`, see `strukt_required_silent`) -/
theorem strukt_names_run (S : String) (parent : List String) (ml : List Marker) (nv : Val)
    (hsil : ∀ n, runChecks nv (mkChecks S parent [n] Ty.strukt ml) = some []) :
    ∀ names : List String, runChecks nv ((names.map fun n => mkChecks S parent [n] Ty.strukt ml).flatten) = some [] := by
  intro names
  induction names with
  | nil => simp [runChecks]
  | cons n ns ih => simp only [List.map_cons, List.flatten_cons, runChecks_append, hsil n, ih, List.append_nil]

/-- the propagation block: exactly `Spec.directEntries`, reported under the OUTER path `S :: parent` -/
theorem propagated_sound (S : String) (parent : List String) (ml : List Marker) (nv : Val)
    (hsil : ∀ n, runChecks nv (mkChecks S parent [n] Ty.strukt ml) = some []) :
    ∀ (fields : List FieldT) (es : List Spec.Entry),
      (∀ names ty doc, FieldT.leaf names ty doc ∈ fields → ∀ m ∈ ml, markerOK ty m = true) →
      Spec.directEntries (S :: parent) ml nv fields = some es →
      runChecks nv (propagated S parent ml fields) = some (es.map conv) := by
  intro fields
  induction fields with
  | nil => intro es _ h; simp [Spec.directEntries] at h; subst h; simp [propagated, runChecks]
  | cons f fs ih =>
    intro es hok hspec
    have hfs : runChecks nv (propagated S parent ml (f :: fs)) =
        (match runChecks nv (((fieldNames f).map fun n => mkChecks S parent [n] (fieldTy f) ml).flatten),
               runChecks nv (propagated S parent ml fs) with
          | some x, some y => some (x ++ y)
          | _, _ => none) := by
      simp only [propagated, List.map_cons, List.flatten_cons, runChecks_append]
    rw [hfs]
    cases f with
    | leaf names ty doc =>
      simp only [Spec.directEntries] at hspec
      cases h1 : Spec.namesEntries (S :: parent) ty ml nv names with
      | none => simp [h1] at hspec
      | some e1 =>
        cases h2 : Spec.directEntries (S :: parent) ml nv fs with
        | none => simp [h1, h2] at hspec
        | some e2 =>
          simp only [h1, h2, Option.some.injEq] at hspec
          subst hspec
          have r1 := names_run S parent ty ml nv (hok names ty doc (by simp)) names e1 h1
          have r2 := ih e2 (fun n t d hm => hok n t d (by simp [hm])) h2
          simp only [fieldNames, fieldTy, r1, r2, List.map_append]
    | nest names doc inner =>
      simp only [Spec.directEntries] at hspec
      have r2 := ih es (fun n t d hm => hok n t d (by simp [hm])) hspec
      simp only [fieldNames, fieldTy, strukt_names_run S parent ml nv hsil names, r2, List.nil_append]

theorem requiredCond_strukt (x : String) : requiredCond x Ty.strukt = none := by
  unfold requiredCond
  have h : Facts.required_cases.find? (fun c => c.1.contains (if Facts.required_switchOnUnderlying then Ty.strukt.underlying else Ty.strukt).className) = none := by decide +kernel
  simp only [h]
  have hz : zeroLit Ty.strukt = "" := by decide +kernel
  simp [hz]

/-- `required` handed down to a struct-typed member: the validator exists but its condition is empty — nothing is reported -/
theorem strukt_required_silent (S : String) (parent : List String) (x : String) (nv : Val) :
    runChecks nv (mkChecks S parent [x] Ty.strukt [{ id := "govalid:required", expr := none }]) = some [] := by
  obtain ⟨h1, h2, _, _⟩ := rule_ids "required" (by decide)
  cases hi : ruleInfo "required" with
  | none => simp [hi] at h2
  | some info =>
    by_cases hg : guardOk info.guard Ty.strukt = true
    · have hne : (info.needsExpr && (none : Option String).isNone) = false := by
        have hall : ∀ i, ruleInfo "required" = some i → i.needsExpr = false := by decide +kernel
        simp [hall info hi]
      have := mkCheck_eq S parent x Ty.strukt { id := "govalid:required", expr := none } "required" info h1 (by decide) hi hg hne
      simp [mkChecks, this, runChecks, buildCheck, ruleCond, requiredCond_strukt]
    · have := mkCheck_guard_none S parent x Ty.strukt { id := "govalid:required", expr := none } "required" info h1 hi (by simpa using hg)
      simp [mkChecks, this, runChecks]

/-- a nested struct `n` that carries the markers `ml` (no struct-level markers): first the handed-down rules of the
    direct leaf fields (path `S :: parent` — the nested struct's own name is missing: K8), then the nested fields'
    own rules under the full path -/
theorem nest_marked_sound (S : String) (recv : Val) (fields : List FieldT) (n : String) (parent : List String)
    (sv nv : Val) (ml : List Marker)
    (hclean : cleanFields [] fields = true)
    (hok : ∀ names ty doc, FieldT.leaf names ty doc ∈ fields → ∀ m ∈ ml, markerOK ty m = true)
    (hsil : ∀ x, runChecks nv (mkChecks S parent [x] Ty.strukt ml) = some [])
    (hsv : lookupPath recv parent = some sv) (hn : lookupField sv n = some nv)
    (e0 e1 : List Spec.Entry)
    (hd : Spec.directEntries (S :: parent) ml nv fields = some e0)
    (ho : Spec.fieldsEntries [] (S :: (parent ++ [n])) nv fields = some e1) :
    blocksEntries recv (analyzeNest S [] parent ml fields [n]) = some ((e0 ++ e1).map conv) := by
  have hlp := lookupPath_snoc recv parent sv nv n hsv hn
  have hp := propagated_sound S parent ml nv hsil fields e0 hok hd
  have hf := fields_sound S [] recv fields (parent ++ [n]) nv e1 hclean hlp ho
  simp only [analyzeNest, List.append_nil, blocksEntries_append, hf, List.map_append]
  by_cases hempty : (propagated S parent ml fields).isEmpty = true
  · simp only [hempty, if_true]
    simp only [List.isEmpty_iff] at hempty
    rw [hempty, runChecks] at hp
    simp only [Option.some.injEq] at hp
    simp [blocksEntries, ← hp]
  · simp only [hempty, Bool.false_eq_true, if_false]
    simp [blocksEntries, hlp, hp]

/-! ### the Path aside: the same rules and values as under the full path -/

theorem markerEntry_rv (p q : List String) (name : String) (ty : Ty) (m : Marker) (fv : Val) :
    (Spec.markerEntry p name ty m fv).map (·.map Spec.Entry.rv) = (Spec.markerEntry q name ty m fv).map (·.map Spec.Entry.rv) := by
  simp only [Spec.markerEntry]
  cases Spec.ruleName m with
  | none => rfl
  | some r =>
    simp only []
    by_cases ha : Spec.applies r ty = true
    · simp only [ha, if_true]
      cases Spec.violates r m.expr ty fv with
      | none => rfl
      | some b => cases b <;> simp [Spec.Entry.rv]
    · simp [ha]

theorem leafEntries_rv (p q : List String) (name : String) (ty : Ty) (fv : Val) :
    ∀ ms : List Marker, (Spec.leafEntries p name ty ms fv).map (·.map Spec.Entry.rv) = (Spec.leafEntries q name ty ms fv).map (·.map Spec.Entry.rv) := by
  intro ms
  induction ms with
  | nil => simp [Spec.leafEntries]
  | cons m ms ih =>
    simp only [Spec.leafEntries]
    have h1 := markerEntry_rv p q name ty m fv
    cases hp : Spec.markerEntry p name ty m fv <;> cases hq : Spec.markerEntry q name ty m fv <;>
      cases hp2 : Spec.leafEntries p name ty ms fv <;> cases hq2 : Spec.leafEntries q name ty ms fv <;>
      simp_all

theorem namesEntries_rv (p q : List String) (ty : Ty) (ms : List Marker) (sv : Val) :
    ∀ names : List String, (Spec.namesEntries p ty ms sv names).map (·.map Spec.Entry.rv) = (Spec.namesEntries q ty ms sv names).map (·.map Spec.Entry.rv) := by
  intro names
  induction names with
  | nil => simp [Spec.namesEntries]
  | cons n ns ih =>
    simp only [Spec.namesEntries]
    cases Spec.getField sv n with
    | none => rfl
    | some fv =>
      simp only []
      have h1 := leafEntries_rv p q n ty fv ms
      cases hp : Spec.leafEntries p n ty ms fv <;> cases hq : Spec.leafEntries q n ty ms fv <;>
        cases hp2 : Spec.namesEntries p ty ms sv ns <;> cases hq2 : Spec.namesEntries q ty ms sv ns <;>
        simp_all

/-- `directEntries` under two paths: the same rules and values in the same order -/
theorem directEntries_rv (p q : List String) (ml : List Marker) (nv : Val) :
    ∀ fields : List FieldT, (Spec.directEntries p ml nv fields).map (·.map Spec.Entry.rv) = (Spec.directEntries q ml nv fields).map (·.map Spec.Entry.rv) := by
  intro fields
  induction fields with
  | nil => simp [Spec.directEntries]
  | cons f fs ih =>
    cases f with
    | nest names doc inner => simpa [Spec.directEntries] using ih
    | leaf names ty doc =>
      simp only [Spec.directEntries]
      have h1 := namesEntries_rv p q ty ml nv names
      cases hp : Spec.namesEntries p ty ml nv names <;> cases hq : Spec.namesEntries q ty ml nv names <;>
        cases hp2 : Spec.directEntries p ml nv fs <;> cases hq2 : Spec.directEntries q ml nv fs <;>
        simp_all

/-! ### `violatedN` agrees with `violated` where no nested struct carries markers -/

theorem namesEntries_nil_some (p : List String) (ty : Ty) (sv : Val) :
    ∀ (names : List String), (∀ n ∈ names, (Spec.getField sv n).isSome = true) → Spec.namesEntries p ty [] sv names = some [] := by
  intro names
  induction names with
  | nil => intro _; rfl
  | cons n ns ih =>
    intro h
    have hn := h n (by simp)
    cases hg : Spec.getField sv n with
    | none => simp [hg] at hn
    | some fv => simp [Spec.namesEntries, hg, Spec.leafEntries, ih (fun m hm => h m (by simp [hm]))]

theorem namesEntries_present (p : List String) (ty : Ty) (ms : List Marker) (sv : Val) :
    ∀ (names : List String) (es : List Spec.Entry), Spec.namesEntries p ty ms sv names = some es →
      ∀ n ∈ names, (Spec.getField sv n).isSome = true := by
  intro names
  induction names with
  | nil => intro es _ n hn; simp at hn
  | cons x xs ih =>
    intro es h n hn
    simp only [Spec.namesEntries] at h
    cases hg : Spec.getField sv x with
    | none => simp [hg] at h
    | some fv =>
      simp only [hg] at h
      cases h1 : Spec.leafEntries p x ty ms fv with
      | none => simp [h1] at h
      | some a =>
        cases h2 : Spec.namesEntries p ty ms sv xs with
        | none => simp [h1, h2] at h
        | some b =>
          simp only [List.mem_cons] at hn
          rcases hn with rfl | hn
          · simp [hg]
          · exact ih b h2 n hn

mutual
/-- no nested anonymous struct of the field (list) carries markers of its own -/
def plainField : FieldT → Bool
  | .leaf _ _ _ => true
  | .nest _ doc fields => (markersOfDoc doc).isEmpty && plainFields fields
def plainFields : List FieldT → Bool
  | [] => true
  | f :: fs => plainField f && plainFields fs
end

/-- where the fields' own entries are defined, an EMPTY handed-down marker list demands nothing -/
theorem directEntries_nil (tm : List Marker) (p : List String) (nv : Val) :
    ∀ (fields : List FieldT) (es : List Spec.Entry), Spec.fieldsEntries tm p nv fields = some es →
      Spec.directEntries p [] nv fields = some [] := by
  intro fields
  induction fields with
  | nil => intro es _; rfl
  | cons f fs ih =>
    intro es h
    simp only [Spec.fieldsEntries] at h
    cases h1 : Spec.fieldEntries tm p nv f with
    | none => simp [h1] at h
    | some a =>
      cases h2 : Spec.fieldsEntries tm p nv fs with
      | none => simp [h1, h2] at h
      | some b =>
        have r := ih b h2
        cases f with
        | nest names doc inner => simpa [Spec.directEntries] using r
        | leaf names ty doc =>
          simp only [Spec.fieldEntries] at h1
          have hp := namesEntries_present p ty _ nv names a h1
          simp [Spec.directEntries, namesEntries_nil_some p ty nv names hp, r]

theorem nestN_eq (tm : List Marker) (doc : List String) (hdoc : markersOfDoc doc = []) (fields : List FieldT)
    (hfields : ∀ (path : List String) (sv : Val), Spec.fieldsEntriesN tm path sv fields = Spec.fieldsEntries tm path sv fields) :
    ∀ (names : List String) (path : List String) (sv : Val),
      Spec.nestEntriesN tm doc path sv fields names = Spec.nestEntries tm path sv fields names := by
  intro names
  induction names with
  | nil => intro path sv; simp [Spec.nestEntriesN, Spec.nestEntries]
  | cons n ns ih =>
    intro path sv
    rw [Spec.nestEntriesN, Spec.nestEntries]
    cases hg : Spec.getField sv n with
    | none => rfl
    | some nv =>
      simp only [hdoc, sortById, List.foldr_nil]
      rw [hfields (path ++ [n]) nv, ih path sv]
      cases h1 : Spec.fieldsEntries tm (path ++ [n]) nv fields with
      | none => cases Spec.directEntries (path ++ [n]) [] nv fields <;> rfl
      | some a =>
        rw [directEntries_nil tm (path ++ [n]) nv fields a h1]
        cases Spec.nestEntries tm path sv fields ns <;> simp

mutual
theorem fieldN_eq (tm : List Marker) : ∀ (f : FieldT) (path : List String) (sv : Val), plainField f = true →
    Spec.fieldEntriesN tm path sv f = Spec.fieldEntries tm path sv f
  | .leaf names ty doc, path, sv, _ => by rw [Spec.fieldEntriesN, Spec.fieldEntries]
  | .nest names doc fields, path, sv, h => by
    simp only [plainField, Bool.and_eq_true, List.isEmpty_iff] at h
    rw [Spec.fieldEntriesN, Spec.fieldEntries]
    exact nestN_eq tm doc h.1 fields (fun p v => fieldsN_eq tm fields p v h.2) names path sv
theorem fieldsN_eq (tm : List Marker) : ∀ (fs : List FieldT) (path : List String) (sv : Val), plainFields fs = true →
    Spec.fieldsEntriesN tm path sv fs = Spec.fieldsEntries tm path sv fs
  | [], path, sv, _ => by rw [Spec.fieldsEntriesN, Spec.fieldsEntries]
  | f :: fs, path, sv, h => by
    simp only [plainFields, Bool.and_eq_true] at h
    rw [Spec.fieldsEntriesN, Spec.fieldsEntries, fieldN_eq tm f path sv h.1, fieldsN_eq tm fs path sv h.2]
end

/-- `violatedN` is a conservative extension: on declarations in which no nested struct carries markers it IS `violated` -/
theorem violatedN_eq (d : Decl) (v : Val) (h : plainFields d.fields = true) : Spec.violatedN d v = Spec.violated d v :=
  fieldsN_eq _ d.fields [d.name] v h

mutual
theorem clean_plain_field (tm : List Marker) : ∀ f : FieldT, cleanField tm f = true → plainField f = true
  | .leaf _ _ _, _ => by simp [plainField]
  | .nest names doc fields, h => by
    simp only [cleanField, Bool.and_eq_true] at h
    simp only [plainField, Bool.and_eq_true]
    exact ⟨h.1.1.2, clean_plain_fields tm fields h.2⟩
theorem clean_plain_fields (tm : List Marker) : ∀ fs : List FieldT, cleanFields tm fs = true → plainFields fs = true
  | [], _ => by simp [plainFields]
  | f :: fs, h => by
    simp only [cleanFields, Bool.and_eq_true] at h
    simp only [plainFields, Bool.and_eq_true]
    exact ⟨clean_plain_field tm f h.1, clean_plain_fields tm fs h.2⟩
end

/-- rule and value of a reported entry -/
def rvG (e : Gen.Entry) : String × String := (e.type, e.value)

theorem rvG_conv (es : List Spec.Entry) : (es.map conv).map rvG = es.map Spec.Entry.rv := by
  induction es with
  | nil => rfl
  | cons e es ih => simp only [List.map_cons, ih]; rfl

/-- the nested struct `n` with doc comment `doc`: the model reports, Path aside, exactly what `Spec.nestEntriesN`
    (the Spec WITH markers on nested structs) demands, in the same order -/
theorem nest_marked_specN (S : String) (recv : Val) (fields : List FieldT) (n : String) (parent : List String)
    (sv nv : Val) (doc : List String)
    (hclean : cleanFields [] fields = true)
    (hok : ∀ names ty d, FieldT.leaf names ty d ∈ fields → ∀ m ∈ sortById (markersOfDoc doc), markerOK ty m = true)
    (hsil : ∀ x, runChecks nv (mkChecks S parent [x] Ty.strukt (sortById (markersOfDoc doc))) = some [])
    (hsv : lookupPath recv parent = some sv) (hn : lookupField sv n = some nv)
    (es : List Spec.Entry) (hN : Spec.nestEntriesN [] doc (S :: parent) sv fields [n] = some es) :
    ∃ rep, blocksEntries recv (analyzeNest S [] parent (sortById (markersOfDoc doc)) fields [n]) = some rep ∧
      rep.map rvG = es.map Spec.Entry.rv := by
  rw [Spec.nestEntriesN] at hN
  simp only [getField_eq, hn, List.cons_append] at hN
  have hpl := clean_plain_fields [] fields hclean
  rw [fieldsN_eq [] fields _ nv hpl] at hN
  cases hd : Spec.directEntries (S :: (parent ++ [n])) (sortById (markersOfDoc doc)) nv fields with
  | none => simp [hd] at hN
  | some d =>
    cases ha : Spec.fieldsEntries [] (S :: (parent ++ [n])) nv fields with
    | none => simp [hd, ha] at hN
    | some a =>
      simp only [hd, ha, Spec.nestEntriesN, List.append_nil, Option.some.injEq] at hN
      subst hN
      have hrv := directEntries_rv (S :: parent) (S :: (parent ++ [n])) (sortById (markersOfDoc doc)) nv fields
      rw [hd] at hrv
      cases h0 : Spec.directEntries (S :: parent) (sortById (markersOfDoc doc)) nv fields with
      | none => simp [h0] at hrv
      | some e0 =>
        simp only [h0, Option.map_some, Option.some.injEq] at hrv
        have hs := nest_marked_sound S recv fields n parent sv nv _ hclean hok hsil hsv hn e0 a h0 (by simpa using ha)
        refine ⟨_, hs, ?_⟩
        rw [rvG_conv, List.map_append, List.map_append, hrv]

end Proofs
