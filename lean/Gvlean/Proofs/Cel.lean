/-
  C10, proved fragment: the text the translator prints for an expression of `Cel.BoolE`, parsed the way
  Go parses it, is the tree of the expression itself (the inserted parentheses are sufficient), and that
  tree evaluates — with Go's wrap-around arithmetic and short-circuit operators — to the boolean the
  reference CEL semantics yields whenever it yields one.
-/
import Gvlean.Cel.Core

namespace Cel

/-! ### shape invariant of translated fragments -/

/-- `f` contains only operators of level ≥ p and parses (at every entry level ≤ p) to `t` -/
def Good (f : Flat) (p : Nat) (t : GoTree) : Prop :=
  (∀ s, Item.op s ∈ f → p ≤ level s ∧ level s ≤ 5) ∧ (∀ m, 6 - p ≤ m → m ≤ 5 → parseAt m f = some t)

theorem good_single (txt : String) (t : GoTree) : Good [.operand txt t] 6 t :=
  ⟨by intro s hs; simp at hs, fun m _ _ => parseAt_single txt t m⟩

theorem good_weaken {f : Flat} {p q : Nat} {t : GoTree} (h : Good f p t) (hq : q ≤ p) : Good f q t :=
  ⟨fun s hs => ⟨Nat.le_trans hq (h.1 s hs).1, (h.1 s hs).2⟩, fun m hm hm5 => h.2 m (by omega) hm5⟩

theorem good_parse {f : Flat} {p : Nat} {t : GoTree} (h : Good f p t) (hp : 1 ≤ p) : parse f = some t :=
  h.2 5 (by omega) (by omega)

theorem good_paren {f : Flat} {p : Nat} {t : GoTree} (h : Good f p t) (hp : 1 ≤ p) : Good (paren f) 6 t := by
  unfold paren single treeOf
  rw [good_parse h hp]
  exact good_single _ t

theorem good_wrapIf {f : Flat} {p : Nat} {t : GoTree} (b : Bool) (h : Good f p t) (hp : 1 ≤ p) :
    Good (wrapIf b f) (if b then 6 else p) t := by
  cases b
  · simpa [wrapIf] using h
  · simpa [wrapIf] using good_paren h hp

theorem good_bin {L R : Flat} {k : Nat} {s : String} {tl tr : GoTree} (hk1 : 1 ≤ k) (hs : level s = k) (hk5 : k ≤ 5)
    (hL : Good L k tl) (hR : Good R (k + 1) tr) : Good (L ++ .op s :: R) k (.bin s tl tr) := by
  refine ⟨?_, ?_⟩
  · intro s' hs'
    simp only [List.mem_append, List.mem_cons] at hs'
    rcases hs' with h | h | h
    · exact hL.1 s' h
    · cases h; exact ⟨by omega, by omega⟩
    · exact ⟨by have := (hR.1 s' h).1; omega, (hR.1 s' h).2⟩
  · have hno : noOps k R := fun s' h' => by have := (hR.1 s' h').1; omega
    -- entry exactly at level k
    have base : parseAt (6 - k) (L ++ .op s :: R) = some (.bin s tl tr) := by
      obtain ⟨m', hm'⟩ : ∃ m', 6 - k = m' + 1 := ⟨5 - k, by omega⟩
      have hkm : 5 - m' = k := by omega
      rw [hm', parseAt_snoc m' L R s (by omega) (by rw [hkm]; exact hno)]
      simp only [step, hL.2 (m' + 1) (by omega) (by omega), hR.2 m' (by omega) (by omega)]
    intro m hm hm5
    obtain ⟨d, rfl⟩ : ∃ d, m = 6 - k + d := ⟨m - (6 - k), by omega⟩
    induction d with
    | zero => simpa using base
    | succ d ih =>
      have : 6 - k + (d + 1) = (6 - k + d) + 1 := by omega
      rw [this, parseAt_noOps]
      · exact ih (by omega) (by omega)
      · intro s' hs'
        simp only [List.mem_append, List.mem_cons] at hs'
        rcases hs' with h | h | h
        · have := (hL.1 s' h).1; omega
        · cases h; omega
        · have := (hR.1 s' h).1; omega

/-! ### where the translator puts parentheses (IntE operands) -/

theorem np_add_left (a : IntE) : needsParen a.toExpr 4 false = false := by cases a <;> rfl
theorem np_add_right (a : IntE) : needsParen a.toExpr 4 true = decide (a.prec = 4) := by cases a <;> rfl
theorem np_mul_left (a : IntE) : needsParen a.toExpr 5 false = decide (a.prec = 4) := by cases a <;> rfl
theorem np_mul_right (a : IntE) : needsParen a.toExpr 5 true = decide (a.prec ≤ 5) := by cases a <;> rfl
theorem np_cmp (a : IntE) (rh : Bool) : needsParen a.toExpr 3 rh = false := by cases a <;> cases rh <;> rfl

theorem prec_ge4 (a : IntE) : 4 ≤ a.prec := by cases a <;> simp [IntE.prec]
theorem prec_cases (a : IntE) : a.prec = 4 ∨ a.prec = 5 ∨ a.prec = 6 := by cases a <;> simp [IntE.prec]

theorem toGo_bin (F fn : String) (x y : Expr) (fx fy : Flat) (sym : String) (hsym : fnSym fn = some sym)
    (h1 : fn ≠ "_?_:_") (h2 : fn ≠ "@in") (hx : toGo F x = some fx) (hy : toGo F y = some fy) :
    toGo F (.call fn [x, y]) = some (binFlat sym (wrapIf (needsParen x (fnPrec fn) false) fx) (wrapIf (needsParen y (fnPrec fn) true) fy)) := by
  simp [toGo, toGoList, hx, hy, hsym, h1, h2]

theorem toGo_un (F fn : String) (x : Expr) (fx : Flat) (hx : toGo F x = some fx) :
    toGo F (.call fn [x]) = (if fn == "!_" then some (single ("!(" ++ render fx ++ ")") (.not (treeOf fx)))
      else if fn == "-_" then some (single ("-(" ++ render fx ++ ")") (.neg (treeOf fx)))
      else (builtinText fn [render fx]).map opq) := by
  simp only [toGo, toGoList, hx]
  by_cases h1 : fn = "!_" <;> by_cases h2 : fn = "-_"
  all_goals (try simp [h1, h2])
  all_goals (try rfl)

theorem toGo_neg (F : String) (x : Expr) (fx : Flat) (hx : toGo F x = some fx) :
    toGo F (.call "-_" [x]) = some (single ("-(" ++ render fx ++ ")") (.neg (treeOf fx))) := by
  rw [toGo_un F "-_" x fx hx]; rfl

theorem toGo_not (F : String) (x : Expr) (fx : Flat) (hx : toGo F x = some fx) :
    toGo F (.call "!_" [x]) = some (single ("!(" ++ render fx ++ ")") (.not (treeOf fx))) := by
  rw [toGo_un F "!_" x fx hx]; rfl

theorem int_good (F : String) : ∀ a : IntE, ∃ f, toGo F a.toExpr = some f ∧ Good f a.prec (a.tree F)
  | .lit n => ⟨single (toString n) (.int n), by simp [IntE.toExpr, toGo], good_single _ _⟩
  | .value => ⟨single ("t." ++ F) (.ref F), by simp [IntE.toExpr, toGo], good_single _ _⟩
  | .this f => ⟨single ("t." ++ f) (.ref f), by simp [IntE.toExpr, toGo, render, single, opq, Item.text], good_single _ _⟩
  | .neg a => by
    obtain ⟨fa, ha, ga⟩ := int_good F a
    refine ⟨_, by rw [IntE.toExpr, toGo_neg F _ fa ha], ?_⟩
    show Good _ 6 (.neg (a.tree F))
    unfold treeOf
    rw [good_parse ga (by have := prec_ge4 a; omega)]
    exact good_single _ _
  | .add a b => by
    obtain ⟨fa, ha, ga⟩ := int_good F a
    obtain ⟨fb, hb, gb⟩ := int_good F b
    refine ⟨_, by rw [IntE.toExpr, toGo_bin F "_+_" _ _ fa fb "+" rfl (by decide) (by decide) ha hb], ?_⟩
    have : fnPrec "_+_" = 4 := rfl
    rw [this, np_add_left, np_add_right]
    simp only [binFlat, show ¬ level "+" ≤ 2 by decide, if_false, wrapIf, List.append_assoc, List.singleton_append]
    show Good _ 4 (.bin "+" (a.tree F) (b.tree F))
    refine good_bin (by omega) rfl (by omega) (good_weaken ga (prec_ge4 a)) ?_
    have hw := good_wrapIf (decide (b.prec = 4)) gb (by have := prec_ge4 b; omega)
    simp only [wrapIf] at hw
    refine good_weaken hw ?_
    rcases prec_cases b with h | h | h <;> simp [h]
  | .sub a b => by
    obtain ⟨fa, ha, ga⟩ := int_good F a
    obtain ⟨fb, hb, gb⟩ := int_good F b
    refine ⟨_, by rw [IntE.toExpr, toGo_bin F "_-_" _ _ fa fb "-" rfl (by decide) (by decide) ha hb], ?_⟩
    have : fnPrec "_-_" = 4 := rfl
    rw [this, np_add_left, np_add_right]
    simp only [binFlat, show ¬ level "-" ≤ 2 by decide, if_false, wrapIf, List.append_assoc, List.singleton_append]
    show Good _ 4 (.bin "-" (a.tree F) (b.tree F))
    refine good_bin (by omega) rfl (by omega) (good_weaken ga (prec_ge4 a)) ?_
    have hw := good_wrapIf (decide (b.prec = 4)) gb (by have := prec_ge4 b; omega)
    simp only [wrapIf] at hw
    refine good_weaken hw ?_
    rcases prec_cases b with h | h | h <;> simp [h]
  | .mul a b => by
    obtain ⟨fa, ha, ga⟩ := int_good F a
    obtain ⟨fb, hb, gb⟩ := int_good F b
    refine ⟨_, by rw [IntE.toExpr, toGo_bin F "_*_" _ _ fa fb "*" rfl (by decide) (by decide) ha hb], ?_⟩
    have : fnPrec "_*_" = 5 := rfl
    rw [this, np_mul_left, np_mul_right]
    simp only [binFlat, show ¬ level "*" ≤ 2 by decide, if_false, wrapIf, List.append_assoc, List.singleton_append]
    show Good _ 5 (.bin "*" (a.tree F) (b.tree F))
    refine good_bin (by omega) rfl (by omega) ?_ ?_
    · have hw := good_wrapIf (decide (a.prec = 4)) ga (by have := prec_ge4 a; omega)
      simp only [wrapIf] at hw
      refine good_weaken hw ?_
      rcases prec_cases a with h | h | h <;> simp [h]
    · have hw := good_wrapIf (decide (b.prec ≤ 5)) gb (by have := prec_ge4 b; omega)
      simp only [wrapIf] at hw
      refine good_weaken hw ?_
      rcases prec_cases b with h | h | h <;> simp [h]
  | .div a b => by
    obtain ⟨fa, ha, ga⟩ := int_good F a
    obtain ⟨fb, hb, gb⟩ := int_good F b
    refine ⟨_, by rw [IntE.toExpr, toGo_bin F "_/_" _ _ fa fb "/" rfl (by decide) (by decide) ha hb], ?_⟩
    have : fnPrec "_/_" = 5 := rfl
    rw [this, np_mul_left, np_mul_right]
    simp only [binFlat, show ¬ level "/" ≤ 2 by decide, if_false, wrapIf, List.append_assoc, List.singleton_append]
    show Good _ 5 (.bin "/" (a.tree F) (b.tree F))
    refine good_bin (by omega) rfl (by omega) ?_ ?_
    · have hw := good_wrapIf (decide (a.prec = 4)) ga (by have := prec_ge4 a; omega)
      simp only [wrapIf] at hw
      refine good_weaken hw ?_
      rcases prec_cases a with h | h | h <;> simp [h]
    · have hw := good_wrapIf (decide (b.prec ≤ 5)) gb (by have := prec_ge4 b; omega)
      simp only [wrapIf] at hw
      refine good_weaken hw ?_
      rcases prec_cases b with h | h | h <;> simp [h]
  | .mod a b => by
    obtain ⟨fa, ha, ga⟩ := int_good F a
    obtain ⟨fb, hb, gb⟩ := int_good F b
    refine ⟨_, by rw [IntE.toExpr, toGo_bin F "_%_" _ _ fa fb "%" rfl (by decide) (by decide) ha hb], ?_⟩
    have : fnPrec "_%_" = 5 := rfl
    rw [this, np_mul_left, np_mul_right]
    simp only [binFlat, show ¬ level "%" ≤ 2 by decide, if_false, wrapIf, List.append_assoc, List.singleton_append]
    show Good _ 5 (.bin "%" (a.tree F) (b.tree F))
    refine good_bin (by omega) rfl (by omega) ?_ ?_
    · have hw := good_wrapIf (decide (a.prec = 4)) ga (by have := prec_ge4 a; omega)
      simp only [wrapIf] at hw
      refine good_weaken hw ?_
      rcases prec_cases a with h | h | h <;> simp [h]
    · have hw := good_wrapIf (decide (b.prec ≤ 5)) gb (by have := prec_ge4 b; omega)
      simp only [wrapIf] at hw
      refine good_weaken hw ?_
      rcases prec_cases b with h | h | h <;> simp [h]

/-! ### boolean level -/

theorem bprec_ge1 (e : BoolE) : 1 ≤ e.prec := by cases e <;> simp [BoolE.prec]

theorem cmp_sym (op : Cmp) : fnSym op.fn = some op.sym ∧ level op.sym = 3 ∧ fnPrec op.fn = 3 ∧ op.fn ≠ "_?_:_" ∧ op.fn ≠ "@in" := by
  cases op <;> decide

/-- whatever `convertOperand` decides for an operand of a logical operator, the logical operator wraps
    it (again) in parentheses: one operand carrying the operand's tree -/
theorem good_logical_operand {f : Flat} {p : Nat} {t : GoTree} (b : Bool) (h : Good f p t) (hp : 1 ≤ p) :
    Good (paren (wrapIf b f)) 6 t := by
  have hw := good_wrapIf b h hp
  exact good_paren hw (by cases b <;> simp <;> omega)

theorem bool_good (F : String) : ∀ e : BoolE, ∃ f, toGo F e.toExpr = some f ∧ Good f e.prec (e.tree F)
  | .lit b => ⟨single (if b then "true" else "false") (.bool b), by simp [BoolE.toExpr, toGo], good_single _ _⟩
  | .not a => by
    obtain ⟨fa, ha, ga⟩ := bool_good F a
    refine ⟨_, by rw [BoolE.toExpr, toGo_not F _ fa ha], ?_⟩
    show Good _ 6 (.not (a.tree F))
    unfold treeOf
    rw [good_parse ga (bprec_ge1 a)]
    exact good_single _ _
  | .cmp op a b => by
    obtain ⟨fa, ha, ga⟩ := int_good F a
    obtain ⟨fb, hb, gb⟩ := int_good F b
    obtain ⟨h1, h2, h3, h4, h5⟩ := cmp_sym op
    refine ⟨_, by rw [BoolE.toExpr, toGo_bin F op.fn _ _ fa fb op.sym h1 h4 h5 ha hb], ?_⟩
    rw [h3, np_cmp, np_cmp]
    simp only [binFlat, show ¬ level op.sym ≤ 2 by rw [h2]; decide, if_false, wrapIf, List.append_assoc, List.singleton_append,
      Bool.false_eq_true]
    show Good _ 3 (.bin op.sym (a.tree F) (b.tree F))
    exact good_bin (by omega) h2 (by omega) (good_weaken ga (by have := prec_ge4 a; omega)) (good_weaken gb (prec_ge4 b))
  | .and a b => by
    obtain ⟨fa, ha, ga⟩ := bool_good F a
    obtain ⟨fb, hb, gb⟩ := bool_good F b
    refine ⟨_, by rw [BoolE.toExpr, toGo_bin F "_&&_" _ _ fa fb "&&" rfl (by decide) (by decide) ha hb], ?_⟩
    simp only [binFlat, show level "&&" ≤ 2 by decide, if_true, List.append_assoc, List.singleton_append]
    show Good _ 2 (.bin "&&" (a.tree F) (b.tree F))
    exact good_bin (by omega) rfl (by omega) (good_weaken (good_logical_operand _ ga (bprec_ge1 a)) (by omega))
      (good_weaken (good_logical_operand _ gb (bprec_ge1 b)) (by omega))
  | .or a b => by
    obtain ⟨fa, ha, ga⟩ := bool_good F a
    obtain ⟨fb, hb, gb⟩ := bool_good F b
    refine ⟨_, by rw [BoolE.toExpr, toGo_bin F "_||_" _ _ fa fb "||" rfl (by decide) (by decide) ha hb], ?_⟩
    simp only [binFlat, show level "||" ≤ 2 by decide, if_true, List.append_assoc, List.singleton_append]
    show Good _ 1 (.bin "||" (a.tree F) (b.tree F))
    exact good_bin (by omega) rfl (by omega) (good_weaken (good_logical_operand _ ga (bprec_ge1 a)) (by omega))
      (good_weaken (good_logical_operand _ gb (bprec_ge1 b)) (by omega))

/-! ### semantics -/

theorem wrap_id (n : Int) (h : inI64 n = true) : wrap n = n := by
  simp only [inI64, decide_eq_true_eq] at h
  unfold wrap; omega

theorem chk_some {n x : Int} (h : chk n = some x) : x = n ∧ inI64 n = true := by
  unfold chk at h; split at h <;> simp_all

theorem goI_total (F : String) (ρ : String → Int) : ∀ a : IntE, a.divSafe F ρ = true → ∃ y, goI ρ (a.tree F) = some y
  | .lit n, _ => ⟨n, rfl⟩
  | .value, _ => ⟨_, rfl⟩
  | .this f, _ => ⟨_, rfl⟩
  | .neg a, h => by
    obtain ⟨y, hy⟩ := goI_total F ρ a (by simpa [IntE.divSafe] using h); exact ⟨wrap (-y), by simp [IntE.tree, goI, hy]⟩
  | .add a b, h => by
    simp only [IntE.divSafe, Bool.and_eq_true] at h
    obtain ⟨x, hx⟩ := goI_total F ρ a h.1; obtain ⟨y, hy⟩ := goI_total F ρ b h.2
    exact ⟨wrap (x + y), by simp [IntE.tree, goI, hx, hy]⟩
  | .sub a b, h => by
    simp only [IntE.divSafe, Bool.and_eq_true] at h
    obtain ⟨x, hx⟩ := goI_total F ρ a h.1; obtain ⟨y, hy⟩ := goI_total F ρ b h.2
    exact ⟨wrap (x - y), by simp [IntE.tree, goI, hx, hy]⟩
  | .mul a b, h => by
    simp only [IntE.divSafe, Bool.and_eq_true] at h
    obtain ⟨x, hx⟩ := goI_total F ρ a h.1; obtain ⟨y, hy⟩ := goI_total F ρ b h.2
    exact ⟨wrap (x * y), by simp [IntE.tree, goI, hx, hy]⟩
  | .div a b, h => by
    simp only [IntE.divSafe, Bool.and_eq_true, bne_iff_ne, ne_eq] at h
    obtain ⟨x, hx⟩ := goI_total F ρ a h.1.1; obtain ⟨y, hy⟩ := goI_total F ρ b h.1.2
    have hy0 : y ≠ 0 := by intro h0; exact h.2 (by rw [hy, h0])
    exact ⟨wrap (Int.tdiv x y), by simp [IntE.tree, goI, hx, hy, hy0]⟩
  | .mod a b, h => by
    simp only [IntE.divSafe, Bool.and_eq_true, bne_iff_ne, ne_eq] at h
    obtain ⟨x, hx⟩ := goI_total F ρ a h.1.1; obtain ⟨y, hy⟩ := goI_total F ρ b h.1.2
    have hy0 : y ≠ 0 := by intro h0; exact h.2 (by rw [hy, h0])
    exact ⟨wrap (Int.tmod x y), by simp [IntE.tree, goI, hx, hy, hy0]⟩

/-- when CEL computes an integer (no overflow anywhere below), Go computes the same one -/
theorem goI_sound (F : String) (ρ : String → Int) : ∀ (a : IntE) (x : Int), celI F ρ a = some x → goI ρ (a.tree F) = some x
  | .lit n, x, h => by obtain ⟨rfl, _⟩ := chk_some (by simpa [celI] using h); rfl
  | .value, x, h => by simp [celI] at h; simp [IntE.tree, goI, h]
  | .this f, x, h => by simp [celI] at h; simp [IntE.tree, goI, h]
  | .neg a, x, h => by
    simp only [celI] at h
    cases ha : celI F ρ a with
    | none => simp [ha] at h
    | some u =>
      simp only [ha] at h
      obtain ⟨rfl, hr⟩ := chk_some h
      simp [IntE.tree, goI, goI_sound F ρ a u ha, wrap_id _ hr]
  | .add a b, x, h => by
    simp only [celI] at h
    cases ha : celI F ρ a with
    | none => simp [ha] at h
    | some u =>
      cases hb : celI F ρ b with
      | none => simp [ha, hb] at h
      | some v =>
        simp only [ha, hb] at h
        obtain ⟨rfl, hr⟩ := chk_some h
        simp [IntE.tree, goI, goI_sound F ρ a u ha, goI_sound F ρ b v hb, wrap_id _ hr]
  | .sub a b, x, h => by
    simp only [celI] at h
    cases ha : celI F ρ a with
    | none => simp [ha] at h
    | some u =>
      cases hb : celI F ρ b with
      | none => simp [ha, hb] at h
      | some v =>
        simp only [ha, hb] at h
        obtain ⟨rfl, hr⟩ := chk_some h
        simp [IntE.tree, goI, goI_sound F ρ a u ha, goI_sound F ρ b v hb, wrap_id _ hr]
  | .mul a b, x, h => by
    simp only [celI] at h
    cases ha : celI F ρ a with
    | none => simp [ha] at h
    | some u =>
      cases hb : celI F ρ b with
      | none => simp [ha, hb] at h
      | some v =>
        simp only [ha, hb] at h
        obtain ⟨rfl, hr⟩ := chk_some h
        simp [IntE.tree, goI, goI_sound F ρ a u ha, goI_sound F ρ b v hb, wrap_id _ hr]
  | .div a b, x, h => by
    simp only [celI] at h
    cases ha : celI F ρ a with
    | none => simp [ha] at h
    | some u =>
      cases hb : celI F ρ b with
      | none => simp [ha, hb] at h
      | some v =>
        simp only [ha, hb] at h
        by_cases hv : v = 0
        · simp [hv] at h
        · simp only [hv, if_false] at h
          obtain ⟨rfl, hr⟩ := chk_some h
          simp [IntE.tree, goI, goI_sound F ρ a u ha, goI_sound F ρ b v hb, wrap_id _ hr, hv]
  | .mod a b, x, h => by
    simp only [celI] at h
    cases ha : celI F ρ a with
    | none => simp [ha] at h
    | some u =>
      cases hb : celI F ρ b with
      | none => simp [ha, hb] at h
      | some v =>
        simp only [ha, hb] at h
        by_cases hv : v = 0
        · simp [hv] at h
        · simp only [hv, if_false] at h
          split at h
          · simp at h
          · obtain ⟨rfl, hr⟩ := chk_some h
            simp [IntE.tree, goI, goI_sound F ρ a u ha, goI_sound F ρ b v hb, wrap_id _ hr, hv]

theorem goCmp_sym (op : Cmp) (x y : Int) : goCmp op.sym x y = some (op.holds x y) := by
  cases op <;> simp [goCmp, Cmp.sym, Cmp.holds]

theorem goB_cmp (ρ : String → Int) (op : Cmp) (l r : GoTree) :
    goB ρ (.bin op.sym l r) = match goI ρ l, goI ρ r with | some x, some y => goCmp op.sym x y | _, _ => none := by
  cases op <;> simp [goB, Cmp.sym] <;> rfl

theorem goB_total (F : String) (ρ : String → Int) : ∀ e : BoolE, e.divSafe F ρ = true → ∃ c, goB ρ (e.tree F) = some c
  | .lit b, _ => ⟨b, rfl⟩
  | .not a, h => by obtain ⟨c, hc⟩ := goB_total F ρ a (by simpa [BoolE.divSafe] using h); exact ⟨!c, by simp [BoolE.tree, goB, hc]⟩
  | .cmp op a b, h => by
    simp only [BoolE.divSafe, Bool.and_eq_true] at h
    obtain ⟨x, hx⟩ := goI_total F ρ a h.1; obtain ⟨y, hy⟩ := goI_total F ρ b h.2
    exact ⟨op.holds x y, by rw [BoolE.tree, goB_cmp, hx, hy]; exact goCmp_sym op x y⟩
  | .and a b, h => by
    simp only [BoolE.divSafe, Bool.and_eq_true] at h
    obtain ⟨c, hc⟩ := goB_total F ρ a h.1; obtain ⟨d, hd⟩ := goB_total F ρ b h.2
    exact ⟨c && d, by cases c <;> simp [BoolE.tree, goB, hc, hd]⟩
  | .or a b, h => by
    simp only [BoolE.divSafe, Bool.and_eq_true] at h
    obtain ⟨c, hc⟩ := goB_total F ρ a h.1; obtain ⟨d, hd⟩ := goB_total F ρ b h.2
    exact ⟨c || d, by cases c <;> simp [BoolE.tree, goB, hc, hd]⟩

/-- when CEL yields a boolean, the Go tree yields the same one (Go itself never fails on this fragment) -/
theorem goB_sound (F : String) (ρ : String → Int) : ∀ (e : BoolE) (b : Bool), e.divSafe F ρ = true → celB F ρ e = some b → goB ρ (e.tree F) = some b
  | .lit c, b, _, h => by simp [celB] at h; simp [BoolE.tree, goB, h]
  | .not a, b, hs, h => by
    simp only [celB, Option.map_eq_some_iff] at h
    obtain ⟨c, hc, rfl⟩ := h
    simp [BoolE.tree, goB, goB_sound F ρ a c (by simpa [BoolE.divSafe] using hs) hc]
  | .cmp op a b, c, _, h => by
    simp only [celB] at h
    cases ha : celI F ρ a with
    | none => simp [ha] at h
    | some x =>
      cases hb : celI F ρ b with
      | none => simp [ha, hb] at h
      | some y =>
        simp only [ha, hb, Option.some.injEq] at h
        rw [BoolE.tree, goB_cmp, goI_sound F ρ a x ha, goI_sound F ρ b y hb]
        show goCmp op.sym x y = some c
        rw [goCmp_sym, h]
  | .and a b, c, hs, h => by
    simp only [BoolE.divSafe, Bool.and_eq_true] at hs
    obtain ⟨ca, hca⟩ := goB_total F ρ a hs.1
    obtain ⟨cb, hcb⟩ := goB_total F ρ b hs.2
    have sa := fun v => goB_sound F ρ a v hs.1
    have sb := fun v => goB_sound F ρ b v hs.2
    simp only [celB] at h
    cases ha : celB F ρ a with
    | none =>
      cases hb : celB F ρ b with
      | none => simp [ha, hb] at h
      | some vb =>
        cases vb
        · simp [ha, hb] at h; subst h
          have := sb false hb
          cases ca <;> simp [BoolE.tree, goB, hca, this]
        · simp [ha, hb] at h
    | some va =>
      cases va
      · simp [ha] at h; subst h
        simp [BoolE.tree, goB, sa false ha]
      · cases hb : celB F ρ b with
        | none => simp [ha, hb] at h
        | some vb =>
          cases vb <;> simp [ha, hb] at h <;> subst h <;> simp [BoolE.tree, goB, sa true ha, sb _ hb]
  | .or a b, c, hs, h => by
    simp only [BoolE.divSafe, Bool.and_eq_true] at hs
    obtain ⟨ca, hca⟩ := goB_total F ρ a hs.1
    obtain ⟨cb, hcb⟩ := goB_total F ρ b hs.2
    have sa := fun v => goB_sound F ρ a v hs.1
    have sb := fun v => goB_sound F ρ b v hs.2
    simp only [celB] at h
    cases ha : celB F ρ a with
    | none =>
      cases hb : celB F ρ b with
      | none => simp [ha, hb] at h
      | some vb =>
        cases vb
        · simp [ha, hb] at h
        · simp [ha, hb] at h; subst h
          have := sb true hb
          cases ca <;> simp [BoolE.tree, goB, hca, this]
    | some va =>
      cases va
      · cases hb : celB F ρ b with
        | none => simp [ha, hb] at h
        | some vb =>
          cases vb <;> simp [ha, hb] at h <;> subst h <;> simp [BoolE.tree, goB, sa false ha, sb _ hb]
      · simp [ha] at h; subst h
        simp [BoolE.tree, goB, sa true ha]

end Cel
