/-
  C05, float enums: on a float32/float64 field the emitted `&&`-chain of `t.F != item` (items pasted
  verbatim) fires iff the value equals none of the items, for items that are decimal literals.
  "Equals" is IEEE equality with the constant: NaN equals nothing (so NaN is always rejected),
  -0 equals a listed 0, ±Inf equal no literal. As everywhere in the float part of the model the
  literal is compared exactly (assumption recorded in the evidence: marker parameters are
  representable in the field type, so Go's rounding of the constant is the identity).

  The chain argument is factored out (`enum_chain`): any per-item equality test `eqv` such that the
  item's conjunct fires iff `!eqv item` gives `chain fires = !(items.any eqv)`.
-/
import Gvlean.Proofs.Rules

namespace Proofs
open Go Gen

/-- the `&&`-chain over numeric items, given what each conjunct evaluates to -/
theorem enum_chain (env : Env) (f : String) (eqv : String → Bool) (it : String) (its : List String)
    (h : ∀ x ∈ it :: its, fires env (Facts.enum_itemNum f x) = some (!eqv x)) :
    fires env ((its.map fun x => Facts.enum_itemNum f x).foldl (fun acc x => .bin "&&" acc x) (Facts.enum_itemNum f it)) =
      some (!(it :: its).any eqv) := by
  let val : GoExpr → Bool := fun c => match c with
    | .bin _ _ (.raw s) => !eqv s
    | _ => true
  have hval : ∀ c ∈ its.map (fun x => Facts.enum_itemNum f x), fires env c = some (val c) := by
    intro c hc
    simp only [List.mem_map] at hc
    obtain ⟨x, hx, rfl⟩ := hc
    rw [h x (by simp [hx])]
    simp [val, Facts.enum_itemNum]
  rw [fires_and_chain env val _ _ _ (h it (by simp)) hval]
  have h2 : (its.map fun x => Facts.enum_itemNum f x).all val = !its.any eqv := by
    rw [Bool.eq_iff_iff]
    simp only [List.all_map, List.all_eq_true, Function.comp, Bool.not_eq_true', List.any_eq_false]
    constructor
    · intro h' y hy
      have := h' y hy
      simpa [val, Facts.enum_itemNum] using this
    · intro h' y hy
      have := h' y hy
      simpa [val, Facts.enum_itemNum] using this
  rw [h2]
  simp [List.any_cons, Bool.not_or]

theorem enum_item_f64 (f it : String) (ty : Ty) (b : Nat) (d : Dec) (hty : ty.underlying = .basic .float64)
    (hp : parseDec it = some d) :
    fires (envOf f ty (.f64 b)) (Facts.enum_itemNum f it) = some (!(cmpFloatDec (decodeF64 b) d == some .eq)) := by
  have hz : evalRaw it = some (.dec d) := by simp [evalRaw, hp]
  rw [Facts.enum_itemNum, fires_cmp_raw "!=" f it ty _ _ hz (by decide)]
  simp only [cmpFldConst, hty]
  cases hc : cmpFloatDec (decodeF64 b) d with
  | none => simp [unordered]
  | some o => cases o <;> simp [ordHolds]

theorem enum_item_f32 (f it : String) (ty : Ty) (b : Nat) (d : Dec) (hty : ty.underlying = .basic .float32)
    (hp : parseDec it = some d) :
    fires (envOf f ty (.f32 b)) (Facts.enum_itemNum f it) = some (!(cmpFloatDec (decodeF32 b) d == some .eq)) := by
  have hz : evalRaw it = some (.dec d) := by simp [evalRaw, hp]
  rw [Facts.enum_itemNum, fires_cmp_raw "!=" f it ty _ _ hz (by decide)]
  simp only [cmpFldConst, hty]
  cases hc : cmpFloatDec (decodeF32 b) d with
  | none => simp [unordered]
  | some o => cases o <;> simp [ordHolds]

/-- is the value a float of the field's kind -/
def floatValOf (ty : Ty) (fv : Val) : Option FVal :=
  match ty.underlying, fv with
  | .basic .float64, .f64 b => some (decodeF64 b)
  | .basic .float32, .f32 b => some (decodeF32 b)
  | _, _ => none

/-- enum on a FLOAT field -/
theorem enum_float_sound (f p : String) (ty : Ty) (fv : Val) (x : FVal) (r : Bool)
    (hx : floatValOf ty fv = some x)
    (hnum : enumIsNum Facts.info_enum.guard ty = true)
    (hne : Spec.enumItems p ≠ [])
    (hv : Spec.violates "enum" (some p) ty fv = some r) :
    ∃ e, enumCond f ty p Facts.info_enum.guard = some e ∧ fires (envOf f ty fv) e = some r ∧
      r = !(Spec.enumItems p).any (fun it => match parseDec it with | some d => cmpFloatDec x d == some .eq | none => false) := by
  have hitems : (p.splitOn Facts.enum_sep).map trimSpace = Spec.enumItems p := rfl
  simp only [Spec.violates] at hv
  cases hm : Spec.enumMember ty fv (Spec.enumItems p) with
  | none => simp [hm] at hv
  | some m =>
    simp only [hm, Option.map_some, Option.some.injEq] at hv
    subst hv
    unfold floatValOf at hx
    unfold Spec.enumMember at hm
    unfold enumCond
    simp only [hitems, hnum, if_true, Facts.enum_joinOp]
    split at hx
    · -- float64
      rename_i b hty
      injection hx with hx; subst hx
      simp only [hty] at hm
      split at hm
      · rename_i hall
        injection hm with hm
        cases hi : Spec.enumItems p with
        | nil => exact absurd hi hne
        | cons it its =>
          rw [hi] at hall hm
          simp only [List.map_cons]
          subst hm
          refine ⟨_, rfl, ?_, rfl⟩
          refine enum_chain _ f (fun s => match parseDec s with | some d => cmpFloatDec (decodeF64 b) d == some .eq | none => false) it its ?_
          intro y hy
          have := List.all_eq_true.mp hall y hy
          cases hd : parseDec y with
          | none => simp [hd] at this
          | some d => exact enum_item_f64 f y ty b d hty hd
      · simp at hm
    · rename_i b hty
      injection hx with hx; subst hx
      simp only [hty] at hm
      split at hm
      · rename_i hall
        injection hm with hm
        cases hi : Spec.enumItems p with
        | nil => exact absurd hi hne
        | cons it its =>
          rw [hi] at hall hm
          simp only [List.map_cons]
          subst hm
          refine ⟨_, rfl, ?_, rfl⟩
          refine enum_chain _ f (fun s => match parseDec s with | some d => cmpFloatDec (decodeF32 b) d == some .eq | none => false) it its ?_
          intro y hy
          have := List.all_eq_true.mp hall y hy
          cases hd : parseDec y with
          | none => simp [hd] at this
          | some d => exact enum_item_f32 f y ty b d hty hd
      · simp at hm
    · simp at hx

end Proofs
