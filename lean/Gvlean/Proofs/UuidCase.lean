/-
  C13: the Spec verdict does not depend on the case of hexadecimal letters.
-/
import Gvlean.Spec.Uuid

namespace Proofs
open Go Spec

theorem forall_u8 (P : UInt8 → Prop) (h : ∀ n, n < 256 → P (UInt8.ofNat n)) (b : UInt8) : P b := by
  have := h b.toNat (UInt8.toNat_lt b)
  simpa using this

theorem isHex_swap (b : UInt8) : isHex (swapCase b) = isHex b := by
  revert b; apply forall_u8; decide +kernel
theorem isVersion_swap (b : UInt8) : isVersion (swapCase b) = isVersion b := by
  revert b; apply forall_u8; decide +kernel
theorem isVariant_swap (b : UInt8) : isVariant (swapCase b) = isVariant b := by
  revert b; apply forall_u8; decide +kernel
theorem hyphen_swap (b : UInt8) : (swapCase b == 45) = (b == 45) := by
  revert b; apply forall_u8; decide +kernel
theorem zero_swap (b : UInt8) : (swapCase b == 48) = (b == 48) := by
  revert b; apply forall_u8; decide +kernel
theorem f_swap (b : UInt8) : (swapCase b == 102 || swapCase b == 70) = (b == 102 || b == 70) := by
  revert b; apply forall_u8; decide +kernel

theorem caseMap_get (σ : Nat → Bool) (s : Bytes) (i : Nat) :
    (caseMap σ s)[i]? = s[i]?.map (fun b => if σ i then swapCase b else b) := by
  simp [caseMap, List.getElem?_mapIdx]

theorem caseMap_any (σ : Nat → Bool) (s : Bytes) (i : Nat) (p : UInt8 → Bool) (hp : ∀ b, p (swapCase b) = p b) :
    (caseMap σ s)[i]?.any p = s[i]?.any p := by
  rw [caseMap_get]
  cases s[i]? with
  | none => rfl
  | some b => simp only [Option.map_some, Option.any_some]; split <;> simp [hp]

theorem caseMap_eq45 (σ : Nat → Bool) (s : Bytes) (i : Nat) :
    ((caseMap σ s)[i]? == some 45) = (s[i]? == some 45) := by
  have := caseMap_any σ s i (· == 45) hyphen_swap
  cases h1 : (caseMap σ s)[i]? <;> cases h2 : s[i]? <;> simp_all

theorem uuidSpecB_caseMap (σ : Nat → Bool) (s : Bytes) : uuidSpecB (caseMap σ s) = uuidSpecB s := by
  have hlen : (caseMap σ s).length = s.length := by simp [caseMap]
  simp only [uuidSpecB, uuidShape, hexAll, hlen, caseMap_eq45,
    caseMap_any σ s _ isHex isHex_swap, caseMap_any σ s _ isVersion isVersion_swap,
    caseMap_any σ s _ isVariant isVariant_swap, caseMap_any σ s _ (· == 48) zero_swap,
    caseMap_any σ s _ (fun b => b == 102 || b == 70) f_swap]

end Proofs
