/-
  C05, numeric enums: on an integer field the emitted `&&`-chain of `t.F != item` (items pasted
  verbatim) fires iff the value equals none of the items — for items that are decimal literals
  representable in the field type (an unrepresentable item is a compile-time error of the output).
-/
import Gvlean.Proofs.Rules

namespace Proofs
open Go Gen

theorem enum_item_int (f it : String) (ty : Ty) (k : Kind) (x : Int) (d : Dec) (hty : ty.underlying = .basic k)
    (hk : k.isInteger = true) (hp : parseDec it = some d) (hfit : decFitsInt k d = true) :
    fires (envOf f ty (.int x)) (Facts.enum_itemNum f it) = some (cmpIntDec x d != .eq) := by
  have hz : evalRaw it = some (.dec d) := by simp [evalRaw, hp]
  rw [Facts.enum_itemNum, fires_cmp_raw "!=" f it ty _ _ hz (by decide)]
  simp [cmpFldConst, hty, hk, hfit, ordHolds]

/-- items of the marker that are decimal literals representable in an integer kind -/
def itemsFit (k : Kind) (items : List String) : Prop :=
  ∀ it ∈ items, ∃ d, parseDec it = some d ∧ decFitsInt k d = true

theorem enum_int_sound (f p : String) (ty : Ty) (k : Kind) (x : Int) (r : Bool)
    (hty : ty.underlying = .basic k) (hk : k.isInteger = true)
    (hnum : enumIsNum Facts.info_enum.guard ty = true)
    (hne : Spec.enumItems p ≠ []) (hfit : itemsFit k (Spec.enumItems p))
    (hv : Spec.violates "enum" (some p) ty (.int x) = some r) :
    ∃ e, enumCond f ty p Facts.info_enum.guard = some e ∧ fires (envOf f ty (.int x)) e = some r := by
  simp only [Spec.violates] at hv
  cases hm : Spec.enumMember ty (.int x) (Spec.enumItems p) with
  | none => simp [hm] at hv
  | some m =>
    simp only [hm, Option.map_some, Option.some.injEq] at hv
    subst hv
    have hall : (Spec.enumItems p).all (fun it => (parseDec it).isSome) = true := by
      simp only [List.all_eq_true]
      intro it hit
      obtain ⟨d, hd, _⟩ := hfit it hit
      simp [hd]
    have hm' : m = (Spec.enumItems p).any fun it => match parseDec it with | some d => cmpIntDec x d == .eq | none => false := by
      unfold Spec.enumMember at hm
      rw [hty] at hm
      cases k <;> simp [Kind.isInteger] at hk <;> simp [Kind.isInteger, hall] at hm <;> exact hm.symm
    have hitems : (p.splitOn Facts.enum_sep).map trimSpace = Spec.enumItems p := rfl
    unfold enumCond
    simp only [hitems, hnum, if_true]
    cases hi : Spec.enumItems p with
    | nil => exact absurd hi hne
    | cons it its =>
      rw [hi] at hfit hm'
      simp only [List.map_cons, Facts.enum_joinOp]
      refine ⟨_, rfl, ?_⟩
      -- value of each conjunct
      let val : GoExpr → Bool := fun c => match c with
        | .bin _ _ (.raw s) => (match parseDec s with | some d => cmpIntDec x d != .eq | none => true)
        | _ => true
      obtain ⟨d0, hd0, hf0⟩ := hfit it (by simp)
      have h0 : fires (envOf f ty (.int x)) (Facts.enum_itemNum f it) = some (cmpIntDec x d0 != .eq) :=
        enum_item_int f it ty k x d0 hty hk hd0 hf0
      have hval : ∀ c ∈ its.map (fun it => Facts.enum_itemNum f it), fires (envOf f ty (.int x)) c = some (val c) := by
        intro c hc
        simp only [List.mem_map] at hc
        obtain ⟨it', hit', rfl⟩ := hc
        obtain ⟨d, hd, hf⟩ := hfit it' (by simp [hit'])
        rw [enum_item_int f it' ty k x d hty hk hd hf]
        simp [val, Facts.enum_itemNum, hd]
      have h2 : its.all (val ∘ fun it => Facts.enum_itemNum f it) =
          !its.any fun it => match parseDec it with | some d => cmpIntDec x d == .eq | none => false := by
        rw [Bool.eq_iff_iff]
        simp only [List.all_eq_true, Function.comp, Bool.not_eq_true', List.any_eq_false]
        constructor
        · intro h y hy
          have := h y hy
          obtain ⟨d, hd, _⟩ := hfit y (by simp [hy])
          simp only [val, Facts.enum_itemNum, hd] at this
          simp only [hd]
          cases hc : cmpIntDec x d <;> simp_all
        · intro h y hy
          have := h y hy
          obtain ⟨d, hd, _⟩ := hfit y (by simp [hy])
          simp only [hd] at this
          simp only [val, Facts.enum_itemNum, hd]
          cases hc : cmpIntDec x d <;> simp_all
      rw [fires_and_chain _ val _ _ _ h0 hval, hm']
      simp only [List.any_cons, hd0, List.all_map, Bool.not_or]
      rw [h2]
      rfl

end Proofs
