/-
  Proofs about the TRANSLATED email.go: each helper is shown (by mvcgen, with explicit loop
  invariants) to return — without panicking — the value of a pure Lean function; the pure
  functions are then related to the Spec grammar in Gvlean/Proofs/EmailPure.lean.
-/
import Gvlean.Generated.Helpers
import Gvlean.Proofs.Loop
import Gvlean.Proofs.Utf8
import Gvlean.Proofs.Ascii
import Gvlean.Spec.Email

set_option mvcgen.warning false

namespace Proofs
open Go Gen Std.Do Spec

/-! ### rune loops over ASCII classes -/

theorem isValidLocalChar_lt (r : Int) (h : isValidLocalChar r = true) : r < 128 := by
  simp only [isValidLocalChar, isValidLocalSpecialChar] at h
  split at h
  · rename_i h'; simp at h'; omega
  · split at h
    · rename_i h'; simp at h'; omega
    · simp at h

theorem isValidDomainChar_lt (r : Int) (h : isValidDomainChar r = true) : r < 128 := by
  simp [isValidDomainChar] at h; omega

theorem isValidLocalPartChars_spec (s : Bytes) :
    ⦃⌜True⌝⦄ isValidLocalPartChars s
    ⦃post⟨fun r => ⌜r = s.all (fun b => isValidLocalChar (Int.ofNat b.toNat))⌝, fun _ => ⌜False⌝⟩⦄ := by
  mvcgen [isValidLocalPartChars] invariants
  · Invariant.withEarlyReturnNewDo
      (onReturn := fun r _ => ⌜r = false ∧ (runes s).all (fun p => isValidLocalChar p.2) = false⌝)
      (onContinue := fun xs _ => ⌜∀ p ∈ xs.prefix, isValidLocalChar p.2 = true⌝)
      (onExcept := post⟨fun _ => ⌜False⌝⟩)
  all_goals mleave
  case vc1 pref cur suff hsp _ hbad hI =>
    exact Or.inr ⟨_, rfl, trivial, rfl, all_false_of_split hsp (by simpa using hbad)⟩
  case vc2 pref cur suff hsp _ hok hI =>
    rcases hI with ⟨_, hI⟩ | ⟨_, _, hnil, _⟩
    case inr => simp at hnil
    exact Or.inl ⟨trivial, all_snoc_of hI (by simpa using hok)⟩
  case vc3 => simp
  case vc4 r a hr hI =>
    rcases hI with ⟨h, _⟩ | ⟨a', ha, _, ha', hf⟩
    · simp_all
    · have : a = a' := by simpa using hr.symm.trans ha
      subst this; subst ha'
      rw [runes_all_eq _ isValidLocalChar_lt] at hf
      exact hf.symm
  case vc5 hI =>
    rcases hI with ⟨_, hi⟩ | ⟨_, hnil, _⟩
    · have hall : (runes s).all (fun p => isValidLocalChar p.2) = true := by
        rw [List.all_eq_true]; exact hi
      rw [runes_all_eq _ isValidLocalChar_lt] at hall
      exact hall.symm
    · simp_all

theorem isValidDomainLabelChars_spec (s : Bytes) :
    ⦃⌜True⌝⦄ isValidDomainLabelChars s
    ⦃post⟨fun r => ⌜r = s.all (fun b => isValidDomainChar (Int.ofNat b.toNat))⌝, fun _ => ⌜False⌝⟩⦄ := by
  mvcgen [isValidDomainLabelChars] invariants
  · Invariant.withEarlyReturnNewDo
      (onReturn := fun r _ => ⌜r = false ∧ (runes s).all (fun p => isValidDomainChar p.2) = false⌝)
      (onContinue := fun xs _ => ⌜∀ p ∈ xs.prefix, isValidDomainChar p.2 = true⌝)
      (onExcept := post⟨fun _ => ⌜False⌝⟩)
  all_goals mleave
  case vc1 pref cur suff hsp _ hbad hI =>
    exact Or.inr ⟨_, rfl, trivial, rfl, all_false_of_split hsp (by simpa using hbad)⟩
  case vc2 pref cur suff hsp _ hok hI =>
    rcases hI with ⟨_, hI⟩ | ⟨_, _, hnil, _⟩
    case inr => simp at hnil
    exact Or.inl ⟨trivial, all_snoc_of hI (by simpa using hok)⟩
  case vc3 => simp
  case vc4 r a hr hI =>
    rcases hI with ⟨h, _⟩ | ⟨a', ha, _, ha', hf⟩
    · simp_all
    · have : a = a' := by simpa using hr.symm.trans ha
      subst this; subst ha'
      rw [runes_all_eq _ isValidDomainChar_lt] at hf
      exact hf.symm
  case vc5 hI =>
    rcases hI with ⟨_, hi⟩ | ⟨_, hnil, _⟩
    · have hall : (runes s).all (fun p => isValidDomainChar p.2) = true := by
        rw [List.all_eq_true]; exact hi
      rw [runes_all_eq _ isValidDomainChar_lt] at hall
      exact hall.symm
    · simp_all

/-! ### findAtSymbol -/

/-- state of the `findAtSymbol` loop after scanning the rune list `l` -/
def atFold (l : List (Int × Int)) (init : Int × Int) : Int × Int :=
  l.foldl (fun st p => if p.2 = 64 then (p.1, st.2 + 1) else st) init

theorem atFold_append (l₁ l₂ : List (Int × Int)) (init : Int × Int) :
    atFold (l₁ ++ l₂) init = atFold l₂ (atFold l₁ init) := by
  simp [atFold, List.foldl_append]

/-- the same fold over the list of positions of '@' -/
def posFold (ps : List Int) (init : Int × Int) : Int × Int :=
  ps.foldl (fun st p => (p, st.2 + 1)) init

theorem atFold_eq_posFold (l : List (Int × Int)) (init : Int × Int) :
    atFold l init = posFold (l.filterMap fun p => if p.2 = Int.ofNat (64 : UInt8).toNat then some p.1 else none) init := by
  induction l generalizing init with
  | nil => rfl
  | cons p t ih =>
    simp only [atFold, List.foldl_cons, List.filterMap_cons] at ih ⊢
    by_cases h : p.2 = 64
    · have : p.2 = Int.ofNat (64 : UInt8).toNat := by simpa using h
      simp only [h, this, if_true, posFold, List.foldl_cons]
      rw [ih]; rfl
    · have : ¬ p.2 = Int.ofNat (64 : UInt8).toNat := by simpa using h
      simp only [h, this, if_false]
      rw [ih]

theorem posFold_snd (ps : List Int) (init : Int × Int) : (posFold ps init).2 = init.2 + ps.length := by
  induction ps generalizing init with
  | nil => simp [posFold]
  | cons p t ih => simp only [posFold, List.foldl_cons] at ih ⊢; rw [ih]; simp; omega

theorem posFold_fst (ps : List Int) (init : Int × Int) :
    (posFold ps init).1 = (ps.getLast?).getD init.1 := by
  induction ps generalizing init with
  | nil => simp [posFold]
  | cons p t ih =>
    simp only [posFold, List.foldl_cons] at ih ⊢; rw [ih]
    cases t with
    | nil => simp
    | cons a b =>
      have hne : (a :: b) ≠ [] := by simp
      rw [List.getLast?_eq_some_getLast hne]; rfl

/-- `findAtSymbol` as a pure function -/
def findAtPure (s : Bytes) : Int :=
  let ps := bytePositions 64 0 s
  let atIndex := ps.getLast?.getD (-1)
  if ps.length ≠ 1 ∨ atIndex ≤ 0 ∨ atIndex ≥ (s.length : Int) - 1 then -1 else atIndex

theorem findAtSymbol_spec (s : Bytes) :
    ⦃⌜True⌝⦄ findAtSymbol s ⦃post⟨fun r => ⌜r = findAtPure s⌝, fun _ => ⌜False⌝⟩⦄ := by
  mvcgen [findAtSymbol] invariants
  · post⟨fun ⟨xs, lm⟩ => ⌜lm = atFold xs.prefix (-1, 0)⌝, fun _ => ⌜False⌝⟩
  all_goals mleave
  case vc1 pref cur suff hsp b _ _ hc _ _ hI =>
    subst hI
    rw [atFold_append]
    simp at hc
    simp +zetaDelta [atFold, hc]
  case vc2 pref cur suff hsp b _ _ hc hI =>
    subst hI
    rw [atFold_append]
    simp at hc
    simp +zetaDelta [atFold, hc]
  all_goals (
    rename_i hc hr
    have hpos := runes_positions 64 (by decide) s.length s 0 (Nat.le_refl _)
    have hfold : atFold (runes s) (-1, 0) = posFold (bytePositions 64 0 s) (-1, 0) := by
      rw [atFold_eq_posFold, ← hpos]; rfl
    rw [hfold] at hr
    have h1 := posFold_fst (bytePositions 64 0 s) (-1, 0)
    have h2 := posFold_snd (bytePositions 64 0 s) (-1, 0)
    rw [← hr] at h1 h2
    simp +zetaDelta only [len] at hc ⊢
    simp only [findAtPure])
  case vc4 =>
    simp at hc h1 h2
    rw [if_pos]
    rw [h1, h2] at hc
    rcases hc with (hc | hc) | hc
    · left; omega
    · right; left; exact hc
    · right; right; omega
  case vc5 =>
    simp at hc h1 h2
    rw [h1, h2] at hc
    rw [if_neg, h1]
    omega

/-! ### local part -/

/-- no two consecutive dots -/
def dotPairAt (l : Bytes) (i : Nat) : Bool := l[i]? == some 46 && l[i+1]? == some 46

def noDotDot (l : Bytes) : Bool := (List.range' 0 (l.length - 1)).all fun i => !dotPairAt l i

def localFormatPure (l : Bytes) : Bool := l.head? != some 46 && l.getLast? != some 46 && noDotDot l

theorem isValidLocalPartFormat_spec (l : Bytes) (hne : l ≠ []) :
    ⦃⌜True⌝⦄ isValidLocalPartFormat l ⦃post⟨fun r => ⌜r = localFormatPure l⌝, fun _ => ⌜False⌝⟩⦄ := by
  have hlen : 0 < l.length := List.length_pos_iff.mpr hne
  mvcgen [isValidLocalPartFormat] invariants
  · Invariant.withEarlyReturnNewDo
      (onReturn := fun r _ => ⌜r = false ∧ ∃ j, j < l.length - 1 ∧ dotPairAt l j = true⌝)
      (onContinue := fun xs _ => ⌜∀ j ∈ xs.prefix, dotPairAt l j = false⌝)
      (onExcept := post⟨fun _ => ⌜False⌝⟩)
  all_goals mleave
  all_goals (try have hrs := range_split ‹[_:_].toList = _ ++ _ :: _›)
  all_goals (try simp only [mem_range_toList] at *)
  all_goals (try (simp +zetaDelta only [len] at *))
  all_goals (try (have e1 : ((l.length : Int) - 1).toNat = l.length - 1 := by omega))
  case vc7 pref cur suff _ _ _ _ h4 h5 =>
    refine Or.inr ⟨_, rfl, trivial, rfl, cur, by omega, ?_⟩
    have hc1 : cur + 1 < l.length := by omega
    have e2 : ((cur : Int)).toNat = cur := by omega
    have e3 : ((cur : Int) + 1).toNat = cur + 1 := by omega
    simp only [e2, e3, beq_iff_eq] at h4 h5
    simp only [dotPairAt, List.getElem?_eq_getElem hc1, List.getElem?_eq_getElem (show cur < l.length by omega), h4, h5]
    decide
  all_goals (grind [localFormatPure, noDotDot, dotPairAt, List.head?_eq_getElem?, List.getLast?_eq_getElem?, List.all_eq_true])

theorem isValidLocalPartFormat_spec' (l : Bytes) :
    ⦃⌜l ≠ []⌝⦄ isValidLocalPartFormat l ⦃post⟨fun r => ⌜r = localFormatPure l⌝, fun _ => ⌜False⌝⟩⦄ :=
  triple_pure_pre (isValidLocalPartFormat_spec l)

/-- `isValidLocalPart` as a pure function -/
def localPure (l : Bytes) : Bool :=
  l != [] && decide (l.length ≤ 64) && localFormatPure l && l.all (fun b => isValidLocalChar (Int.ofNat b.toNat))

theorem isValidLocalPart_spec (l : Bytes) :
    ⦃⌜True⌝⦄ isValidLocalPart l ⦃post⟨fun r => ⌜r = localPure l⌝, fun _ => ⌜False⌝⟩⦄ := by
  mvcgen [isValidLocalPart, isValidLocalPartFormat_spec', isValidLocalPartChars_spec]
  all_goals mleave
  all_goals (try simp only [len] at *)
  all_goals (try grind [localPure])

/-! ### domain labels -/

/-- `isValidDomainLabel` as a pure function -/
def labelPure (lb : Bytes) : Bool :=
  lb != [] && decide (lb.length ≤ 63) && lb.head? != some 45 && lb.getLast? != some 45 &&
    lb.all (fun b => isValidDomainChar (Int.ofNat b.toNat))

theorem isValidDomainLabel_spec (lb : Bytes) :
    ⦃⌜True⌝⦄ isValidDomainLabel lb ⦃post⟨fun r => ⌜r = labelPure lb⌝, fun _ => ⌜False⌝⟩⦄ := by
  mvcgen [isValidDomainLabel, isValidDomainLabelChars_spec]
  all_goals mleave
  all_goals (try simp only [len] at *)
  all_goals (try (have e1 : ((lb.length : Int) - 1).toNat = lb.length - 1 := by omega))
  all_goals (try grind [labelPure, List.head?_eq_getElem?, List.getLast?_eq_getElem?])

/-! ### validateDomainLabels -/

/-- The remaining computation of the label loop from index `i` (with `fuel = len+1-i` iterations left). -/
def vdlFrom (d : Bytes) : (fuel : Nat) → (i : Nat) → (count : Int) → (start : Nat) → Bool
  | 0, _, count, _ => decide (count ≥ 2)
  | fuel + 1, i, count, start =>
    if i ≠ d.length ∧ d[i]? ≠ some 46 then vdlFrom d fuel (i + 1) count start
    else if i = start then false
    else if !labelPure ((d.drop start).take (i - start)) then false
    else vdlFrom d fuel (i + 1) (count + 1) (i + 1)

theorem vdl_fuel {d : Bytes} {k : Nat} (hk : k ≤ d.length) :
    d.length + 1 - k = (d.length + 1 - (k + 1)) + 1 := by omega

theorem vdl_step_continue {d : Bytes} {k : Nat} (count : Int) (st : Nat) (hk : k < d.length) (hne : d[k] ≠ 46) :
    vdlFrom d (d.length + 1 - k) k count st = vdlFrom d (d.length + 1 - (k + 1)) (k + 1) count st := by
  rw [vdl_fuel (Nat.le_of_lt hk), vdlFrom]
  have h1 : k ≠ d.length := by omega
  have h2 : d[k]? ≠ some 46 := by rw [List.getElem?_eq_getElem hk]; simpa using hne
  simp [h1, h2]

theorem vdl_step_empty {d : Bytes} {k : Nat} (count : Int) (st : Nat) (hk : k ≤ d.length)
    (hdot : k = d.length ∨ d[k]? = some 46) (he : k = st) :
    vdlFrom d (d.length + 1 - k) k count st = false := by
  rw [vdl_fuel hk, vdlFrom]
  have h1 : ¬ (k ≠ d.length ∧ d[k]? ≠ some 46) := by
    rcases hdot with h | h <;> simp [h]
  rw [if_neg h1, if_pos he]

theorem vdl_step_bad {d : Bytes} {k : Nat} (count : Int) (st : Nat) (hk : k ≤ d.length)
    (hdot : k = d.length ∨ d[k]? = some 46) (he : k ≠ st)
    (hb : labelPure ((d.drop st).take (k - st)) = false) :
    vdlFrom d (d.length + 1 - k) k count st = false := by
  rw [vdl_fuel hk, vdlFrom]
  have h1 : ¬ (k ≠ d.length ∧ d[k]? ≠ some 46) := by
    rcases hdot with h | h <;> simp [h]
  rw [if_neg h1, if_neg he, hb]; rfl

theorem vdl_step_ok {d : Bytes} {k : Nat} (count : Int) (st : Nat) (hk : k ≤ d.length)
    (hdot : k = d.length ∨ d[k]? = some 46) (he : k ≠ st)
    (hb : labelPure ((d.drop st).take (k - st)) = true) :
    vdlFrom d (d.length + 1 - k) k count st = vdlFrom d (d.length + 1 - (k + 1)) (k + 1) (count + 1) (k + 1) := by
  rw [vdl_fuel hk, vdlFrom]
  have h1 : ¬ (k ≠ d.length ∧ d[k]? ≠ some 46) := by
    rcases hdot with h | h <;> simp [h]
  rw [if_neg h1, if_neg he, hb]; rfl

theorem validateDomainLabels_spec (d : Bytes) :
    ⦃⌜True⌝⦄ validateDomainLabels d
    ⦃post⟨fun r => ⌜r = vdlFrom d (d.length + 1) 0 0 0⌝, fun _ => ⌜False⌝⟩⦄ := by
  mvcgen [validateDomainLabels, isValidDomainLabel_spec] invariants
  · Invariant.withEarlyReturnNewDo
      (onReturn := fun r _ => ⌜r = false ∧ vdlFrom d (d.length + 1) 0 0 0 = false⌝)
      (onContinue := fun xs lm => ⌜∃ st : Nat, lm.2 = (st : Int) ∧ st ≤ xs.prefix.length ∧
          vdlFrom d (d.length + 1) 0 0 0 = vdlFrom d (d.length + 1 - xs.prefix.length) xs.prefix.length lm.1 st⌝)
      (onExcept := post⟨fun _ => ⌜False⌝⟩)
  all_goals mleave
  all_goals (try have hrs := range_split ‹[_:_].toList = _ ++ _ :: _›)
  all_goals (try simp only [mem_range_toList] at *)
  case vc1 pref cur suff hsp b s lc st i jp hA hI =>
    obtain ⟨hcur, hlt, _, hpref⟩ := hrs
    simp +zetaDelta only [len] at hA hlt ⊢
    simp at hA
    omega
  case vc2 pref cur suff hsp b s lc st i jp hA hI hB =>
    obtain ⟨hcur, hlt, _, hpref⟩ := hrs
    simp only [Nat.zero_add] at hcur
    have hlt' : cur ≤ d.length := by simp only [len] at hlt; omega
    obtain ⟨stN, hst, hle, hinv⟩ : ∃ st : Nat, b.2.2 = (st : Int) ∧ st ≤ pref.length ∧
        vdlFrom d (d.length + 1) 0 0 0 = vdlFrom d (d.length + 1 - pref.length) pref.length b.2.1 st := by
      rcases hI with ⟨_, h⟩ | ⟨_, _, hnil, _⟩
      · exact h
      · simp at hnil
    rw [← hcur] at hinv hle
    have ei : ((cur : Int)).toNat = cur := by omega
    simp +zetaDelta only [len, ei] at hA hB
    simp at hA hB
    have hk : cur < d.length := by omega
    refine Or.inl ⟨trivial, stN, hst, by simp; omega, ?_⟩
    rw [hinv, vdl_step_continue _ _ hk hB]
    simp +zetaDelta [hcur]
  case vc3 pref cur suff hsp b s lc st i jp hA hI hB hC =>
    obtain ⟨hcur, hlt, _, hpref⟩ := hrs
    simp only [Nat.zero_add] at hcur
    have hlt' : cur ≤ d.length := by simp only [len] at hlt; omega
    obtain ⟨stN, hst, hle, hinv⟩ : ∃ st : Nat, b.2.2 = (st : Int) ∧ st ≤ pref.length ∧
        vdlFrom d (d.length + 1) 0 0 0 = vdlFrom d (d.length + 1 - pref.length) pref.length b.2.1 st := by
      rcases hI with ⟨_, h⟩ | ⟨_, _, hnil, _⟩
      · exact h
      · simp at hnil
    rw [← hcur] at hinv hle
    have ei : ((cur : Int)).toNat = cur := by omega
    simp +zetaDelta only [len, ei] at hA hB hC
    simp at hA hB hC
    have hk : cur < d.length := by omega
    refine Or.inr ⟨_, rfl, trivial, rfl, ?_⟩
    rw [hinv]
    exact vdl_step_empty _ _ hlt' (Or.inr (by rw [List.getElem?_eq_getElem hk, hB])) (by rw [hst] at hC; omega)
  case vc4 pref cur suff hsp b s lc st i jp hA hI hB hC =>
    obtain ⟨hcur, hlt, _, hpref⟩ := hrs
    simp only [Nat.zero_add] at hcur
    have hlt' : cur ≤ d.length := by simp only [len] at hlt; omega
    obtain ⟨stN, hst, hle, hinv⟩ : ∃ st : Nat, b.2.2 = (st : Int) ∧ st ≤ pref.length ∧
        vdlFrom d (d.length + 1) 0 0 0 = vdlFrom d (d.length + 1 - pref.length) pref.length b.2.1 st := by
      rcases hI with ⟨_, h⟩ | ⟨_, _, hnil, _⟩
      · exact h
      · simp at hnil
    rw [← hcur] at hinv hle
    have ei : ((cur : Int)).toNat = cur := by omega
    simp +zetaDelta only [len, ei] at hA hB hC ⊢
    simp at hC
    omega
  case vc5 pref cur suff hsp b s lc st i jp hA hI hB hC label lc2 r hr1 hr2 =>
    obtain ⟨hcur, hlt, _, hpref⟩ := hrs
    simp only [Nat.zero_add] at hcur
    have hlt' : cur ≤ d.length := by simp only [len] at hlt; omega
    obtain ⟨stN, hst, hle, hinv⟩ : ∃ st : Nat, b.2.2 = (st : Int) ∧ st ≤ pref.length ∧
        vdlFrom d (d.length + 1) 0 0 0 = vdlFrom d (d.length + 1 - pref.length) pref.length b.2.1 st := by
      rcases hI with ⟨_, h⟩ | ⟨_, _, hnil, _⟩
      · exact h
      · simp at hnil
    rw [← hcur] at hinv hle
    have ei : ((cur : Int)).toNat = cur := by omega
    simp +zetaDelta only [len, ei] at hA hB hC hr2
    simp at hA hB hC hr1
    have hk : cur < d.length := by omega
    refine Or.inr ⟨_, rfl, trivial, rfl, ?_⟩
    rw [hinv]
    refine vdl_step_bad _ _ hlt' (Or.inr (by rw [List.getElem?_eq_getElem hk, hB])) (by rw [hst] at hC; omega) ?_
    rw [hst] at hr2; simp only [Int.toNat_natCast] at hr2
    rw [← hr2, hr1]
  case vc6 pref cur suff hsp b s lc st i jp hA hI hB hC label lc2 r hr1 st2 hr2 =>
    obtain ⟨hcur, hlt, _, hpref⟩ := hrs
    simp only [Nat.zero_add] at hcur
    have hlt' : cur ≤ d.length := by simp only [len] at hlt; omega
    obtain ⟨stN, hst, hle, hinv⟩ : ∃ st : Nat, b.2.2 = (st : Int) ∧ st ≤ pref.length ∧
        vdlFrom d (d.length + 1) 0 0 0 = vdlFrom d (d.length + 1 - pref.length) pref.length b.2.1 st := by
      rcases hI with ⟨_, h⟩ | ⟨_, _, hnil, _⟩
      · exact h
      · simp at hnil
    rw [← hcur] at hinv hle
    have ei : ((cur : Int)).toNat = cur := by omega
    simp +zetaDelta only [len, ei] at hA hB hC hr2
    simp at hA hB hC hr1
    have hk : cur < d.length := by omega
    refine Or.inl ⟨trivial, cur + 1, by simp +zetaDelta, by simp; omega, ?_⟩
    rw [hinv]
    rw [vdl_step_ok _ _ hlt' (Or.inr (by rw [List.getElem?_eq_getElem hk, hB])) (by rw [hst] at hC; omega) ?_]
    · simp +zetaDelta [hcur]
    · rw [hst] at hr2; simp only [Int.toNat_natCast] at hr2
      rw [← hr2, hr1]
  case vc7 pref cur suff hsp b s lc st i jp hA hC hI =>
    obtain ⟨hcur, hlt, _, hpref⟩ := hrs
    simp only [Nat.zero_add] at hcur
    have hlt' : cur ≤ d.length := by simp only [len] at hlt; omega
    obtain ⟨stN, hst, hle, hinv⟩ : ∃ st : Nat, b.2.2 = (st : Int) ∧ st ≤ pref.length ∧
        vdlFrom d (d.length + 1) 0 0 0 = vdlFrom d (d.length + 1 - pref.length) pref.length b.2.1 st := by
      rcases hI with ⟨_, h⟩ | ⟨_, _, hnil, _⟩
      · exact h
      · simp at hnil
    rw [← hcur] at hinv hle
    have ei : ((cur : Int)).toNat = cur := by omega
    simp +zetaDelta only [len, ei] at hA hC
    simp at hA hC
    refine Or.inr ⟨_, rfl, trivial, rfl, ?_⟩
    rw [hinv]
    exact vdl_step_empty _ _ hlt' (Or.inl (by omega)) (by rw [hst] at hC; omega)
  case vc8 pref cur suff hsp b s lc st i jp hA hC hI =>
    obtain ⟨hcur, hlt, _, hpref⟩ := hrs
    simp only [Nat.zero_add] at hcur
    have hlt' : cur ≤ d.length := by simp only [len] at hlt; omega
    obtain ⟨stN, hst, hle, hinv⟩ : ∃ st : Nat, b.2.2 = (st : Int) ∧ st ≤ pref.length ∧
        vdlFrom d (d.length + 1) 0 0 0 = vdlFrom d (d.length + 1 - pref.length) pref.length b.2.1 st := by
      rcases hI with ⟨_, h⟩ | ⟨_, _, hnil, _⟩
      · exact h
      · simp at hnil
    rw [← hcur] at hinv hle
    have ei : ((cur : Int)).toNat = cur := by omega
    simp +zetaDelta only [len, ei] at hA hC ⊢
    simp at hA hC
    omega
  case vc9 pref cur suff hsp b s lc st i jp hA hC hI label lc2 r hr1 hr2 =>
    obtain ⟨hcur, hlt, _, hpref⟩ := hrs
    simp only [Nat.zero_add] at hcur
    have hlt' : cur ≤ d.length := by simp only [len] at hlt; omega
    obtain ⟨stN, hst, hle, hinv⟩ : ∃ st : Nat, b.2.2 = (st : Int) ∧ st ≤ pref.length ∧
        vdlFrom d (d.length + 1) 0 0 0 = vdlFrom d (d.length + 1 - pref.length) pref.length b.2.1 st := by
      rcases hI with ⟨_, h⟩ | ⟨_, _, hnil, _⟩
      · exact h
      · simp at hnil
    rw [← hcur] at hinv hle
    have ei : ((cur : Int)).toNat = cur := by omega
    simp +zetaDelta only [len, ei] at hA hC hr2
    simp at hA hC hr1
    refine Or.inr ⟨_, rfl, trivial, rfl, ?_⟩
    rw [hinv]
    refine vdl_step_bad _ _ hlt' (Or.inl (by omega)) (by rw [hst] at hC; omega) ?_
    rw [hst] at hr2; simp only [Int.toNat_natCast] at hr2
    rw [← hr2, hr1]
  case vc10 pref cur suff hsp b s lc st i jp hA hC hI label lc2 r hr1 st2 hr2 =>
    obtain ⟨hcur, hlt, _, hpref⟩ := hrs
    simp only [Nat.zero_add] at hcur
    have hlt' : cur ≤ d.length := by simp only [len] at hlt; omega
    obtain ⟨stN, hst, hle, hinv⟩ : ∃ st : Nat, b.2.2 = (st : Int) ∧ st ≤ pref.length ∧
        vdlFrom d (d.length + 1) 0 0 0 = vdlFrom d (d.length + 1 - pref.length) pref.length b.2.1 st := by
      rcases hI with ⟨_, h⟩ | ⟨_, _, hnil, _⟩
      · exact h
      · simp at hnil
    rw [← hcur] at hinv hle
    have ei : ((cur : Int)).toNat = cur := by omega
    simp +zetaDelta only [len, ei] at hA hC hr2
    simp at hA hC hr1
    refine Or.inl ⟨trivial, cur + 1, by simp +zetaDelta, by simp; omega, ?_⟩
    rw [hinv]
    rw [vdl_step_ok _ _ hlt' (Or.inl (by omega)) (by rw [hst] at hC; omega) ?_]
    · simp +zetaDelta [hcur]
    · rw [hst] at hr2; simp only [Int.toNat_natCast] at hr2
      rw [← hr2, hr1]
  case vc11 => exact Or.inl ⟨trivial, 0, by simp⟩
  case vc12 r _ _ _ a hr hI =>
    rcases hI with ⟨hn, _⟩ | ⟨a', ha, _, ha', hf⟩
    · simp +zetaDelta [hn] at hr
    · have : a = a' := by simpa +zetaDelta using hr.symm.trans ha
      subst this; subst ha'; exact hf.symm
  case vc13 r _ _ lc hr hI =>
    rcases hI with ⟨_, stN, hst, hle, hinv⟩ | ⟨a', ha, _⟩
    · have hl : [:(len d + 1).toNat].toList.length = d.length + 1 := by
        rw [range_toList]; simp [len]
      rw [hl] at hinv
      rw [hinv]; simp +zetaDelta [vdlFrom]
    · simp +zetaDelta [ha] at hr

/-! ### domain part -/

/-- `isValidDomainPart` as a pure function -/
def domainPure (d : Bytes) : Bool :=
  d != [] && decide (d.length ≤ 253) && d.contains 46 &&
    d.head? != some 46 && d.getLast? != some 46 && d.head? != some 45 && d.getLast? != some 45 &&
    vdlFrom d (d.length + 1) 0 0 0

theorem bytePositions_ne_nil (c : UInt8) (l : Bytes) (off : Nat) : bytePositions c off l ≠ [] ↔ c ∈ l := by
  induction l generalizing off with
  | nil => simp [bytePositions]
  | cons b t ih =>
    simp only [bytePositions]
    by_cases h : b = c
    · simp [h]
    · simp only [h, if_false, ih, List.mem_cons]
      constructor
      · intro h'; exact Or.inr h'
      · rintro (h' | h')
        · exact absurd h'.symm h
        · exact h'

theorem runes_any_dot (d : Bytes) : (∃ p ∈ runes d, p.2 = 46) ↔ 46 ∈ d := by
  have hpos := runes_positions 46 (by decide) d.length d 0 (Nat.le_refl _)
  rw [← bytePositions_ne_nil 46 d 0, ← hpos]
  show _ ↔ List.filterMap _ (runes d) ≠ []
  rw [Ne, List.filterMap_eq_nil_iff]
  constructor
  · rintro ⟨p, hp, h46⟩ hall
    have := hall p hp
    simp [h46] at this
  · intro h
    obtain ⟨p, hp⟩ := Classical.not_forall.mp h
    obtain ⟨hmem, hne⟩ := Classical.not_imp.mp hp
    refine ⟨p, hmem, ?_⟩
    by_cases h46 : p.2 = 46
    · exact h46
    · exfalso; apply hne; simp [h46]

theorem isValidDomainPart_spec (d : Bytes) :
    ⦃⌜True⌝⦄ isValidDomainPart d ⦃post⟨fun r => ⌜r = domainPure d⌝, fun _ => ⌜False⌝⟩⦄ := by
  mvcgen [isValidDomainPart, validateDomainLabels_spec] invariants
  · post⟨fun ⟨xs, lm⟩ => ⌜(lm = true → ∃ p ∈ runes d, p.2 = 46) ∧ (lm = false → ∀ p ∈ xs.prefix, p.2 ≠ 46)⌝, fun _ => ⌜False⌝⟩
  all_goals mleave
  all_goals (try simp only [len] at *)
  all_goals (try (have e1 : ((d.length : Int) - 1).toNat = d.length - 1 := by omega))
  case vc2 _ pref cur suff hsp b hc hI =>
    refine ⟨⟨cur, by rw [hsp]; simp, by simpa using hc⟩, by simp⟩
  case vc3 _ pref cur suff hsp b hc hI =>
    refine ⟨hI.1, fun hb p hp => ?_⟩
    simp at hp
    rcases hp with hp | rfl
    · exact hI.2 hb p hp
    · simpa using hc
  all_goals (have hdot := runes_any_dot d)
  all_goals (grind [domainPure, List.head?_eq_getElem?, List.getLast?_eq_getElem?, List.contains_iff_mem])

/-! ### IsValidEmail -/

/-- `IsValidEmail` as a pure function -/
def emailPure (s : Bytes) : Bool :=
  if (s.length : Int) < 5 ∨ (s.length : Int) > 254 then false
  else if findAtPure s = -1 then false
  else localPure (s.take (findAtPure s).toNat) && domainPure (s.drop ((findAtPure s).toNat + 1))

theorem findAtPure_range (s : Bytes) (h : findAtPure s ≠ -1) :
    0 < findAtPure s ∧ findAtPure s < (s.length : Int) - 1 := by
  unfold findAtPure at h ⊢
  simp only at h ⊢
  split at h
  · exact absurd rfl h
  · rename_i hc
    rw [if_neg hc]
    omega

theorem or_decide {p q : Prop} [Decidable p] [Decidable q] : (decide p || decide q) = true ↔ p ∨ q := by simp

theorem IsValidEmail_pure (s : Bytes) :
    ⦃⌜True⌝⦄ IsValidEmail s ⦃post⟨fun r => ⌜r = emailPure s⌝, fun _ => ⌜False⌝⟩⦄ := by
  mvcgen [IsValidEmail, findAtSymbol_spec, isValidLocalPart_spec, isValidDomainPart_spec]
  all_goals mleave
  all_goals (try simp only [len] at *)
  case vc1 h =>
    have h' : (s.length : Int) < 5 ∨ (s.length : Int) > 254 := or_decide.mp h
    simp only [emailPure]; rw [if_pos h']
  case vc2 hl r hr hf =>
    have hl' : ¬ ((s.length : Int) < 5 ∨ (s.length : Int) > 254) := fun hc => hl (or_decide.mpr hc)
    simp at hr; subst hf
    simp only [emailPure]; rw [if_neg hl', if_pos hr]
  case vc3 hl r hr hf =>
    simp at hr; subst hf
    have := findAtPure_range s hr; omega
  case vc4 hl r hr hf _ =>
    simp at hr; subst hf
    have := findAtPure_range s hr; omega
  case vc5 hl r hr hf loc dom r1 hr1 hr1' r2 =>
    intro hr2
    have hl' : ¬ ((s.length : Int) < 5 ∨ (s.length : Int) > 254) := fun hc => hl (or_decide.mpr hc)
    simp at hr; subst hf
    have hrg := findAtPure_range s hr
    simp only [emailPure]; rw [if_neg hl', if_neg hr]
    have e1 : List.take ((findAtPure s).toNat - Int.toNat 0) (List.drop (Int.toNat 0) s) = s.take (findAtPure s).toNat := by simp
    have e2 : List.take (((s.length : Int)).toNat - (findAtPure s + 1).toNat) (List.drop (findAtPure s + 1).toNat s)
        = s.drop ((findAtPure s).toNat + 1) := by
      have : (findAtPure s + 1).toNat = (findAtPure s).toNat + 1 := by omega
      rw [this]; apply List.take_of_length_le; simp
    simp +zetaDelta only [len, e1, e2] at hr1' hr2
    rw [← hr1', hr1, hr2]; simp
  case vc6 hl r hr hf loc dom r1 hr1 hr1' =>
    have hl' : ¬ ((s.length : Int) < 5 ∨ (s.length : Int) > 254) := fun hc => hl (or_decide.mpr hc)
    simp at hr hr1; subst hf
    simp only [emailPure]; rw [if_neg hl', if_neg hr]
    have e1 : List.take ((findAtPure s).toNat - Int.toNat 0) (List.drop (Int.toNat 0) s) = s.take (findAtPure s).toNat := by simp
    simp +zetaDelta only [e1] at hr1'
    rw [← hr1', hr1]; simp

end Proofs
