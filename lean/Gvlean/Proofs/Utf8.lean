/-
  Facts about the UTF-8 decoder model (Gvlean/Go/Utf8.lean) that make rune loops over ASCII
  character classes equal to byte loops.
-/
import Gvlean.Go.Utf8

namespace Go

macro "u8omega" : tactic =>
  `(tactic| (simp only [UInt8.lt_iff_toNat_lt, UInt8.le_iff_toNat_le, UInt8.toNat_ofNat, Int.ofNat_eq_natCast,
      beq_iff_eq, ← UInt8.toNat_inj, List.length_cons] at * ; omega))

theorem lo3_ge (b0 : UInt8) : 128 ≤ (lo3 b0).toNat := by unfold lo3; split <;> decide
theorem lo4_ge (b0 : UInt8) : 128 ≤ (lo4 b0).toNat := by unfold lo4; split <;> decide

theorem lo3_e0 (b0 : UInt8) (h : b0.toNat = 224) : (lo3 b0).toNat = 160 := by
  have : b0 = 224 := UInt8.toNat_inj.mp h
  subst this; decide
theorem lo4_f0 (b0 : UInt8) (h : b0.toNat = 240) : (lo4 b0).toNat = 144 := by
  have : b0 = 240 := UInt8.toNat_inj.mp h
  subst this; decide

theorem decode1_ascii {b0 : UInt8} (rest : Bytes) (h : b0 < 0x80) :
    decode1 b0 rest = (Int.ofNat b0.toNat, 0) := by
  simp [decode1, h]

/-- A lead byte ≥ 0x80 never yields a rune < 0x80, and every extra byte it consumes is ≥ 0x80. -/
theorem decode1_high {b0 : UInt8} (rest : Bytes) (h : ¬ b0 < 0x80) :
    (128 : Int) ≤ (decode1 b0 rest).1 ∧ (decode1 b0 rest).2 ≤ rest.length ∧
      ∀ b ∈ rest.take (decode1 b0 rest).2, ¬ b < 0x80 := by
  have herr : (128 : Int) ≤ (runeError, 0).1 ∧ (runeError, 0).2 ≤ rest.length ∧
      ∀ b ∈ rest.take (runeError, 0).2, ¬ b < 0x80 := by simp [runeError]
  unfold decode1
  simp only [h, if_false]
  by_cases h1 : b0 < 0xC2
  · simpa only [h1, if_true] using herr
  simp only [h1, if_false]
  by_cases h2 : b0 < 0xE0
  · simp only [h2, if_true]
    match rest with
    | [] => simp [runeError]
    | b1 :: t =>
      by_cases hc : isCont b1 = true
      · simp only [hc, if_true]
        simp only [isCont, Bool.and_eq_true, decide_eq_true_eq] at hc
        refine ⟨?_, by simp, ?_⟩
        · show (128 : Int) ≤ Int.ofNat ((b0.toNat - 0xC0) * 64 + (b1.toNat - 0x80))
          u8omega
        · intro b hb; simp at hb; subst hb; u8omega
      · simp [hc, runeError]
  simp only [h2, if_false]
  by_cases h3 : b0 < 0xF0
  · simp only [h3, if_true]
    match rest with
    | [] => simp [runeError]
    | [_] => simp [runeError]
    | b1 :: b2 :: t =>
      by_cases hc : (decide (lo3 b0 ≤ b1) && decide (b1 ≤ hi3 b0) && isCont b2) = true
      · simp only [hc, if_true]
        simp only [isCont, Bool.and_eq_true, decide_eq_true_eq] at hc
        obtain ⟨⟨hlo, hhi⟩, hc2⟩ := hc
        have hb1 : ¬ b1 < 0x80 := by
          have := lo3_ge b0; u8omega
        refine ⟨?_, by simp, ?_⟩
        · show (128 : Int) ≤ Int.ofNat ((b0.toNat - 0xE0) * 4096 + (b1.toNat - 0x80) * 64 + (b2.toNat - 0x80))
          have := lo3_e0 b0
          u8omega
        · intro b hb; simp at hb
          rcases hb with rfl | rfl
          · exact hb1
          · u8omega
      · simp [hc, runeError]
  simp only [h3, if_false]
  by_cases h4 : b0 < 0xF5
  · simp only [h4, if_true]
    match rest with
    | [] => simp [runeError]
    | [_] => simp [runeError]
    | [_, _] => simp [runeError]
    | b1 :: b2 :: b3 :: t =>
      by_cases hc : (decide (lo4 b0 ≤ b1) && decide (b1 ≤ hi4 b0) && isCont b2 && isCont b3) = true
      · simp only [hc, if_true]
        simp only [isCont, Bool.and_eq_true, decide_eq_true_eq] at hc
        obtain ⟨⟨⟨hlo, hhi⟩, hc2⟩, hc3⟩ := hc
        have hb1 : ¬ b1 < 0x80 := by
          have := lo4_ge b0; u8omega
        refine ⟨?_, by simp, ?_⟩
        · show (128 : Int) ≤ Int.ofNat ((b0.toNat - 0xF0) * 262144 + (b1.toNat - 0x80) * 4096 + (b2.toNat - 0x80) * 64 + (b3.toNat - 0x80))
          have := lo4_f0 b0
          u8omega
        · intro b hb; simp at hb
          rcases hb with rfl | rfl | rfl
          · exact hb1
          · u8omega
          · u8omega
      · simp [hc, runeError]
  · simpa only [h4, if_false] using herr

theorem runesFrom_cons (off : Nat) (b0 : UInt8) (rest : Bytes) :
    runesFrom off (b0 :: rest) =
      ((off : Int), (decode1 b0 rest).1) :: runesFrom (off + 1 + (decode1 b0 rest).2) (rest.drop (decode1 b0 rest).2) := by
  rw [runesFrom]

theorem runesFrom_nil (off : Nat) : runesFrom off [] = [] := by
  rw [runesFrom]

/-- A rune loop testing an ASCII-only class `P` is a byte loop. -/
theorem runes_all_ascii (P : Int → Bool) (hP : ∀ r, P r = true → r < 128) :
    ∀ (n : Nat) (s : Bytes) (off : Nat), s.length ≤ n →
      (runesFrom off s).all (fun p => P p.2) = s.all (fun b => P (Int.ofNat b.toNat)) := by
  intro n
  induction n with
  | zero => intro s off h; have : s = [] := List.length_eq_zero_iff.mp (by omega); subst this; simp [runesFrom_nil]
  | succ n ih =>
    intro s off h
    match s with
    | [] => simp [runesFrom_nil]
    | b0 :: rest =>
      rw [runesFrom_cons]
      by_cases hb : b0 < 0x80
      · rw [decode1_ascii rest hb]
        simp only [List.all_cons, List.drop_zero]
        rw [ih rest _ (by simpa using h)]
      · have hh := decode1_high rest hb
        have h1 : P (decode1 b0 rest).1 = false := by
          rw [← Bool.not_eq_true]; intro hp; have := hP _ hp; have := hh.1; omega
        have h2 : P (Int.ofNat b0.toNat) = false := by
          rw [← Bool.not_eq_true]; intro hp; have := hP _ hp
          simp only [UInt8.lt_iff_toNat_lt, UInt8.toNat_ofNat, Int.ofNat_eq_natCast] at *; omega
        simp only [List.all_cons, h1, h2, Bool.false_and]

/-- offsets at which a rune loop sees the ASCII rune `c` = offsets of the byte `c`. -/
def bytePositions (c : UInt8) (off : Nat) : Bytes → List Int
  | [] => []
  | b :: rest => if b = c then (off : Int) :: bytePositions c (off + 1) rest else bytePositions c (off + 1) rest

theorem bytePositions_skip (c : UInt8) (hc : c < 0x80) :
    ∀ (k : Nat) (l : Bytes) (off : Nat), k ≤ l.length → (∀ b ∈ l.take k, ¬ b < 0x80) →
      bytePositions c off l = bytePositions c (off + k) (l.drop k) := by
  intro k
  induction k with
  | zero => intro l off _ _; simp
  | succ k ih =>
    intro l off hk hall
    match l with
    | [] => simp at hk
    | b :: t =>
      have hb : b ≠ c := by
        intro h; subst h; exact hall b (by simp) hc
      simp only [bytePositions, hb, if_false, List.drop_succ_cons]
      rw [ih t (off + 1) (by simpa using hk) (fun x hx => hall x (by simp [List.take_succ_cons, hx]))]
      congr 1; omega

theorem runes_positions (c : UInt8) (hc : c < 0x80) :
    ∀ (n : Nat) (s : Bytes) (off : Nat), s.length ≤ n →
      (runesFrom off s).filterMap (fun p => if p.2 = Int.ofNat c.toNat then some p.1 else none)
        = bytePositions c off s := by
  intro n
  induction n with
  | zero => intro s off h; have : s = [] := List.length_eq_zero_iff.mp (by omega); subst this; simp [runesFrom_nil, bytePositions]
  | succ n ih =>
    intro s off h
    match s with
    | [] => simp [runesFrom_nil, bytePositions]
    | b0 :: rest =>
      rw [runesFrom_cons]
      by_cases hb : b0 < 0x80
      · rw [decode1_ascii rest hb]
        simp only [List.filterMap_cons, List.drop_zero, bytePositions, Nat.add_zero]
        rw [ih rest _ (by simpa using h)]
        by_cases he : b0 = c
        · subst he; simp
        · have : ¬ (Int.ofNat b0.toNat = Int.ofNat c.toNat) := by
            intro h'; apply he; apply UInt8.toNat_inj.mp; exact Int.ofNat.inj h'
          rw [Int.ofNat_eq_natCast, Int.ofNat_eq_natCast] at this
          simp [this, he]
      · have hh := decode1_high rest hb
        have h1 : ¬ ((decode1 b0 rest).1 = Int.ofNat c.toNat) := by
          intro h'
          have h128 : (128 : Int) ≤ (decode1 b0 rest).1 := hh.1
          rw [h'] at h128
          simp only [UInt8.lt_iff_toNat_lt, UInt8.toNat_ofNat, Int.ofNat_eq_natCast] at *; omega
        have h2 : b0 ≠ c := by intro h'; subst h'; exact hb hc
        simp only [List.filterMap_cons, h1, if_false, bytePositions, h2]
        rw [ih _ _ (by simp at h ⊢; omega)]
        rw [bytePositions_skip c hc _ rest (off + 1) hh.2.1 hh.2.2]

end Go
