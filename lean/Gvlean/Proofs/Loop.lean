/-
  Helper lemmas for loops over `[a:n]` ranges as produced by go2lean.
-/
import Gvlean.Go.Utf8

namespace Go

theorem range_toList (a n : Nat) : [a:n].toList = List.range' a (n - a) := by
  simp [Std.Legacy.Range.toList]

theorem range'_split {a k : Nat} {pref suff : List Nat} {cur : Nat}
    (h : List.range' a k = pref ++ cur :: suff) :
    cur = a + pref.length ∧ pref.length < k ∧ pref = List.range' a pref.length := by
  have hlen : (List.range' a k).length = (pref ++ cur :: suff).length := by rw [h]
  simp at hlen
  have hk : pref.length < k := by omega
  have hcur : (List.range' a k)[pref.length]'(by simp; omega) = cur := by
    simp [h]
  refine ⟨?_, hk, ?_⟩
  · rw [← hcur]; simp
  · have := congrArg (List.take pref.length) h
    simp at this
    rw [List.take_range'_of_length_ge (by omega)] at this
    exact this.symm

/-- What mvcgen gives for `for i_ in [a:n]`: the current index and the consumed prefix. -/
theorem range_split {a n : Nat} {pref suff : List Nat} {cur : Nat}
    (h : [a:n].toList = pref ++ cur :: suff) :
    cur = a + pref.length ∧ cur < n ∧ a ≤ cur ∧ pref = List.range' a pref.length := by
  rw [range_toList] at h
  have := range'_split h
  refine ⟨this.1, ?_, ?_, this.2.2⟩ <;> omega

/-- an invariant over the consumed prefix, as a statement about indices -/
theorem pref_inv {P : Nat → Prop} {pref : List Nat} {a : Nat}
    (hp : pref = List.range' a pref.length) (h : ∀ j ∈ pref, P j) :
    ∀ j, a ≤ j → j < a + pref.length → P j := by
  intro j h1 h2
  apply h; rw [hp]; simp [List.mem_range'_1]; omega

theorem mem_range_toList {a n j : Nat} : j ∈ [a:n].toList ↔ a ≤ j ∧ j < n := by
  rw [range_toList]; simp [List.mem_range'_1]; omega

end Go
