/-
  Proofs about the TRANSLATED uuid.go (Gvlean/Generated/Helpers.lean): one Hoare triple per
  helper; the exception arm `False` is the never-panics claim.
-/
import Gvlean.Generated.Helpers
import Gvlean.Proofs.Loop
import Gvlean.Spec.Uuid

set_option mvcgen.warning false

namespace Proofs
open Go Gen Std.Do Spec

/-- the four hyphen tests of `hasValidHyphens` -/
def hy4 (s : Bytes) : Bool :=
  s[8]? == some 45 && s[13]? == some 45 && s[18]? == some 45 && s[23]? == some 45

theorem hasValidHyphens_spec (s : Bytes) (h : s.length = 36) :
    ⦃⌜True⌝⦄ hasValidHyphens s ⦃post⟨fun r => ⌜r = hy4 s⌝, fun _ => ⌜False⌝⟩⦄ := by
  mvcgen [hasValidHyphens]
  all_goals (try (mleave; grind [hy4]))

/-- per-position predicate checked by a "skip hyphens, test the rest" loop -/
def posP (s : Bytes) (p : UInt8 → Bool) (i : Nat) : Bool := hyphenPos i || s[i]?.any p

theorem hexAll_eq (s : Bytes) (p : UInt8 → Bool) :
    hexAll s p = (List.range' 0 36).all (posP s p) := by
  simp [hexAll, List.range_eq_range']; rfl

theorem isValidHexChar_eq (b : UInt8) : isValidHexChar b = isHex b := by
  simp [isValidHexChar, isHex]

theorem hasValidHexChars_spec (s : Bytes) (h : s.length = 36) :
    ⦃⌜True⌝⦄ hasValidHexChars s ⦃post⟨fun r => ⌜r = hexAll s isHex⌝, fun _ => ⌜False⌝⟩⦄ := by
  mvcgen [hasValidHexChars] invariants
  · Invariant.withEarlyReturnNewDo
      (onReturn := fun r _ => ⌜r = false ∧ ∃ j < 36, posP s isHex j = false⌝)
      (onContinue := fun xs _ => ⌜∀ j ∈ xs.prefix, posP s isHex j = true⌝)
      (onExcept := post⟨fun _ => ⌜False⌝⟩)
  all_goals mleave
  all_goals (try have hrs := range_split ‹[_:_].toList = _ ++ _ :: _›)
  all_goals (try simp only [mem_range_toList] at *)
  case vc3 pref cur suff _ _ _ _ _ _ =>
    refine Or.inr ⟨_, rfl, trivial, rfl, cur, hrs.2.1, ?_⟩
    grind [posP, hyphenPos, isValidHexChar_eq]
  all_goals (grind [posP, hyphenPos, isValidHexChar_eq, hexAll_eq, List.all_eq_true])

theorem isMaxUUID_spec (s : Bytes) (h : s.length = 36) :
    ⦃⌜True⌝⦄ isMaxUUID s
    ⦃post⟨fun r => ⌜r = hexAll s (fun b => b == 102 || b == 70)⌝, fun _ => ⌜False⌝⟩⦄ := by
  mvcgen [isMaxUUID] invariants
  · Invariant.withEarlyReturnNewDo
      (onReturn := fun r _ => ⌜r = false ∧ ∃ j < 36, posP s (fun b => b == 102 || b == 70) j = false⌝)
      (onContinue := fun xs _ => ⌜∀ j ∈ xs.prefix, posP s (fun b => b == 102 || b == 70) j = true⌝)
      (onExcept := post⟨fun _ => ⌜False⌝⟩)
  all_goals mleave
  all_goals (try have hrs := range_split ‹[_:_].toList = _ ++ _ :: _›)
  all_goals (try simp only [mem_range_toList] at *)
  case vc4 pref cur suff _ _ _ _ _ _ _ =>
    refine Or.inr ⟨_, rfl, trivial, rfl, cur, hrs.2.1, ?_⟩
    grind [posP, hyphenPos]
  all_goals (grind [posP, hyphenPos, hexAll_eq, List.all_eq_true])

def nilLit : Bytes := [48, 48, 48, 48, 48, 48, 48, 48, 45, 48, 48, 48, 48, 45, 48, 48, 48, 48, 45, 48, 48, 48, 48, 45, 48, 48, 48, 48, 48, 48, 48, 48, 48, 48, 48, 48]

theorem nilLit_get : ∀ i : Fin 36, nilLit[i.val]? = some (if hyphenPos i.val then 45 else 48) := by
  decide

/-- For a string of the right shape, equality with the nil literal is "all hex positions are '0'". -/
theorem eq_nilLit_iff (s : Bytes) (h : s.length = 36)
    (hy : hy4 s = true) :
    (s == nilLit) = hexAll s (· == 48) := by
  rw [Bool.eq_iff_iff, beq_iff_eq, hexAll]
  simp only [List.all_eq_true, List.mem_range, Bool.or_eq_true, Option.any_eq_true, beq_iff_eq]
  constructor
  · rintro rfl i hi
    have := nilLit_get ⟨i, hi⟩
    simp at this
    cases hh : hyphenPos i <;> simp [hh] at this ⊢
    exact this
  · intro hall
    apply List.ext_getElem?
    intro i
    by_cases hi : i < 36
    · have h1 := nilLit_get ⟨i, hi⟩
      simp at h1
      rw [h1]
      rcases hall i hi with hh | ⟨b, hb, rfl⟩
      · simp [hh]
        simp [hyphenPos] at hh
        simp [hy4] at hy
        rcases hh with ((rfl | rfl) | rfl) | rfl <;> simp [hy]
      · cases hh : hyphenPos i
        · simp [hb]
        · simp [hyphenPos] at hh
          simp [hy4] at hy
          rcases hh with ((rfl | rfl) | rfl) | rfl <;> simp [hy]
    · rw [List.getElem?_eq_none (by omega), List.getElem?_eq_none (by simp [nilLit]; omega)]

theorem isValidUUIDVersionAndVariant_spec (s : Bytes) (h : s.length = 36) :
    ⦃⌜hy4 s = true⌝⦄ isValidUUIDVersionAndVariant s
    ⦃post⟨fun r => ⌜r = ((s[14]?.any isVersion && s[19]?.any isVariant)
                      || hexAll s (· == 48) || hexAll s (fun b => b == 102 || b == 70))⌝,
          fun _ => ⌜False⌝⟩⦄ := by
  apply triple_pure_pre; intro hy
  have hnil := eq_nilLit_iff s h hy
  unfold nilLit at hnil
  have hmax := isMaxUUID_spec s h
  mvcgen [isValidUUIDVersionAndVariant, hmax]
  all_goals mleave
  all_goals (grind [isVersion, isVariant])

theorem hy4_eq (s : Bytes) :
    hy4 s = ((List.range 36).all fun i => !hyphenPos i || s[i]? == some 45) := by
  rw [Bool.eq_iff_iff, hy4]
  simp only [Bool.and_eq_true, beq_iff_eq, List.all_eq_true, List.mem_range, Bool.or_eq_true,
    Bool.not_eq_true']
  constructor
  · rintro ⟨⟨⟨h8, h13⟩, h18⟩, h23⟩ i hi
    cases hh : hyphenPos i
    · simp
    · right
      simp [hyphenPos] at hh
      rcases hh with ((rfl | rfl) | rfl) | rfl <;> assumption
  · intro hall
    have h8 := hall 8 (by omega); have h13 := hall 13 (by omega)
    have h18 := hall 18 (by omega); have h23 := hall 23 (by omega)
    simp [hyphenPos] at h8 h13 h18 h23
    exact ⟨⟨⟨h8, h13⟩, h18⟩, h23⟩

theorem IsValidUUID_spec (s : Bytes) :
    ⦃⌜True⌝⦄ IsValidUUID s ⦃post⟨fun r => ⌜r = uuidSpecB s⌝, fun _ => ⌜False⌝⟩⦄ := by
  have hspec : uuidSpecB s = (s.length == 36 && hy4 s && hexAll s isHex &&
      ((s[14]?.any isVersion && s[19]?.any isVariant)
        || hexAll s (· == 48) || hexAll s (fun b => b == 102 || b == 70))) := by
    rw [hy4_eq]; rfl
  rw [hspec]
  by_cases h : s.length = 36
  · have h1 := hasValidHyphens_spec s h
    have h2 := hasValidHexChars_spec s h
    have h3 := isValidUUIDVersionAndVariant_spec s h
    mvcgen [IsValidUUID, h1, h2, h3]
    all_goals mleave
    all_goals (try grind [len])
  · mvcgen [IsValidUUID]
    all_goals mleave
    all_goals (try grind [len])

end Proofs
