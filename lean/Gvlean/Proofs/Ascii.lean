/-
  Proofs about the TRANSLATED alpha.go and numeric.go.
-/
import Gvlean.Generated.Helpers
import Gvlean.Proofs.Loop
import Gvlean.Proofs.Utf8
import Gvlean.Spec.Ascii

set_option mvcgen.warning false

namespace Proofs
open Go Gen Std.Do Spec

theorem all_iff_index' {s : Bytes} {p : UInt8 → Bool} :
    s.all p = true ↔ ∀ j (h : j < s.length), p s[j] = true := by
  simp only [List.all_eq_true, List.mem_iff_getElem]
  constructor
  · intro h j hj; exact h _ ⟨j, hj, rfl⟩
  · rintro h b ⟨j, hj, rfl⟩; exact h j hj

theorem IsValidAlpha_spec (s : Bytes) :
    ⦃⌜True⌝⦄ IsValidAlpha s ⦃post⟨fun r => ⌜r = alphaSpecB s⌝, fun _ => ⌜False⌝⟩⦄ := by
  mvcgen [IsValidAlpha] invariants
  · Invariant.withEarlyReturnNewDo
      (onReturn := fun r _ => ⌜r = false ∧ ∃ j, ∃ h : j < s.length, isAsciiLetter s[j] = false⌝)
      (onContinue := fun xs _ => ⌜∀ j ∈ xs.prefix, ∀ h : j < s.length, isAsciiLetter s[j] = true⌝)
      (onExcept := post⟨fun _ => ⌜False⌝⟩)
  all_goals mleave
  all_goals (try have hrs := range_split ‹[_:_].toList = _ ++ _ :: _›)
  all_goals (try simp only [mem_range_toList] at *)
  case vc1 => simp only [len] at *; omega
  case vc2 pref cur suff _ _ _ hI ch hc =>
    obtain ⟨hcur, hlt, h1, hpref⟩ := hrs
    simp +zetaDelta only [len, Int.toNat_natCast] at hlt hc
    refine Or.inr ⟨_, rfl, trivial, rfl, cur, hlt, ?_⟩
    simp only [isAsciiLetter]
    simp only [Bool.and_eq_true, Bool.or_eq_true, decide_eq_true_eq] at hc
    simp only [UInt8.lt_iff_toNat_lt, UInt8.le_iff_toNat_le, UInt8.toNat_ofNat] at *
    rw [← Bool.not_eq_true]; simp only [Bool.or_eq_true, Bool.and_eq_true, decide_eq_true_eq, UInt8.le_iff_toNat_le, UInt8.toNat_ofNat]
    omega
  case vc3 pref cur suff _ _ _ hI ch hc =>
    obtain ⟨hcur, hlt, h1, hpref⟩ := hrs
    rcases hI with ⟨_, hI⟩ | ⟨_, _, hnil, _⟩
    case inr => simp at hnil
    simp +zetaDelta only [len, Int.toNat_natCast] at hlt hc
    refine Or.inl ⟨trivial, ?_⟩
    intro j hj hjl
    simp only [List.mem_append, List.mem_singleton] at hj
    rcases hj with hj | rfl
    · exact hI j hj hjl
    · simp only [isAsciiLetter]
      simp only [Bool.and_eq_true, Bool.or_eq_true, decide_eq_true_eq, not_and, not_or] at hc
      simp only [Bool.or_eq_true, Bool.and_eq_true, decide_eq_true_eq]
      simp only [UInt8.lt_iff_toNat_lt, UInt8.le_iff_toNat_le, UInt8.toNat_ofNat] at *
      omega
  case vc4 => simp
  case vc5 r a hr hI =>
    rcases hI with ⟨h, _⟩ | ⟨a', ha, _, ha', j, hj, hf⟩
    · simp_all
    · have : a = a' := by simpa using hr.symm.trans ha
      subst this; subst ha'
      symm; rw [alphaSpecB, ← Bool.not_eq_true, all_iff_index']
      intro hall; have := hall j hj; simp [hf] at this
  case vc6 hI =>
    rcases hI with ⟨_, hi⟩ | ⟨_, hnil, _⟩
    · symm; rw [alphaSpecB, all_iff_index']
      intro j hj; exact hi j ⟨by omega, by simp [len]; omega⟩ hj
    · simp_all

theorem all_false_of_split {α} {l pref suff : List α} {cur : α} {P : α → Bool}
    (h : l = pref ++ cur :: suff) (hb : P cur = false) : l.all P = false := by
  rw [h, ← Bool.not_eq_true, List.all_eq_true]
  intro hall; have := hall cur (by simp); simp [hb] at this

theorem all_snoc_of {α} {pref : List α} {cur : α} {P : α → Bool}
    (hp : ∀ p ∈ pref, P p = true) (hc : P cur = true) : ∀ p ∈ pref ++ [cur], P p = true := by
  intro p hp'; simp at hp'; rcases hp' with h | rfl
  · exact hp p h
  · exact hc

/-- generic shape: a rune loop that returns `false` at the first rune violating `P`. -/
theorem runes_all_eq (P : Int → Bool) (hP : ∀ r, P r = true → r < 128) (s : Bytes) :
    (runes s).all (fun p => P p.2) = s.all (fun b => P (Int.ofNat b.toNat)) :=
  runes_all_ascii P hP s.length s 0 (Nat.le_refl _)

def digitR (r : Int) : Bool := !(decide (r < 48) || decide (r > 57))

theorem IsNumeric_spec (s : Bytes) :
    ⦃⌜True⌝⦄ IsNumeric s ⦃post⟨fun r => ⌜r = numericSpecB s⌝, fun _ => ⌜False⌝⟩⦄ := by
  mvcgen [IsNumeric] invariants
  · Invariant.withEarlyReturnNewDo
      (onReturn := fun r _ => ⌜r = false ∧ (runes s).all (fun p => digitR p.2) = false⌝)
      (onContinue := fun xs _ => ⌜∀ p ∈ xs.prefix, digitR p.2 = true⌝)
      (onExcept := post⟨fun _ => ⌜False⌝⟩)
  all_goals mleave
  case vc1 pref cur suff hsp _ hbad hI =>
    exact Or.inr ⟨_, rfl, trivial, rfl, all_false_of_split hsp (by simp [digitR, hbad])⟩
  case vc2 pref cur suff hsp _ hok hI =>
    rcases hI with ⟨_, hI⟩ | ⟨_, _, hnil, _⟩
    case inr => simp at hnil
    exact Or.inl ⟨trivial, all_snoc_of hI (by simpa [digitR] using hok)⟩
  case vc3 => simp
  case vc4 r a hr hI =>
    rcases hI with ⟨h, _⟩ | ⟨a', ha, _, ha', hf⟩
    · simp_all
    · have : a = a' := by simpa using hr.symm.trans ha
      subst this; subst ha'
      rw [runes_all_eq digitR (by intro r h; simp [digitR] at h; omega)] at hf
      have : s.all isAsciiDigit = false := by
        rw [← hf]; congr 1; funext b
        simp only [digitR, isAsciiDigit, Int.ofNat_eq_natCast]
        rw [Bool.eq_iff_iff]; simp [UInt8.le_iff_toNat_le]; omega
      simp [numericSpecB, this]
  case vc5 hI =>
    rcases hI with ⟨_, hi⟩ | ⟨_, hnil, _⟩
    · have hall : (runes s).all (fun p => digitR p.2) = true := by
        rw [List.all_eq_true]; exact hi
      rw [runes_all_eq digitR (by intro r h; simp [digitR] at h; omega)] at hall
      have : s.all isAsciiDigit = true := by
        rw [← hall]; congr 1; funext b
        simp only [digitR, isAsciiDigit, Int.ofNat_eq_natCast]
        rw [Bool.eq_iff_iff]; simp [UInt8.le_iff_toNat_le]; omega
      simp [numericSpecB, this]
    · simp_all

end Proofs
