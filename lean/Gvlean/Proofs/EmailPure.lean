/-
  The pure functions extracted from the translated email.go (Gvlean/Proofs/Email.lean) equal the
  Spec grammar (Gvlean/Spec/Email.lean). Plain list reasoning; no monads here.
-/
import Gvlean.Proofs.Email
import Gvlean.Proofs.Split

namespace Proofs
open Go Gen Spec

/-! ### the label loop is `splitOn` -/

theorem labelPure_nil : labelPure [] = false := by simp [labelPure]

theorem drop_eq_seg_append {d : Bytes} {start i : Nat} (hs : start ≤ i) (hi : i < d.length) :
    d.drop start = (d.drop start).take (i - start) ++ d[i] :: d.drop (i + 1) := by
  conv => lhs; rw [← List.take_append_drop (i - start) (d.drop start)]
  congr 1
  rw [List.drop_drop]
  have : start + (i - start) = i := by omega
  rw [this, List.drop_eq_getElem_cons hi]

theorem take_succ_seg {d : Bytes} {start i : Nat} (hs : start ≤ i) (hi : i < d.length) :
    (d.drop start).take (i + 1 - start) = (d.drop start).take (i - start) ++ [d[i]] := by
  have h1 : i + 1 - start = (i - start) + 1 := by omega
  rw [h1, List.take_succ]
  congr 1
  rw [List.getElem?_drop]
  have : start + (i - start) = i := by omega
  rw [this, List.getElem?_eq_getElem hi]; rfl

theorem vdlFrom_eq (d : Bytes) : ∀ (fuel i : Nat) (count : Int) (start : Nat),
    fuel = d.length + 1 - i → start ≤ i → i ≤ d.length →
    (∀ b ∈ (d.drop start).take (i - start), b ≠ 46) →
    vdlFrom d fuel i count start =
      (decide (count + ((splitOn 46 (d.drop start)).length : Int) ≥ 2) && (splitOn 46 (d.drop start)).all labelPure) := by
  intro fuel
  induction fuel with
  | zero => intro i count start hf hs hi _; omega
  | succ fuel ih =>
    intro i count start hf hs hi hseg
    rw [vdlFrom]
    by_cases hend : i = d.length
    · -- the end marker: the final segment is everything from `start`
      subst hend
      have hcond : ¬ (d.length ≠ d.length ∧ d[d.length]? ≠ some 46) := by simp
      rw [if_neg hcond]
      have htake : (d.drop start).take (d.length - start) = d.drop start := by
        apply List.take_of_length_le; simp
      rw [htake] at hseg ⊢
      rw [splitOn_nosep 46 _ hseg]
      by_cases hst : d.length = start
      · rw [if_pos hst]
        have : d.drop start = [] := by rw [← hst]; simp
        simp [this, labelPure_nil]
      · rw [if_neg hst]
        by_cases hl : labelPure (d.drop start) = true
        · have hf0 : fuel = 0 := by omega
          subst hf0
          simp [hl, vdlFrom]
        · simp only [Bool.not_eq_true] at hl
          simp [hl]
    · have hlt : i < d.length := by omega
      by_cases hdot : d[i] = 46
      · have hcond : ¬ (i ≠ d.length ∧ d[i]? ≠ some 46) := by
          rw [List.getElem?_eq_getElem hlt, hdot]; simp
        rw [if_neg hcond]
        have hsplit : splitOn 46 (d.drop start) =
            (d.drop start).take (i - start) :: splitOn 46 (d.drop (i + 1)) := by
          conv => lhs; rw [drop_eq_seg_append hs hlt, hdot]
          exact splitOn_nosep_append 46 _ _ hseg
        rw [hsplit]
        by_cases hst : i = start
        · rw [if_pos hst]
          subst hst
          simp [labelPure_nil]
        · rw [if_neg hst]
          by_cases hl : labelPure ((d.drop start).take (i - start)) = true
          · simp only [hl, Bool.not_true, Bool.false_eq_true, if_false]
            rw [ih (i + 1) (count + 1) (i + 1) (by omega) (Nat.le_refl _) (by omega) (by simp)]
            simp only [List.length_cons, List.all_cons, hl, Bool.true_and]
            congr 2
            simp; omega
          · simp only [Bool.not_eq_true] at hl
            simp [hl]
      · have hcond : i ≠ d.length ∧ d[i]? ≠ some 46 := by
          refine ⟨hend, ?_⟩
          rw [List.getElem?_eq_getElem hlt]; simpa using hdot
        rw [if_pos hcond]
        apply ih (i + 1) count start (by omega) (by omega) (by omega)
        rw [take_succ_seg hs hlt]
        intro b hb; simp at hb
        rcases hb with hb | rfl
        · exact hseg b hb
        · exact hdot

/-- `validateDomainLabels` = "at least two labels, all valid". -/
theorem vdl_eq_labels (d : Bytes) :
    vdlFrom d (d.length + 1) 0 0 0 = (decide (2 ≤ (splitOn 46 d).length) && (splitOn 46 d).all labelPure) := by
  rw [vdlFrom_eq d (d.length + 1) 0 0 0 (by omega) (Nat.le_refl _) (by omega) (by simp)]
  simp only [List.drop_zero, Int.zero_add, ge_iff_le]
  congr 1
  rw [Bool.eq_iff_iff]; simp only [decide_eq_true_eq]; omega

/-! ### character classes -/

theorem domainChar_eq (b : UInt8) : isValidDomainChar (Int.ofNat b.toNat) = (isAlnum b || b == 45) := by
  rw [Bool.eq_iff_iff]
  simp only [isValidDomainChar, isAlnum, Bool.or_eq_true, Bool.and_eq_true, decide_eq_true_eq, beq_iff_eq,
    UInt8.le_iff_toNat_le, ← UInt8.toNat_inj, UInt8.toNat_ofNat, Int.ofNat_eq_natCast]
  omega

theorem localChar_eq (b : UInt8) : isValidLocalChar (Int.ofNat b.toNat) = (b == 46 || atext b) := by
  rw [Bool.eq_iff_iff]
  simp only [isValidLocalChar, isValidLocalSpecialChar, atext, atextSpecials, isAlnum, List.contains_iff_mem,
    List.mem_cons, List.not_mem_nil, or_false, Bool.or_eq_true, Bool.and_eq_true, decide_eq_true_eq, beq_iff_eq,
    UInt8.le_iff_toNat_le, ← UInt8.toNat_inj, UInt8.toNat_ofNat, Int.ofNat_eq_natCast]
  split
  · simp only [true_iff]; omega
  · split
    · simp only [true_iff]; omega
    · simp only [Bool.false_eq_true, false_iff]; omega

/-! ### labels -/

theorem labelPure_eq (lb : Bytes) : labelPure lb = labelOk lb := by
  simp only [labelPure, labelOk, domainChar_eq]
  rw [Bool.eq_iff_iff]
  simp only [Bool.and_eq_true, decide_eq_true_eq, bne_iff_ne, ne_eq]
  constructor
  · rintro ⟨⟨⟨⟨h1, h2⟩, h3⟩, h4⟩, h5⟩
    have : 1 ≤ lb.length := by
      cases lb with
      | nil => simp at h1
      | cons a t => simp
    exact ⟨⟨⟨⟨this, h2⟩, h5⟩, h3⟩, h4⟩
  · rintro ⟨⟨⟨⟨h1, h2⟩, h5⟩, h3⟩, h4⟩
    have : lb ≠ [] := by intro h; subst h; simp at h1
    exact ⟨⟨⟨⟨this, h2⟩, h3⟩, h4⟩, h5⟩

/-! ### local part -/

/-- two adjacent dots somewhere (structural form of `noDotDot`) -/
def adjDots : Bytes → Bool
  | a :: b :: t => (a == 46 && b == 46) || adjDots (b :: t)
  | _ => false

theorem dotPairAt_succ (a : UInt8) (t : Bytes) (i : Nat) : dotPairAt (a :: t) (i + 1) = dotPairAt t i := by
  simp [dotPairAt]

theorem all_shift (a : UInt8) (t : Bytes) : ∀ (n s : Nat),
    (List.range' (s + 1) n).all (fun i => !dotPairAt (a :: t) i) = (List.range' s n).all (fun i => !dotPairAt t i) := by
  intro n
  induction n with
  | zero => intro s; simp
  | succ n ih => intro s; rw [List.range'_succ, List.range'_succ, List.all_cons, List.all_cons, dotPairAt_succ, ih]

theorem all_and' {α} (l : List α) (p q : α → Bool) : (l.all fun a => p a && q a) = (l.all p && l.all q) := by
  induction l with
  | nil => simp
  | cons a t ih => simp only [List.all_cons, ih]; cases p a <;> cases q a <;> simp

theorem bne_some_of_ne {b c : UInt8} (h : b ≠ c) : (some b != some c) = true := by simp [h]

theorem noDotDot_eq (l : Bytes) : noDotDot l = !adjDots l := by
  induction l with
  | nil => simp [noDotDot, adjDots]
  | cons a t ih =>
    cases t with
    | nil => simp [noDotDot, adjDots]
    | cons b t' =>
      simp only [noDotDot, adjDots, List.length_cons] at ih ⊢
      have hlen : t'.length + 1 + 1 - 1 = (t'.length + 1 - 1) + 1 := by omega
      rw [hlen, List.range'_succ, List.all_cons]
      rw [all_shift a (b :: t') _ 0, ih]
      simp [dotPairAt]

/-- last byte is not a dot and there are no adjacent dots -/
def tailOk (t : Bytes) : Bool := t.getLast? != some 46 && !adjDots t

theorem splitOn_nonempty_pieces (t : Bytes) :
    (∀ hd tl, splitOn 46 t = hd :: tl → tl.all (fun a => a != []) = tailOk t) ∧
    ((splitOn 46 t).all (fun a => a != []) = (t != [] && t.head? != some 46 && tailOk t)) := by
  induction t with
  | nil => simp [splitOn, tailOk, adjDots]
  | cons b t' ih =>
    obtain ⟨ihQ, ihP⟩ := ih
    by_cases hb : b = 46
    · subst hb
      rw [splitOn_cons_sep]
      constructor
      · intro hd tl h
        simp only [List.cons.injEq] at h
        obtain ⟨_, rfl⟩ := h
        rw [ihP]
        cases t' with
        | nil => simp [tailOk, adjDots]
        | cons c t'' =>
          simp only [tailOk, adjDots, List.getLast?_cons_cons, List.head?_cons]
          by_cases hc : c = 46
          · simp [hc]
          · have e1 := bne_some_of_ne hc
            have e2 : (c == 46) = false := by simpa using hc
            simp [e1, e2]
      · simp
    · obtain ⟨hd, tl, hs, hs'⟩ := splitOn_cons_ne hb t'
      have hQ := ihQ hd tl hs
      have htail : tailOk (b :: t') = tailOk t' := by
        cases t' with
        | nil => simp [tailOk, adjDots, bne_some_of_ne hb]
        | cons c t'' =>
          simp only [tailOk, adjDots, List.getLast?_cons_cons]
          have : (b == 46) = false := by simpa using hb
          simp [this]
      constructor
      · intro hd' tl' h
        rw [hs'] at h
        simp only [List.cons.injEq] at h
        obtain ⟨_, rfl⟩ := h
        rw [hQ, htail]
      · rw [hs']
        simp only [List.all_cons, hQ, htail, List.head?_cons, bne_some_of_ne hb]
        have e1 : (b :: hd != []) = true := by simp
        have e2 : (b :: t' != []) = true := by simp
        rw [e1, e2]; simp

theorem localPure_eq (l : Bytes) : localPure l = localOk l := by
  simp only [localPure, localOk, localFormatPure, noDotDot_eq]
  have hP := (splitOn_nonempty_pieces l).2
  have hall : (splitOn 46 l).all (fun a => a != [] && a.all atext)
      = ((splitOn 46 l).all (fun a => a != []) && (splitOn 46 l).all (fun a => a.all atext)) := by
    rw [all_and']
  rw [hall, hP, splitOn_all_all]
  simp only [localChar_eq, tailOk]
  rw [Bool.eq_iff_iff]
  simp only [Bool.and_eq_true, decide_eq_true_eq, bne_iff_ne, ne_eq, Bool.not_eq_true']
  constructor
  · rintro ⟨⟨⟨h1, h2⟩, ⟨h3, h4⟩, h5⟩, h6⟩
    have : 1 ≤ l.length := by
      cases l with
      | nil => simp at h1
      | cons a t => simp
    exact ⟨⟨this, h2⟩, ⟨⟨h1, h3⟩, h4, h5⟩, h6⟩
  · rintro ⟨⟨h1, h2⟩, ⟨⟨h1', h3⟩, h4, h5⟩, h6⟩
    exact ⟨⟨⟨h1', h2⟩, ⟨h3, h4⟩, h5⟩, h6⟩

/-! ### domain part -/

theorem domainPure_eq (d : Bytes) : domainPure d = domainOk d := by
  have hl : (fun lb => labelPure lb) = labelOk := funext labelPure_eq
  simp only [domainPure, domainOk, vdl_eq_labels, hl]
  by_cases H : (2 ≤ (splitOn 46 d).length ∧ (splitOn 46 d).all labelOk = true)
  · obtain ⟨h2, hall⟩ := H
    have hjoin := joinSep_splitOn 46 d
    have hnosep := splitOn_pieces_nosep 46 d
    rw [List.all_eq_true] at hall
    -- d ≠ []
    have hne : d ≠ [] := by
      intro h; subst h; simp [splitOn] at h2
    -- contains a dot
    have hdot : d.contains 46 = true := by
      rw [splitOn_length] at h2
      have : 0 < d.count 46 := by omega
      rw [List.contains_iff_mem]; exact List.count_pos_iff.mp this
    -- first piece
    obtain ⟨p, tl, hps⟩ : ∃ p tl, splitOn 46 d = p :: tl := by
      cases hs : splitOn 46 d with
      | nil => exact absurd hs (splitOn_ne_nil 46 d)
      | cons p tl => exact ⟨p, tl, rfl⟩
    have hpok := hall p (by rw [hps]; simp)
    have hpne : p ≠ [] := by
      intro h; subst h; simp [labelOk] at hpok
    have hhead : d.head? = p.head? := by
      conv => lhs; rw [← hjoin, hps]
      exact joinSep_head 46 p tl hpne
    obtain ⟨a, t, rfl⟩ : ∃ a t, p = a :: t := by
      cases p with
      | nil => exact absurd rfl hpne
      | cons a t => exact ⟨a, t, rfl⟩
    have ha46 : a ≠ 46 := hnosep (a :: t) (by rw [hps]; simp) a (by simp)
    have ha45 : a ≠ 45 := by
      simp only [labelOk, Bool.and_eq_true, bne_iff_ne, ne_eq, List.head?_cons] at hpok
      intro h; subst h; exact hpok.1.2 rfl
    -- last piece
    obtain ⟨q, hq⟩ : ∃ q, (splitOn 46 d).getLast? = some q := by
      rw [hps]; exact ⟨_, List.getLast?_cons⟩
    have hqmem : q ∈ splitOn 46 d := List.mem_of_getLast? hq
    have hqok := hall q hqmem
    have hqne : q ≠ [] := by
      intro h; subst h; simp [labelOk] at hqok
    have hlast : d.getLast? = q.getLast? := by
      conv => lhs; rw [← hjoin]
      exact joinSep_getLast 46 _ q hq hqne
    obtain ⟨z, hz⟩ : ∃ z, q.getLast? = some z := by
      cases q with
      | nil => exact absurd rfl hqne
      | cons a t => exact ⟨_, List.getLast?_cons⟩
    have hzmem : z ∈ q := List.mem_of_getLast? hz
    have hz46 : z ≠ 46 := hnosep q hqmem z hzmem
    have hz45 : z ≠ 45 := by
      simp only [labelOk, Bool.and_eq_true, bne_iff_ne, ne_eq, hz] at hqok
      intro h; subst h; exact hqok.2 rfl
    have e1 : (d != []) = true := by simpa using hne
    rw [hhead, hlast, hz, List.head?_cons, e1, hdot, bne_some_of_ne ha46, bne_some_of_ne ha45,
      bne_some_of_ne hz46, bne_some_of_ne hz45]
    simp [Bool.and_assoc]
  · have : (decide (2 ≤ (splitOn 46 d).length) && (splitOn 46 d).all labelOk) = false := by
      rw [← Bool.not_eq_true]; intro h
      simp only [Bool.and_eq_true, decide_eq_true_eq] at h
      exact H h
    rw [this]
    simp only [Bool.and_false]
    rw [Bool.and_assoc, this]; simp

/-! ### the '@' split -/

theorem bytePositions_length (c : UInt8) (l : Bytes) (off : Nat) : (bytePositions c off l).length = l.count c := by
  induction l generalizing off with
  | nil => simp [bytePositions]
  | cons b t ih =>
    simp only [bytePositions]
    by_cases h : b = c
    · subst h; simp [ih]
    · simp [h, ih, List.count_cons_of_ne h]

theorem bytePositions_head (c : UInt8) (l : Bytes) (off : Nat) (hc : c ∈ l) :
    (bytePositions c off l).head? = some ((off + (l.takeWhile (· != c)).length : Nat) : Int) := by
  induction l generalizing off with
  | nil => simp at hc
  | cons b t ih =>
    simp only [bytePositions]
    by_cases h : b = c
    · subst h; simp
    · have hc' : c ∈ t := by
        simp at hc; rcases hc with rfl | hc
        · exact absurd rfl h
        · exact hc
      have hb : (b != c) = true := by simpa using h
      simp only [h, if_false, List.takeWhile_cons, hb, if_true, List.length_cons]
      rw [ih (off + 1) hc']
      congr 2; omega

theorem take_takeWhile (c : UInt8) (l : Bytes) :
    l.take (l.takeWhile (· != c)).length = l.takeWhile (· != c) := by
  induction l with
  | nil => simp
  | cons b t ih =>
    by_cases h : (b != c) = true
    · simp only [List.takeWhile_cons, h, if_true, List.length_cons, List.take_succ_cons, ih]
    · simp [List.takeWhile_cons, h]

theorem drop_takeWhile' (c : UInt8) (l : Bytes) :
    l.drop (l.takeWhile (· != c)).length = l.dropWhile (· != c) := by
  induction l with
  | nil => simp
  | cons b t ih =>
    by_cases h : (b != c) = true
    · simp only [List.takeWhile_cons, List.dropWhile_cons, h, if_true, List.length_cons, List.drop_succ_cons, ih]
    · simp [List.takeWhile_cons, List.dropWhile_cons, h]

theorem drop_takeWhile (c : UInt8) (l : Bytes) :
    l.drop ((l.takeWhile (· != c)).length + 1) = (l.dropWhile (· != c)).drop 1 := by
  rw [← drop_takeWhile', List.drop_drop]

theorem takeWhile_length_lt (c : UInt8) (l : Bytes) (hc : c ∈ l) : (l.takeWhile (· != c)).length < l.length := by
  induction l with
  | nil => simp at hc
  | cons b t ih =>
    by_cases h : b = c
    · subst h; simp
    · have hc' : c ∈ t := by
        simp at hc; rcases hc with rfl | hc
        · exact absurd rfl h
        · exact hc
      have hb : (b != c) = true := by simpa using h
      simp only [List.takeWhile_cons, hb, if_true, List.length_cons]
      have := ih hc'; omega

theorem localOk_nil : localOk [] = false := by simp [localOk]
theorem domainOk_nil : domainOk [] = false := by simp [domainOk, splitOn]

/-- the whole recognizer, as extracted from the code, is the Spec grammar -/
theorem emailPure_eq (s : Bytes) : emailPure s = emailSpecB s := by
  simp only [emailPure, emailSpecB]
  by_cases hlen : (s.length : Int) < 5 ∨ (s.length : Int) > 254
  · rw [if_pos hlen]
    have : (decide (5 ≤ s.length) && decide (s.length ≤ 254)) = false := by
      rw [← Bool.not_eq_true]; simp only [Bool.and_eq_true, decide_eq_true_eq]; omega
    simp [this]
  · rw [if_neg hlen]
    have h5 : decide (5 ≤ s.length) = true := by simp; omega
    have h254 : decide (s.length ≤ 254) = true := by simp; omega
    rw [h5, h254]
    simp only [Bool.true_and]
    by_cases hcount : s.count 64 = 1
    · have hmem : (64 : UInt8) ∈ s := List.count_pos_iff.mp (by omega)
      have hposlen := bytePositions_length 64 s 0
      have hhead := bytePositions_head 64 s 0 hmem
      have hlt := takeWhile_length_lt 64 s hmem
      -- the single position
      obtain ⟨x, hx⟩ : ∃ x, bytePositions 64 0 s = [x] := by
        cases hb : bytePositions 64 0 s with
        | nil => rw [hb] at hposlen; simp at hposlen; omega
        | cons x t =>
          cases t with
          | nil => exact ⟨x, rfl⟩
          | cons y t' => rw [hb] at hposlen; simp at hposlen; omega
      rw [hx] at hhead
      simp only [List.head?_cons, Option.some.injEq, Nat.zero_add] at hhead
      have hfind : findAtPure s =
          if ((s.takeWhile (· != 64)).length : Int) ≤ 0 ∨ ((s.takeWhile (· != 64)).length : Int) ≥ (s.length : Int) - 1
          then -1 else ((s.takeWhile (· != 64)).length : Int) := by
        simp only [findAtPure, hx, List.length_cons, List.length_nil, List.getLast?_singleton, Option.getD_some, hhead]
        simp
      have hc1 : (s.count 64 == 1) = true := by simpa using hcount
      rw [hc1, Bool.true_and]
      have htk := take_takeWhile 64 s
      have hdk := drop_takeWhile 64 s
      generalize (s.takeWhile (· != 64)).length = k at *
      by_cases hk0 : (k : Int) ≤ 0
      · have : findAtPure s = -1 := by rw [hfind, if_pos (Or.inl hk0)]
        rw [if_pos this]
        have hk0' : k = 0 := by omega
        subst hk0'
        rw [← htk]; simp [localOk_nil]
      · by_cases hk1 : (k : Int) ≥ (s.length : Int) - 1
        · have : findAtPure s = -1 := by rw [hfind, if_pos (Or.inr hk1)]
          rw [if_pos this]
          have : (s.dropWhile (· != 64)).drop 1 = [] := by
            rw [← hdk]; apply List.drop_of_length_le; omega
          rw [this, domainOk_nil]; simp
        · have hf : findAtPure s = (k : Int) := by
            rw [hfind, if_neg (by omega)]
          have hne : ¬ findAtPure s = -1 := by rw [hf]; omega
          rw [if_neg hne, hf, Int.toNat_natCast, htk, hdk, localPure_eq, domainPure_eq]
    · have hc1 : (s.count 64 == 1) = false := by simpa using hcount
      have : findAtPure s = -1 := by
        simp only [findAtPure]
        rw [if_pos]; left; rw [bytePositions_length]; exact hcount
      rw [if_pos this, hc1]; simp

end Proofs
