/-
  Hand-written model of `govalid migrate` (cmd/govalid/migrate.go, after the scanner-based fix):
  the file is split on '\n'; a line is rewritten iff its text after leading blanks/tabs starts with
  the legacy prefix AND the Go scanner reports a line comment in the legacy format as the first token
  of that line (i.e. the scanner is in code state at the start of the line). The scanner is modelled by a small lexer over the states code / string / raw string / rune /
  block comment (escape sequences in strings and runes; no other token matters for comments).
  Tied to the real binary by corr-mig.
-/
import Gvlean.Go.Basic

namespace Mig

def oldPrefix : List Char := ['/', '/', ' ', '+', 'g', 'o', 'v', 'a', 'l', 'i', 'd', ':']
def newPrefix : List Char := ['/', '/', 'g', 'o', 'v', 'a', 'l', 'i', 'd', ':']

example : oldPrefix = "// +govalid:".toList := by decide +kernel
example : newPrefix = "//govalid:".toList := by decide +kernel

inductive Lex where
  | code | str | raw | rune | block
  deriving DecidableEq, Repr, Inhabited

/-- scan one line (without its '\n') from lexer state `st`; returns the state at the end of the line
    (before the newline is consumed) -/
def scanLine : Lex → List Char → Lex
  | st, [] => st
  | .code, '/' :: '/' :: _ => .code                       -- line comment to end of line
  | .code, '/' :: '*' :: rest => scanLine .block rest
  | .code, '"' :: rest => scanLine .str rest
  | .code, '`' :: rest => scanLine .raw rest
  | .code, '\'' :: rest => scanLine .rune rest
  | .code, _ :: rest => scanLine .code rest
  | .str, '\\' :: _ :: rest => scanLine .str rest
  | .str, '"' :: rest => scanLine .code rest
  | .str, _ :: rest => scanLine .str rest
  | .rune, '\\' :: _ :: rest => scanLine .rune rest
  | .rune, '\'' :: rest => scanLine .code rest
  | .rune, _ :: rest => scanLine .rune rest
  | .raw, '`' :: rest => scanLine .code rest
  | .raw, _ :: rest => scanLine .raw rest
  | .block, '*' :: '/' :: rest => scanLine .code rest
  | .block, _ :: rest => scanLine .block rest

/-- state after the newline that ends a line: interpreted strings and runes cannot span lines
    (the scanner reports an error and resumes in code), raw strings and block comments can -/
def afterNewline : Lex → Lex
  | .raw => .raw
  | .block => .block
  | _ => .code

def isBlank (c : Char) : Bool := c == ' ' || c == '\t'

/-- `strings.TrimLeft(line, " \t")` -/
def trimLeft (l : List Char) : List Char := l.dropWhile isBlank

/-- `line[:len(line)-len(trimmed)]` -/
def indentOf (l : List Char) : List Char := l.takeWhile isBlank

/-- rewrite one line if it qualifies: the scanner is in code state at the start of the line and the
    first non-blank text is a line comment in the legacy format (`legacyMarkerLines`: a COMMENT token
    with the legacy prefix preceded only by blanks/tabs on its line) -/
def rewriteLine (st : Lex) (line : List Char) : List Char × Bool :=
  let t := trimLeft line
  if oldPrefix.isPrefixOf t && st == .code then
    (indentOf line ++ newPrefix ++ t.drop oldPrefix.length, true)
  else (line, false)

/-- all lines, threading the lexer state -/
def rewriteLines : Lex → List (List Char) → List (List Char × Bool)
  | _, [] => []
  | st, l :: ls => rewriteLine st l :: rewriteLines (afterNewline (scanLine st l)) ls

/-- `strings.Split(s, "\n")`: always at least one (possibly empty) line -/
def splitLines : List Char → List (List Char)
  | [] => [[]]
  | c :: cs =>
    if c = '\n' then [] :: splitLines cs
    else match splitLines cs with
      | l :: ls => (c :: l) :: ls
      | [] => [[c]]

def joinLines : List (List Char) → List Char
  | [] => []
  | [l] => l
  | l :: ls => l ++ '\n' :: joinLines ls

/-- `migrateFile`: new content and the number of migrated markers -/
def migrate (src : List Char) : List Char × Nat :=
  let rs := rewriteLines .code (splitLines src)
  (joinLines (rs.map (·.1)), (rs.filter (·.2)).length)

end Mig
