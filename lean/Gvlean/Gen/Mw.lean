/-
  The handler language into which /verif/go/cmd/mwfacts translates the two closures of
  validation/middleware/middleware.go, and its semantics for ONE request.
  Modelled: the control flow of the closure, which status / message each exit writes, whether `next`
  is reached. Parameters (not modelled): encoding/json (`decode`), the target type's Validate /
  ValidateContext (`validate`, covered by C07/C15 for generated validators), net/http (`http.Error`
  writes the status and the message followed by a newline — its documented behaviour).
-/
namespace Mw

/-- result of `body.Validate()` / `body.ValidateContext(r.Context())` as the middleware can observe it:
    nil, or an error with its `Error()` text and what `errors.Is` answers for the two context errors -/
inductive VRes where
  | ok
  | err (msg : String) (canceled deadline : Bool)
  deriving Repr, DecidableEq, Inhabited

inductive Stmt where
  /-- `var body T` -/
  | fresh
  /-- `if err := json.NewDecoder(r.Body).Decode(&body); err != nil { http.Error(w, msg, status); return }` -/
  | decode (failMsg : String) (failStatus : Nat)
  /-- `if err := body.Validate[Context](…); err != nil { [status switch]; http.Error(w, pfx+err.Error(), status); return }` -/
  | validate (useCtx : Bool) (pfx : String) (status : Nat) (ctxStatus : Option Nat) (onCanceled onDeadline : Bool)
  /-- `next(w, r)` -/
  | next
  deriving Repr, DecidableEq, Inhabited

inductive Act where
  /-- `http.Error(w, msg, status)` then return: the wrapped handler is NOT called -/
  | respond (status : Nat) (body : String)
  /-- the wrapped handler is called; the middleware itself wrote nothing -/
  | callNext
  /-- the closure returned without answering or calling the handler -/
  | fallOff
  /-- outside the language (use of `body` before its declaration, statements after `next`) -/
  | stuck
  deriving Repr, DecidableEq, Inhabited

/-- what one request looks like to the closure -/
structure Env (α : Type) where
  zero : α                       -- the zero value of T (a nil pointer for the usual *Struct)
  decode : α → Option α          -- Decode(&body) applied to the current body; none = error
  validate : Bool → α → VRes     -- false: body.Validate(); true: body.ValidateContext(r.Context())

def exec {α : Type} (e : Env α) : List Stmt → Option α → Act
  | [], _ => .fallOff
  | .fresh :: rest, _ => exec e rest (some e.zero)
  | .decode m s :: rest, some b =>
    match e.decode b with
    | none => .respond s (m ++ "\n")
    | some t => exec e rest (some t)
  | .validate c p s cs oc od :: rest, some b =>
    match e.validate c b with
    | .ok => exec e rest (some b)
    | .err msg ca de => .respond (if (oc && ca) || (od && de) then cs.getD s else s) (p ++ msg ++ "\n")
  | [.next], _ => .callNext
  | _, _ => .stuck

def run {α : Type} (e : Env α) (prog : List Stmt) : Act := exec e prog none

end Mw
