/-
  C14: the generator's process-wide memory (`validator.GeneratorMemory`) and its output file, as state
  machines. What the real code does with them is EXTRACTED on every run (isofacts →
  Gvlean/Generated/IsoFacts.lean): is struct generation a critical section, is the memory cleared at
  its start, which factories reset their key, is the output file truncated, how is it named.
  Not modelled: the Go scheduler itself (under the lock a schedule is a sequence of whole-struct jobs —
  without the lock this model does not apply and says nothing), the file system beyond path ↦ content.
-/
namespace Iso

structure Facts where
  locked : Bool               -- analyzeMarker + writeFile of one struct run under one mutex
  clears : Bool               -- `clear(validator.GeneratorMemory)` at the start of that section
  truncates : Bool            -- the output file is opened truncating
  resetRules : List String    -- rules whose factory resets its key (`= false`)
  pathFmt : String            -- Sprintf pattern of the output file name
  lowerType : Bool            -- type name lower-cased in the file name
  deriving Repr, DecidableEq, Inhabited

/-- the memory: the keys currently mapped to `true` -/
abbrev Mem := List String

def Mem.reset (m : Mem) (k : String) : Mem := m.filter (· != k)

/-- the generation of one struct as the memory sees it -/
structure Job where
  resets : List String        -- keys reset while validators are created (analysis phase)
  emits : List String         -- keys tested-and-set by `Err()` while the template runs, in order
  deriving Repr, DecidableEq, Inhabited

/-- template phase: for every `Err()` call, was a sentinel declaration produced? -/
def emitAll : Mem → List String → Mem × List Bool
  | m, [] => (m, [])
  | m, k :: ks =>
    if m.contains k then
      let r := emitAll m ks
      (r.1, false :: r.2)
    else
      let r := emitAll (k :: m) ks
      (r.1, true :: r.2)

def runJob (f : Facts) (m : Mem) (j : Job) : Mem × List Bool :=
  let m0 := if f.clears then [] else m
  emitAll (j.resets.foldl Mem.reset m0) j.emits

/-- an invocation under the lock: whole-struct jobs one after the other, in the order the scheduler
    happens to pick; the result lists, per job, which sentinel declarations its file contains -/
def runAll (f : Facts) : Mem → List Job → List (List Bool)
  | _, [] => []
  | m, j :: js => (runJob f m j).2 :: runAll f (runJob f m j).1 js

/-- the job run alone in a fresh process -/
def solo (j : Job) : List Bool := (emitAll [] j.emits).2

/-! ### the output file -/

abbrev FS := String → Option String

/-- writing `c` at offset 0 of a file holding `old`, without truncation -/
def overlay (old c : String) : String := c ++ String.ofList (old.toList.drop c.length)

def write (f : Facts) (fs : FS) (p c : String) : FS :=
  fun q => if q = p then some (if f.truncates then c else match fs p with | some old => overlay old c | none => c) else fs q

/-- a history of generations: (output path, rendered content) in the order they happen -/
def writeAll (f : Facts) : FS → List (String × String) → FS
  | fs, [] => fs
  | fs, (p, c) :: es => writeAll f (write f fs p c) es

end Iso
