/-
  Hand-written model of the generator's control structure:
    internal/analyzers/govalid/govalid.go  (analyzeMarker, makeValidator)
    internal/validator/fieldpath.go        (NewFieldPath, CleanedPath)
    the rule factories' decisions          (guards, parameters — from the EXTRACTED facts)
    templates/validation.go.tmpl           (blocks, polls, checks)
  What each rule emits comes from Gvlean/Generated/RuleFacts.lean (regenerated every run).
  Tied to the real binary by corr-gen (structure) and corr-sem (behaviour).
-/
import Gvlean.Gen.Decl
import Gvlean.Generated.RuleFacts

namespace Gen
open Go

/-- one validator object produced by a rule factory -/
structure Check where
  rule : String                 -- rule name = ValidationError.Type (marker id without "govalid:")
  field : String                -- FieldName() = first declared name
  ty : Ty                       -- the field's type
  cond : Option GoExpr          -- Validate(); `none` = empty string (template skips it)
  path : List String            -- FieldPath() as components: struct name, parents, field (rendered dotted)
  errVar : String               -- ErrVariable()
  legacy : String               -- legacy alias name
  memKey : String               -- GeneratorMemory key
  deriving Repr, Inhabited

/-- one `AnalyzedMetadata`: a poll followed by checks, inside `{ t := t.<parent> … }` when parent ≠ "" -/
structure Block where
  parent : List String          -- ParentVariable as components; [] = top level
  checks : List Check
  deriving Repr, Inhabited

/-! ### fieldpath.go
  `NewFieldPath(struct, parent, field)` joins the non-blank components with "."; the parent is itself
  a dotted path. Here a path is the LIST of its components (identifiers, never blank);
  `String()` = dotted, `CleanedPath()` = all dots removed = plain concatenation. -/

def dottedPath (p : List String) : String := ".".intercalate p

def cleanedPath (p : List String) : String := String.join p

/-! ### factories -/

def guardOk (g : Guard) (ty : Ty) : Bool :=
  match g with
  | .none => true
  | .numericBasic => match ty.underlying with | .basic k => k.isNumeric | _ => false
  | .stringBasic => match ty.underlying with | .basic .string => true | _ => false
  | .underlyingIn cs => cs.contains ty.underlying.className
  | .enumKinds str num =>
    match ty.underlying with
    | .basic k => str.contains k.goName || num.contains k.goName
    | _ => true                                   -- custom

def ruleInfo (name : String) : Option RuleInfo := Facts.allRules.find? (·.name == name)

/-- validatorhelper.Zero -/
def zeroLit : (fuel : Nat) → Ty → String
  | 0, _ => ""
  | fuel + 1, ty =>
    match ty with
    | .basic k => ((Facts.zeroOfBasic.find? (fun p => p.1.contains k.goName)).map (·.2)).getD ""
    | .named u => if Facts.zeroViaUnderlying.contains "Named" then zeroLit fuel u else ""
    | t => if Facts.zeroNilTypes.contains t.className then "nil" else ""

/-- rules/required.go `required(name, typ)` -/
def requiredCond (f : String) (ty : Ty) : Option GoExpr :=
  let subject := if Facts.required_switchOnUnderlying then ty.underlying else ty
  match Facts.required_cases.find? (fun c => c.1.contains subject.className) with
  | some c => some (c.2 f)
  | none =>
    let z := zeroLit 8 ty
    if z == "" then none else some (Facts.required_zeroCond f z)

def trimSpace (s : String) : String := s.trimAscii.toString

/-- rules/enum.go `Validate()` -/
def enumCond (f : String) (ty : Ty) (param : String) (g : Guard) : Option GoExpr :=
  let items := (param.splitOn Facts.enum_sep).map trimSpace
  let isNum := match g, ty.underlying with
    | .enumKinds _ num, .basic k => num.contains k.goName
    | _, _ => false
  let conds := items.map fun it => if isNum then Facts.enum_itemNum f it else Facts.enum_itemStr f it
  match conds with
  | [] => none
  | c :: cs => some (cs.foldl (fun acc x => .bin Facts.enum_joinOp acc x) c)

def simpleCond (rule f v : String) : Option GoExpr :=
  match rule with
  | "gt" => some (Facts.cond_gt f v) | "gte" => some (Facts.cond_gte f v)
  | "lt" => some (Facts.cond_lt f v) | "lte" => some (Facts.cond_lte f v)
  | "minlength" => some (Facts.cond_minlength f v) | "maxlength" => some (Facts.cond_maxlength f v)
  | "length" => some (Facts.cond_length f v)
  | "minitems" => some (Facts.cond_minitems f v) | "maxitems" => some (Facts.cond_maxitems f v)
  | "email" => some (Facts.cond_email f v) | "url" => some (Facts.cond_url f v) | "uuid" => some (Facts.cond_uuid f v)
  | "alpha" => some (Facts.cond_alpha f v) | "numeric" => some (Facts.cond_numeric f v)
  | "ipv4" => some (Facts.cond_ipv4 f v) | "ipv6" => some (Facts.cond_ipv6 f v)
  | _ => none

def sprintf2 (fmt a b : String) : String :=
  match fmt.splitOn "%s" with
  | [x, y, z] => x ++ a ++ y ++ b ++ z
  | _ => fmt
def sprintf1 (fmt a : String) : String :=
  match fmt.splitOn "%s" with
  | [x, y] => x ++ a ++ y
  | _ => fmt

/-- one marker on one field → at most one validator (`makeValidator` + the factory) -/
def mkCheck (structName : String) (parent : List String) (names : List String) (ty : Ty) (m : Marker) : Option Check :=
  match Facts.markerTable.lookup m.id, names.head? with
  | some rule, some f =>
    if rule == "cel" then none else          -- CEL is modelled separately (Gvlean/Cel)
    match ruleInfo rule with
    | none => none
    | some info =>
      if !guardOk info.guard ty then none
      else if info.needsExpr && m.expr.isNone then none
      else
        let v := m.expr.getD ""
        let cond := if rule == "required" then requiredCond f ty
                    else if rule == "enum" then enumCond f ty v info.guard
                    else simpleCond rule f v
        let path := structName :: parent ++ [f]
        let cp := cleanedPath path
        some { rule := (m.id.drop 8).toString, field := f, ty := ty, cond := cond, path := path,
               errVar := "Err" ++ cp ++ info.errSuffix ++ "Validation",
               legacy := sprintf2 info.legacyFmt structName f,
               memKey := sprintf1 info.keyFmt (if info.keyWithStruct then structName ++ cp else cp) }
  | _, _ => none

def mkChecks (structName : String) (parent : List String) (names : List String) (ty : Ty) (ms : List Marker) : List Check :=
  ms.filterMap (mkCheck structName parent names ty)

/-- the inner fields of a nested struct as `makeValidator` sees them in the propagation loop:
    a nested struct field has a struct type (no rule applies except `required`, whose condition is empty) -/
def fieldTy : FieldT → Ty
  | .leaf _ ty _ => ty
  | .nest _ _ _ => .strukt
def fieldNames : FieldT → List String
  | .leaf ns _ _ => ns
  | .nest ns _ _ => ns
def fieldDoc : FieldT → List String
  | .leaf _ _ d => d
  | .nest _ d _ => d

mutual
/-- `analyzeMarker` for one field -/
def analyzeField (structName : String) (tm : List Marker) (parent : List String) : FieldT → List Block
  | .leaf names ty doc =>
    let ml := tm ++ sortById (markersOfDoc doc)
    let vs := mkChecks structName parent names ty ml
    if vs.isEmpty then [] else [{ parent := parent, checks := vs }]
  | .nest names doc fields =>
    let ml := tm ++ sortById (markersOfDoc doc)
    -- propagation loop: the markers of the nested field (and the type markers) applied to each inner
    -- field, with the OUTER parent path
    let vs := (fields.map fun f => mkChecks structName parent (fieldNames f) (fieldTy f) ml).flatten
    let pv := parent ++ [names.headD ""]
    (if vs.isEmpty then [] else [{ parent := pv, checks := vs }]) ++ analyzeFields structName tm pv fields
/-- `analyzeMarker` over a field list -/
def analyzeFields (structName : String) (tm : List Marker) (parent : List String) : List FieldT → List Block
  | [] => []
  | f :: fs => analyzeField structName tm parent f ++ analyzeFields structName tm parent fs
end

/-- the blocks of `Validate<T>Context`, in order; `none` when no file is generated (no metadata) -/
def gen (d : Decl) : List Block :=
  analyzeFields d.name (sortById (markersOfDoc d.doc)) [] d.fields

/-! ### canonical rendering of the skeleton (compared with the dump of the real output by corr-gen) -/

def Check.render (c : Check) : String :=
  match c.cond with
  | none => "(skip " ++ c.errVar ++ ")"
  | some e => "(if " ++ e.render ++ " " ++ c.errVar ++ " " ++ c.field ++ ")"

def Block.render (b : Block) : String :=
  let body := b.checks.filter (·.cond.isSome) |>.map Check.render
  "(block " ++ (if b.parent.isEmpty then "-" else dottedPath b.parent) ++ " " ++ " ".intercalate body ++ ")"

def renderBlocks (bs : List Block) : String := " ".intercalate (bs.map Block.render)

/-- the sentinel declarations in emission order, de-duplicated through the generator memory
    (within one struct; cross-struct interference is the subject of C14) -/
def sentinels (bs : List Block) : List Check :=
  let cs := (bs.map (·.checks)).flatten.filter (·.cond.isSome)
  (cs.foldl (fun (acc : List Check × List String) c =>
      if acc.2.contains c.memKey then acc else (acc.1 ++ [c], c.memKey :: acc.2)) ([], [])).1

def renderSentinels (bs : List Block) : String :=
  " ".intercalate ((sentinels bs).map fun c =>
    "(sentinel " ++ c.errVar ++ " " ++ (if c.legacy != c.errVar then c.legacy else "-") ++ " " ++ dottedPath c.path ++ " " ++ c.rule ++ ")")

end Gen
