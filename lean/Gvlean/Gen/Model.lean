/-
  Hand-written model of the generator's control structure:
    internal/analyzers/govalid/govalid.go  (analyzeMarker, makeValidator)
    internal/validator/fieldpath.go        (NewFieldPath, CleanedPath)
    the rule factories' decisions          (guards, parameters — from the EXTRACTED facts)
    templates/validation.go.tmpl           (blocks, polls, checks)
  What each rule emits comes from Gvlean/Generated/RuleFacts.lean (regenerated every run).
  Tied to the real binary by corr-gen (structure) and corr-sem (behaviour).
-/
import Gvlean.Gen.Decl
import Gvlean.Generated.RuleFacts

namespace Gen
open Go

/-- one validator object produced by a rule factory -/
structure Check where
  rule : String                 -- rule name = ValidationError.Type (marker id without "govalid:")
  field : String                -- FieldName() = first declared name
  ty : Ty                       -- the field's type
  cond : Option GoExpr          -- Validate(); `none` = empty string (template skips it)
  path : List String            -- FieldPath() as components: struct name, parents, field (rendered dotted)
  errVar : String               -- ErrVariable()
  legacy : String               -- legacy alias name
  memKey : String               -- GeneratorMemory key
  deriving Repr, Inhabited

/-- one `AnalyzedMetadata`: a poll followed by checks, inside `{ t := t.<parent> … }` when parent ≠ "" -/
structure Block where
  parent : List String          -- ParentVariable as components; [] = top level
  checks : List Check
  deriving Repr, Inhabited

/-! ### fieldpath.go
  `NewFieldPath(struct, parent, field)` joins the non-blank components with "."; the parent is itself
  a dotted path. Here a path is the LIST of its components (identifiers, never blank);
  `String()` = dotted, `CleanedPath()` = all dots removed = plain concatenation. -/

def dottedPath (p : List String) : String := ".".intercalate p

def cleanedPath (p : List String) : String := String.join p

/-! ### factories -/

def guardOk (g : Guard) (ty : Ty) : Bool :=
  match g with
  | .none => true
  | .numericBasic => match ty.underlying with | .basic k => k.isNumeric | _ => false
  | .stringBasic => match ty.underlying with | .basic .string => true | _ => false
  | .underlyingIn cs => cs.contains ty.underlying.className
  | .enumKinds str num =>
    match ty.underlying with
    | .basic k => str.contains k.goName || num.contains k.goName
    | _ => true                                   -- custom

def ruleInfo (name : String) : Option RuleInfo := Facts.allRules.find? (·.name == name)

/-- validatorhelper.Zero on a type that is not Named/Alias -/
def zeroBase (ty : Ty) : String :=
  match ty with
  | .basic k => ((Facts.zeroOfBasic.find? (fun p => p.1.contains k.goName)).map (·.2)).getD ""
  | t => if Facts.zeroNilTypes.contains t.className then "nil" else ""

/-- validatorhelper.Zero: Named/Alias types are resolved through `Underlying()` (fully resolved in go/types) -/
def zeroLit (ty : Ty) : String :=
  match ty with
  | .named _ => if Facts.zeroViaUnderlying.contains "Named" then zeroBase ty.underlying else ""
  | t => zeroBase t

/-- rules/required.go `required(name, typ)` -/
def requiredCond (f : String) (ty : Ty) : Option GoExpr :=
  let subject := if Facts.required_switchOnUnderlying then ty.underlying else ty
  match Facts.required_cases.find? (fun c => c.1.contains subject.className) with
  | some c => some (c.2 f)
  | none =>
    let z := zeroLit ty
    if z == "" then none else some (Facts.required_zeroCond f z)

def trimSpace (s : String) : String := s.trimAscii.toString

/-- enum.go: `isNumeric` (otherwise `isString`/`isCustom`: quoted items) -/
def enumIsNum (g : Guard) (ty : Ty) : Bool :=
  match g, ty.underlying with
  | .enumKinds _ num, .basic k => num.contains k.goName
  | _, _ => false

/-- rules/enum.go `Validate()` -/
def enumCond (f : String) (ty : Ty) (param : String) (g : Guard) : Option GoExpr :=
  let items := (param.splitOn Facts.enum_sep).map trimSpace
  let isNum := enumIsNum g ty
  let conds := items.map fun it => if isNum then Facts.enum_itemNum f it else Facts.enum_itemStr f it
  match conds with
  | [] => none
  | c :: cs => some (cs.foldl (fun acc x => .bin Facts.enum_joinOp acc x) c)

def simpleCond (rule f v : String) : Option GoExpr :=
  match rule with
  | "gt" => some (Facts.cond_gt f v) | "gte" => some (Facts.cond_gte f v)
  | "lt" => some (Facts.cond_lt f v) | "lte" => some (Facts.cond_lte f v)
  | "minlength" => some (Facts.cond_minlength f v) | "maxlength" => some (Facts.cond_maxlength f v)
  | "length" => some (Facts.cond_length f v)
  | "minitems" => some (Facts.cond_minitems f v) | "maxitems" => some (Facts.cond_maxitems f v)
  | "email" => some (Facts.cond_email f v) | "url" => some (Facts.cond_url f v) | "uuid" => some (Facts.cond_uuid f v)
  | "alpha" => some (Facts.cond_alpha f v) | "numeric" => some (Facts.cond_numeric f v)
  | "ipv4" => some (Facts.cond_ipv4 f v) | "ipv6" => some (Facts.cond_ipv6 f v)
  | _ => none

def sprintf2 (fmt a b : String) : String :=
  match fmt.splitOn "%s" with
  | [x, y, z] => x ++ a ++ y ++ b ++ z
  | _ => fmt
def sprintf1 (fmt a : String) : String :=
  match fmt.splitOn "%s" with
  | [x, y] => x ++ a ++ y
  | _ => fmt

/-- the validator object built by a factory (names per rules/*.go: ErrVariable, legacy alias, memory key) -/
def buildCheck (structName : String) (parent : List String) (f : String) (ty : Ty) (markerId : String)
    (info : RuleInfo) (cond : Option GoExpr) : Check :=
  let path := structName :: parent ++ [f]
  let cp := cleanedPath path
  { rule := (markerId.drop 8).toString, field := f, ty := ty, cond := cond, path := path,
    errVar := "Err" ++ cp ++ info.errSuffix ++ "Validation",
    legacy := sprintf2 info.legacyFmt structName f,
    memKey := sprintf1 info.keyFmt (if info.keyWithStruct then structName ++ cp else cp) }

/-- `Validate()` of the rule's validator -/
def ruleCond (rule f : String) (ty : Ty) (param : String) (info : RuleInfo) : Option GoExpr :=
  if rule == "required" then requiredCond f ty
  else if rule == "enum" then enumCond f ty param info.guard
  else simpleCond rule f param

/-- one marker on one field → at most one validator (`makeValidator` + the factory) -/
def mkCheck (structName : String) (parent : List String) (names : List String) (ty : Ty) (m : Marker) : Option Check :=
  match Facts.markerTable.lookup m.id, names.head? with
  | some rule, some f =>
    if rule == "cel" then none else          -- CEL is modelled separately (Gvlean/Cel)
    match ruleInfo rule with
    | none => none
    | some info =>
      if !guardOk info.guard ty then none
      else if info.needsExpr && m.expr.isNone then none
      else some (buildCheck structName parent f ty m.id info (ruleCond rule f ty (m.expr.getD "") info))
  | _, _ => none

def mkChecks (structName : String) (parent : List String) (names : List String) (ty : Ty) (ms : List Marker) : List Check :=
  ms.filterMap (mkCheck structName parent names ty)

/-- the inner fields of a nested struct as `makeValidator` sees them in the propagation loop:
    a nested struct field has a struct type (no rule applies except `required`, whose condition is empty) -/
def fieldTy : FieldT → Ty
  | .leaf _ ty _ => ty
  | .nest _ _ _ => .strukt
def fieldNames : FieldT → List String
  | .leaf ns _ _ => ns
  | .nest ns _ _ => ns
def fieldDoc : FieldT → List String
  | .leaf _ _ d => d
  | .nest _ d _ => d

/-- a leaf declared with several names `A, B T`: one metadata entry (block) per name -/
def leafBlocks (structName : String) (parent : List String) (ty : Ty) (ml : List Marker) : List String → List Block
  | [] => []
  | n :: ns =>
    let vs := mkChecks structName parent [n] ty ml
    (if vs.isEmpty then [] else [{ parent := parent, checks := vs }]) ++ leafBlocks structName parent ty ml ns

/-- the propagation loop over the inner fields of a nested struct (each inner name separately) -/
def propagated (structName : String) (parent : List String) (ml : List Marker) (fields : List FieldT) : List Check :=
  (fields.map fun f => ((fieldNames f).map fun n => mkChecks structName parent [n] (fieldTy f) ml).flatten).flatten

mutual
/-- `analyzeMarker` for one field -/
def analyzeField (structName : String) (tm : List Marker) (parent : List String) : FieldT → List Block
  | .leaf names ty doc => leafBlocks structName parent ty (tm ++ sortById (markersOfDoc doc)) names
  | .nest names doc fields => analyzeNest structName tm parent (tm ++ sortById (markersOfDoc doc)) fields names
/-- a nested anonymous struct declared with the names `ns`: per name, the propagation block (the
    markers of the nested field and the type markers applied to each inner field, with the OUTER parent
    path) followed by the recursive analysis under the extended parent -/
def analyzeNest (structName : String) (tm : List Marker) (parent : List String) (ml : List Marker)
    (fields : List FieldT) : List String → List Block
  | [] => []
  | n :: ns =>
    let vs := propagated structName parent ml fields
    let pv := parent ++ [n]
    (if vs.isEmpty then [] else [{ parent := pv, checks := vs }]) ++ analyzeFields structName tm pv fields
      ++ analyzeNest structName tm parent ml fields ns
/-- `analyzeMarker` over a field list -/
def analyzeFields (structName : String) (tm : List Marker) (parent : List String) : List FieldT → List Block
  | [] => []
  | f :: fs => analyzeField structName tm parent f ++ analyzeFields structName tm parent fs
end

/-- the blocks of `Validate<T>Context`, in order; `none` when no file is generated (no metadata) -/
def gen (d : Decl) : List Block :=
  analyzeFields d.name (sortById (markersOfDoc d.doc)) [] d.fields

/-! ### canonical rendering of the skeleton (compared with the dump of the real output by corr-gen) -/

def Check.render (c : Check) : String :=
  match c.cond with
  | none => "(skip " ++ c.errVar ++ ")"
  | some e => "(if " ++ e.render ++ " " ++ c.errVar ++ " " ++ c.field ++ ")"

def Block.render (b : Block) : String :=
  let body := b.checks.filter (·.cond.isSome) |>.map Check.render
  "(block " ++ (if b.parent.isEmpty then "-" else dottedPath b.parent) ++ " " ++ " ".intercalate body ++ ")"

def renderBlocks (bs : List Block) : String := " ".intercalate (bs.map Block.render)

/-- the sentinel declarations in emission order, de-duplicated through the generator memory
    (within one struct; cross-struct interference is the subject of C14) -/
def sentinels (bs : List Block) : List Check :=
  let cs := (bs.map (·.checks)).flatten.filter (·.cond.isSome)
  (cs.foldl (fun (acc : List Check × List String) c =>
      if acc.2.contains c.memKey then acc else (acc.1 ++ [c], c.memKey :: acc.2)) ([], [])).1

def renderSentinels (bs : List Block) : String :=
  " ".intercalate ((sentinels bs).map fun c =>
    "(sentinel " ++ c.errVar ++ " " ++ (if c.legacy != c.errVar then c.legacy else "-") ++ " " ++ dottedPath c.path ++ " " ++ c.rule ++ ")")

end Gen
