/-
  Semantics of the emitted Go conditions (`GoExpr`) over field values. Hand-written model of the Go
  operators that occur; the `validationhelper.*` calls are interpreted by the go2lean TRANSLATION of
  the real helpers; `net.ParseIP`/`To4` are an uninterpreted oracle carried by the string value.
  `none` = "this expression is outside the modelled fragment / would not type-check".
-/
import Gvlean.Go.Expr
import Gvlean.Go.Utf8
import Gvlean.Generated.Helpers

namespace Gen
open Go

/-- run-time value of a sub-expression -/
inductive RV where
  | fld (ty : Ty) (v : Val)          -- a field
  | dec (d : Dec)                    -- untyped numeric constant
  | imag (d : Dec)                   -- untyped imaginary constant `<d>i`
  | str (b : Bytes)                  -- string constant
  | bool (b : Bool)
  | nil
  | int (n : Int)                    -- typed int (len, RuneCountInString)
  | ip (cls : IpClass)               -- net.IP returned by net.ParseIP: 0 = nil
  | ip4 (isNil : Bool)               -- result of ip.To4()
  deriving Repr, Inhabited

abbrev Env := String → Option (Ty × Val)

/-- a literal pasted verbatim into the condition -/
def evalRaw (t : String) : Option RV :=
  match parseDec t with
  | some d => some (.dec d)
  | none =>
    if t == "nil" then some .nil
    else if t == "true" then some (.bool true)
    else if t == "false" then some (.bool false)
    else if t == "\"\"" then some (.str [])
    else if t.toList.getLast? == some 'i' then (parseDec (String.ofList t.toList.dropLast)).map .imag
    else none

def ordHolds (op : String) (o : Ordering) : Option Bool :=
  match op with
  | "==" => some (o == .eq) | "!=" => some (o != .eq)
  | "<" => some (o == .lt) | "<=" => some (o != .gt)
  | ">" => some (o == .gt) | ">=" => some (o != .lt)
  | _ => none

/-- comparison with an unordered (NaN) operand: only `!=` is true -/
def unordered (op : String) : Option Bool :=
  match op with
  | "!=" => some true
  | "==" | "<" | "<=" | ">" | ">=" => some false
  | _ => none

def isEqOp (op : String) : Bool := op == "==" || op == "!="

/-- is the constant representable in an integer kind (otherwise the Go program does not compile) -/
def decFitsInt (k : Kind) (d : Dec) : Bool :=
  d.isInt && match k.intRange with
    | some (lo, hi) => lo ≤ d.toInt && d.toInt ≤ hi
    | none => false

def lenOf : Val → Option Int
  | .coll none => some 0
  | .coll (some n) => some n
  | .chan none => some 0
  | .chan (some n) => some n
  | .arr n => some n
  | .str b _ => some b.length
  | _ => none

/-- float equals the decimal constant exactly -/
def floatEqDec (f : FVal) (d : Dec) : Bool :=
  match cmpFloatDec f d with
  | some .eq => true
  | _ => false

/-- `field OP constant` -/
def cmpFldConst (op : String) (ty : Ty) (v : Val) (c : RV) : Option Bool :=
  match ty.underlying, v, c with
  | .basic k, .int x, .dec d =>
    if k.isInteger && decFitsInt k d then ordHolds op (cmpIntDec x d) else none
  | .basic .float64, .f64 b, .dec d =>
    (match cmpFloatDec (decodeF64 b) d with | some o => ordHolds op o | none => unordered op)
  | .basic .float32, .f32 b, .dec d =>
    (match cmpFloatDec (decodeF32 b) d with | some o => ordHolds op o | none => unordered op)
  | .basic .complex128, .c128 r i, .imag d =>
    -- only (in)equality is defined on complex numbers; the constant is 0+d·i
    if isEqOp op then
      let re0 := (decodeF64 r).isZero
      let imEq := floatEqDec (decodeF64 i) d
      ordHolds op (if re0 && imEq then .eq else .lt)
    else none
  | .basic .complex64, .c64 r i, .imag d =>
    if isEqOp op then
      let re0 := (decodeF32 r).isZero
      let imEq := floatEqDec (decodeF32 i) d
      ordHolds op (if re0 && imEq then .eq else .lt)
    else none
  | .basic .string, .str b _, .str s => if isEqOp op then ordHolds op (if b == s then .eq else .lt) else none
  | .basic .bool, .bool b, .bool c => if isEqOp op then ordHolds op (if b == c then .eq else .lt) else none
  | .slice, .coll l, .nil => if isEqOp op then ordHolds op (if l.isNone then .eq else .lt) else none
  | .map, .coll l, .nil => if isEqOp op then ordHolds op (if l.isNone then .eq else .lt) else none
  | .chan, .chan l, .nil => if isEqOp op then ordHolds op (if l.isNone then .eq else .lt) else none
  | .ptr, .ref n, .nil => if isEqOp op then ordHolds op (if n then .eq else .lt) else none
  | .iface, .ref n, .nil => if isEqOp op then ordHolds op (if n then .eq else .lt) else none
  | .func, .ref n, .nil => if isEqOp op then ordHolds op (if n then .eq else .lt) else none
  | _, _, _ => none

def evalBin (op : String) (l r : RV) : Option RV :=
  match op, l, r with
  | "&&", .bool a, .bool b => some (.bool (a && b))
  | "||", .bool a, .bool b => some (.bool (a || b))
  | _, .fld ty v, c => (cmpFldConst op ty v c).map .bool
  | _, .int n, .dec d => if d.isInt then (ordHolds op (cmpIntDec n d)).map .bool else none
  | _, .ip cls, .nil => if isEqOp op then (ordHolds op (if cls == 0 then .eq else .lt)).map .bool else none
  | _, .ip4 n, .nil => if isEqOp op then (ordHolds op (if n then .eq else .lt)).map .bool else none
  | _, _, _ => none

def helperResult (r : GoM Bool) : Option RV :=
  match r with
  | .ok b => some (.bool b)
  | .error _ => none           -- a panic is not a value; `exec` reports it separately (C17)

/-- evaluation with the short-circuit operators evaluated like Go (left first) -/
def eval (env : Env) (loc : List (String × RV)) : GoExpr → Option RV
  | .sel f => (env f).map fun p => .fld p.1 p.2
  | .ident n =>
    match loc.lookup n with
    | some v => some v
    | none => if n == "nil" then some .nil else if n == "true" then some (.bool true)
              else if n == "false" then some (.bool false) else none
  | .raw t => evalRaw t
  | .strlit s => some (.str s.toUTF8.toList)
  | .not e => match eval env loc e with | some (.bool b) => some (.bool (!b)) | _ => none
  | .paren e => eval env loc e
  | .bin op l r =>
    match eval env loc l with
    | none => none
    | some lv =>
      if op == "||" && (match lv with | .bool true => true | _ => false) then some (.bool true)
      else if op == "&&" && (match lv with | .bool false => true | _ => false) then some (.bool false)
      else match eval env loc r with
        | none => none
        | some rv => evalBin op lv rv
  | .call fn a =>
    match eval env loc a with
    | some (.fld ty v) =>
      (match fn, ty.underlying, v with
        | "len", _, _ => (lenOf v).map .int
        | "utf8.RuneCountInString", .basic .string, .str b _ => some (.int (runeCount b))
        | "validationhelper.IsValidEmail", .basic .string, .str b _ => helperResult (Gen.IsValidEmail b)
        | "validationhelper.IsValidURL", .basic .string, .str b _ => helperResult (Gen.IsValidURL b)
        | "validationhelper.IsValidUUID", .basic .string, .str b _ => helperResult (Gen.IsValidUUID b)
        | "validationhelper.IsValidAlpha", .basic .string, .str b _ => helperResult (Gen.IsValidAlpha b)
        | "validationhelper.IsNumeric", .basic .string, .str b _ => helperResult (Gen.IsNumeric b)
        | "net.ParseIP", .basic .string, .str _ cls => some (.ip cls)
        | _, _, _ => none)
    | _ => none
  | .method r m =>
    match eval env loc r, m with
    | some (.ip cls), "To4" => some (.ip4 (cls != 4))
    | _, _ => none
  | .initThen v i c =>
    match eval env loc i with
    | some iv => eval env ((v, iv) :: loc) c
    | none => none

/-- the emitted `if COND {…}`: does the failure branch fire? -/
def fires (env : Env) (c : GoExpr) : Option Bool :=
  match eval env [] c with
  | some (.bool b) => some b
  | _ => none

end Gen
