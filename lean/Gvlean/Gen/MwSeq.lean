/-
  The middleware closure as a SERVER: one closure value answers a sequence of requests. `execS` is `Mw.exec`
  with the final content of the `body` variable returned as well, so that a closure which keeps its payload
  between requests (a pooled / captured variable instead of `var body T` inside the closure) can be expressed:
  the leftover of request n is the initial `body` of request n+1.
-/
import Gvlean.Gen.Mw

namespace Mw

def execS {α : Type} (e : Env α) : List Stmt → Option α → Option α × Act
  | [], b => (b, .fallOff)
  | .fresh :: rest, _ => execS e rest (some e.zero)
  | .decode m s :: rest, some b =>
    match e.decode b with
    | none => (some b, .respond s (m ++ "\n"))
    | some t => execS e rest (some t)
  | .validate c p s cs oc od :: rest, some b =>
    match e.validate c b with
    | .ok => execS e rest (some b)
    | .err msg ca de => (some b, .respond (if (oc && ca) || (od && de) then cs.getD s else s) (p ++ msg ++ "\n"))
  | [.next], b => (b, .callNext)
  | _, b => (b, .stuck)

/-- the act of `execS` is `exec`'s -/
theorem execS_act {α : Type} (e : Env α) : ∀ (prog : List Stmt) (b : Option α), (execS e prog b).2 = exec e prog b
  | [], _ => rfl
  | .fresh :: rest, b => by simp only [execS, exec]; exact execS_act e rest _
  | .decode m s :: rest, some b => by
    simp only [execS, exec]
    cases e.decode b with
    | none => rfl
    | some t => exact execS_act e rest _
  | .decode m s :: rest, none => by simp [execS, exec]
  | .validate c p s cs oc od :: rest, some b => by
    simp only [execS, exec]
    cases e.validate c b with
    | ok => exact execS_act e rest _
    | err msg ca de => rfl
  | .validate c p s cs oc od :: rest, none => by simp [execS, exec]
  | [.next], b => by simp [execS, exec]
  | .next :: x :: rest, b => by simp [execS, exec]

/-- a closure value serving the requests `es` one after the other, starting with leftover `st` -/
def serveAll {α : Type} (prog : List Stmt) : Option α → List (Env α) → List Act
  | _, [] => []
  | st, e :: es => let r := execS e prog st; r.2 :: serveAll prog r.1 es

/-- a program that starts by declaring a fresh `body` answers every request as if it were the only one -/
theorem serveAll_fresh {α : Type} (rest : List Stmt) :
    ∀ (st : Option α) (es : List (Env α)), serveAll (.fresh :: rest) st es = es.map fun e => run e (.fresh :: rest)
  | _, [] => rfl
  | st, e :: es => by
    simp only [serveAll, List.map_cons]
    rw [serveAll_fresh rest _ es]
    congr 1
    rw [execS_act]
    simp [run, exec]

/-- the same, for any program whose first statement is the fresh declaration -/
theorem serveAll_of_head {α : Type} (prog : List Stmt) (h : prog.head? = some .fresh) (st : Option α) (es : List (Env α)) :
    serveAll prog st es = es.map fun e => run e prog := by
  cases prog with
  | nil => simp at h
  | cons s rest =>
    simp only [List.head?_cons, Option.some.injEq] at h
    subst h
    exact serveAll_fresh rest st es

end Mw
