/-
  The statement forms of templates/validation.go.tmpl that the hand-written model of the generated function ASSUMES
  (Gen/Exec.lean `runBlocks`, Proofs/CtxAny.lean `runG`, Props/C16 `Stmt`, Props/C19 allocation sites), as the flat token
  list `rulefacts` extracts from the template on every run (`Facts.tmplTokens`: text with white space collapsed, actions
  and control structure verbatim, Go line comments dropped). Proofs/Template.lean proves the two lists equal, so an edit of the template — a
  poll removed or moved behind the checks, `return context.Cause(ctx)`, `err := &Sentinel`, a wrapper that no longer
  delegates — breaks a proof obligation before any output is generated. Each segment names the model clause it carries.
-/
namespace Gen.Tmpl

/-- file header, import block, interface assertion, `ErrNil<T>` and the sentinel declarations (C08's business) -/
def header : List String := [
  "package", "{{.PackageName}}", "import (", "{{if .Metadata}}",
  "\"context\" \"errors\" \"github.com/sivchari/govalid\" govaliderrors \"github.com/sivchari/govalid/validation/errors\"",
  "{{range $pkg, $_ := .ImportPackages}}", "\"", "{{$pkg}}", "\"", "{{end}}", "{{end}}",
  ") var ( _ govalid.Validator = (*", "{{.TypeName}}", ")(nil)", "ErrNil", "{{.TypeName}}", "= errors.New(\"input", "{{.TypeName}}", "is nil\")",
  "{{range .Metadata}}", "{{range .Validators}}", "{{if ne .Validate \"\"}}", "{{.Err}}", "{{end}}", "{{end}}", "{{end}}"]

/-- `Validate<T>Context`: nil guard FIRST (`exec … none = .nilRecv`, no poll before it), then the local `errs` -/
def funcHead : List String := [
  ") func Validate", "{{.TypeName}}", "Context(ctx context.Context, t *", "{{.TypeName}}",
  ") error { if t == nil { return ErrNil", "{{.TypeName}}", "} var errs govaliderrors.ValidationErrors"]

/-- per metadata entry: the parent variable is taken over from the entry -/
def loopOpen : List String := [
  "{{$parentVariable := \"\"}}", "{{range .Metadata}}", "{{if ne .ParentVariable \"\"}}", "{{$parentVariable = .ParentVariable}}", "{{end}}"]

/-- a NESTED block with validators: opens a scope, POLLS (`if ctx.Err() != nil { return ctx.Err() }` — the error
    returned is a second `ctx.Err()` call: `runBlocks` reads `ctx k` and `ctx (k+1)`), then rebinds `t` -/
def nestedOpen : List String := [
  "{{if and (ne $parentVariable \"\") (.Validators)}}", "{ if ctx.Err() != nil { return ctx.Err() } t := t.", "{{$parentVariable}}", "{{end}}"]

/-- a TOP-LEVEL block with validators: the same poll; the two conditions are mutually exclusive, so exactly one
    poll per block with validators, BEFORE its checks -/
def topPoll : List String := [
  "{{if and (eq $parentVariable \"\") (.Validators)}}", "if ctx.Err() != nil { return ctx.Err() }", "{{end}}"]

/-- one check: the sentinel is COPIED into the local `err`, the copy's `Value` is set, the copy is appended to the
    local `errs` — no write to the receiver or to the sentinel (C16 `Stmt.check`), and the only allocation sites of
    the function (boxing the copy / growing `errs`) sit inside the `if` (C19) -/
def checkForm : List String := [
  "if", "{{.Validate}}", "{ err :=", "{{.ErrVariable}}", "err.Value = t.", "{{.FieldName}}", "errs = append(errs, err) }"]

def checks : List String := ["{{range .Validators}}", "{{if ne .Validate \"\"}}"] ++ checkForm ++ ["{{end}}", "{{end}}"]

/-- a nested block closes its scope and resets the parent variable -/
def nestedClose : List String := [
  "{{if and (ne $parentVariable \"\") (.Validators)}}", "}", "{{$parentVariable = \"\"}}", "{{end}}", "{{end}}"]

/-- after the LAST block: the report iff something was appended, else nil (`runBlocks … [] …`); then the three wrappers,
    each delegating to `Validate<T>Context` — `Validate<T>` with `context.Background()` (C15 `c15_wrappers`) -/
def tail : List String := [
  "if len(errs) > 0 { return errs } return nil } func Validate", "{{.TypeName}}", "(t *", "{{.TypeName}}",
  ") error { return Validate", "{{.TypeName}}", "Context(context.Background(), t) } func (t *", "{{.TypeName}}",
  ") Validate() error { return Validate", "{{.TypeName}}", "(t) } func (t *", "{{.TypeName}}",
  ") ValidateContext(ctx context.Context) error { return Validate", "{{.TypeName}}", "Context(ctx, t) }"]

def all : List String := header ++ funcHead ++ loopOpen ++ nestedOpen ++ topPoll ++ checks ++ nestedClose ++ tail

end Gen.Tmpl
