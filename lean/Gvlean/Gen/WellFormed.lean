/-
  C08: what "the emitted file has no missing, unused or duplicate declarations" means for the modelled
  file (sentinel block + blocks of checks). The Go type checker itself is not modelled: `go build` /
  `go vet` of the real output is observed by corr-gen on every scenario and compared with `wfFile`.
-/
import Gvlean.Gen.Model

namespace Gen

/-- the checks the template actually renders -/
def rendered (bs : List Block) : List Check := (bs.map (·.checks)).flatten.filter (·.cond.isSome)

/-- every name the sentinel block declares: the error variable and, when different, its legacy alias -/
def declaredNames (bs : List Block) : List String :=
  ((sentinels bs).map fun c => if c.legacy != c.errVar then [c.errVar, c.legacy] else [c.errVar]).flatten

/-- memory keys and error-variable names identify the same validators (two checks share a key iff they
    share the variable they assign) — false e.g. for `X //minlength` next to `XMin //length` -/
def namesFaithful (bs : List Block) : Bool :=
  (rendered bs).all fun a => (rendered bs).all fun b => (a.memKey == b.memKey) == (a.errVar == b.errVar)

/-- a `{ t := t.<parent> … }` scope must use `t` -/
def scopesUsed (bs : List Block) : Bool :=
  bs.all fun b => b.parent.isEmpty || b.checks.any (·.cond.isSome)

/-- the modelled file is well formed: names faithful, declared names pairwise distinct (and distinct
    from the ErrNil sentinel), every scope uses its variable -/
def wfFile (structName : String) (bs : List Block) : Bool :=
  namesFaithful bs && decide (("ErrNil" ++ structName) :: declaredNames bs).Nodup && scopesUsed bs

end Gen
