/-
  Declarations as the generator's front end (go/parser + go/types) sees them: a struct type with
  doc comments on the declaration and on each field, field name lists, resolved field types and
  anonymous nested structs. Plain data shared by the Model and the Spec.
-/
import Gvlean.Go.Val

namespace Gen
open Go

/-- one `govalid:<id>[=expr]` marker, after `parseMarkerComment`/`extractMarker` -/
structure Marker where
  id : String                 -- e.g. "govalid:gt"
  expr : Option String        -- text after the first '='
  deriving Repr, DecidableEq, Inhabited

/-- a field of a struct type: a leaf with a resolved type, or an anonymous nested struct.
    `names = []` is an embedded field; `doc` is the list of comment texts of the field's doc group. -/
inductive FieldT where
  | leaf (names : List String) (ty : Ty) (doc : List String)
  | nest (names : List String) (doc : List String) (fields : List FieldT)
  deriving Repr, Inhabited

/-- one `TypeSpec` whose type is a struct, with the doc comments of its `GenDecl` -/
structure Decl where
  name : String
  doc : List String
  fields : List FieldT
  deriving Repr, Inhabited

/-! ### comment → marker (internal/analyzers/markers/analyzer.go:181-214) -/

/-- `parseMarkerComment`: `//govalid:…` and `// +govalid:…` both reduce to `govalid:…` -/
def parseMarkerComment (text : String) : Option String :=
  let cs := text.toList
  if "//govalid:".toList.isPrefixOf cs then some (String.ofList (cs.drop 2))
  else if "// +govalid:".toList.isPrefixOf cs then some (String.ofList (cs.drop 4))
  else none

/-- `extractMarker`: split on the first '=' -/
def extractMarker (content : String) : Marker :=
  match content.splitOn "=" with
  | [] => { id := content, expr := none }
  | [c] => { id := c, expr := none }
  | id :: rest => { id := id, expr := some ("=".intercalate rest) }

/-- `MarkerSet.Add`: a marker with an identifier already present replaces it in place -/
def addMarker (ms : List Marker) (m : Marker) : List Marker :=
  if ms.any (·.id == m.id) then ms.map (fun x => if x.id == m.id then m else x) else ms ++ [m]

/-- the ordered marker set of a doc comment group -/
def markersOfDoc (doc : List String) : List Marker :=
  (doc.filterMap parseMarkerComment).foldl (fun acc c => addMarker acc (extractMarker c)) []

/-- insertion sort by identifier — stable, like `sort.SliceStable` -/
def insertById (m : Marker) : List Marker → List Marker
  | [] => [m]
  | x :: xs => if x.id < m.id then x :: insertById m xs else m :: x :: xs

def sortById (ms : List Marker) : List Marker := ms.foldr insertById []

end Gen
