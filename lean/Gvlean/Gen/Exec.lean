/-
  Execution of the generated `Validate<T>Context` (templates/validation.go.tmpl) on a receiver value
  under a context whose k-th `ctx.Err()` call returns `ctx k`.
-/
import Gvlean.Gen.Model
import Gvlean.Gen.Eval

namespace Gen
open Go

inductive CtxErr where
  | canceled | deadline
  deriving Repr, DecidableEq, Inhabited

/-- result of the k-th `ctx.Err()` call (k = 0, 1, …); `none` = nil -/
abbrev Ctx := Nat → Option CtxErr

def bg : Ctx := fun _ => none

structure Entry where
  path : List String
  type : String
  value : String          -- canonical text of `Value`
  deriving Repr, DecidableEq, Inhabited

inductive Outcome where
  | nilRecv                         -- ErrNil<T>
  | ctxErr (e : CtxErr)
  | ok                              -- nil
  | report (es : List Entry)        -- ValidationErrors (non-empty)
  | stuck                           -- outside the modelled fragment (ill-typed condition / helper panic)
  deriving Repr, DecidableEq, Inhabited

def lookupField (v : Val) (f : String) : Option Val :=
  match v with
  | .strukt fs => fs.lookup f
  | _ => none

/-- `t.<A.B.C>` -/
def lookupPath (v : Val) : List String → Option Val
  | [] => some v
  | f :: rest => match lookupField v f with
    | some w => lookupPath w rest
    | none => none

/-- run the checks of one block on the struct value `sv` (already `t := t.<parent>`) -/
def runChecks (sv : Val) : List Check → Option (List Entry)
  | [] => some []
  | c :: cs =>
    match c.cond with
    | none => runChecks sv cs
    | some e =>
      match lookupField sv c.field with
      | none => none
      | some fv =>
        let env : Env := fun f => if f == c.field then some (c.ty, fv) else none
        match fires env e, runChecks sv cs with
        | some true, some rest => some ({ path := c.path, type := c.rule, value := fv.repr } :: rest)
        | some false, some rest => some rest
        | _, _ => none

/-- blocks in order; `k` = number of `ctx.Err()` calls made so far.
    Each block: `if ctx.Err() != nil { return ctx.Err() }` — two calls when the first is non-nil. -/
def runBlocks (ctx : Ctx) (recv : Val) : List Block → Nat → List Entry → Outcome
  | [], _, acc => if acc.isEmpty then .ok else .report acc
  | b :: bs, k, acc =>
    match ctx k with
    | some _ =>
      (match ctx (k + 1) with
        | some e => .ctxErr e
        | none => .ok)        -- `return ctx.Err()` observed nil on the second call (non-monotone context)
    | none =>
      match lookupPath recv b.parent with
      | none => .stuck
      | some sv =>
        match runChecks sv b.checks with
        | none => .stuck
        | some es => runBlocks ctx recv bs (k + 1) (acc ++ es)

/-- `Validate<T>Context(ctx, t)` -/
def exec (bs : List Block) (ctx : Ctx) (recv : Option Val) : Outcome :=
  match recv with
  | none => .nilRecv
  | some v => runBlocks ctx v bs 0 []

def Entry.render (e : Entry) : String := dottedPath e.path ++ "|" ++ e.type ++ "|" ++ e.value

def Outcome.render : Outcome → String
  | .nilRecv => "nilrecv"
  | .ctxErr .canceled => "ctx:canceled"
  | .ctxErr .deadline => "ctx:deadline"
  | .ok => "nil"
  | .report es => "report " ++ " ".intercalate (es.map Entry.render)
  | .stuck => "stuck"

end Gen
