/- SpecDriver: evaluates the SPEC's executable deciders. Imports nothing from the model or from
   regenerated files, so it always builds; it is the oracle of the failing-input search. -/
import Driver.Common
import Gvlean.Spec.Uuid
import Gvlean.Spec.Url
import Gvlean.Spec.Email
import Gvlean.Spec.Ascii
import Driver.Sexp
import Gvlean.Spec.Report
import Gvlean.Spec.Mw

open Go Driver

def showBool (b : Bool) : String := if b then "true" else "false"

def stepSpec (line : String) : String :=
  match line.splitOn "\t" with
  | ["rec", fn, hx] =>
    match unhex hx with
    | none => "bad-op"
    | some b =>
      match fn with
      | "uuid" => showBool (Spec.uuidSpecB b)
      | "url" => showBool (Spec.urlSpecB b)
      | "email" => showBool (Spec.emailSpecB b)
      | "alpha" => showBool (Spec.alphaSpecB b)
      | "numeric" => showBool (Spec.numericSpecB b)
      | _ => "bad-op"
  | ["spec", d, v] =>
    match (readSx d).bind sxDecl, (readSx v).bind sxVal with
    | some decl, some val =>
      match Spec.violated decl val with
      | some es => Spec.renderReport es
      | none => "undef"
    | _, _ => "bad-op"
  | ["specn", d, v] =>
    -- as "spec", for declarations in which nested anonymous structs carry markers of their own
    match (readSx d).bind sxDecl, (readSx v).bind sxVal with
    | some decl, some val =>
      match Spec.violatedN decl val with
      | some es => Spec.renderReport es
      | none => "undef"
    | _, _ => "bad-op"
  | ["polls", d] =>
    match (readSx d).bind sxDecl with
    | some decl => toString (Spec.validatedFields decl)
    | none => "bad-op"
  | ["mw", variant, dec, kind, hx, ca, de] =>
    match unhex hx with
    | none => "bad-op"
    | some mb =>
      match String.fromUTF8? (ByteArray.mk mb.toArray) with
      | none => "bad-op"
      | some msg =>
        let vres : Mw.VRes := if kind == "ok" then .ok else .err msg (ca == "1") (de == "1")
        let env : Mw.Env Unit := { zero := (), decode := fun _ => if dec == "1" then some () else none, validate := fun _ _ => vres }
        match Spec.specAct (variant == "c") env with
        | .respond st body => "respond\t" ++ toString st ++ "\t" ++ hexBytes body.toUTF8.toList
        | .callNext => "next"
        | .fallOff => "falloff"
        | .stuck => "stuck"
  | _ => "bad-op"

def main : IO Unit := do
  loop (← IO.getStdin) (← IO.getStdout) stepSpec
