/- S-expression reader for cel-go ASTs (see celSexp in /verif/go/cmd/harness/cel.go). -/
import Driver.Sexp
import Gvlean.Cel.Translate

namespace Driver
open Cel

partial def sxCel : Sx → Option Cel.Expr
  | .list [.atom "cbool", .atom b] => some (.cbool (b == "1"))
  | .list [.atom "cint", .atom n] => n.toInt?.map .cint
  | .list [.atom "cuint", .atom n] => n.toNat?.map .cuint
  | .list [.atom "cdouble", _, .atom t] => (unhexStr t).map .cdouble
  | .list [.atom "cstring", _, .atom q] => (unhexStr q).map .cstring
  | .list [.atom "cnull"] => some .cnull
  | .list [.atom "struct"] => some .strukt
  | .list [.atom "ident", .atom n] => (unhexStr n).map .ident
  | .list [.atom "select", e, .atom f] => do some (.select (← sxCel e) (← unhexStr f))
  | .list [.atom "has", e, .atom f] => do some (.select (← sxCel e) (← unhexStr f))
  | .list (.atom "call" :: .atom fn :: args) => do some (.call (← unhexStr fn) (← args.mapM sxCel))
  | .list (.atom "mcall" :: .atom fn :: target :: args) => do some (.mcall (← unhexStr fn) (← sxCel target) (← args.mapM sxCel))
  | .list (.atom "list" :: es) => do some (.list (← es.mapM sxCel))
  | .list (.atom "compr" :: _) => some .unmodelled
  | .list (.atom "cbytes" :: _) => some .unmodelled
  | _ => none

end Driver
