/- ModelDriver: evaluates the MODEL's executable definitions (translated helpers, UTF-8 model …).
   One request per line, TAB-separated: `<cmd>\t<args…>` → one answer line. -/
import Driver.Common
import Gvlean.Generated.Helpers

open Go Driver

def stepModel (line : String) : String :=
  match line.splitOn "\t" with
  | ["rec", fn, hx] =>
    match unhex hx with
    | none => "bad-op"
    | some b =>
      match fn with
      | "uuid" => showB (Gen.IsValidUUID b)
      | "url" => showB (Gen.IsValidURL b)
      | "email" => showB (Gen.IsValidEmail b)
      | "alpha" => showB (Gen.IsValidAlpha b)
      | "numeric" => showB (Gen.IsNumeric b)
      | "runecount" => toString (runeCount b)
      | "runes" => " ".intercalate ((runes b).map fun p => s!"{p.1}:{p.2}")
      | _ => "bad-op"
  | _ => "bad-op"

def main : IO Unit := do
  loop (← IO.getStdin) (← IO.getStdout) stepModel
