/- ModelDriver: evaluates the MODEL's executable definitions (translated helpers, UTF-8 model …).
   One request per line, TAB-separated: `<cmd>\t<args…>` → one answer line. -/
import Driver.Common
import Driver.Sexp
import Gvlean.Generated.Helpers
import Gvlean.Gen.Exec
import Gvlean.Gen.Migrate
import Gvlean.Gen.WellFormed
import Gvlean.Generated.MwFacts
import Driver.CelSexp

open Go Driver

def stepModel (line : String) : String :=
  match line.splitOn "\t" with
  | ["rec", fn, hx] =>
    match unhex hx with
    | none => "bad-op"
    | some b =>
      match fn with
      | "uuid" => showB (Gen.IsValidUUID b)
      | "url" => showB (Gen.IsValidURL b)
      | "email" => showB (Gen.IsValidEmail b)
      | "alpha" => showB (Gen.IsValidAlpha b)
      | "numeric" => showB (Gen.IsNumeric b)
      | "runecount" => toString (runeCount b)
      | "runes" => " ".intercalate ((runes b).map fun p => s!"{p.1}:{p.2}")
      | _ => "bad-op"
  | ["gen", d] =>
    match (readSx d).bind sxDecl with
    | none => "bad-op"
    | some decl =>
      let bs := Gen.gen decl
      if bs.isEmpty then "none" else Gen.renderBlocks bs ++ " ; " ++ Gen.renderSentinels bs ++ " ; polls=" ++ toString bs.length
  | ["wf", d] =>
    match (readSx d).bind sxDecl with
    | none => "bad-op"
    | some decl =>
      let bs := Gen.gen decl
      if bs.isEmpty then "none" else
      if Gen.wfFile decl.name bs then "wf" else
        "not-wf" ++ (if !Gen.namesFaithful bs then " key/variable-mismatch" else "")
          ++ (if !decide (("ErrNil" ++ decl.name) :: Gen.declaredNames bs).Nodup then " duplicate-declaration" else "")
          ++ (if !Gen.scopesUsed bs then " unused-scope-variable" else "")
  | ["sem", d, ctxs, v] =>
    -- ctxs: "bg" | "<k>:<canceled|deadline>" (done from the k-th poll on) ; v: value sexp or "nilrecv"
    match (readSx d).bind sxDecl with
    | none => "bad-op"
    | some decl =>
      let ctx : Option Gen.Ctx :=
        if ctxs == "bg" then some Gen.bg else
        match ctxs.splitOn ":" with
        | [k, kind] =>
          match k.toNat?, (if kind == "canceled" then some Gen.CtxErr.canceled else if kind == "deadline" then some Gen.CtxErr.deadline else none) with
          | some k, some e => some (fun j => if j ≥ k then some e else none)
          | _, _ => none
        | _ => none
      match ctx with
      | none => "bad-op"
      | some c =>
        if v == "nilrecv" then (Gen.exec (Gen.gen decl) c none).render else
        match (readSx v).bind sxVal with
        | none => "bad-op"
        | some val => (Gen.exec (Gen.gen decl) c (some val)).render
  | ["mig", hx] =>
    match unhex hx with
    | none => "bad-op"
    | some b =>
      match String.fromUTF8? (ByteArray.mk b.toArray) with
      | none => "bad-op"            -- (the harness only produces valid UTF-8 sources)
      | some src =>
        let (o, n) := Mig.migrate src.toList
        hexBytes (String.ofList o).toUTF8.toList ++ "\t" ++ toString n
  | ["cel", field, ast] =>
    -- the condition text the translator model emits for this checked AST ("unmodelled" outside its coverage,
    -- "refused" when the model covers the expression and the translator has no rendering for one of its calls)
    match (readSx ast).bind sxCel with
    | none => "bad-op"
    | some e =>
      match Cel.condition field e with
      | none => if Cel.refuses field e then "refused" else "unmodelled"
      | some c => hexBytes c.toUTF8.toList
  | ["mw", variant, dec, kind, hx, ca, de] =>
    -- one request as observed by the oracle: did a fresh decode succeed; what does validation of the freshly decoded value return
    match unhex hx with
    | none => "bad-op"
    | some mb =>
      match String.fromUTF8? (ByteArray.mk mb.toArray) with
      | none => "bad-op"
      | some msg =>
        let vres : Mw.VRes := if kind == "ok" then .ok else .err msg (ca == "1") (de == "1")
        let env : Mw.Env Unit := { zero := (), decode := fun _ => if dec == "1" then some () else none, validate := fun _ _ => vres }
        let prog := if variant == "c" then Generated.Mw.validateRequestContext else Generated.Mw.validateRequest
        match Mw.run env prog with
        | .respond st body => "respond\t" ++ toString st ++ "\t" ++ hexBytes body.toUTF8.toList
        | .callNext => "next"
        | .fallOff => "falloff"
        | .stuck => "stuck"
  | _ => "bad-op"

def main : IO Unit := do
  loop (← IO.getStdin) (← IO.getStdout) stepModel
