/- line-protocol helpers shared by the drivers (core only) -/
import Gvlean.Go.Basic

namespace Driver
open Go

def hexVal (c : Char) : Option Nat :=
  if '0' ≤ c ∧ c ≤ '9' then some (c.toNat - 48)
  else if 'a' ≤ c ∧ c ≤ 'f' then some (c.toNat - 87)
  else if 'A' ≤ c ∧ c ≤ 'F' then some (c.toNat - 55)
  else none

/-- lower-case hex → bytes; `none` on malformed input (never a default). "-" is the empty string. -/
def unhex (s : String) : Option Bytes :=
  if s == "-" then some [] else
  let rec go : List Char → List UInt8 → Option Bytes
    | [], acc => some acc.reverse
    | [_], _ => none
    | a :: b :: rest, acc =>
      match hexVal a, hexVal b with
      | some x, some y => go rest (UInt8.ofNat (x * 16 + y) :: acc)
      | _, _ => none
  go s.toList []

def showB (r : GoM Bool) : String :=
  match r with
  | .ok true => "true"
  | .ok false => "false"
  | .error _ => "panic"

partial def loop (h : IO.FS.Stream) (out : IO.FS.Stream) (step : String → String) : IO Unit := do
  let line ← h.getLine
  if line.isEmpty then return ()
  let l := if line.endsWith "\n" then (line.dropEnd 1).toString else line
  out.putStrLn (step l)
  loop h out step

end Driver
