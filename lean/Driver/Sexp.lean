/- S-expressions for the line protocol: atoms without blanks/parentheses; text travels as hex atoms. -/
import Driver.Common
import Gvlean.Gen.Decl

namespace Driver
open Go Gen

inductive Sx where
  | atom (s : String)
  | list (xs : List Sx)
  deriving Repr, Inhabited

def tokenize (s : String) : List String :=
  let rec go (cs : List Char) (cur : List Char) (acc : List String) : List String :=
    match cs with
    | [] => (if cur.isEmpty then acc else String.ofList cur.reverse :: acc).reverse
    | c :: rest =>
      if c == '(' || c == ')' then
        let acc := if cur.isEmpty then acc else String.ofList cur.reverse :: acc
        go rest [] (String.singleton c :: acc)
      else if c == ' ' then
        go rest [] (if cur.isEmpty then acc else String.ofList cur.reverse :: acc)
      else go rest (c :: cur) acc
  go s.toList [] []

/-- parse a token list; returns the expression and the remaining tokens -/
partial def parseSx : List String → Option (Sx × List String)
  | [] => none
  | "(" :: rest =>
    let rec items (ts : List String) (acc : List Sx) : Option (Sx × List String) :=
      match ts with
      | [] => none
      | ")" :: r => some (.list acc.reverse, r)
      | _ => match parseSx ts with
        | some (x, r) => items r (x :: acc)
        | none => none
    items rest []
  | ")" :: _ => none
  | a :: rest => some (.atom a, rest)

def readSx (s : String) : Option Sx :=
  match parseSx (tokenize s) with
  | some (x, []) => some x
  | _ => none

def unhexStr (h : String) : Option String :=
  (unhex h).bind fun b => String.fromUTF8? (ByteArray.mk b.toArray)

def atomNat : Sx → Option Nat
  | .atom a => a.toNat?
  | _ => none

def hexToNat (s : String) : Option Nat :=
  s.toList.foldlM (fun acc c => (hexVal c).map (acc * 16 + ·)) 0

/-- `(basic Int8)` `(slice)` `(array 3)` `(map)` `(chan)` `(ptr)` `(iface)` `(func)` `(struct)` `(named T)` -/
partial def sxTy : Sx → Option Ty
  | .list [.atom "basic", .atom k] => (Kind.ofGoName k).map .basic
  | .list [.atom "slice"] => some .slice
  | .list [.atom "array", n] => (atomNat n).map .array
  | .list [.atom "map"] => some .map
  | .list [.atom "chan"] => some .chan
  | .list [.atom "ptr"] => some .ptr
  | .list [.atom "iface"] => some .iface
  | .list [.atom "func"] => some .func
  | .list [.atom "struct"] => some .strukt
  | .list [.atom "named", u] => (sxTy u).map .named
  | _ => none

def sxNames : Sx → Option (List String)
  | .list (.atom "names" :: ns) => ns.mapM fun | .atom a => some a | _ => none
  | _ => none

def sxDoc : Sx → Option (List String)
  | .list (.atom "doc" :: ds) => ds.mapM fun | .atom a => unhexStr a | _ => none
  | _ => none

/-- `(leaf (names A B) TY (doc hex…))` / `(nest (names A) (doc …) FIELD…)` -/
partial def sxField : Sx → Option FieldT
  | .list [.atom "leaf", ns, ty, doc] =>
    match sxNames ns, sxTy ty, sxDoc doc with
    | some n, some t, some d => some (.leaf n t d)
    | _, _, _ => none
  | .list (.atom "nest" :: ns :: doc :: fs) =>
    match sxNames ns, sxDoc doc, fs.mapM sxField with
    | some n, some d, some f => some (.nest n d f)
    | _, _, _ => none
  | _ => none

/-- `(decl Name (doc …) FIELD…)` -/
def sxDecl : Sx → Option Decl
  | .list (.atom "decl" :: .atom name :: doc :: fs) =>
    match sxDoc doc, fs.mapM sxField with
    | some d, some f => some { name := name, doc := d, fields := f }
    | _, _ => none
  | _ => none

/-- values: `(i -5)` `(f64 hex)` `(f32 hex)` `(c128 hex hex)` `(c64 hex hex)` `(s hex ip)` `(b 1)`
    `(coll nil)` `(coll 3)` `(chan nil)` `(chan 2)` `(arr 3)` `(ref nil)` `(ref set)` `(st (Name VAL)…)` -/
partial def sxVal : Sx → Option Val
  | .list [.atom "i", .atom n] => n.toInt?.map .int
  | .list [.atom "f64", .atom h] => (hexToNat h).map .f64
  | .list [.atom "f32", .atom h] => (hexToNat h).map .f32
  | .list [.atom "c128", .atom r, .atom i] => match hexToNat r, hexToNat i with | some a, some b => some (.c128 a b) | _, _ => none
  | .list [.atom "c64", .atom r, .atom i] => match hexToNat r, hexToNat i with | some a, some b => some (.c64 a b) | _, _ => none
  | .list [.atom "s", .atom h, .atom ip] => match unhex h, ip.toNat? with | some b, some c => some (.str b c) | _, _ => none
  | .list [.atom "b", .atom x] => some (.bool (x == "1"))
  | .list [.atom "coll", .atom "nil"] => some (.coll none)
  | .list [.atom "coll", n] => (atomNat n).map fun k => .coll (some k)
  | .list [.atom "chan", .atom "nil"] => some (.chan none)
  | .list [.atom "chan", n] => (atomNat n).map fun k => .chan (some k)
  | .list [.atom "arr", n] => (atomNat n).map .arr
  | .list [.atom "ref", .atom "nil"] => some (.ref true)
  | .list [.atom "ref", .atom "set"] => some (.ref false)
  | .list (.atom "st" :: fs) =>
    (fs.mapM fun (x : Sx) =>
      match x with
      | Sx.list [Sx.atom n, v] => (sxVal v).map fun w => (n, w)
      | _ => none).map .strukt
  | _ => none

end Driver
