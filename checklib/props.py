"""Property table: which pipeline decides which property."""
from . import rec
from . import gen
from . import mig
from . import mw
from . import iso
from . import cel


def _c13(res):
    res.assumptions += ["Go int modelled as unbounded Int", "go2lean subset as in DESIGN Appendix D"]
    rec.run_rec_property(
        res, "uuid", "Gvlean.Props.C13",
        ["Props.c13", "Props.c13_grammar", "Props.c13_no_panic", "Props.c13_length", "Props.c13_case"],
        nontrivial=lambda f, r: len(r[1]) == 72)


def _c12(res):
    res.assumptions += ["Go int modelled as unbounded Int", "go2lean subset as in DESIGN Appendix D",
                        "property text says 32 schemes; the documented/source table has 31 — the set is the meaning"]
    rec.run_rec_property(
        res, "url", "Gvlean.Props.C12",
        ["Props.c12", "Props.c12_no_panic", "Props.c12_forbidden", "Props.c12_tables"],
        nontrivial=lambda f, r: "3a" in r[1])


def _c11(res):
    res.assumptions += ["Go int modelled as unbounded Int", "go2lean subset as in DESIGN Appendix D",
                        "UTF-8 decoding of `for range` modelled by Gvlean/Go/Utf8.lean (validated by corr-rec utf8 lines in C03)"]
    rec.run_rec_property(
        res, "email", "Gvlean.Props.C11",
        ["Props.c11", "Props.c11_no_panic", "Props.c11_length", "Props.c11_non_ascii"],
        nontrivial=lambda f, r: "40" in [r[1][i:i + 2] for i in range(0, len(r[1]), 2)] and len(r[1]) >= 10)


GEN = {
    # pid: (family, driver modes, Props module, theorems, aspects that are violations of THIS property, rule text)
    "C01": ("c01", "together", "Gvlean.Props.C01", ["Props.c01", "Props.c01_shape", "Props.c01_nan", "Props.c01_guard"], ["spec", "gen_fail", "build"],
            "one struct per (gt|gte|lt|lte, documented numeric type incl. named, random representable bound incl. type extremes and 2^53+1), top level or nested 1-2 levels; values = type lattice (min, min+1, -1, 0, 1, max-1, max / float: +-0, denormal, +-max, +-Inf, quiet/signalling/negative NaN) plus N-1, N, N+1 (N +- 1ulp for floats)"),
    "C02": ("c02", "", "Gvlean.Props.C02", ["Props.c02", "Props.c02_check", "Props.c02_named", "Props.c02_switch_underlying"], ["spec", "gen_fail", "build"],
            "one struct per documented field type of required (all basic kinds, byte, rune, complex, pointer, any, error, interface{}, func, slices, arrays, map, chan) and a named type over each; values: zero, non-zero, nil vs empty non-nil, -0.0, NaN, 0+0i, buffered/empty channels; every type also declared through an alias (type A = T); markers on nested structs with an unmarked middle level and marked leaves below (compared as multisets of (rule, value))"),
    "C03": ("c03", "", "Gvlean.Props.C03", ["Props.c03", "Props.c03_meaning", "Props.c03_ascii", "Props.c03_invalid_bytes"], ["spec", "gen_fail", "build"],
            "minlength/maxlength/length on string fields with N in {0,1,2,3,5,10}; values: strings of N-1, N, N+1 code points made of 1-, 2-, 3-, 4-byte runes and invalid bytes, mixed tails, byte-length-N strings with fewer code points; string fields also declared through an alias and a named type"),
    "C04": ("c04", "", "Gvlean.Props.C04", ["Props.c04", "Props.c04_meaning", "Props.c04_guard"], ["spec", "gen_fail", "build"],
            "minitems/maxitems on []string, []int, []byte (ASCII and multi-byte content), [3]int, [1]string, map[string]int, chan int and named types over them; lengths 0..N+2, nil vs empty, channels with k buffered elements; every collection type also declared through an alias"),
    "C05": ("c05", "", "Gvlean.Props.C05", ["Props.c05", "Props.c05_zero_not_special", "Props.c05_item_forms", "Props.c05_numeric", "Props.c05_float", "Props.c05_float_nan"], ["spec", "gen_fail", "build"],
            "enum lists of 1..8 items (duplicates, padded items, non-ASCII) on string, every integer kind, float32/64 and named types; values: every item, case changes, prefixes, +-1, padded forms, the zero value"),
    "C06": ("c06", "", "Gvlean.Props.C06", ["Props.c06", "Props.c06_languages", "Props.c06_alpha", "Props.c06_numeric"], ["spec", "gen_fail", "build"],
            "the seven format markers on string fields, top level and nested; values: member / non-member corpora per language (incl. the seeded-change triggers: DEL in local part, U+0161, '{' host, control byte in UUID, Latin-1 bytes); fields also declared through an alias of string"),
    "C07": ("c07", "is", "Gvlean.Props.C07", ["Props.c07", "Props.c07_nil_iff", "Props.c07_nil_receiver", "Props.c07_is"], ["spec", "is", "nilrecv", "gen_fail", "build"],
            "random Clean structs: 1..8 fields, 0..4 documented markers per field from every family, optional nesting to depth 2, optional struct-level markers, 1-3 structs per package sharing field names; values: base vector, every candidate of every leaf one at a time, 12 random vectors; errors.Is against every exported Err* (plain and %w-wrapped), nil receiver; doc comments with prose before and AFTER the markers; structs of 49/66/100 fields with more than 64 rules (one all-valid vector, one violation per field, mixed vectors)"),
    "C15": ("c07", "is,ctx", "Gvlean.Props.C15", ["Props.c15_cancelled", "Props.c15_already_done", "Props.c15_undisturbed", "Props.c15_wrappers", "Props.c15_skeleton", "Props.c15_any_checks_cancelled", "Props.c15_any_checks_already_done", "Props.c15_any_checks_undisturbed", "Props.c15_report_only_undisturbed", "Props.c15_template"], ["ctx", "wrappers"],
            "the random Clean structs of C07; for every value a context that turns done at its k-th Err() call for every k from 0 to polls+1, Canceled and DeadlineExceeded; observed result and number of Err() calls compared with the contract and with the Lean model; wrappers Validate/ValidateT/ValidateContext(Background) compared with ValidateTContext"),
    "C16": ("c07", "mut,race", "Gvlean.Props.C16", ["Props.c16_write_set", "Props.c16_helpers_pure", "Props.c16_template"], ["mut", "unknown"],
            "the random Clean structs of C07; deep snapshot of the receiver (slice/map contents, pointer targets) before and after two Validate() calls, results compared, Value of every exported sentinel checked unset; statement forms of the generated file outside the template grammar are reported; the compiled validators built with -race and called from 2, 8 and 64 goroutines x 40 iterations on shared values and on private copies (quick: first driver chunk, thorough: all); CEL-bearing structs raced from 8 goroutines with per-goroutine inputs, receivers rendered before/after"),
    "C17": ("all", "is,ctx", "Gvlean.Props.C17", ["Props.c17_recognizers", "Props.c17_validate", "Props.c17_validate_ctx", "Props.c17_nil_receiver"], ["panic"],
            "the rule x type matrix and random structs on the adversarial value lattice (zero, -1, min, max, NaN, +-Inf, nil, empty, invalid UTF-8, DEL/control bytes) under recover(): Validate, ValidateT, ValidateContext with every cancellation point, nil receiver"),
    "C19": ("all", "alloc", "Gvlean.Props.C19", ["Props.c19", "Props.c19_only_failing_branches", "Props.c19_template"], ["alloc"],
            "every (non-CEL marker, documented type) scenario and the random multi-field structs; testing.AllocsPerRun(20) around Validate(), ValidateT(t) and ValidateContext(Background) for every value whose observed result is nil"),
    "C09": ("c09", "", "Gvlean.Props.C09", ["Props.c09_never_accepted", "Props.c09_coverage", "Props.c09_inapplicable", "Props.c09_every_name", "Props.c09_nest_marker", "Props.c09_nest_marker_never_accepted", "Props.c09_nest_marker_rv", "Props.c09_nest_marker_specN", "Props.c09_specN_conservative", "Props.c09_specN_clean", "Props.c09_nest_required_struct_member"], ["spec", "gen_fail", "build"],
            "declaration shapes: struct-level vs per-field placement of the same markers on identical values, struct-level markers over fields of every type (inapplicable ones must be left unconstrained), 1..5 markers per field, up to 100 fields, fields before/after nested structs; markers on nested structs incl. `A, B struct{...}` declared inside another nested struct (multiset of (rule, value) against the Spec of the pushed-down declaration); prose after markers"),
}


def _gen_prop(pid):
    def run(res):
        family, modes, module, theorems, aspects, rule = GEN[pid]
        broken, model_ok = gen.prepare(res, module, theorems)
        if broken is None:
            return
        rows, hextra = gen.run_harness(family, res.tier, res.seed, modes)
        ev = gen.evaluate(rows, model_ok, aspects, exact_nest_paths=(pid == "C07"))
        pairs = [(r["decl_sexp"], v, o) for r in rows if r.get("obs") for v, o in zip(r["values"], r["obs"])]
        if pid == "C19":       # the valid path is what is measured
            nontriv = len(set((d, v) for d, v, o in pairs if o == "nil"))
        elif pid == "C15":     # schedules in which the context turns done before the last poll
            nontriv = ev["dist"].get("ctx:cancelled", 0)
        elif pid in ("C16", "C17"):
            nontriv = len(set((d, v) for d, v, o in pairs))
        else:
            nontriv = len(set((d, v) for d, v, o in pairs if o != "nil"))
        gen.fill_coverage(res, ev, rows, "corr-gen + corr-sem: " + rule + "; every scenario is generated by the real govalid binary built from the working tree, dumped structurally (go/parser), compiled and run; each (struct, value) is evaluated by the compiled Lean model (modeldrv) and by the Spec (specdrv); distinct by (declaration, value); non-trivial = at least one rule violated (C19: distinct values on the valid path; C15: schedules cancelled before the last poll; C16/C17: distinct (declaration, value) pairs)", nontriv)
        if pid == "C15":       # one evaluation per (struct, value, poll index, error kind) run through the real ValidateContext
            res.cov["evaluations"] = ev["nvalues"] + ev["dist"].get("ctx:cancelled", 0) + ev["dist"].get("ctx:undisturbed", 0)
        res.assumptions += ["Go values modelled by Gvlean/Go/Val.lean (ints as Int, floats as IEEE bit patterns decoded exactly)",
                            "marker parameters restricted to decimal literals representable in the field type"]
        if pid == "C17":
            # the hand-written recognizers on their own structured generators, under recover()
            n = 0
            for fn in ("uuid", "url", "email", "alpha", "numeric"):
                rows = rec.harness_rec(fn, res.tier, res.seed)
                n += len(rows)
                bad = [r for r in rows if r[2] == "panic"]
                if bad:
                    bad.sort(key=lambda r: len(r[1]))
                    res.violation("input", {"kind": "rec-input", "fn": fn, "hex": bad[0][1], "impl": "panic", "spec": "no panic (any verdict)",
                                            "input": bytes.fromhex(bad[0][1] if bad[0][1] != "-" else "").decode("utf-8", "replace"), "count": len(bad)}, True)
                    break
            res.cov["evaluations"] += n
            res.cov["distribution"]["recognizer-inputs-under-recover"] = n
        if pid == "C17" and not res.violations:
            cel.panic_check(res)
        if pid == "C07" and not res.violations:
            cel.extra_rule_check(res)
        if pid == "C15":
            cel.ctx_check(res)
        if pid == "C16":
            # repeatability of the runtime recognizers: every generated input twice, second time in another order
            import subprocess as _sp
            for fn in ("email", "url", "uuid", "alpha", "numeric"):
                q = _sp.run([gen.os.path.join(gen.C.BIN, "harness"), "rec-twice", fn, res.tier, str(res.seed)], stdout=_sp.PIPE, stderr=_sp.PIPE, text=True)
                if q.returncode != 0:
                    raise RuntimeError("harness rec-twice failed: " + q.stderr[-2000:])
                lines = [l.split("\t") for l in q.stdout.split("\n") if l]
                diffs = [l for l in lines if not l[0].startswith("summary")]
                for l in lines:
                    if l[0] == "summary-fresh":
                        res.cov["distribution"]["recognizer inputs evaluated as the first call of a fresh process (%s)" % fn] = int(l[2])
                    if l[0] == "summary":
                        res.cov["evaluations"] += 2 * int(l[2])
                        res.cov["distribution"]["recognizer inputs evaluated twice (%s)" % fn] = int(l[2])
                if diffs and not res.violations:
                    diffs.sort(key=lambda l: len(l[1]))
                    res.violation("repeat", {"kind": "rec-repeat", "fn": fn, "hex": diffs[0][1], "input": bytes.fromhex(diffs[0][1] if diffs[0][1] != "-" else "").decode("utf-8", "replace"),
                                             "first_call": diffs[0][2], "later_call": diffs[0][3], "count": len(diffs),
                                             "what": "the same input got different verdicts from two calls in one process (the recognizer keeps state)"}, True)
            rs = hextra.get("race")
            if rs is not None:
                res.cov["distribution"]["structs-raced (2, 8 and 64 goroutines, shared and private values, -race)"] = rs["packages"]
                res.cov["evaluations"] += rs["packages"]
                if rs["report"]:
                    res.violation("race", {"kind": "race", "what": "the race detector reported a data race (or the concurrent run failed) while 2/8/64 goroutines validated shared and private values of the generated structs",
                                           "detail": rs["report"][-6000:]}, True)
            if not res.violations:
                cel.race_check(res)
            if not res.violations:
                # the exported runtime helpers themselves, concurrently, with more than 1024 distinct CEL expressions
                import json as _json
                work = gen.C.scratch("gvhrace")
                try:
                    q = _sp.run([gen.os.path.join(gen.C.BIN, "harness"), "helpers-race", res.tier, work, gen.C.REPO], stdout=_sp.PIPE, stderr=_sp.PIPE, text=True, env=gen.C.goenv())
                    if q.returncode != 0:
                        raise RuntimeError("harness helpers-race failed: " + q.stderr[-2000:])
                    hr = _json.loads(q.stdout.strip().split("\n")[-1])
                finally:
                    gen.shutil.rmtree(work, ignore_errors=True)
                res.cov["distribution"]["runtime helpers raced (-race): goroutines x iterations"] = hr["goroutines"] * hr["iterations"]
                res.cov["distribution"]["distinct CEL expressions compiled by IsValidCEL in one process"] = hr["distinct_cel_expressions"]
                res.cov["distribution"]["fresh processes (cold start of every helper under contention)"] = hr.get("processes", 1)
                res.cov["evaluations"] += hr["goroutines"] * hr["iterations"]
                if not hr["ok"]:
                    res.violation("helpers-race", {"kind": "helpers-race", "what": "the exported runtime helpers (IsValidCEL with %d distinct expressions, IsValidEmail/URL/UUID/Alpha, IsNumeric) called from %d goroutines: %s" % (
                        hr["distinct_cel_expressions"], hr["goroutines"], "the race detector reported a data race" if hr["race"] else "a wrong verdict or a crash"),
                        "output": hr["output"][-6000:], "program": hr["program"]}, True)
        if not res.violations:
            gen.report(res, ev, broken, aspects)
    return run


def _c08(res):
    theorems = ["Props.c08_declared", "Props.c08_no_duplicate_key", "Props.c08_no_unused", "Props.c08_wf"]
    broken, model_ok = gen.prepare(res, "Gvlean.Props.C08", theorems)
    if broken is None:
        return
    rows, _ = gen.run_harness("c08", res.tier, res.seed, "is,iface,vet,together")
    ev = gen.evaluate(rows, model_ok, ["gen_fail", "build", "gofmt"])
    # "It defines ValidateT, ValidateTContext and the methods": a struct whose rules demand a validator and for which the
    # generator wrote NO file into the package (evaluate() records those under "spec")
    nofile = [x for x in ev["spec"] if isinstance(x[2], str) and x[2].startswith("no validator file generated")]
    if nofile:
        r, v, what, a = nofile[0]
        payload = {"kind": "gen-nofile", "count": len(nofile), "what": "generation succeeded but the package contains no validator file for this struct (no ValidateT / ValidateTContext / methods); a violating value: " + v[:300], "spec": a[:500]}
        payload.update(gen.short(r))
        res.violation("nofile", payload, True)
        return
    # model's well-formedness verdict vs the Go type checker's
    wf = gen.C.drive("modeldrv", ["wf\t" + r["decl_sexp"] for r in rows]) if model_ok and rows else [None] * len(rows)
    wf_ties, vet_notes = [], 0
    dist = ev["dist"]
    for r, a in zip(rows, wf):
        if r.get("vet") not in (None, "", "ok"):
            vet_notes += 1
        if a is None or not r.get("file"):
            continue
        dist["model:" + a.split(" ")[0]] = dist.get("model:" + a.split(" ")[0], 0) + 1
        if (a == "wf") != bool(r.get("builds")):
            wf_ties.append((r, a))
    gen.fill_coverage(res, ev, rows, "corr-gen on the C08 grammar: a fixed corpus of documented shapes (error-variable name collisions, equal field names in different nested structs, "
                      "struct-level markers over nested structs, multi-name nested structs, dotted-path collisions, enum items needing escaping) followed by random packages of 1-3 structs "
                      "with 1..40 fields, 0..5 markers per field, struct-level markers, nesting to depth 3; every package is generated by the real binary, gofmt -l, go build and go vet "
                      "are run on it together with a driver that asserts `var _ govalid.Validator = (*T)(nil)`, `var _ govalid.ContextValidator = (*T)(nil)` and the types of ValidateT / "
                      "ValidateTContext; the model's wfFile verdict is compared with the build result; distinct non-trivial = distinct declarations for which a validator file was generated and type-checked", len(set(r["decl_sexp"] for r in rows if r.get("file"))))
    res.cov["model_wf_vs_build_disagreements"] = len(wf_ties)
    res.cov["go_vet_style_notes"] = vet_notes
    res.assumptions += ["`type-checks` = go build of the package with the generated files and the assertion driver succeeds; go vet is run and its style diagnostics (e.g. `redundant and` for a duplicated enum item) are recorded but are not type errors",
                        "length / format rules on fields of NAMED string types and ordered rules on complex fields are outside the documented (marker, type) table"]

    def known_match(k, aspect, item):
        r = item if isinstance(item, dict) else item[0]
        return k.get("match", {}).get("decl_sexp") == r["decl_sexp"]
    if not cel.build_check(res):
        return
    ev2 = dict(ev)
    ev2["struct"] = [x for x in ev["struct"] if x[0].get("builds")]   # the dump of a file that does not compile is not meaningful
    gen.report(res, ev2, broken + ([("corr-gen-wf", "Gen.wfFile and go build disagree on %d declaration(s); first %s/%s: model %s, builds=%s\n%s" % (
        len(wf_ties), wf_ties[0][0]["scenario"], wf_ties[0][0]["decl"], wf_ties[0][1], wf_ties[0][0].get("builds"), wf_ties[0][0].get("build_err", "")[:600]))] if wf_ties else []),
        ["gen_fail", "build", "gofmt"], known_match)


TABLE = {
    **{pid: {"run": _gen_prop(pid), "replay": gen.replay, "level": "proof"} for pid in GEN},
    "C08": {"run": _c08, "replay": gen.replay, "level": "proof"},
    "C10": {"run": cel.run, "replay": cel.replay, "level": "proof"},
    "C14": {"run": iso.run, "replay": iso.replay, "level": "proof"},
    "C20": {"run": mw.run, "replay": mw.replay, "level": "proof"},
    "C18": {"run": mig.run, "replay": mig.replay, "level": "proof"},
    "C11": {"run": _c11, "replay": rec.replay, "level": "proof"},
    "C12": {"run": _c12, "replay": rec.replay, "level": "proof"},
    "C13": {"run": _c13, "replay": rec.replay, "level": "proof"},
}
