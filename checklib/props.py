"""Property table: which pipeline decides which property."""
from . import rec


def _c13(res):
    res.assumptions += ["Go int modelled as unbounded Int", "go2lean subset as in DESIGN Appendix D"]
    rec.run_rec_property(
        res, "uuid", "Gvlean.Props.C13",
        ["Props.c13", "Props.c13_grammar", "Props.c13_no_panic", "Props.c13_length"],
        nontrivial=lambda f, r: len(r[1]) == 72)


TABLE = {
    "C13": {"run": _c13, "replay": rec.replay, "level": "proof"},
}
