"""Property table: which pipeline decides which property."""
from . import rec


def _c13(res):
    res.assumptions += ["Go int modelled as unbounded Int", "go2lean subset as in DESIGN Appendix D"]
    rec.run_rec_property(
        res, "uuid", "Gvlean.Props.C13",
        ["Props.c13", "Props.c13_grammar", "Props.c13_no_panic", "Props.c13_length", "Props.c13_case"],
        nontrivial=lambda f, r: len(r[1]) == 72)


def _c12(res):
    res.assumptions += ["Go int modelled as unbounded Int", "go2lean subset as in DESIGN Appendix D",
                        "property text says 32 schemes; the documented/source table has 31 — the set is the meaning"]
    rec.run_rec_property(
        res, "url", "Gvlean.Props.C12",
        ["Props.c12", "Props.c12_no_panic", "Props.c12_forbidden", "Props.c12_tables"],
        nontrivial=lambda f, r: "3a" in r[1])


def _c11(res):
    res.assumptions += ["Go int modelled as unbounded Int", "go2lean subset as in DESIGN Appendix D",
                        "UTF-8 decoding of `for range` modelled by Gvlean/Go/Utf8.lean (validated by corr-rec utf8 lines in C03)"]
    rec.run_rec_property(
        res, "email", "Gvlean.Props.C11",
        ["Props.c11", "Props.c11_no_panic", "Props.c11_length", "Props.c11_non_ascii"],
        nontrivial=lambda f, r: "40" in [r[1][i:i + 2] for i in range(0, len(r[1]), 2)] and len(r[1]) >= 10)


TABLE = {
    "C11": {"run": _c11, "replay": rec.replay, "level": "proof"},
    "C12": {"run": _c12, "replay": rec.replay, "level": "proof"},
    "C13": {"run": _c13, "replay": rec.replay, "level": "proof"},
}
