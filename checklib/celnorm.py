"""Canonical form of a Go condition for the corr-cel text tie: white space and semicolons removed (gofmt
re-flows closures) and directly nested parentheses `((x))` collapsed to `(x)` (go/printer does that).
String literals are left untouched."""
import re


def _strip_ws(s):
    out, i, n = [], 0, len(s)
    while i < n:
        c = s[i]
        if c == '"':
            j = i + 1
            while j < n and s[j] != '"':
                j += 2 if s[j] == '\\' else 1
            out.append(s[i:j + 1])
            i = j + 1
            continue
        if c == '`':
            j = s.find('`', i + 1)
            j = n - 1 if j < 0 else j
            out.append(s[i:j + 1])
            i = j + 1
            continue
        if not c.isspace() and c != ';':
            out.append(c)
        i += 1
    return "".join(out)


def norm(s):
    s = _strip_ws(s)
    # match parentheses outside string literals
    while True:
        stack, match, i, n = [], {}, 0, len(s)
        while i < n:
            c = s[i]
            if c == '"':
                j = i + 1
                while j < n and s[j] != '"':
                    j += 2 if s[j] == '\\' else 1
                i = j + 1
                continue
            if c == '(':
                stack.append(i)
            elif c == ')' and stack:
                match[stack.pop()] = i
            i += 1
        drop = None
        for a, b in match.items():
            if a + 1 in match and match[a + 1] == b - 1:
                drop = (a, b)
                break
        if drop is None:
            return s
        a, b = drop
        s = s[:a] + s[a + 1:b] + s[b + 1:]
