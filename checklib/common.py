"""Shared machinery of ./check: environment, builds, Lean audit, evidence, violations."""
import fcntl
import json
import os
import re
import shutil
import subprocess
import sys
import tempfile
import time

VERIF = os.path.dirname(os.path.dirname(os.path.abspath(__file__)))
REPO = os.environ.get("VERIF_REPO", "/repo")
LEAN = os.path.join(VERIF, "lean")
GOMOD = os.path.join(VERIF, "go")
WORK = os.path.join(VERIF, ".work")
BIN = os.path.join(WORK, "bin")
EVID = os.path.join(VERIF, "evidence")
REPLAYS = os.path.join(VERIF, "replays")
LAKE_BIN = os.path.join(LEAN, ".lake", "build", "bin")

ALLOWED_AXIOMS = {"propext", "Quot.sound", "Classical.choice"}
FORBIDDEN = re.compile(r"\b(sorry|admit|native_decide|bv_decide|implemented_by)\b|^\s*axiom\s|\bunsafe\s|maxHeartbeats\s+0\b")


def goenv():
    e = dict(os.environ)
    e["GOFLAGS"] = "-mod=mod"
    e["GOPROXY"] = "off"
    e.pop("GOTOOLCHAIN", None)   # must stay `auto` (see DESIGN §8)
    e.pop("GOSUMDB", None)
    return e


def run(cmd, cwd=None, env=None, inp=None, timeout=None, check=False):
    p = subprocess.run(cmd, cwd=cwd, env=env, input=inp, stdout=subprocess.PIPE, stderr=subprocess.PIPE,
                       timeout=timeout, text=isinstance(inp, str) or inp is None)
    if check and p.returncode != 0:
        raise RuntimeError("command failed: %s\n%s\n%s" % (cmd, p.stdout, p.stderr))
    return p


class Lock:
    """One build at a time in /verif/lean/.lake and /verif/.work/bin."""

    def __enter__(self):
        os.makedirs(WORK, exist_ok=True)
        self.f = open(os.path.join(WORK, "lock"), "w")
        fcntl.flock(self.f, fcntl.LOCK_EX)
        return self

    def __exit__(self, *a):
        fcntl.flock(self.f, fcntl.LOCK_UN)
        self.f.close()


def scratch(prefix="gv"):
    base = os.environ.get("TMPDIR", "/tmp")
    return tempfile.mkdtemp(prefix=prefix + "-", dir=base)


_cache_hold = None


def ensure_disk(path="/tmp", need_gb=12):
    """Every run compiles hundreds of synthesized packages; Go's build cache keeps all of them (it reached 128 GB during
    development). When the volume runs low the cache is dropped — it only costs rebuild time, never a verdict. Dropping it
    while another check is building makes that build fail spuriously, so it happens only when no other check process is
    alive (exclusive lock on .work/cachelock; every check holds it shared for its lifetime)."""
    global _cache_hold
    os.makedirs(WORK, exist_ok=True)
    lockp = os.path.join(WORK, "cachelock")
    try:
        if shutil.disk_usage(path).free < need_gb << 30:
            f = open(lockp, "w")
            try:
                fcntl.flock(f, fcntl.LOCK_EX | fcntl.LOCK_NB)
                subprocess.run(["go", "clean", "-cache"], env=goenv(), stdout=subprocess.DEVNULL, stderr=subprocess.DEVNULL, timeout=1800)
            except OSError:
                pass
            finally:
                f.close()
    except Exception:
        pass
    if _cache_hold is None:
        _cache_hold = open(lockp, "w")
        fcntl.flock(_cache_hold, fcntl.LOCK_SH)


# ----------------------------------------------------------------------------- builds

def sync_gosum():
    """harness module needs /repo's go.sum (replace => /repo)."""
    src = os.path.join(REPO, "go.sum")
    dst = os.path.join(GOMOD, "go.sum")
    lines = set()
    for p in (src, os.path.join(REPO, "test", "go.sum")):
        if os.path.exists(p):
            lines.update(open(p).read().splitlines())
    want = "\n".join(sorted(lines)) + "\n"
    if not os.path.exists(dst) or open(dst).read() != want:
        open(dst, "w").write(want)


def build_go_tool(name):
    """Build /verif/go/cmd/<name> (links /repo's current working tree). Returns (ok, log)."""
    os.makedirs(BIN, exist_ok=True)
    sync_gosum()
    out = os.path.join(BIN, name)
    p = run(["go", "build", "-tags", "verif", "-o", out, "./cmd/" + name], cwd=GOMOD, env=goenv())
    return p.returncode == 0, p.stdout + p.stderr


def build_govalid():
    """Build the real generator from /repo's working tree. Returns (ok, log)."""
    os.makedirs(BIN, exist_ok=True)
    out = os.path.join(BIN, "govalid")
    if os.path.exists(out):
        os.remove(out)
    p = run(["go", "build", "-tags", "verif", "-o", out, "./cmd/govalid"], cwd=REPO, env=goenv())
    return p.returncode == 0, p.stdout + p.stderr


def regen_helpers():
    """Tie A: translate validationhelper/*.go → Gvlean/Generated/Helpers.lean. Returns (ok, log, changed)."""
    ok, log = build_go_tool("go2lean")
    if not ok:
        return False, "go2lean does not build:\n" + log, False
    dst = os.path.join(LEAN, "Gvlean", "Generated", "Helpers.lean")
    old = open(dst).read() if os.path.exists(dst) else ""
    tmp = dst + ".tmp"
    p = run([os.path.join(BIN, "go2lean"), os.path.join(REPO, "validation", "validationhelper"), tmp])
    if p.returncode != 0:
        if os.path.exists(tmp):
            os.remove(tmp)
        return False, "go2lean refused the source (fail closed):\n" + p.stderr, False
    new = open(tmp).read()
    if new != old:
        os.replace(tmp, dst)
    else:
        os.remove(tmp)
    return True, "", new != old


def lake_build(targets, timeout=1500):
    p = run(["lake", "build"] + targets, cwd=LEAN, timeout=timeout)
    return p.returncode == 0, p.stdout + p.stderr


def lean_errors(log, limit=12):
    lines = [l for l in log.splitlines() if l.startswith("error:") or "error:" in l[:60]]
    return lines[:limit]


def audit_axioms(module, theorems):
    """#print axioms for every theorem; returns (ok, {thm: [axioms]}, log)."""
    src = "import %s\n" % module + "".join("#print axioms %s\n" % t for t in theorems)
    d = scratch("audit")
    try:
        f = os.path.join(d, "Audit.lean")
        open(f, "w").write(src)
        p = run(["lake", "env", "lean", f], cwd=LEAN, timeout=600)
        res = {}
        txt = p.stdout + p.stderr
        for m in re.finditer(r"'([^']+)' depends on axioms: \[([^\]]*)\]", txt.replace("\n", " ")):
            res[m.group(1)] = [a.strip() for a in m.group(2).split(",") if a.strip()]
        for m in re.finditer(r"'([^']+)' does not depend on any axioms", txt):
            res[m.group(1)] = []
        ok = p.returncode == 0
        for t in theorems:
            if t not in res:
                ok = False
            elif not set(res[t]) <= ALLOWED_AXIOMS:
                ok = False
        return ok, res, txt
    finally:
        shutil.rmtree(d, ignore_errors=True)


def strip_comments(src):
    # block comments (nested not needed for our sources) then line comments
    src = re.sub(r"/-.*?-/", lambda m: "\n" * m.group(0).count("\n"), src, flags=re.S)
    src = re.sub(r"--.*", "", src)
    return src


def grep_forbidden(rel_files):
    bad = []
    for rf in rel_files:
        p = os.path.join(LEAN, rf)
        if not os.path.exists(p):
            continue
        for n, line in enumerate(strip_comments(open(p).read()).splitlines(), 1):
            if FORBIDDEN.search(line):
                bad.append("%s:%d: %s" % (rf, n, line.strip()))
    return bad


def lean_sources():
    res = []
    for root, _, files in os.walk(os.path.join(LEAN, "Gvlean")):
        for f in files:
            if f.endswith(".lean"):
                res.append(os.path.relpath(os.path.join(root, f), LEAN))
    return sorted(res)


def leanchecker(modules):
    p = run(["lake", "env", "leanchecker"] + modules, cwd=LEAN, timeout=1800)
    return p.returncode == 0, p.stdout + p.stderr


def drive(exe, lines):
    """Pipe request lines through a compiled Lean driver; returns list of answer lines."""
    p = subprocess.run([os.path.join(LAKE_BIN, exe)], input="\n".join(lines) + "\n", stdout=subprocess.PIPE,
                       stderr=subprocess.PIPE, text=True)
    if p.returncode != 0:
        raise RuntimeError("%s failed: %s" % (exe, p.stderr[:2000]))
    res = p.stdout.split("\n")
    if res and res[-1] == "":
        res.pop()
    if len(res) != len(lines):
        raise RuntimeError("%s answered %d lines for %d requests" % (exe, len(res), len(lines)))
    return res


# ----------------------------------------------------------------------------- results

class Result:
    def __init__(self, pid, tier, seed, level):
        self.pid, self.tier, self.seed, self.level = pid, tier, seed, level
        self.t0 = time.time()
        ensure_disk()
        self.violations = []          # (replay_path, found_input: bool, text)
        self.known = []               # KNOWN-FINDING lines
        self.cov = {"obligations": 0, "discharged": 0, "checker_cmd": "", "trusted_base": [],
                    "evaluations": 0, "distinct_nontrivial": 0, "rule": "", "samples": [], "distribution": {}}
        self.assumptions = []
        self.notes = []
        # replay files of earlier runs of this property are stale once a new run starts
        if os.path.isdir(REPLAYS):
            for f in os.listdir(REPLAYS):
                if f.startswith(pid + "-") and f.endswith(".json"):
                    os.remove(os.path.join(REPLAYS, f))

    def replay_path(self, tag):
        os.makedirs(REPLAYS, exist_ok=True)
        n = len(self.violations) + 1
        return os.path.join(REPLAYS, "%s-%s-%d.json" % (self.pid, tag, n))

    def violation(self, tag, payload, found_input):
        path = self.replay_path(tag)
        payload = dict(payload)
        payload["property"] = self.pid
        payload["found_failing_input"] = found_input
        payload["tier"], payload["seed"] = self.tier, self.seed
        json.dump(payload, open(path, "w"), indent=1)
        self.violations.append((path, found_input))

    def finish(self):
        if getattr(self, "replaying", False):
            return 1 if self.violations else 0      # a replay does not rewrite the evidence file
        os.makedirs(EVID, exist_ok=True)
        ev = {"property_id": self.pid, "tier": self.tier, "seed": self.seed, "level": self.level,
              "coverage": self.cov, "assumptions": self.assumptions, "wall_s": round(time.time() - self.t0, 2),
              "violations": len(self.violations)}
        if self.notes:
            ev["coverage"]["notes"] = self.notes
        json.dump(ev, open(os.path.join(EVID, self.pid + ".json"), "w"), indent=1)
        for k in self.known:
            print("KNOWN-FINDING: property=%s %s" % (self.pid, k))
        for path, found in self.violations:
            print("VIOLATION property=%s replay=%s%s" % (self.pid, path, "" if found else " no-failing-input-found"))
        sys.stdout.flush()
        return 1 if self.violations else 0


def load_known():
    p = os.path.join(VERIF, "known_findings.json")
    if not os.path.exists(p):
        return {"findings": [], "fixed": []}
    return json.load(open(p))


def replay_key(d):
    """what identifies a failing input inside a replay file"""
    k = d.get("kind", "")
    if k.startswith("gen-"):
        det = d.get("detail")
        return (k, d.get("decl_sexp"), det[0] if isinstance(det, list) and det else None)
    if k in ("rec-input", "rec-input-seq"):
        return (k, d.get("fn"), d.get("hex"))
    if k == "cel":
        return (k, d.get("type"), d.get("expression"), d.get("binding"))
    if k in ("ctx-cel", "mut"):
        return (k, d.get("type"), d.get("expression"))
    if k == "mig":
        return (k, d.get("source"))
    if k == "mw":
        return (k, d.get("type"), d.get("variant"), d.get("body"), d.get("ctx"), d.get("mode"))
    if k.startswith("iso-"):
        return (k, d.get("pkg"), d.get("file"), d.get("configuration"))
    return (k,)
