"""C18: theorems about Mig.migrate / Gen.parseMarkerComment + corr-mig against the real `govalid migrate`
and the real generator on synthesized files (histories: dry-run, migrate, migrate)."""
import json
import os
import shutil
import subprocess

from . import common as C
from . import gen

TRUSTED = [
    "Lean 4.33.0 kernel (lake build; thorough: leanchecker on the property modules)",
    "axioms allowed: propext, Quot.sound, Classical.choice (audited by #print axioms this run)",
    "hand-written models: Gvlean/Gen/Migrate.lean (migrateFile + the part of go/scanner that decides where comments, strings, raw strings, runes start and end) and Gvlean/Gen/Decl.lean parseMarkerComment — validated this run by corr-mig (bytes and counts of the real binary) and corr-gen",
    "uninterpreted / observed only: file system effects (--dry-run writes nothing, no other file touched), packages.Load file discovery, go/scanner on malformed source, the generator run on the migrated package (byte comparison of its output)",
]


def run_harness(tier, seed):
    work = C.scratch("gvmig")
    try:
        p = subprocess.run([os.path.join(C.BIN, "harness"), "mig", tier, str(seed), work, os.path.join(C.BIN, "govalid"), C.REPO],
                           stdout=subprocess.PIPE, stderr=subprocess.PIPE, text=True, env=C.goenv())
        if p.returncode != 0:
            raise RuntimeError("harness mig failed: " + p.stderr[-3000:])
        return [json.loads(l) for l in p.stdout.split("\n") if l.strip()]
    finally:
        shutil.rmtree(work, ignore_errors=True)


def unhex(h):
    return bytes.fromhex(h).decode("utf-8", "replace") if h else ""


def run(res):
    theorems = ["Props.c18_spelling", "Props.c18_respell_parse", "Props.c18_lines", "Props.c18_line", "Props.c18_lookalike",
                "Props.c18_raw_string", "Props.c18_block_comment", "Props.c18_not_first", "Props.c18_state", "Props.c18_noop",
                "Props.c18_idempotent", "Props.c18_iterate"]
    broken, model_ok = gen.prepare(res, "Gvlean.Props.C18", theorems)
    if broken is None:
        return
    res.cov["trusted_base"] = TRUSTED
    rows = run_harness(res.tier, res.seed)
    model = C.drive("modeldrv", ["mig\t" + r["before"] for r in rows]) if model_ok else [None] * len(rows)
    concrete, ties = [], []
    dist = {"files": len(rows), "crlf": 0, "no_final_newline": 0, "with_raw_lookalike": 0, "with_block_lookalike": 0,
            "legacy_lines": 0, "rewritten_lines": 0, "files_without_legacy": 0}
    for r, m in zip(rows, model):
        before = unhex(r["before"])
        dist["crlf"] += "\r\n" in before
        dist["no_final_newline"] += not before.endswith("\n")
        dist["with_raw_lookalike"] += "`\n" in before or "`\r\n" in before
        dist["with_block_lookalike"] += "/*" in before
        dist["legacy_lines"] += r["legacy"]
        dist["rewritten_lines"] += r["count"]
        dist["files_without_legacy"] += r["legacy"] == 0
        why = []
        if r.get("err"):
            why.append("tool or generator failed: " + r["err"][:500])
        if r["after"] != r["fresh"]:
            why.append("migrate did not rewrite exactly the legacy marker comment lines (after != the file with exactly those lines respelled)")
        if r["count"] != r["legacy"]:
            why.append("reported count %d != number of legacy marker comment lines %d" % (r["count"], r["legacy"]))
        if r["dry_changed"]:
            why.append("--dry-run modified the file")
        if r["dry_count"] != r["count"]:
            why.append("--dry-run announced %d, migrate did %d" % (r["dry_count"], r["count"]))
        if r["second_count"] != 0 or r["after2"] != r["after"]:
            why.append("not idempotent: second migrate changed %d marker(s)" % r["second_count"])
        if not r["gen_before"]:
            why.append("generator produced nothing for the legacy spelling")
        if r["gen_before"] != r["gen_new"]:
            why.append("generated code differs between the legacy and the new spelling of the same file")
        if r["gen_before"] != r["gen_after"]:
            why.append("generated code changed by migration")
        if r["other_files"]:
            why.append("migrate touched other files: " + r["other_files"])
        if r.get("siblings"):
            why.append("sibling files of the same migrate run (a_first.go: real legacy markers on every line 4..163; z_last.go: look-alikes inside a raw string on every line 4..163): " + r["siblings"])
        if not r["tokens_same"]:
            why.append("Go token stream (comments excluded) changed")
        if why:
            concrete.append((r, why))
        if m is not None:
            want = "%s\t%d" % (r["after"] or "-", r["count"])
            if m != want:
                ties.append((r, m, want))
    res.cov["evaluations"] = len(rows)
    res.cov["distinct_nontrivial"] = sum(1 for r in rows if r["count"] > 0)
    res.cov["distribution"] = dist
    res.cov["model_vs_impl_disagreements"] = len(ties)
    res.cov["impl_vs_spec_disagreements"] = len(concrete)
    res.cov["rule"] = ("corr-mig: hand-written corner corpus first (incl. a legacy marker as the unterminated LAST line of LF and CRLF files), then random files with legacy/new/mixed spellings, tabs/spaces indentation, CRLF, "
                       "missing final newline, look-alikes in raw strings, block comments, interpreted strings, trailing comments, prose, expressions with '=' and '+'; "
                       "history per file: generate, dry-run, migrate, migrate, generate; the real bytes/counts are compared with Mig.migrate (modeldrv) and with the "
                       "independent expectation (the generator of the file knows which lines are marker comments); non-trivial = at least one line rewritten")
    res.cov["samples"] = ["theorem Props.c18_idempotent", "theorem Props.c18_spelling"] + [
        {"before": unhex(r["before"])[:300], "count": r["count"]} for r in rows[:3]]
    res.assumptions += ["source files are valid UTF-8 Go files (the model works on code points, the tool on bytes; the prefixes are ASCII)"]
    known = [k for k in C.load_known().get("findings", []) if k.get("property") == res.pid]
    unlisted = []
    for r, why in concrete:
        kk = [k for k in known if k.get("match", {}).get("before") == r["before"]]
        if kk:
            if kk[0]["what"] not in res.known:
                res.known.append(kk[0]["what"])
        else:
            unlisted.append((r, why))
    if unlisted:
        r, why = unlisted[0]
        res.violation("mig", {"kind": "mig", "id": r["id"], "why": why, "count": len(unlisted), "source": unhex(r["before"]),
                              "after": unhex(r["after"]), "expected": unhex(r["fresh"]), "row": {k: r[k] for k in r if k not in ("gen_before", "gen_after", "gen_new")},
                              "broken": [b[0] for b in broken]}, True)
        return
    allb = list(broken)
    if ties:
        r, m, want = ties[0]
        allb.append(("corr-mig", "Mig.migrate and the real binary disagree on %d file(s); first %s:\n source: %r\n impl : %s\n model: %s" % (
            len(ties), r["id"], unhex(r["before"])[:1500], want[:600], m[:600])))
    if allb:
        res.violation("unproved", {"kind": "unproved", "broken": [{"what": b[0], "detail": b[1][-4000:]} for b in allb],
                                   "note": "theorem / correspondence no longer checks; the impl-vs-expectation comparison over every generated file of this run found no failing input"}, False)


def replay(path):
    d = json.load(open(path))
    print(json.dumps(d, indent=1)[:8000])
    return 0
