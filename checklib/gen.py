"""Generator properties (C01–C09, C15–C17, C19): theorems about the regenerated facts + hand model,
corr-gen (structure) and corr-sem (behaviour) against the real binary, impl-vs-Spec search."""
import json
import os
import shutil
import subprocess

from . import common as C

TRUSTED = [
    "Lean 4.33.0 kernel (lake build; thorough: leanchecker on the property modules)",
    "axioms allowed: propext, Quot.sound, Classical.choice (audited by #print axioms this run)",
    "rulefacts extractor /verif/go/cmd/rulefacts (fail-closed; emitted conditions, guards, zero table, names — regenerated this run) and go2lean translator (helpers)",
    "hand-written models: Gvlean/Gen/Model.lean (analyzeMarker, factories' control flow, template), Gvlean/Gen/Eval.lean (Go operator semantics on field values), Gvlean/Gen/Exec.lean — validated this run by corr-gen and corr-sem against the real govalid binary and the compiled output",
    "uninterpreted: Go compiler/runtime, go/types, gofmt, goimports, net.ParseIP/To4 (oracle), strconv.Quote/unquote round trip",
]


def regen_facts():
    ok, log = C.build_go_tool("rulefacts")
    if not ok:
        return False, "rulefacts does not build:\n" + log, False
    dst = os.path.join(C.LEAN, "Gvlean", "Generated", "RuleFacts.lean")
    old = open(dst).read() if os.path.exists(dst) else ""
    tmp = dst + ".tmp"
    p = C.run([os.path.join(C.BIN, "rulefacts"), C.REPO, tmp])
    if p.returncode != 0:
        if os.path.exists(tmp):
            os.remove(tmp)
        return False, "rulefacts refused the source (fail closed):\n" + p.stderr, False
    new = open(tmp).read()
    if new != old:
        os.replace(tmp, dst)
    else:
        os.remove(tmp)
    return True, "", new != old


def prepare(res, props_module, theorems):
    """Steps 1-2 of DESIGN §3. Returns (broken list, model_ok)."""
    broken = []
    with C.Lock():
        ok, log = C.build_go_tool("harness")
        if not ok:
            res.violation("build", {"kind": "build", "what": "harness does not build against /repo", "log": log[-4000:]}, False)
            return None, False
        ok, log = C.build_govalid()
        if not ok:
            res.violation("build", {"kind": "build", "what": "cmd/govalid does not build", "log": log[-4000:]}, False)
            return None, False
        ok, log, ch1 = C.regen_helpers()
        if not ok:
            broken.append(("translator", log))
        ok, log, ch2 = regen_facts()
        if not ok:
            broken.append(("extractor", log))
        res.cov["regenerated"] = {"Helpers.lean": "changed" if ch1 else "unchanged", "RuleFacts.lean": "changed" if ch2 else "unchanged"}
        ok_s, log_s = C.lake_build(["specdrv"])
        if not ok_s:
            raise RuntimeError("specdrv does not build — machinery bug:\n" + log_s[-3000:])
        model_ok = False
        if not broken:
            ok_p, log_p = C.lake_build([props_module])
            if not ok_p:
                broken.append(("theorem", "lake build %s failed:\n%s" % (props_module, "\n".join(C.lean_errors(log_p, 20)) or log_p[-3000:])))
            ok_m, log_m = C.lake_build(["modeldrv"])
            model_ok = ok_m
            if not ok_m and ok_p:
                broken.append(("modeldrv", log_m[-3000:]))
        discharged = 0
        if not broken:
            ok_a, axioms, alog = C.audit_axioms(props_module, theorems)
            discharged = sum(1 for t in theorems if t in axioms and set(axioms[t]) <= C.ALLOWED_AXIOMS)
            res.cov["axioms"] = axioms
            if not ok_a:
                broken.append(("axiom-audit", alog[-3000:]))
            bad = C.grep_forbidden(C.lean_sources())
            if bad:
                broken.append(("forbidden-token", "\n".join(bad)))
            if res.tier == "thorough":
                ok_c, clog = C.leanchecker([props_module])
                res.cov["leanchecker"] = "ok" if ok_c else "FAILED"
                if not ok_c:
                    broken.append(("leanchecker", clog[-3000:]))
    res.cov["obligations"] = len(theorems)
    res.cov["discharged"] = discharged
    res.cov["checker_cmd"] = "cd /verif/lean && lake build %s && lake env lean <#print axioms %s>" % (props_module, " ".join(theorems))
    res.cov["trusted_base"] = TRUSTED
    res.cov["theorems"] = theorems
    return broken, model_ok


def run_harness(family, tier, seed, modes):
    work = C.scratch("gvscen")
    try:
        p = subprocess.run([os.path.join(C.BIN, "harness"), "gen", family, tier, str(seed), work, os.path.join(C.BIN, "govalid"), C.REPO, modes],
                           stdout=subprocess.PIPE, stderr=subprocess.PIPE, text=True, env=C.goenv())
        if p.returncode != 0:
            raise RuntimeError("harness gen failed: " + p.stderr[-3000:])
        allrows = [json.loads(l) for l in p.stdout.split("\n") if l.strip()]
        rows = [r for r in allrows if "decl" in r]
        extra = {}
        for r in allrows:
            if "race_summary" in r:
                extra["race"] = r["race_summary"]
        return rows, extra
    finally:
        shutil.rmtree(work, ignore_errors=True)


def parse_extra(e):
    d = {}
    for x in (e or "").split(";"):
        if "=" in x:
            k, v = x.split("=", 1)
            d[k] = v
    return d


def entries(outcome):
    """'report a|b|c d|e|f' → sorted list (the property fixes no order: multiset comparison)"""
    if not outcome.startswith("report "):
        return None
    return sorted(outcome[len("report "):].split(" "))


def same_report(a, b):
    ea, eb = entries(a), entries(b)
    if ea is None or eb is None:
        return a == b
    return ea == eb


def same_rules(a, b):
    """the same multiset of (rule, value) entries, whatever their Path: used for structs in which a nested-struct field carries
    markers (the rules handed down to its direct fields are reported with a Path that omits the struct's name — known finding)"""
    ea, eb = entries(a), entries(b)
    if ea is None or eb is None:
        return a == b
    return sorted(e.split("|", 1)[1] for e in ea) == sorted(e.split("|", 1)[1] for e in eb)


def evaluate(rows, model_ok, want, exact_nest_paths=False):
    """Compare implementation, model and Spec on every scenario. `want`: set of aspects."""
    out = {"gen_fail": [], "unknown": [], "struct": [], "build": [], "gofmt": [], "sem": [], "spec": [], "is": [], "wrappers": [],
           "ctx": [], "ctx_model": [], "ctx_tie": [], "nilrecv": [], "mut": [], "alloc": [], "panic": [], "undef": 0, "nvalues": 0, "ndecls": len(rows),
           "nfiles": 0, "dist": {}}
    dist = out["dist"]

    def bump(k):
        dist[k] = dist.get(k, 0) + 1
    gen_reqs = ["gen\t" + r["decl_sexp"] for r in rows]
    gen_ans = C.drive("modeldrv", gen_reqs) if model_ok and rows else [None] * len(rows)
    sem_reqs, spec_reqs, idx = [], [], []
    xcheck_reqs, xcheck_idx = [], []
    for ri, r in enumerate(rows):
        if r.get("gen_exit"):
            out["gen_fail"].append(r)
        if r.get("unknown"):
            out["unknown"].append(r)
        if r.get("file"):
            out["nfiles"] += 1
            if not r.get("builds"):
                out["build"].append(r)
            if not r.get("gofmt"):
                out["gofmt"].append(r)
        impl_struct = (r.get("dump", "") + " ; " + r.get("sents", "") + " ; polls=%d" % r.get("polls", 0)) if r.get("file") else "none"
        if gen_ans[ri] is not None and gen_ans[ri] != impl_struct and not r.get("canon_sexp"):
            out["struct"].append((r, impl_struct, gen_ans[ri]))          # (the models only read decimal parameters: spelled variants are decided by the Spec alone)
        if not r.get("obs"):
            continue
        for vi, (v, o) in enumerate(zip(r["values"], r["obs"])):
            sem_reqs.append("sem\t%s\tbg\t%s" % (r["decl_sexp"], v))
            # a nested struct carrying markers: the Spec WITH such markers (Spec.violatedN) is asked about the declaration as written
            # (an unusually spelled marker parameter: the Spec is asked about the declaration with plain decimal parameters)
            spec_reqs.append(("specn\t%s\t%s" if r.get("spec_sexp") else "spec\t%s\t%s") % (r.get("canon_sexp") or r["decl_sexp"], v))
            if r.get("spec_sexp"):
                xcheck_reqs.append("spec\t%s\t%s" % (r["spec_sexp"], v))
                xcheck_idx.append(len(idx))
            idx.append((ri, vi))
    out["nvalues"] = len(idx)
    # a struct for which the generator wrote NO validator although the Spec has rules for it: every violating
    # value is silently accepted (there is not even a Validate method)
    nofile = [r for r in rows if not r.get("file") and not r.get("gen_exit") and r.get("values")]
    if nofile:
        polls = C.drive("specdrv", ["polls\t" + (r.get("spec_sexp") or r.get("canon_sexp") or r["decl_sexp"]) for r in nofile])
        cand = [r for r, p in zip(nofile, polls) if p.isdigit() and int(p) > 0]
        reqs2, owner = [], []
        for r in cand:
            for v in r["values"]:
                reqs2.append("spec\t%s\t%s" % (r.get("spec_sexp") or r.get("canon_sexp") or r["decl_sexp"], v))
                owner.append((r, v))
        if reqs2:
            for (r, v), a in zip(owner, C.drive("specdrv", reqs2)):
                if a.startswith("report "):
                    out["spec"].append((r, v, "no validator file generated: the value is never checked", a))
                    break
    sem_ans = C.drive("modeldrv", sem_reqs) if model_ok and sem_reqs else [None] * len(sem_reqs)
    spec_ans = C.drive("specdrv", spec_reqs) if spec_reqs else []
    # cross-check of the Spec with markers on nested structs: the harness' own push-down of those markers onto the direct
    # fields, asked of the plain Spec, must demand the same (rule, value) entries
    out["spec_xcheck"] = []
    if xcheck_reqs:
        for k, a in zip(xcheck_idx, C.drive("specdrv", xcheck_reqs)):
            if not same_rules(a, spec_ans[k]):
                ri, vi = idx[k]
                out["spec_xcheck"].append((rows[ri], rows[ri]["values"][vi], spec_ans[k], a))
    ctx_reqs, ctx_exp = [], []
    # C15: the Spec's number of validated fields (one cancellation point each), independent of the implementation
    poll_rows = [r for r in rows if r.get("file")]
    spec_polls = {}
    if "ctx" in want and poll_rows:
        for r, a in zip(poll_rows, C.drive("specdrv", ["polls\t" + (r.get("spec_sexp") or r["decl_sexp"]) for r in poll_rows])):
            spec_polls[(r["scenario"], r["decl"])] = int(a)
            if int(a) != r.get("polls", 0):
                # the STRUCTURE of the output is not the modelled one (another poll form, another number of polls): a broken tie;
                # whether the contract fails is decided behaviourally below, by what the instrumented context observed
                out["ctx_tie"].append((r, "-", "polls", "the structural dump recognises %d polls of the modelled form" % r.get("polls", 0), "-", "one cancellation point per validated field: %s" % a, a))
    for (ri, vi), sa, pa in zip(idx, sem_ans, spec_ans):
        r = rows[ri]
        o = r["obs"][vi]
        v = r["values"][vi]
        bump("outcome:" + o.split(" ")[0].split(":")[0])
        if o == "panic":
            out["panic"].append((r, v, "Validate()"))
        if sa is not None and not same_report(sa, o) and not r.get("canon_sexp"):
            out["sem"].append((r, v, o, sa))
        if pa == "undef":
            out["undef"] += 1
        elif not (same_rules(pa, o) if (r.get("spec_sexp") and not exact_nest_paths) else same_report(pa, o)):
            out["spec"].append((r, v, o, pa))
        ex = parse_extra(r["extra"][vi] if r.get("extra") else "")
        if "is" in ex:
            # sentinels in file order: ErrNil<T>, then every Err* var; expected bit from the OBSERVED report
            names = ["ErrNil" + r["decl"]] + [n for n in r["errvars"] if n != "ErrNil" + r["decl"]]
            info = {}
            for s in (r.get("sents") or "").replace("(sentinel ", "").split(")"):
                parts = s.strip().split(" ")
                if len(parts) == 4:
                    info[parts[0]] = (parts[2], parts[3])
                    if parts[1] != "-":
                        info[parts[1]] = (parts[2], parts[3])
            es = entries(o) or []
            keys = set(tuple(e.split("|")[:2]) for e in es)
            exp = ""
            for n in names:
                if n == "ErrNil" + r["decl"]:
                    exp += "0"
                else:
                    exp += "1" if info.get(n) in keys else "0"
            if ex["is"] != exp:
                out["is"].append((r, v, o, ex["is"], exp, names))
            if ex.get("foreign") == "true":
                out["is"].append((r, v, o, "errors.Is(report, <an unrelated error>) = true", "false", ["io.EOF", "context.Canceled", "context.DeadlineExceeded", "errors.New(…)", "a ValidationError with another Path/Type"]))
            for k in ("fn", "bg", "fnbg"):
                if k in ex and ex[k] != o:
                    out["wrappers"].append((r, v, o, k, ex[k]))
                if ex.get(k) == "panic":
                    out["panic"].append((r, v, k))
        P = spec_polls.get((r["scenario"], r["decl"]), r.get("polls", 0))
        for k, val in ex.items():
            if k.startswith("ctx") and k[3:-1].isdigit():
                K = int(k[3:-1])
                kind = "canceled" if k[-1] == "c" else "deadline"
                got, calls = val.rsplit("#", 1)
                # C15, stated outright and independently of the form of the poll: the context returns nil to its first K Err()
                # calls and the error from then on, so the run OBSERVED it done iff it made more than K calls. Observed => exactly
                # that error; not observed => the result of Validate(); and with one cancellation point per validated field
                # (P of them, the Spec's count) every K < P must be observed.
                observed = int(calls) > K
                exp = ("ctx:" + kind) if (observed or K < P) else o
                exp_calls = (K + 2) if K < P else P          # the MODEL's number of calls (poll form `if ctx.Err() != nil { return ctx.Err() }`)
                bump("ctx:" + ("cancelled" if K < P else "undisturbed"))
                if got == "panic":
                    out["panic"].append((r, v, k))
                if not same_report(got, exp):
                    out["ctx"].append((r, v, k, got, calls, exp, "observed done" if observed else ("not observed although %d cancellation points are due" % P if K < P else "not observed")))
                elif int(calls) != exp_calls:
                    out["ctx_tie"].append((r, v, k, got, calls, exp, exp_calls))
                if model_ok:
                    ctx_reqs.append("sem\t%s\t%d:%s\t%s" % (r["decl_sexp"], K, kind, v))
                    ctx_exp.append((r, v, k, got))
        if "mut" in ex and (ex["mut"] != "false" or ex.get("rep") != "true" or ex.get("sentunset") != "true"):
            out["mut"].append((r, v, ex))
        if "alloc" in ex:
            bump("alloc:" + ex["alloc"])
            if ex["alloc"] != "0/0/0":
                out["alloc"].append((r, v, ex["alloc"]))
    if ctx_reqs:
        for (r, v, k, got), a in zip(ctx_exp, C.drive("modeldrv", ctx_reqs)):
            if not same_report(a, got):
                out["ctx_model"].append((r, v, k, got, a))
    for r in rows:
        if r.get("altalloc"):
            bump("alloc:alternating-values")
            if not r["altalloc"].startswith("0 "):
                out["alloc"].append((r, "all valid values of the run validated in turn inside one measured function (Validate and ValidateContext(Background) each)", r["altalloc"] + " allocations per pass"))
        if r.get("nilrecv"):
            o, ex = r["nilrecv"].split("\t", 1)
            exd = parse_extra(ex)
            n = 1 + len([x for x in r["errvars"] if x != "ErrNil" + r["decl"]])
            if o != "nilrecv" or exd.get("is") != "1" + "0" * (n - 1) or exd.get("ctx") != "nilrecv":
                out["nilrecv"].append((r, o, ex))
            if o == "panic" or exd.get("ctx") == "panic":
                out["panic"].append((r, "nilrecv", "nil receiver"))
    return out


def short(r):
    d = {"scenario": r["scenario"], "decl": r["decl"], "decl_sexp": r["decl_sexp"], "source": r.get("source", "")[:4000]}
    if r.get("history"):
        d["history_generated_first_in_the_same_directory"] = r["history"][:6000]
    if r.get("canon_sexp"):
        d["spec_asked_about_decimal_spelling"] = r["canon_sexp"][:2000]
    if r.get("spec_sexp"):
        d["note"] = "a nested-struct field carries markers: compared as a multiset of (rule, value) entries with the Spec of the declaration in which those markers are written on the direct fields of that struct"
    return d


def report(res, ev, broken, aspects, known_match=None):
    """Turn the evaluation into VIOLATION / KNOWN-FINDING lines for this property.
    aspects: list of keys of `ev` that are violations of THIS property when non-empty (concrete replays);
    'struct' and 'sem' are model-vs-implementation disagreements (ties), never violations by themselves."""
    known = [k for k in C.load_known().get("findings", []) if k.get("property") == res.pid or res.pid in k.get("also_seen_by", [])]
    if known_match is None:
        def known_match(k, a, item):
            r = item if isinstance(item, dict) else item[0]
            if k.get("match", {}).get("decl_sexp") != r["decl_sexp"]:
                return False
            obs = k.get("match", {}).get("observed")      # the finding is THIS wrong behaviour, not any failure on the declaration
            return obs is None or (not isinstance(item, dict) and any(obs in str(x) for x in item[1:]))
    # declarations of known findings deviate by definition: they are not evidence against the model either
    known_decls = set(k.get("match", {}).get("decl_sexp") for k in C.load_known().get("findings", []))
    for key in ("struct", "sem", "ctx_model", "ctx_tie"):
        ev[key] = [x for x in ev.get(key, []) if x[0]["decl_sexp"] not in known_decls]
    concrete = []
    for a in aspects:
        for item in ev.get(a, []):
            concrete.append((a, item))
    unlisted = []
    for a, item in concrete:
        r = item if isinstance(item, dict) else item[0]
        kk = [k for k in known if known_match(k, a, item)]
        if kk:
            if kk[0]["what"] not in res.known:
                res.known.append(kk[0]["what"])
        else:
            unlisted.append((a, item))
    if unlisted:
        a, item = unlisted[0]
        r = item if isinstance(item, dict) else item[0]
        payload = {"kind": "gen-" + a, "aspect": a, "count": len(unlisted), "broken": [b[0] for b in broken]}
        payload.update(short(r))
        if not isinstance(item, dict):
            payload["detail"] = [x if isinstance(x, (str, int, float, list)) else str(x)[:500] for x in item[1:]]
        else:
            payload["detail"] = {k: item.get(k) for k in ("gen_exit", "gen_err", "unknown", "build_err", "gofmt") if item.get(k)}
        res.violation(a, payload, True)
        return
    ties = []
    if ev["struct"]:
        r, impl, model = ev["struct"][0]
        ties.append(("corr-gen", "model and real generator disagree on %s/%s (%d decls):\n impl : %s\n model: %s" % (r["scenario"], r["decl"], len(ev["struct"]), impl[:1500], model[:1500])))
    if ev["sem"]:
        r, v, o, sa = ev["sem"][0]
        ties.append(("corr-sem", "model and compiled output disagree on %s/%s value %s (%d cases):\n impl : %s\n model: %s" % (r["scenario"], r["decl"], v[:300], len(ev["sem"]), o[:500], sa[:500])))
    if ev.get("spec_xcheck"):
        r, v, a1, a2 = ev["spec_xcheck"][0]
        ties.append(("spec-nest-markers", "Spec.violatedN (Lean) and the harness' push-down of nested-struct markers disagree on %s/%s value %s (%d cases):\n violatedN: %s\n push-down: %s" % (
            r["scenario"], r["decl"], v[:300], len(ev["spec_xcheck"]), a1[:500], a2[:500])))
    if ev["ctx_model"] and "ctx" in aspects:
        r, v, k, got, a = ev["ctx_model"][0]
        ties.append(("corr-sem-ctx", "model and compiled output disagree under %s on %s/%s: impl %s model %s" % (k, r["scenario"], r["decl"], got[:200], a[:200])))
    if ev.get("unknown") and "ctx" in aspects and "unknown" not in aspects:
        # C15: an output with statement forms outside the modelled template is not covered by the theorems (a broken tie); whether
        # the context contract fails on it is decided by the behavioural comparison above
        r = ev["unknown"][0]
        ties.append(("corr-gen-forms", "the output of %s/%s has statement forms outside the modelled template (%d decls): %s" % (
            r["scenario"], r["decl"], len(ev["unknown"]), " | ".join(str(u)[:300] for u in (r.get("unknown") or [])[:3]))))
    if ev.get("ctx_tie") and "ctx" in aspects:
        x = ev["ctx_tie"][0]
        r = x[0]
        ties.append(("corr-sem-ctx-calls", "the output of %s/%s is not of the modelled poll form (%d cases): %s" % (r["scenario"], r["decl"], len(ev["ctx_tie"]), " | ".join(str(y)[:200] for y in x[1:]))))
    allb = list(broken) + ties
    if allb:
        res.violation("unproved", {"kind": "unproved", "broken": [{"what": b[0], "detail": b[1][-4000:]} for b in allb],
                                   "note": "theorem / regenerated facts / correspondence no longer checks; the impl-vs-Spec comparison over every generated scenario of this run found no failing input"}, False)


def fill_coverage(res, ev, rows, rule, nontrivial):
    res.cov["evaluations"] = ev["nvalues"]
    res.cov["distinct_nontrivial"] = nontrivial
    res.cov["programs"] = ev["ndecls"]
    res.cov["generated_files"] = ev["nfiles"]
    res.cov["distribution"] = ev["dist"]
    res.cov["spec_undefined"] = ev["undef"]
    res.cov["rule"] = rule
    res.cov["model_vs_impl_structure_disagreements"] = len(ev["struct"])
    res.cov["model_vs_impl_behaviour_disagreements"] = len(ev["sem"])
    res.cov["impl_vs_spec_disagreements"] = len(ev["spec"])
    samples = ["theorem " + t for t in res.cov.get("theorems", [])[:2]]
    for r in rows:
        if r.get("obs"):
            samples.append({"decl": r["decl_sexp"][:300], "emitted": r.get("dump", "")[:300], "value": r["values"][0][:200], "observed": r["obs"][0][:200]})
            if len(samples) >= 5:
                break
    res.cov["samples"] = samples


def replay(path):
    d = json.load(open(path))
    print(json.dumps(d, indent=1)[:6000])
    return 0
