"""C20: theorems about the REGENERATED handler programs (mwfacts) + corr-mw against the real middleware."""
import json
import os
import shutil
import subprocess

from . import common as C
from . import gen

TRUSTED = [
    "Lean 4.33.0 kernel (lake build; thorough: leanchecker on the property modules)",
    "axioms allowed: propext, Quot.sound, Classical.choice (audited by #print axioms this run)",
    "mwfacts translator /verif/go/cmd/mwfacts (fail-closed; the two handler closures are re-translated this run) and the semantics of the handler language Gvlean/Gen/Mw.lean — validated this run by corr-mw against the real middleware through httptest",
    "parameters of the theorems, observed but not modelled: encoding/json's Decoder, the target type's Validate/ValidateContext (C07/C15), net/http (http.Error writes status + message + newline), Go generics instantiation",
]


def regen_mwfacts():
    ok, log = C.build_go_tool("mwfacts")
    if not ok:
        return False, "mwfacts does not build:\n" + log, False
    dst = os.path.join(C.LEAN, "Gvlean", "Generated", "MwFacts.lean")
    old = open(dst).read() if os.path.exists(dst) else ""
    tmp = dst + ".tmp"
    p = C.run([os.path.join(C.BIN, "mwfacts"), C.REPO, tmp])
    if p.returncode != 0:
        if os.path.exists(tmp):
            os.remove(tmp)
        return False, "mwfacts refused the source (fail closed):\n" + p.stderr, False
    new = open(tmp).read()
    if new != old:
        os.replace(tmp, dst)
    else:
        os.remove(tmp)
    return True, "", new != old


def run_harness(tier, seed):
    work = C.scratch("gvmw")
    try:
        p = subprocess.run([os.path.join(C.BIN, "harness"), "mw", tier, str(seed), work, os.path.join(C.BIN, "govalid"), C.REPO],
                           stdout=subprocess.PIPE, stderr=subprocess.PIPE, text=True, env=C.goenv())
        if p.returncode != 0:
            return None, p.stderr[-3000:]
        rows = []
        for l in p.stdout.split("\n"):
            if not l.strip():
                continue
            left, right = l.split("\t|\t")
            f = left.split("\t")
            rows.append({"type": f[0], "variant": f[1], "mode": f[2], "i": int(f[3]), "body": f[4], "ctx": f[5],
                         "oracle": "\t".join(f[6:11]), "impl": right})
        return rows, ""
    finally:
        shutil.rmtree(work, ignore_errors=True)


def unhex(h):
    return bytes.fromhex(h).decode("utf-8", "replace") if h and h != "-" else ""


def run(res):
    theorems = ["Props.c20_plain", "Props.c20_ctx", "Props.c20_called_iff", "Props.c20_plain_called_iff", "Props.c20_ctx_called_iff",
                "Props.c20_reject", "Props.c20_408_iff", "Props.c20_sequence", "Props.c20_sequence_called_iff", "Props.c20_pooled_witness"]
    with C.Lock():
        ok_f, log_f, ch = regen_mwfacts()
    broken, model_ok = gen.prepare(res, "Gvlean.Props.C20", theorems)
    if broken is None:
        return
    if not ok_f:
        broken.insert(0, ("translator", log_f))
        res.cov["discharged"] = 0      # the theorems that still build are about the previous translation
    res.cov["regenerated"]["MwFacts.lean"] = "changed" if ch else "unchanged"
    res.cov["trusted_base"] = TRUSTED
    rows, err = run_harness(res.tier, res.seed)
    if rows is None:
        broken.append(("corr-mw", "the middleware correspondence could not run (generator failed on the fixture, or the driver does not build):\n" + err))
        rows = []
    reqs = ["mw\t%s\t%s" % (r["variant"], r["oracle"]) for r in rows]
    model = C.drive("modeldrv", reqs) if model_ok and rows else [None] * len(rows)
    spec = C.drive("specdrv", reqs) if rows else []
    concrete, ties = [], []
    dist = {}

    def bump(k):
        dist[k] = dist.get(k, 0) + 1
    for r, m, s in zip(rows, model, spec):
        o = r["oracle"].split("\t")
        bump("decode:" + ("ok" if o[0] == "1" else "error"))
        if o[0] == "1":
            bump("validate:" + ("nil" if o[1] == "ok" else ("ctx-error" if o[3] == "1" or o[4] == "1" else "validation-error")))
        bump("ctx:" + ("flip" if r["ctx"].startswith("flip") else r["ctx"]))
        bump("impl:" + " ".join(r["impl"].split("\t")[:2]))
        bump("mode:" + r["mode"])
        if r["impl"] != s:
            concrete.append((r, s))
        if m is not None and m != r["impl"]:
            ties.append((r, m))
    res.cov["evaluations"] = len(rows)
    res.cov["distinct_nontrivial"] = len(set((r["type"], r["variant"], r["body"], r["ctx"]) for r in rows if r["oracle"].startswith("1")))
    res.cov["distribution"] = dist
    res.cov["model_vs_impl_disagreements"] = len(ties)
    res.cov["impl_vs_spec_disagreements"] = len(concrete)
    res.cov["rule"] = ("corr-mw: three generated target types (flat, nested + pointer, struct-level marker) x both variants; per (type, variant) ONE middleware instance serves a "
                       "shuffled history of requests sequentially and then the same requests concurrently; bodies: valid, every single-field deviation, absent fields, random "
                       "combinations (type-correct values weighted), null, wrong JSON types, truncated, empty, whitespace, trailing garbage, two values, BOM, 10001-deep nesting, invalid "
                       "UTF-8, duplicate and case-folded keys; contexts: live, cancelled, expired, cancelled / expired WITH A CAUSE (WithCancelCause, WithDeadlineCause), a child of a cancelled parent, flipping at the k-th Err() call (both kinds); oracle = fresh json.Decoder on the same "
                       "bytes + independent Validate/ValidateContext of the fresh value; status, body and handler-invocation count observed through httptest; distinct = "
                       "(type, variant, body, ctx); non-trivial = body decodes")
    res.cov["samples"] = ["theorem Props.c20_plain", "theorem Props.c20_ctx"] + [
        {"type": r["type"], "variant": r["variant"], "body": unhex(r["body"])[:200], "ctx": r["ctx"], "impl": r["impl"][:80]} for r in rows[:3]]
    res.assumptions += ["`decodes as JSON into the target type` = json.NewDecoder(body).Decode(&fresh) returns nil (trailing bytes after the first JSON value are not read by the decoder)",
                        "the context-aware variant answers 408 iff errors.Is(err, context.Canceled|DeadlineExceeded) for the error the validator returned (a nil body — JSON null — is rejected with 400 before any poll)"]
    known = [k for k in C.load_known().get("findings", []) if k.get("property") == res.pid]
    unlisted = []
    for r, s in concrete:
        kk = [k for k in known if k.get("match", {}).get("body") == r["body"] and k.get("match", {}).get("variant") in (None, r["variant"])]
        if kk:
            if kk[0]["what"] not in res.known:
                res.known.append(kk[0]["what"])
        else:
            unlisted.append((r, s))
    if unlisted:
        r, s = unlisted[0]
        # the history up to the failing request (same instance)
        hist = [{"body": unhex(x["body"]), "ctx": x["ctx"]} for x in rows
                if x["type"] == r["type"] and x["variant"] == r["variant"] and x["mode"] == "seq" and (r["mode"] == "conc" or x["i"] <= r["i"])]
        res.violation("mw", {"kind": "mw", "type": r["type"], "variant": {"p": "ValidateRequest", "c": "ValidateRequestContext"}[r["variant"]], "mode": r["mode"],
                             "request_index": r["i"], "body": unhex(r["body"]), "ctx": r["ctx"], "oracle(decode_ok, validate, msg, isCanceled, isDeadline)": r["oracle"].split("\t"),
                             "observed": r["impl"].split("\t"), "expected": s.split("\t"), "observed_body": unhex(r["impl"].split("\t")[-1]) if "\t" in r["impl"] else "",
                             "count": len(unlisted), "history_on_this_instance": hist[-40:], "broken": [b[0] for b in broken]}, True)
        return
    allb = list(broken)
    if ties:
        r, m = ties[0]
        allb.append(("corr-mw", "the translated handler program and the real middleware disagree on %d request(s); first: %s/%s body %r ctx %s: impl %s model %s" % (
            len(ties), r["type"], r["variant"], unhex(r["body"])[:300], r["ctx"], r["impl"][:200], m[:200])))
    if allb:
        res.violation("unproved", {"kind": "unproved", "broken": [{"what": b[0], "detail": b[1][-4000:]} for b in allb],
                                   "note": "translator / theorem / correspondence no longer checks; the impl-vs-Spec comparison over every request of this run found no failing input"}, False)


def replay(path):
    d = json.load(open(path))
    print(json.dumps(d, indent=1)[:8000])
    return 0
