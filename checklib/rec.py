"""Recognizer properties (C11 email, C12 url, C13 uuid; helper for C06/C03):
theorem about the go2lean translation + corr-rec (model vs impl) + impl-vs-Spec search."""
import os
import subprocess

from . import common as C

TRUSTED = [
    "Lean 4.33.0 kernel (lake build; thorough: leanchecker on the property modules)",
    "axioms allowed: propext, Quot.sound, Classical.choice (audited by #print axioms this run)",
    "go2lean translator /verif/go/cmd/go2lean (fail-closed subset; validated this run by corr-rec: translated defs vs real functions)",
    "Go embedding Gvlean/Go (Bytes=List UInt8, panicking idx/slice, UTF-8 decoder model; Go int as unbounded Int)",
]


def harness_rec(fn, tier, seed):
    p = subprocess.run([os.path.join(C.BIN, "harness"), "rec", fn, tier, str(seed)], stdout=subprocess.PIPE,
                       stderr=subprocess.PIPE, text=True)
    if p.returncode != 0:
        raise RuntimeError("harness rec failed: " + p.stderr[:2000])
    rows = [l.split("\t") for l in p.stdout.split("\n") if l]
    return rows  # [fn, hex, impl]


def corpus_rows(fn):
    """Minimised past failures / hand-picked cases: /verif/corpus/rec-<fn>.txt, one hex per line."""
    p = os.path.join(C.VERIF, "corpus", "rec-%s.txt" % fn)
    rows = []
    if os.path.exists(p):
        for l in open(p):
            l = l.split("#")[0].strip()
            if l:
                q = subprocess.run([os.path.join(C.BIN, "harness"), "rec-one", fn, l], stdout=subprocess.PIPE, text=True)
                rows.append(q.stdout.strip().split("\t"))
    return rows


def run_rec_property(res, fn, props_module, theorems, spec_fns=None, extra_fns=(), lean_files=None, nontrivial=None):
    """Full pipeline for one recognizer property. `fn` is the harness/driver function name."""
    pid, tier, seed = res.pid, res.tier, res.seed
    broken = []   # (what, detail)

    with C.Lock():
        ok, log = C.build_go_tool("harness")
        if not ok:
            # /repo does not compile with the harness: nothing can be observed
            res.violation("build", {"kind": "build", "what": "harness does not build against /repo", "log": log[-4000:]}, False)
            return
        ok, log, changed = C.regen_helpers()
        res.cov["regenerated"] = {"Helpers.lean": "changed" if changed else "unchanged"}
        if not ok:
            broken.append(("translator", log))
        # Spec driver first: it must always build (imports nothing regenerated)
        ok_s, log_s = C.lake_build(["specdrv"])
        if not ok_s:
            raise RuntimeError("specdrv does not build — machinery bug:\n" + log_s[-3000:])
        model_ok = False
        if not broken:
            ok_p, log_p = C.lake_build([props_module])
            if not ok_p:
                broken.append(("theorem", "lake build %s failed:\n%s" % (props_module, "\n".join(C.lean_errors(log_p, 20)) or log_p[-3000:])))
            ok_m, log_m = C.lake_build(["modeldrv"])
            model_ok = ok_m
            if not ok_m and ok_p:
                broken.append(("modeldrv", log_m[-3000:]))
        obligations = len(theorems)
        discharged = 0
        if not broken:
            ok_a, axioms, alog = C.audit_axioms(props_module, theorems)
            discharged = sum(1 for t in theorems if t in axioms and set(axioms[t]) <= C.ALLOWED_AXIOMS)
            res.cov["axioms"] = axioms
            if not ok_a:
                broken.append(("axiom-audit", alog[-3000:]))
            bad = C.grep_forbidden(C.lean_sources())
            if bad:
                broken.append(("forbidden-token", "\n".join(bad)))
            if tier == "thorough":
                ok_c, clog = C.leanchecker([props_module])
                res.cov["leanchecker"] = "ok" if ok_c else "FAILED"
                if not ok_c:
                    broken.append(("leanchecker", clog[-3000:]))
    res.cov["obligations"] = obligations
    res.cov["discharged"] = discharged
    res.cov["checker_cmd"] = "cd /verif/lean && lake build %s && lake env lean <#print axioms %s>" % (props_module, " ".join(theorems))
    res.cov["trusted_base"] = TRUSTED
    res.cov["theorems"] = theorems

    # ------------------------------------------------------------------ correspondence + search
    fns = [fn] + list(extra_fns)
    total = 0
    nontriv = 0
    dist = {}
    samples = []
    disagreements_model = []
    disagreements_spec = []
    for f in fns:
        rows = corpus_rows(f) + harness_rec(f, tier, seed)
        reqs = ["rec\t%s\t%s" % (r[0], r[1]) for r in rows]
        total += len(rows)
        for r in rows:
            dist[f + ":" + r[2]] = dist.get(f + ":" + r[2], 0) + 1
        if nontrivial:
            nontriv += sum(1 for r in rows if nontrivial(f, r))
        else:
            nontriv += len(rows)
        samples += ["%s %s -> impl=%s" % (r[0], r[1], r[2]) for r in rows[:: max(1, len(rows) // 3)][:3]]
        if model_ok:
            ans = C.drive("modeldrv", reqs)
            for r, a in zip(rows, ans):
                if a != r[2]:
                    disagreements_model.append((r, a))
        if spec_fns is None or f in spec_fns:
            ans = C.drive("specdrv", reqs)
            for r, a in zip(rows, ans):
                if a != r[2]:
                    disagreements_spec.append((r, a))
    res.cov["evaluations"] = total
    res.cov["distinct_nontrivial"] = nontriv
    res.cov["distribution"] = dist
    res.cov["samples"] = ["theorem " + t for t in theorems[:2]] + samples
    res.cov["rule"] = ("corr-rec: structured generators of /verif/go/cmd/harness/rec.go (bases x single-position substitutions by all 256 bytes, "
                       "position pairs over a class alphabet, all lengths, valid inputs followed by 256·k / 65536·k more bytes, case renderings, random) + corpus; each input evaluated by the real Go function "
                       "in-process (recover), by the compiled Lean model (modeldrv) and by the Spec decider (specdrv); distinct by input bytes (de-duplicated by the generator); "
                       "non-trivial = passes the recognizer's first gate (length/prefix) or is a corpus case")
    res.cov["model_vs_impl_disagreements"] = len(disagreements_model)
    res.cov["impl_vs_spec_disagreements"] = len(disagreements_spec)

    known = [k for k in C.load_known().get("findings", []) if k.get("property") == pid]
    # concrete violations: implementation differs from the Spec
    unlisted = []
    for r, a in disagreements_spec:
        kk = [k for k in known if k.get("fn") == r[0] and k.get("hex") == r[1]]
        if kk:
            res.known.append(kk[0]["what"])
        else:
            unlisted.append((r, a))
    if unlisted:
        unlisted.sort(key=lambda x: len(x[0][1]))
        r, a = unlisted[0]
        # (a verdict "x/y(same bytes in a reused buffer …)" depends on the input evaluated just before: the replay re-runs the
        #  whole stream instead of the single input)
        res.violation("input", {"kind": "rec-input-seq" if "/" in r[2] else "rec-input", "fn": r[0], "hex": r[1], "impl": r[2], "spec": a,
                                "more": [x[0][1] for x in unlisted[1:6]], "count": len(unlisted),
                                "broken": [b[0] for b in broken]}, True)
        return
    # the same verdicts under CONCURRENT callers (a verdict must not depend on what other goroutines are validating at the
    # same moment: a shared memo can be torn without any data race) — the helpers-race program of the harness, attributed to
    # this property only when its report names this recognizer
    names = {"uuid": "IsValidUUID", "email": "IsValidEmail", "url": "IsValidURL"}
    if fns and fns[0] in names:
        import json as _json
        import shutil as _sh
        import subprocess as _sp
        work = C.scratch("gvhrace")
        try:
            q = _sp.run([os.path.join(C.BIN, "harness"), "helpers-race", tier, work, C.REPO], stdout=_sp.PIPE, stderr=_sp.PIPE, text=True, env=C.goenv())
            hr = _json.loads(q.stdout.strip().split("\n")[-1]) if q.returncode == 0 and q.stdout.strip() else None
        finally:
            _sh.rmtree(work, ignore_errors=True)
        if hr is not None:
            res.cov["distribution"]["concurrent callers: goroutines x iterations x fresh processes"] = hr["goroutines"] * hr["iterations"] * hr.get("processes", 1)
            if not hr["ok"] and names[fns[0]] in hr["output"]:
                res.violation("concurrent", {"kind": "rec-concurrent", "fn": fns[0], "what": "%s gives a wrong verdict (or races) when several goroutines validate different inputs at the same time" % names[fns[0]],
                                             "output": hr["output"][-4000:], "program": hr["program"], "broken": [b[0] for b in broken]}, True)
                return
    if disagreements_model:
        r, a = disagreements_model[0]
        broken.append(("corr-rec", "model and implementation disagree on %s %s: impl=%s model=%s (%d cases)" % (r[0], r[1], r[2], a, len(disagreements_model))))
    if broken:
        # the property is no longer shown to hold; the search above (impl vs Spec on every generated input) found no failing input.
        # widen the search before giving up
        found = None
        for s2 in range(1, 4):
            for f in fns:
                if spec_fns is not None and f not in spec_fns:
                    continue
                rows = harness_rec(f, "thorough", seed * 7919 + s2)
                ans = C.drive("specdrv", ["rec\t%s\t%s" % (r[0], r[1]) for r in rows])
                for r, a in zip(rows, ans):
                    if a != r[2]:
                        found = (r, a)
                        break
                if found:
                    break
            if found:
                break
        if found:
            r, a = found
            res.violation("input", {"kind": "rec-input", "fn": r[0], "hex": r[1], "impl": r[2], "spec": a,
                                    "broken": [b[0] for b in broken]}, True)
        else:
            res.violation("unproved", {"kind": "unproved", "broken": [{"what": b[0], "detail": b[1][-4000:]} for b in broken],
                                       "note": "theorem/translation/correspondence no longer checks; impl-vs-Spec search over the thorough generators found no failing input"}, False)


def replay(path):
    import json
    d = json.load(open(path))
    if d.get("kind") != "rec-input":
        print(json.dumps(d, indent=1))
        return 0
    with C.Lock():
        C.build_go_tool("harness")
        C.lake_build(["specdrv"])
    q = subprocess.run([os.path.join(C.BIN, "harness"), "rec-one", d["fn"], d["hex"]], stdout=subprocess.PIPE, text=True)
    r = q.stdout.strip().split("\t")
    a = C.drive("specdrv", ["rec\t%s\t%s" % (r[0], r[1])])[0]
    print("input(hex)=%s fn=%s impl=%s spec=%s" % (r[1], r[0], r[2], a))
    if a != r[2]:
        print("VIOLATION property=%s replay=%s" % (d["property"], path))
        return 1
    return 0
