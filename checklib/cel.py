"""C10: theorems about the CEL translator model (proved fragment) + corr-cel: the model's text against the
condition emitted by the real generator, and the compiled check against cel-go's evaluation."""
import json
import os
import re
import shutil
import subprocess

from . import common as C
from . import gen
from .celnorm import norm

TRUSTED = [
    "Lean 4.33.0 kernel (lake build; thorough: leanchecker on the property modules)",
    "axioms allowed: propext, Quot.sound, Classical.choice (audited by #print axioms this run)",
    "hand-written translator model Gvlean/Cel/Translate.lean and Go-parser model Gvlean/Cel/Parse.lean — validated this run: the model's text equals the condition the real generator emits for every modelled expression of the run (white space, semicolons and redundant nested parentheses aside)",
    "reference semantics Gvlean/Cel/Core.lean (int64 with overflow = error, error-absorbing && / ||) — the cel-go evaluator itself is the oracle of the differential part",
    "uninterpreted: cel-go parser/checker (the checked AST is an input), Go compiler (constant folding, typing), regexp, strconv, fmt, time",
]

NARROW = {"int8", "int16", "int32", "uint8", "uint16", "uint32"}
INTS = NARROW | {"int64", "uint", "uint64"}


def finding_class(row, binding, obs=None):
    """call-site classes of the known findings (known_findings.json, property C10)"""
    e, t = row["expr"], row["ftype"]
    if obs == "panic" and re.search(r"[/%]", e):
        return "cel-division-by-zero"
    if obs == "panic" and "matches(" in e and not re.search(r"matches\('", e):
        return "cel-matches-field-pattern"
    if "size(" in e and re.search(r"[^\x00-\x7f]", binding):
        return "size-of-string-counts-bytes"
    if t in NARROW and re.search(r"[+\-*]", e):
        return "narrow-integer-arithmetic-wraps"
    if t in INTS and re.search(r" in \[-?\d", e):
        return "in-over-int-literals-on-non-int-field"
    return None


def extra_rule_expected(row, binding):
    """(rule, violated?) for the ordinary marker written next to the cel marker (corpus rows only; int comparisons and required)"""
    m = re.search(r"//govalid:(gt|gte|lt|lte)=(-?\d+)", row.get("extra") or "")
    vm = re.match(r"value=(-?\d+) ", binding)
    if m and vm:
        x, n = int(vm.group(1)), int(m.group(2))
        holds = {"gt": x > n, "gte": x >= n, "lt": x < n, "lte": x <= n}[m.group(1)]
        return m.group(1), not holds
    if "//govalid:required" in (row.get("extra") or "") and row["ftype"] == "string":
        return "required", binding.startswith('value="" ')
    return None


def harness_rows(tier, seed, n=None, race=False):
    work = C.scratch("gvcel")
    try:
        cmd = [os.path.join(C.BIN, "harness"), "cel", tier, str(seed), work, os.path.join(C.BIN, "govalid"), C.REPO]
        if n is not None or race:
            cmd += [str(n if n is not None else (1200 if tier == "thorough" else 150))]
        if race:
            cmd += ["race"]
        p = subprocess.run(cmd, stdout=subprocess.PIPE, stderr=subprocess.PIPE, text=True, env=C.goenv())
        if p.returncode != 0:
            raise RuntimeError("harness cel failed: " + p.stderr[-3000:])
        return [json.loads(l) for l in p.stdout.split("\n") if l.strip()]
    finally:
        shutil.rmtree(work, ignore_errors=True)


def ctx_check(res):
    """C15 on structs with CEL rules (incl. a struct-typed field carrying a no-op `required` next to the cel rule):
    an already cancelled context must yield context.Canceled — every such struct has a validated field."""
    rows = [r for r in harness_rows(res.tier, res.seed, n=(200 if res.tier == "thorough" else 0)) if "id" in r]
    bad, n = [], 0
    for r in rows:
        if not r.get("builds") or not r.get("ctx"):
            continue
        for part in r["ctx"].split(","):
            k, result, calls = part.split(":")
            n += 1
            # the context was observed done iff some Err() call returned non-nil, i.e. more than k calls were made
            # … and an already cancelled context (k = 0) must be reported by every struct that validates a field
            if (int(calls) > int(k) or int(k) == 0) and result != "canceled":
                bad.append((r, int(k), result, int(calls)))
    res.cov["distribution"]["cel-structs:flipping-context-runs"] = n
    res.cov["evaluations"] += n
    if bad:
        r, k, result, calls = bad[0]
        res.violation("ctx-cel", {"kind": "ctx-cel", "what": "ValidateContext under a context that is done from its Err() call #%d on (%d calls were made) returned %s instead of context.Canceled" % (k, calls, result),
                                  "type": r["ftype"], "expression": r["expr"], "extra_markers": r.get("extra", ""), "source": r.get("source", ""), "count": len(bad)}, True)
        return False
    return True


def extra_rule_check(res):
    """C07 on fields that carry a cel rule NEXT TO an ordinary rule (incl. pairs that compile to the same Go condition):
    the report must list the ordinary rule exactly when the value violates it, and errors.Is must agree with the listed types."""
    rows = [r for r in harness_rows(res.tier, res.seed, n=0) if "id" in r and r.get("extra")]
    n, bad = 0, []
    for r in rows:
        for obs, v in zip(r.get("obs") or [], r.get("values") or []):
            exp = extra_rule_expected(r, v)
            if exp is None:
                continue
            n += 1
            types = obs.split(",") if obs not in ("ok", "panic", "mutated", "other", "is-mismatch") else []
            if obs == "is-mismatch" or (exp[0] in types) != exp[1]:
                bad.append((r, v, obs, exp))
    res.cov["distribution"]["cel+rule fields: reports checked"] = n
    res.cov["evaluations"] += n
    if bad:
        r, v, obs, exp = bad[0]
        res.violation("cel-report", {"kind": "cel", "type": r["ftype"], "expression": r["expr"], "binding": v, "extra_markers": r["extra"],
                                     "what": "the report lists %s; //govalid:%s is %s by this value" % (obs, exp[0], "violated" if exp[1] else "satisfied"),
                                     "emitted_condition": r.get("cond", ""), "source": r.get("source", ""), "count": len(bad)}, True)
        return False
    return True


def build_check(res):
    """C08 for the documented cel x type combinations: every corpus expression listed in corpus/cel-must-compile.json
    (they compile today) must still generate, be gofmt-clean and type-check together with its package."""
    must = set(tuple(x) for x in json.load(open(os.path.join(C.VERIF, "corpus", "cel-must-compile.json")))["must_compile"])
    rows = [r for r in harness_rows(res.tier, res.seed, n=0) if "id" in r]
    seen, bad = 0, []
    for r in rows:
        if (r["ftype"], r["expr"], r.get("extra", "")) not in must:
            continue
        seen += 1
        if r["gen_exit"] != 0 or not r.get("file") or not r.get("builds"):
            bad.append(r)
    res.cov["distribution"]["cel-corpus:must-compile-checked"] = seen
    res.cov["evaluations"] += seen
    if bad:
        r = bad[0]
        res.violation("cel-build", {"kind": "cel-build", "what": "a documented cel x type combination no longer generates / compiles", "type": r["ftype"], "expression": r["expr"],
                                    "gen_exit": r["gen_exit"], "gen_err": r.get("gen_err", "")[-1500:], "build_err": r.get("build_err", "")[-1500:], "source": r.get("source", ""), "count": len(bad)}, True)
        return False
    return True


def panic_check(res):
    """C17 on CEL-bearing structs: division / modulo by zero fields, matches() with a field that is not a regular
    expression, indexing, conversions — the compiled Validate() must return normally on every binding."""
    rows = [r for r in harness_rows(res.tier, res.seed) if "id" in r]
    known = {k.get("match", {}).get("class"): k for k in C.load_known().get("findings", []) if k.get("property") == res.pid}
    n, unlisted = 0, []
    for r in rows:
        for obs, v in zip(r.get("obs") or [], r.get("values") or []):
            n += 1
            if obs != "panic":
                continue
            cls = None
            if re.search(r"[/%]", r["expr"]):
                cls = "cel-division-by-zero"
            elif "matches(" in r["expr"] and not re.search(r"matches\('", r["expr"]):
                cls = "cel-matches-field-pattern"
            if cls in known:
                if known[cls]["what"] not in res.known:
                    res.known.append(known[cls]["what"])
            else:
                unlisted.append((r, v))
    res.cov["evaluations"] += n
    res.cov["distribution"]["cel-bindings-under-recover"] = n
    if unlisted:
        r, v = unlisted[0]
        res.violation("cel-panic", {"kind": "cel", "type": r["ftype"], "expression": r["expr"], "binding": v, "what": "the generated Validate() panics",
                                    "emitted_condition": r.get("cond", ""), "source": r.get("source", ""), "count": len(unlisted)}, True)
        return False
    return True


def race_check(res):
    """C16: the compiled CEL checks (incl. matches() with a pattern taken from another field) validated from 8
    goroutines at once under the race detector."""
    rows = harness_rows(res.tier, res.seed, n=(300 if res.tier == "thorough" else 30), race=True)
    mutated = [r for r in rows if "id" in r and "mutated" in (r.get("obs") or [])]
    if mutated:
        r = mutated[0]
        i = r["obs"].index("mutated")
        res.violation("mut", {"kind": "mut", "what": "Validate() changed its receiver (deep rendering before and after differs)", "type": r["ftype"], "expression": r["expr"],
                              "binding": r["values"][i], "emitted_condition": r.get("cond", ""), "source": r.get("source", ""), "count": len(mutated)}, True)
        return False
    rr = [r["race"] for r in rows if "race" in r]
    if not rr:
        raise RuntimeError("cel race run produced no verdict")
    res.cov["distribution"]["cel-structs:raced-packages"] = rr[0]["packages"]
    res.cov["evaluations"] += rr[0]["packages"]
    if not rr[0]["ok"]:
        res.violation("race", {"kind": "race", "what": "the race detector reported a data race (or the run failed) while 8 goroutines validated the same CEL-bearing structs concurrently",
                               "detail": rr[0]["detail"][-6000:]}, True)
        return False
    return True


def run(res):
    theorems = ["Props.c10_structure", "Props.c10_core", "Props.c10_reported_iff", "Props.c10_total",
                "Props.c10_grouping_witness", "Props.c10_grouping_witness_value", "Props.c10_unknown_function_refused", "Props.c10_unknown_method_refused", "Props.c10_fragment_accepted", "Props.c10_index_refused", "Props.c10_div_zero_witness"]
    broken, model_ok = gen.prepare(res, "Gvlean.Props.C10", theorems)
    if broken is None:
        return
    res.cov["trusted_base"] = TRUSTED
    rows = [r for r in harness_rows(res.tier, res.seed) if "id" in r]
    # ---- text tie
    tie_rows = [r for r in rows if r.get("ast")]
    ans = C.drive("modeldrv", ["cel\tF\t" + r["ast"] for r in tie_rows]) if model_ok and tie_rows else []
    ties, modelled, refused = [], 0, 0
    for r, a in zip(tie_rows, ans):
        if a in ("unmodelled", "bad-op"):
            continue
        impl_unsupported = r["gen_exit"] != 0 and "unsupported CEL construct" in (r.get("gen_err") or "")
        if a == "refused":
            # the model covers the expression and has no rendering for one of its calls: the generator must stop with that error
            refused += 1
            if r["gen_exit"] == 0:
                ties.append((r, "<refused: a function or method of the expression has no Go rendering — generation must stop>"))
            continue
        m = bytes.fromhex(a).decode("utf-8", "replace")
        if impl_unsupported:
            ties.append((dict(r, cond="<generation stopped: %s>" % (r.get("gen_err") or "")[-200:]), m))
            continue
        if not (r.get("file") and r.get("cond")):
            continue
        modelled += 1
        if norm(m) != norm(r["cond"]):
            ties.append((r, m))
    # ---- behaviour against the reference
    dist = {}

    def bump(k, n=1):
        dist[k] = dist.get(k, 0) + n
    known = {k.get("match", {}).get("class"): k for k in C.load_known().get("findings", []) if k.get("property") == res.pid}
    concrete, evaluations, nontrivial = [], 0, set()
    for r in rows:
        for f in r["feats"]:
            bump("feature:" + f)
        bump("type:" + r["ftype"])
        if r.get("ref_compile_err"):
            if r["gen_exit"] == 0 and r.get("builds"):
                bump("outcome:reference-rejects-generator-accepts")
                concrete.append((r, None, "the reference rejects the expression (%s) but generation succeeds and the output compiles: %s" % (
                    r["ref_compile_err"][:200], r.get("cond", "")[:200]), None))
            else:
                bump("outcome:rejected-by-both")
            continue
        if r["gen_exit"] != 0:
            bump("outcome:generation-fails-loudly")
            continue
        if not r.get("file"):
            bump("outcome:no-file")
            concrete.append((r, None, "generation succeeded but no validator file was written for a struct with a cel marker", None))
            continue
        if not r.get("builds"):
            bump("outcome:does-not-compile-loudly")
            continue
        bad = False
        for ref, obs, v in zip(r["ref"], r.get("obs") or [], r["values"]):
            if ref.startswith("n="):
                # a cel rule on the struct declaration plus one on the field: the NUMBER of cel entries is compared
                evaluations += 1
                nontrivial.add((r["ftype"], r["expr"], v))
                want_n = int(ref[2:])
                got_n = 0 if obs == "ok" else (obs.split(",").count("cel") if obs not in ("panic", "mutated", "other", "is-mismatch") else -1)
                bump("reference:%d-cel-entries" % want_n)
                if got_n != want_n:
                    bad = True
                    concrete.append((r, v, "the struct carries a cel rule on its declaration and another on the field: reference evaluation demands %d cel entr%s, the report has %s (%s)" % (
                        want_n, "y" if want_n == 1 else "ies", got_n if got_n >= 0 else obs, obs), None))
                continue
            if ref not in ("true", "false"):
                bump("binding:reference-error")
                continue
            evaluations += 1
            bump("reference:" + ref)
            nontrivial.add((r["ftype"], r["expr"], v))
            types = obs.split(",") if obs not in ("ok", "panic", "mutated", "other", "is-mismatch") else []
            got = "ok" if obs == "ok" else ("cel" if "cel" in types else ("ok" if types else obs))
            want = "ok" if ref == "true" else "cel"
            if got != want:
                bad = True
                concrete.append((r, v, "reference CEL = %s but the generated check %s" % (
                    ref, {"ok": "does not report the CEL error", "cel": "reports the CEL error", "panic": "panics"}.get(got, got)), finding_class(r, v, obs)))
            # the other rule written on the same field must be reported exactly when it is violated
            exp = extra_rule_expected(r, v)
            if exp is not None:
                rule, violated = exp
                if (rule in types) != violated:
                    bad = True
                    concrete.append((r, v, "the field also carries //govalid:%s, which is %s by this value, but the report lists %s" % (
                        rule, "violated" if violated else "satisfied", obs), None))
        bump("outcome:" + ("disagrees" if bad else "agrees"))
    res.cov["evaluations"] = evaluations
    res.cov["distinct_nontrivial"] = len(nontrivial)
    res.cov["programs"] = len(rows)
    res.cov["distribution"] = dist
    res.cov["text_tie_expressions"] = modelled
    res.cov["refusal_tie_expressions"] = refused
    res.cov["model_vs_impl_text_disagreements"] = len(ties)
    res.cov["impl_vs_reference_disagreements"] = len(concrete)
    res.cov["rule"] = ("corr-cel: the repository's golden fixture and one representative per construct first, then random expressions from a typed grammar (comparison, &&, ||, !, unary minus, "
                       "+ - * / %, parenthesised nesting to depth 4, size, contains/startsWith/endsWith/matches, in over literal lists and fields, string()/int()/double(), ternary, "
                       "all/exists/exists_one/filter/map, this.X) x field types int, int8..int64, uint, uint8..uint64, float64, string, bool, []string, []int, map[string]int, time.Duration; "
                       "one package per expression generated by the real binary and compiled; Validate() run on the type's value grid x 4 bindings of the other fields; cel-go evaluates the same "
                       "expression with value / this bound to the same data; bindings on which the reference errs are excluded; an expression that fails at generation or compile time counts "
                       "as failing loudly; distinct = (type, expression, binding); text tie = model condition vs emitted condition")
    res.cov["samples"] = ["theorem Props.c10_core", "theorem Props.c10_structure"] + [
        {"type": r["ftype"], "expr": r["expr"], "emitted": r.get("cond", "")[:160]} for r in rows[:3]]
    res.assumptions += ["Go `int` is 64-bit (amd64)", "ints are bound as CEL int, unsigned as uint, float64 as double, time.Duration as duration, slices and maps element-wise; this = map of the struct's fields"]
    unlisted = []
    for r, v, why, cls in concrete:
        if cls and cls in known:
            if known[cls]["what"] not in res.known:
                res.known.append(known[cls]["what"])
        else:
            unlisted.append((r, v, why))
    if unlisted:
        r, v, why = unlisted[0]
        res.violation("cel", {"kind": "cel", "type": r["ftype"], "expression": r["expr"], "binding": v, "what": why, "emitted_condition": r.get("cond", ""),
                              "count": len(unlisted), "source": r.get("source", ""), "broken": [b[0] for b in broken]}, True)
        return
    allb = list(broken)
    if ties:
        r, m = ties[0]
        allb.append(("corr-cel-text", "translator model and real generator print different conditions for %d expression(s); first: %s on %s\n impl : %s\n model: %s" % (
            len(ties), r["expr"], r["ftype"], (r.get("cond") or "")[:800], m[:800])))
    if allb:
        res.violation("unproved", {"kind": "unproved", "broken": [{"what": b[0], "detail": b[1][-4000:]} for b in allb],
                                   "note": "theorem / correspondence no longer checks; the comparison with reference CEL over every expression and binding of this run found no failing input"}, False)


def replay(path):
    d = json.load(open(path))
    print(json.dumps(d, indent=1)[:8000])
    return 0
