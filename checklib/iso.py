"""C14: theorems about the memory / output-file protocol whose facts are re-extracted every run (isofacts)
+ corr-iso: the real generator alone vs together with name-sharing siblings, GOMAXPROCS, reruns, -race."""
import json
import os
import shutil
import subprocess

from . import common as C
from . import gen

TRUSTED = [
    "Lean 4.33.0 kernel (lake build; thorough: leanchecker on the property modules)",
    "axioms allowed: propext, Quot.sound, Classical.choice (audited by #print axioms this run)",
    "isofacts extractor /verif/go/cmd/isofacts (lock / clear / reset / test-and-set / truncation / file-name facts, re-extracted this run; unrecognised uses of the generator memory fail closed) and the state machines of Gvlean/Gen/Iso.lean",
    "Gvlean/Gen/Model.lean `sentinels` (hand model, validated by corr-gen on every generator check)",
    "observed on the real binary, not modelled: Go scheduler / GOMAXPROCS, race detector, go/packages + go/analysis driver, goimports, gofmt, the file system",
]


def regen_isofacts():
    ok, log = C.build_go_tool("isofacts")
    if not ok:
        return False, "isofacts does not build:\n" + log, False
    dst = os.path.join(C.LEAN, "Gvlean", "Generated", "IsoFacts.lean")
    old = open(dst).read() if os.path.exists(dst) else ""
    tmp = dst + ".tmp"
    p = C.run([os.path.join(C.BIN, "isofacts"), C.REPO, tmp])
    if p.returncode != 0:
        if os.path.exists(tmp):
            os.remove(tmp)
        return False, "isofacts refused the source (fail closed):\n" + p.stderr, False
    new = open(tmp).read()
    if new != old:
        os.replace(tmp, dst)
    else:
        os.remove(tmp)
    return True, "", new != old


def build_race():
    out = os.path.join(C.BIN, "govalid-race")
    if os.path.exists(out):
        os.remove(out)
    p = C.run(["go", "build", "-race", "-tags", "verif", "-o", out, "./cmd/govalid"], cwd=C.REPO, env=C.goenv())
    return p.returncode == 0, p.stdout + p.stderr


def run(res):
    theorems = ["Props.c14_isolated", "Props.c14_any_position", "Props.c14_locked", "Props.c14_sentinels", "Props.c14_fs_frame",
                "Props.c14_fs_last", "Props.c14_rerun", "Props.c14_path", "Props.c14_witness_noclear", "Props.c14_witness_notrunc"]
    with C.Lock():
        ok_f, log_f, ch = regen_isofacts()
    broken, model_ok = gen.prepare(res, "Gvlean.Props.C14", theorems)
    if broken is None:
        return
    if not ok_f:
        broken.insert(0, ("extractor", log_f))
        res.cov["discharged"] = 0
    res.cov["regenerated"]["IsoFacts.lean"] = "changed" if ch else "unchanged"
    res.cov["trusted_base"] = TRUSTED
    with C.Lock():
        ok_r, log_r = build_race()
    if not ok_r:
        raise RuntimeError("go build -race failed:\n" + log_r[-2000:])
    work = C.scratch("gviso")
    try:
        p = subprocess.run([os.path.join(C.BIN, "harness"), "iso", res.tier, str(res.seed), work, os.path.join(C.BIN, "govalid"), C.REPO,
                            os.path.join(C.BIN, "govalid-race")], stdout=subprocess.PIPE, stderr=subprocess.PIPE, text=True, env=C.goenv())
        if p.returncode != 0:
            raise RuntimeError("harness iso failed: " + p.stderr[-3000:])
        rows = [json.loads(l) for l in p.stdout.split("\n") if l.strip()]
    finally:
        shutil.rmtree(work, ignore_errors=True)
    summary = {}
    fails = []
    for r in rows:
        if "summary" in r:
            summary = r["summary"]
        else:
            fails.append(r)
    total = sum(summary.values())
    res.cov["evaluations"] = total
    res.cov["distinct_nontrivial"] = sum(v for k, v in summary.items() if k.split(":")[0] in ("together", "rerun", "form", "perm", "split", "shrink", "grouped"))
    res.cov["distribution"] = summary
    res.cov["impl_disagreements"] = len(fails)
    res.cov["rule"] = ("corr-iso: groups of K in {2,5,16} (thorough: up to 8 groups) random packages that all declare structs R0..R2 with fields F1.. (same names, different "
                       "types and markers); every package generated alone, then all together with ./... under GOMAXPROCS 1/2/16 x 3 (thorough 12) repetitions on a fresh tree, "
                       "a 2nd and 3rd run over the generated tree, explicit directories in reverse order, directory and single-file forms, declarations reversed, declarations "
                       "split over two files, generate / drop markers / regenerate histories, the specs of one `type ( … )` group (markers on the group and on each spec) alone vs together in every order and in subsets, snapshot of every non-validator file, and the -race build on the multi-package "
                       "runs; every produced *_validator.go is compared byte for byte with the file produced when its package is processed alone; one evaluation = one file "
                       "comparison, exit status or snapshot check")
    res.cov["samples"] = ["theorem Props.c14_isolated", "theorem Props.c14_fs_last", {"summary": summary}]
    res.assumptions += ["`alone` = the package generated by an invocation of its own in a fresh process",
                        "regenerate-after-change histories keep the fields (only markers are dropped): the analysis driver refuses a package whose stale validator no longer type-checks"]
    known = [k for k in C.load_known().get("findings", []) if k.get("property") == res.pid]
    unlisted = []
    for r in fails:
        kk = [k for k in known if k.get("match", {}).get("kind") == r["kind"] and k.get("match", {}).get("source") == r.get("source")]
        if kk:
            if kk[0]["what"] not in res.known:
                res.known.append(kk[0]["what"])
        else:
            unlisted.append(r)
    if unlisted:
        # prefer a byte mismatch (carries want/got) over an exit-status row
        unlisted.sort(key=lambda r: 0 if r.get("want") or r.get("got") else 1)
        r = unlisted[0]
        payload = {"kind": "iso-" + r["kind"], "count": len(unlisted), "group": r["group"], "pkg": r.get("pkg"), "file": r.get("file"), "configuration": r.get("cfg"),
                   "what": r.get("detail"), "source": r.get("source", "")[:6000], "siblings": r.get("others", "")[:12000],
                   "alone": bytes.fromhex(r.get("want", "")).decode("utf-8", "replace")[:8000], "observed": bytes.fromhex(r.get("got", "")).decode("utf-8", "replace")[:8000],
                   "kinds": sorted(set(x["kind"] for x in unlisted)), "broken": [b[0] for b in broken]}
        res.violation("iso", payload, True)
        return
    if broken:
        res.violation("unproved", {"kind": "unproved", "broken": [{"what": b[0], "detail": b[1][-4000:]} for b in broken],
                                   "note": "extracted protocol facts / theorem no longer check; corr-iso found no configuration in which a generated file differs from the file generated alone"}, False)


def replay(path):
    d = json.load(open(path))
    print(json.dumps(d, indent=1)[:10000])
    return 0
